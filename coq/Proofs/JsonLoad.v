(** * JsonLoad: the JSON dump/load round trip of [dd._copy] through
      [dd.autoref] (C12): [dump_json] / [a_load_json] of [Model/Json.v]. *)
From DD Require Export Pickle Total Json.

(** ** 0. Encoding of references in the file *)
Definition jenc (u : Z) : jref :=
  if decide (u = 1)%Z then JT else if decide (u = -1)%Z then JF else JN u.

Lemma jref_id_jenc u : jref_id (jenc u) = u.
Proof. unfold jenc. by repeat case_decide; subst. Qed.

Definition jline : Type := positive * (nat * jref * jref).

(** the reference [c] is a terminal or its node is defined in [acc] *)
Definition child_ok (acc : list jline) (c : Z) : Prop :=
  absn c = 1%positive ∨ absn c ∈ acc.*1.

(** a node list that is closed and children-first: every line describes a
    stored non-terminal node of [s] with a fresh id, and both children are
    terminals or are defined EARLIER in the list *)
Inductive jwf (s : st) : list jline → Prop :=
  | jwf_nil : jwf s []
  | jwf_snoc acc k t :
      jwf s acc → k ∉ acc.*1 → succ s !! k = Some t → k ≠ 1%positive →
      child_ok acc (t_lo t) → child_ok acc (t_hi t) →
      jwf s (acc ++ [(k, (t_lvl t, jenc (t_lo t), jenc (t_hi t)))]).

Lemma child_ok_app acc ext c : child_ok acc c → child_ok (acc ++ ext) c.
Proof.
  intros [?|?]; [by left|right]. rewrite fmap_app. apply elem_of_app. by left.
Qed.

Lemma signed_abs u : u ≠ 0%Z →
  (if decide (u < 0)%Z then Z.neg (absn u) else Z.pos (absn u)) = u.
Proof. intros. unfold absn. case_decide; lia. Qed.

Lemma jenc_node u : u ≠ 1%Z → u ≠ (-1)%Z → jenc u = JN u.
Proof. intros. unfold jenc. by rewrite !decide_False. Qed.

(** node [k] is needed: it is the node of one of [tops] or a child of a
    line of [l] *)
Definition needed (s : st) (tops : list Z) (l : list jline) (k : positive) : Prop :=
  (∃ c, c ∈ tops ∧ absn c = k) ∨
  (∃ k' t, k' ∈ l.*1 ∧ succ s !! k' = Some t ∧ (absn (t_lo t) = k ∨ absn (t_hi t) = k)).

Lemma needed_mono s tops tops' l l' k :
  (∀ c, c ∈ tops → c ∈ tops') → (∀ x, x ∈ l.*1 → x ∈ l'.*1) →
  needed s tops l k → needed s tops' l' k.
Proof.
  intros H1 H2 [(c&Hc&E)|(k'&t&Hk'&Ht&E)]; [left; exists c; auto|right; exists k', t; auto].
Qed.

(** ** 1. [dump_json] (J0) *)
Section dump.
Context (s : st) (HI : Inv s).

Lemma dump_json_rec_spec fuel : ∀ u acc,
  valid s u → jwf s acc → nvars s - lvl_of s u < fuel →
  ∃ ext, dump_json_rec fuel u acc s = (Ok (jenc u, acc ++ ext), s) ∧
    jwf s (acc ++ ext) ∧ child_ok (acc ++ ext) u ∧
    (∀ k, k ∈ ext.*1 → lvl_of s u ≤ lvl_of s (Z.pos k)) ∧
    (∀ k, k ∈ ext.*1 → needed s [u] ext k).
Proof.
  induction fuel as [|f IH]; intros u acc Hv Hwf Hf; [lia|].
  cbn [dump_json_rec].
  destruct (decide (u = 1%Z)) as [->|Hn1].
  { exists []. rewrite app_nil_r. split; [done|]. split; [done|]. split; [by left|].
    split; intros k Hk; by apply elem_of_nil in Hk. }
  destruct (decide (u = (-1)%Z)) as [->|Hnm1].
  { exists []. rewrite app_nil_r. split; [done|]. split; [done|]. split; [by left|].
    split; intros k Hk; by apply elem_of_nil in Hk. }
  rewrite (signed_abs u) by apply Hv.
  rewrite <- (jenc_node u) by done.
  destruct (node_cases s HI u Hv) as [[E _]|(t&Ht&Hk1&Hlo&Hl&Hln&Hvl&Hvh&Hhp&Hll&Hlh&Hne)].
  { destruct (absn_1 u E (proj1 Hv)); done. }
  case_bool_decide as Hin.
  { exists []. rewrite app_nil_r. split; [done|]. split; [done|]. split; [by right|].
    split; intros k Hk; by apply elem_of_nil in Hk. }
  rewrite (bind_ok _ _ _ _ _ (getsuccZ_ok s u t (proj1 Hv) Ht)).
  unfold is_term. rewrite bool_decide_eq_false_2 by done. cbn [negb assert].
  rewrite (bind_ok _ _ s tt s) by done.
  destruct (IH (t_lo t) acc Hvl Hwf ltac:(lia)) as (e1&E1&Hwf1&Hc1&Hl1&Hn1').
  rewrite (bind_ok _ _ _ _ _ E1). cbv beta iota.
  destruct (IH (t_hi t) (acc ++ e1) Hvh Hwf1 ltac:(lia)) as (e2&E2&Hwf2&Hc2&Hl2&Hn2').
  rewrite (bind_ok _ _ _ _ _ E2). cbv beta iota.
  assert (Hlk : lvl_of s (Z.pos (absn u)) = t_lvl t)
    by (unfold lvl_of; by rewrite absn_pos, Ht).
  exists (e1 ++ e2 ++ [(absn u, (t_lvl t, jenc (t_lo t), jenc (t_hi t)))]).
  rewrite !app_assoc. split; [done|]. split.
  { apply jwf_snoc; try done.
    - rewrite !fmap_app, !elem_of_app. intros [[?|Hk]|Hk]; [done|..].
      + apply Hl1 in Hk. lia.
      + apply Hl2 in Hk. lia.
    - by apply child_ok_app. }
  split.
  { right. rewrite !fmap_app, !elem_of_app. right. cbn. apply elem_of_list_here. }
  rewrite <- !app_assoc. split.
  { intros k. rewrite !fmap_app, !elem_of_app.
    intros [Hk|[Hk|Hk]].
    - apply Hl1 in Hk. lia.
    - apply Hl2 in Hk. lia.
    - cbn in Hk. apply elem_of_list_singleton in Hk as ->. lia. }
  set (me := (absn u, (t_lvl t, jenc (t_lo t), jenc (t_hi t)))).
  assert (Hme : absn u ∈ (e1 ++ e2 ++ [me]).*1).
  { rewrite !fmap_app, !elem_of_app. right; right. cbn. apply elem_of_list_here. }
  assert (Hsub : ∀ c e, (e = e1 ∨ e = e2) → (c = t_lo t ∨ c = t_hi t) →
            ∀ k, needed s [c] e k → needed s [u] (e1 ++ e2 ++ [me]) k).
  { intros c e He Hc k [(c'&Hc'&E)|(k'&t'&Hk'&Ht'&E)].
    - apply elem_of_list_singleton in Hc' as ->. right. exists (absn u), t.
      split; [done|]. split; [done|]. destruct Hc as [-> | ->]; auto.
    - right. exists k', t'. split; [|done]. rewrite !fmap_app, !elem_of_app.
      destruct He as [E0|E0]; subst e; auto. }
  intros k. rewrite !fmap_app, !elem_of_app. intros [Hk|[Hk|Hk]].
  - apply (Hsub (t_lo t) e1); auto.
  - apply (Hsub (t_hi t) e2); auto.
  - cbn in Hk. apply elem_of_list_singleton in Hk as ->. left. exists u.
    split; [apply elem_of_list_here|done].
Qed.

Lemma dump_json_roots : ∀ (l : list Z) acc, Forall (valid s) l → jwf s acc →
  ∃ ext, foldM (fun acc u => r <- dump_json_rec (S (S (nvars s))) u acc ;; ret (snd r))
           acc l s = (Ok (acc ++ ext), s) ∧
    jwf s (acc ++ ext) ∧ (∀ u, u ∈ l → child_ok (acc ++ ext) u) ∧
    (∀ k, k ∈ ext.*1 → needed s l ext k).
Proof.
  induction l as [|u l IH]; intros acc Hl Hwf.
  { exists []. rewrite app_nil_r. split; [done|]. split; [done|].
    split; intros u Hu; by apply elem_of_nil in Hu. }
  apply Forall_cons in Hl as [Hu Hl]. cbn [foldM].
  destruct (dump_json_rec_spec (S (S (nvars s))) u acc Hu Hwf ltac:(lia))
    as (e1&E1&Hwf1&Hc1&_&Hn1).
  rewrite (bind_ok _ _ _ _ _ (bind_ok _ _ _ _ _ E1)). cbn [snd].
  destruct (IH (acc ++ e1) Hl Hwf1) as (e2&E2&Hwf2&Hc2&Hn2).
  exists (e1 ++ e2). rewrite app_assoc. split; [done|]. split; [done|]. split.
  { intros x Hx. apply elem_of_cons in Hx as [->|Hx]; [by apply child_ok_app|by apply Hc2]. }
  intros k. rewrite fmap_app, elem_of_app. intros [Hk|Hk].
  - eapply needed_mono; [| |exact (Hn1 k Hk)].
    + intros c Hc. apply elem_of_list_singleton in Hc as ->. apply elem_of_list_here.
    + intros x Hx. rewrite fmap_app, elem_of_app. by left.
  - eapply needed_mono; [| |exact (Hn2 k Hk)].
    + intros c Hc. by apply elem_of_list_further.
    + intros x Hx. rewrite fmap_app, elem_of_app. by right.
Qed.

Lemma forM_mem (l : list Z) : Forall (valid s) l →
  forM l (fun u => ensure EValue (mem u s)) s = (Ok tt, s).
Proof.
  induction l as [|u l IH]; intros Hl; [done|].
  apply Forall_cons in Hl as [Hu Hl]. cbn [forM].
  rewrite (proj2 (mem_valid s u) Hu). cbn [ensure].
  rewrite (bind_ok _ _ s tt s) by done. by apply IH.
Qed.

(** what [dump_json] writes *)
Definition json_file (roots : rootsC) (vorder : list nat) (jf : jfile) : Prop :=
  jf_roots jf = roots ∧ (jf_levels jf).*1 = vorder ∧ vars_file s (jf_levels jf) ∧
  jwf s (jf_nodes jf) ∧ (∀ u, u ∈ roots_values roots → child_ok (jf_nodes jf) u) ∧
  (∀ k, k ∈ (jf_nodes jf).*1 → needed s (roots_values roots) (jf_nodes jf) k).

Theorem dump_json_spec roots vorder jf sd :
  Forall (valid s) (roots_values roots) →
  dump_json roots vorder s = (Ok jf, sd) →
  sd = s ∧ json_file roots vorder jf.
Proof.
  intros Hr. unfold dump_json. cbn [bind get].
  assert (Hmain : roots_values roots ≠ [] →
    (if negb (bool_decide (NoDup vorder ∧ (list_to_set vorder : gset nat) = dom (vars s)))
     then raise EOracle else
       vl <- mapM (fun v => l <- level_of_var v ;; ret (v, l)) vorder ;;
       forM (roots_values roots) (fun u => ensure EValue (mem u s)) ;;;
       acc <- foldM (fun acc u =>
                r <- dump_json_rec (S (S (nvars s))) u acc ;; ret (snd r))
              [] (roots_values roots) ;;
       ret (JFile vl roots acc)) s = (Ok jf, sd) →
    sd = s ∧ json_file roots vorder jf).
  { intros _. destruct (bool_decide (NoDup vorder ∧ _)) eqn:Eb; cbn [negb]; [|by intros [=]].
    apply bool_decide_eq_true in Eb as [ND Hd].
    destruct (dump_vars_file s vorder ND Hd) as (vl&Ev&Ev1&Hvl).
    rewrite (bind_ok _ _ _ _ _ Ev).
    rewrite (bind_ok _ _ _ _ _ (forM_mem _ Hr)).
    destruct (dump_json_roots (roots_values roots) [] Hr (jwf_nil s)) as (ext&E&Hwf&Hc&Hn).
    rewrite (bind_ok _ _ _ _ _ E). intros [= <- <-]. split; [done|].
    unfold json_file. cbn [jf_roots jf_levels jf_nodes]. by split_and!. }
  destruct roots as [|l|d]; [by intros [=]| |].
  - destruct l as [|u l]; [by intros [=]|]. by apply Hmain.
  - destruct d as [|p d]; [by intros [=]|]. by apply Hmain.
Qed.

(** the dump never fails on a non-empty container of valid roots when the
    oracle [vorder] enumerates the declared variables *)
Theorem dump_json_total roots vorder :
  Forall (valid s) (roots_values roots) → roots_values roots ≠ [] →
  NoDup vorder → (list_to_set vorder : gset nat) = dom (vars s) →
  ∃ jf, dump_json roots vorder s = (Ok jf, s).
Proof.
  intros Hr Hne ND Hd. unfold dump_json. cbn [bind get].
  assert (Hmain :
    ∃ jf, (if negb (bool_decide (NoDup vorder ∧ (list_to_set vorder : gset nat) = dom (vars s)))
     then raise EOracle else
       vl <- mapM (fun v => l <- level_of_var v ;; ret (v, l)) vorder ;;
       forM (roots_values roots) (fun u => ensure EValue (mem u s)) ;;;
       acc <- foldM (fun acc u =>
                r <- dump_json_rec (S (S (nvars s))) u acc ;; ret (snd r))
              [] (roots_values roots) ;;
       ret (JFile vl roots acc)) s = (Ok jf, s)).
  { rewrite bool_decide_eq_true_2 by done. cbn [negb].
    destruct (dump_vars_file s vorder ND Hd) as (vl&Ev&Ev1&Hvl).
    rewrite (bind_ok _ _ _ _ _ Ev).
    rewrite (bind_ok _ _ _ _ _ (forM_mem _ Hr)).
    destruct (dump_json_roots (roots_values roots) [] Hr (jwf_nil s)) as (ext&E&Hwf&Hc&_).
    rewrite (bind_ok _ _ _ _ _ E). by eexists. }
  destruct roots as [|l|d]; [done| |].
  - destruct l as [|u l]; [done|]. apply Hmain.
  - destruct d as [|p d]; [done|]. apply Hmain.
Qed.

End dump.

(** ** 2. Small facts: denotation by names *)
Lemma denv_ext s s' u ρ : extends s s' → Inv s → valid s u → denv s' u ρ = denv s u ρ.
Proof.
  intros He HI Hv. unfold denv. pose proof He as (_&_&E). rewrite <- E. by apply D_extends.
Qed.

Lemma denv_tables s s' u ρ :
  succ s' = succ s → vars s' = vars s → lvl2var s' = lvl2var s →
  denv s' u ρ = denv s u ρ.
Proof. intros E1 E2 E3. unfold denv. rewrite E3. by apply D_same. Qed.

Lemma denv_neg s u ρ : Inv s → valid s u → denv s (- u) ρ = negb (denv s u ρ).
Proof. intros. unfold denv. by apply D_neg. Qed.

Lemma denv_abs s u ρ : Inv s → valid s u →
  denv s u ρ = xorb (bool_decide (u < 0)%Z) (denv s (Z.pos (absn u)) ρ).
Proof. intros. unfold denv. by apply D_abs. Qed.

Lemma denv_flip s x u ρ : Inv s → valid s x →
  denv s (flip x u) ρ = xorb (bool_decide (u < 0)%Z) (denv s x ρ).
Proof. intros. unfold denv. by apply D_flip. Qed.

Lemma denv_all_true s u : Inv s → valid s u →
  denv s u (fun _ => true) = bool_decide (0 < u)%Z.
Proof.
  intros HI Hv. unfold denv. rewrite <- (D_all_true s HI u Hv).
  apply (D_indep_lt s HI); [done|]. intros j Hj.
  apply (inv_lvls _ HI) in Hj as [v ->]. done.
Qed.

(** ** 3. The autoref primitives on explicit states [ASt r H n] *)
Lemma lift_run {A} (m : MS A) r H n x r' :
  m r = (x, r') → lift m (ASt r H n) = (x, ASt r' H n).
Proof. unfold lift. cbn. by intros ->. Qed.

Lemma check_in_ok r H n u : valid r u → check_in u (ASt r H n) = (Ok tt, ASt r H n).
Proof.
  intros Hv. unfold check_in. cbn [bind get mgr]. by rewrite (proj2 (mem_valid r u) Hv).
Qed.

Lemma tmp_new_ok r H n u : Inv r → valid r u →
  tmp_new u (ASt r H n) = (Ok tt, ASt (bump u r) H n).
Proof.
  intros HI Hv. unfold tmp_new. cbn [bind get mgr].
  rewrite (proj2 (mem_valid r u) Hv). cbn [ensure bind ret].
  apply lift_run. by apply incref_ok.
Qed.

Lemma valid_refc r u : Inv r → valid r u → is_Some (refc r !! absn u).
Proof.
  intros HI Hv. apply elem_of_dom. rewrite (inv_ref _ HI). apply elem_of_dom, Hv.
Qed.

Lemma tmp_del_ok r H n u : Inv r → valid r u →
  tmp_del u (ASt r H n) = (Ok tt, ASt (unbump u r) H n).
Proof.
  intros HI Hv. unfold tmp_del. apply lift_run.
  apply decref_run; [apply Hv|by apply valid_refc].
Qed.

(** growth of the receiver: more nodes, same order, same settings *)
Definition grows (r r' : st) : Prop := extends r r' ∧ frame r r'.
Global Instance grows_refl : Reflexive grows.
Proof. intros r. split; reflexivity. Qed.
Global Instance grows_trans : Transitive grows.
Proof. intros a b c [? ?] [? ?]. split; by etrans. Qed.
Lemma grows_bump r u : grows r (bump u r).
Proof. by repeat split. Qed.
Lemma grows_unbump r u : grows r (unbump u r).
Proof. by repeat split. Qed.
Lemma grows_bump_l r u : grows (bump u r) r.
Proof. by repeat split. Qed.
Lemma grows_unbump_l r u : grows (unbump u r) r.
Proof. by repeat split. Qed.
Lemma grows_off r r' : grows r r' → last_len r = None → last_len r' = None.
Proof. intros [_ (E&_)] H. by rewrite E. Qed.
Lemma grows_mx r r' : grows r r' → max_nodes r = None → max_nodes r' = None.
Proof. intros [_ Hf] H. by rewrite (frame_max_nodes _ _ Hf). Qed.
Lemma grows_valid r r' u : grows r r' → valid r u → valid r' u.
Proof. intros [He _]. by apply valid_extends. Qed.
Lemma grows_denv r r' u ρ : grows r r' → Inv r → valid r u → denv r' u ρ = denv r u ρ.
Proof. intros [He _]. by apply denv_ext. Qed.
Lemma grows_vars r r' : grows r r' → vars r' = vars r.
Proof. by intros [(_&E&_) _]. Qed.

(** ** 4. Ledgers *)
Ltac ledger :=
  unfold ledger_inc, ledger_dec; repeat case_decide; try lia.

Definition ledger_add (L : positive → nat) (us : list Z) : positive → nat :=
  fun n => L n + length (filter (fun u => absn u = n) us).

Lemma ledger_add_nil L n : ledger_add L [] n = L n.
Proof. unfold ledger_add. cbn. lia. Qed.
Lemma ledger_add_cons L u us n :
  ledger_add L (u :: us) n = ledger_inc (ledger_add L us) (absn u) n.
Proof.
  unfold ledger_add, ledger_inc. rewrite filter_cons.
  destruct (decide (absn u = n)), (decide (n = absn u)); try congruence; cbn; lia.
Qed.
Lemma ledger_add_perm L us us' n : us ≡ₚ us' → ledger_add L us n = ledger_add L us' n.
Proof. intros E. unfold ledger_add. by rewrite E. Qed.
Lemma ledger_add_app L us vs n :
  ledger_add L (us ++ vs) n = ledger_add (ledger_add L us) vs n.
Proof. unfold ledger_add. rewrite filter_app, app_length. lia. Qed.
Lemma ledger_add_insert L (cache : gmap positive Z) k u n : cache !! k = None →
  ledger_add L (map_to_list (<[k := u]> cache)).*2 n
  = ledger_inc (ledger_add L (map_to_list cache).*2) (absn u) n.
Proof.
  intros Hk. rewrite <- ledger_add_cons. apply ledger_add_perm.
  by rewrite (map_to_list_insert cache k u Hk).
Qed.

(** ** 5. [var] and [ite] on a receiver with reordering disabled *)
Lemma var_run s L n j r s' :
  Inv s → last_len s = None → max_nodes s = None → Counts s L → vars s !! n = Some j →
  var n s = (r, s') →
  ∃ u, r = Ok u ∧ Inv s' ∧ grows s s' ∧ Counts s' L ∧ valid s' u ∧
       ∀ ρ, denv s' u ρ = ρ n.
Proof.
  intros HI Hoff Hmx HC Hj Hrun.
  destruct (tsafe_var n s r s' HI Hoff Hrun) as (HI'&He&Hf&HC').
  unfold var in Hrun.
  apply try_to_reorder_inert in Hrun as (r1&s1&Hrun&Hcase).
  set (s0 := s <| rctx := true |>) in *.
  assert (HI0 : Inv s0) by (by apply Inv_rctx).
  cbn [bind get] in Hrun. change (vars s0) with (vars s) in Hrun. rewrite Hj in Hrun.
  assert (Hjn : j < nvars s0).
  { apply (inv_lvls _ HI). exists n. by apply (inv_vars _ HI). }
  apply find_or_add_spec in Hrun as (HI1&He1&Hf1&Hr); try done.
  2: by apply valid_m1. 2: by apply valid_1.
  2: by rewrite (lvl_term s0 HI0). 2: by rewrite (lvl_term s0 HI0).
  destruct r1 as [u|e]; cycle 1.
  { by destruct (benign_never s0 e Hoff Hmx (proj1 Hr)). }
  destruct Hcase as [[? _]|[-> ->]]; [done|].
  destruct Hr as (Hu&_&HD). exists u.
  split; [done|]. split; [done|]. split; [done|]. split; [by apply HC'|].
  split; [done|]. intros ρ. unfold denv. rewrite D_rctx, HD.
  rewrite (D_1 s0 HI0), (D_m1 s0 HI0).
  destruct He1 as (_&_&El). cbn. rewrite <- El. change (lvl2var s0) with (lvl2var s).
  rewrite (proj1 (inv_vars _ HI n j) Hj). by destruct (ρ n).
Qed.

Lemma ite_run s L g u v r s' :
  Inv s → last_len s = None → max_nodes s = None → Counts s L →
  valid s g → valid s u → valid s v →
  ite g u v s = (r, s') →
  ∃ w, r = Ok w ∧ Inv s' ∧ grows s s' ∧ Counts s' L ∧ valid s' w ∧
       ∀ ρ, denv s' w ρ = if denv s g ρ then denv s u ρ else denv s v ρ.
Proof.
  intros HI Hoff Hmx HC Hg Hu Hv Hrun.
  pose proof (ite_counts s L g u v r s' HI Hoff HC Hrun) as HC'.
  destruct (ite_spec_off s g u v r s' HI Hg Hu Hv Hoff Hmx Hrun) as (w&->&HI'&He&Hf&Hw&HD).
  exists w. split; [done|]. split; [done|]. split; [done|]. split; [done|].
  split; [done|]. intros ρ. unfold denv. destruct He as (_&_&El). rewrite <- El. apply HD.
Qed.

(** ** 6. [_node_from_int] *)
Definition nfi_val (cache : gmap positive Z) (c : Z) : Z :=
  if decide (c = -1)%Z then (-1)%Z else if decide (c = 1)%Z then 1%Z else
  flip (default 0%Z (cache !! absn c)) c.

Lemma node_from_int_ok cache c r H n :
  Inv r → c ≠ 0%Z →
  (absn c = 1%positive ∨ ∃ x, cache !! absn c = Some x ∧ valid r x) →
  node_from_int cache c (ASt r H n) = (Ok (nfi_val cache c), ASt r H n) ∧
  valid r (nfi_val cache c).
Proof.
  intros HI Hc0 Hc. unfold node_from_int, nfi_val.
  destruct (decide (c = (-1)%Z)) as [->|Hm1]; [split; [done|by apply valid_m1]|].
  destruct (decide (c = 1%Z)) as [->|H1]; [split; [done|by apply valid_1]|].
  rewrite decide_False by done.
  destruct Hc as [E|(x&Hx&Hvx)]; [destruct (absn_1 c E Hc0); done|].
  rewrite Hx. cbn [of_opt default]. rewrite (bind_ok _ _ _ x (ASt r H n)) by done.
  rewrite (bind_ok _ _ _ _ _ (check_in_ok r H n x Hvx)).
  split; [done|]. by apply valid_flip.
Qed.

(** ** 7. The memo of the loader, [load_order = false]: every cached file
    node [k] is mapped to a positive reference of the receiver denoting, by
    variable NAMES, what [k] denotes in the source *)
Definition jcache_ok (s r : st) (cache : gmap positive Z) : Prop :=
  ∀ k x, cache !! k = Some x →
    (0 < x)%Z ∧ valid s (Z.pos k) ∧ same_fun s r (Z.pos k) x.

Lemma jcache_ok_grows s r r' cache :
  Inv r → grows r r' → jcache_ok s r cache → jcache_ok s r' cache.
Proof.
  intros HI Hg Hc k x Hx. destruct (Hc k x Hx) as (?&?&Hv&HD).
  split; [done|]. split; [done|]. split; [by apply (grows_valid r r')|].
  intros ρ. by rewrite (grows_denv r r').
Qed.

Lemma nfi_same s r cache c :
  Inv s → Inv r → jcache_ok s r cache → valid s c →
  (absn c = 1%positive ∨ is_Some (cache !! absn c)) →
  same_fun s r c (nfi_val cache c).
Proof.
  intros HIs HIr Hc Hv Hin. unfold nfi_val.
  destruct (decide (c = (-1)%Z)) as [->|Hm1].
  { split; [by apply valid_m1|]. intros ρ. unfold denv. by rewrite (D_m1 r HIr), (D_m1 s HIs). }
  destruct (decide (c = 1%Z)) as [->|H1].
  { split; [by apply valid_1|]. intros ρ. unfold denv. by rewrite (D_1 r HIr), (D_1 s HIs). }
  destruct Hin as [E|[x Hx]]; [destruct (absn_1 c E (proj1 Hv)); done|].
  rewrite Hx. cbn [from_option id]. destruct (Hc _ _ Hx) as (_&_&Hvx&HD).
  split; [by apply valid_flip|]. intros ρ.
  rewrite (denv_flip r x c ρ HIr Hvx), HD. symmetry. by apply denv_abs.
Qed.

Lemma nfi_run s r cache c H n :
  Inv s → Inv r → jcache_ok s r cache → valid s c →
  (absn c = 1%positive ∨ is_Some (cache !! absn c)) →
  node_from_int cache (jref_id (jenc c)) (ASt r H n) = (Ok (nfi_val cache c), ASt r H n).
Proof.
  intros HIs HIr Hc Hv Hin. rewrite jref_id_jenc.
  apply node_from_int_ok; [done|apply Hv|].
  destruct Hin as [?|[x Hx]]; [by left|right]. exists x. split; [done|].
  by destruct (Hc _ _ Hx) as (_&_&?&_).
Qed.

(** the loader's [var_at_level] dict *)
Definition jvat (vl : list (nat * nat)) (l : nat) : option nat :=
  match list_find (fun vl => bool_decide (vl.2 = l)) (reverse vl) with
  | Some (_, (v, _)) => Some v
  | None => None
  end.

Lemma jvat_file s vl v l : Inv s → vars_file s vl → vars s !! v = Some l →
  jvat vl l = Some v.
Proof.
  intros HI [_ Hm] Hv. unfold jvat.
  assert (Hin : (v, l) ∈ reverse vl) by (apply elem_of_reverse; by apply Hm).
  destruct (list_find_elem_of (fun vl0 : nat * nat => bool_decide (vl0.2 = l)) _ _ Hin)
    as [[i [v' l']] Hf]; [by apply bool_decide_pack|].
  rewrite Hf. apply list_find_Some in Hf as (Hi&Hp&_).
  apply bool_decide_unpack in Hp. cbn in Hp. subst l'.
  apply elem_of_list_lookup_2, elem_of_reverse, Hm in Hi.
  f_equal. by apply (vars_inj s v' v l).
Qed.

Ltac step E := rewrite (bind_ok _ _ _ _ _ E).
Ltac stepa E := rewrite bind_assoc, (bind_ok _ _ _ _ _ E).

(** ** 8. One line of the file, [load_order = false] *)
(** a temporary that brackets a successful body *)
Lemma with_tmp_ok {A} u (body : MA A) r H n a r2 :
  Inv r → valid r u →
  body (ASt (bump u r) H n) = (Ok a, ASt r2 H n) → Inv r2 → valid r2 u →
  with_tmp u body (ASt r H n) = (Ok a, ASt (unbump u r2) H n).
Proof.
  intros HI Hv Eb HI2 Hv2. unfold with_tmp. step (tmp_new_ok r H n u HI Hv).
  unfold bind at 1. unfold catch. rewrite Eb.
  by step (tmp_del_ok r2 H n u HI2 Hv2).
Qed.

Section node_false.
Context (s : st) (HIs : Inv s) (vl : list (nat * nat)) (Hvl : vars_file s vl).

Lemma make_node_false cache k t r H n L :
  Inv r → last_len r = None → max_nodes r = None → Counts r L →
  (∀ v l, vars s !! v = Some l → is_Some (vars r !! v)) →
  jcache_ok s r cache → cache !! k = None →
  succ s !! k = Some t → k ≠ 1%positive →
  (absn (t_lo t) = 1%positive ∨ is_Some (cache !! absn (t_lo t))) →
  (absn (t_hi t) = 1%positive ∨ is_Some (cache !! absn (t_hi t))) →
  ∃ u r', make_node (jvat vl) false cache
            (k, (t_lvl t, jenc (t_lo t), jenc (t_hi t))) (ASt r H n)
          = (Ok (<[k := u]> cache), ASt r' H n) ∧
    Inv r' ∧ grows r r' ∧ Counts r' (ledger_inc L (absn u)) ∧
    jcache_ok s r' (<[k := u]> cache).
Proof.
  intros HIr Hoff Hmx HC Hdecl Hc Hk Ht Hk1 Hlo Hhi.
  destruct (inv_node _ HIs _ _ Ht Hk1) as (Hl&Hvlo&Hhp&Hvhi&_).
  destruct (node_has_var s (Z.pos k) t HIs Ht Hk1) as (v&Hlv&Hv).
  destruct (Hdecl v _ Hv) as [j Hj].
  destruct (nfi_same s r cache (t_lo t) HIs HIr Hc Hvlo Hlo) as [Hvl0 HDl].
  destruct (nfi_same s r cache (t_hi t) HIs HIr Hc Hvhi Hhi) as [Hvh0 HDh].
  pose proof (nfi_run s r cache (t_lo t) H n HIs HIr Hc Hvlo Hlo) as Enl.
  set (low := nfi_val cache (t_lo t)) in *.
  set (r1 := bump low r).
  assert (HI1 : Inv r1) by (by apply Inv_bump).
  assert (Hc1 : jcache_ok s r1 cache)
    by (apply (jcache_ok_grows s r); [done|apply grows_bump|done]).
  pose proof (nfi_run s r1 cache (t_hi t) H n HIs HI1 Hc1 Hvhi Hhi) as Enh.
  set (high := nfi_val cache (t_hi t)) in *.
  assert (Hvh1 : valid r1 high) by done.
  set (r2 := bump high r1).
  assert (HI2 : Inv r2) by (by apply Inv_bump).
  assert (HC1 : Counts r1 (ledger_inc L (absn low))) by (by apply Counts_bump).
  assert (HC2 : Counts r2 (ledger_inc (ledger_inc L (absn low)) (absn high)))
    by (by apply Counts_bump).
  set (L2 := ledger_inc (ledger_inc L (absn low)) (absn high)) in *.
  assert (G02 : grows r r2) by (by repeat split).
  (* g = var v *)
  destruct (var v r2) as [rg r3] eqn:Eg.
  destruct (var_run r2 L2 v j rg r3 HI2 Hoff Hmx HC2 Hj Eg) as (g&->&HI3&G23&HC3&Hvg&HDg).
  set (r4 := bump g r3).
  assert (HI4 : Inv r4) by (by apply Inv_bump).
  assert (HC4 : Counts r4 (ledger_inc L2 (absn g))) by (by apply Counts_bump).
  assert (G04 : grows r r4) by (etrans; [exact G02|]; etrans; [exact G23|apply grows_bump]).
  assert (Hvl4 : valid r4 low) by (by apply (grows_valid r r4)).
  assert (Hvh4 : valid r4 high) by (by apply (grows_valid r r4)).
  assert (Hvg4 : valid r4 g) by done.
  (* u = ite g high low *)
  destruct (ite g high low r4) as [ru r5] eqn:Eu.
  assert (Hoff4 : last_len r4 = None) by (by apply (grows_off r r4)).
  assert (Hmx4 : max_nodes r4 = None) by (by apply (grows_mx r r4)).
  destruct (ite_run r4 _ g high low ru r5 HI4 Hoff4 Hmx4 HC4 Hvg4 Hvh4 Hvl4 Eu)
    as (u&->&HI5&G45&HC5&Hvu&HDu).
  assert (Hvg5 : valid r5 g) by (by apply (grows_valid r4 r5)).
  set (r6 := unbump g r5).
  assert (HI6 : Inv r6) by (by apply Inv_unbump).
  assert (HC6 : Counts r6 L2).
  { eapply Counts_ext; [|apply (Counts_unbump r5 _ g Hvg5 HC5)]; [intros m|]; ledger. }
  assert (G06 : grows r r6).
  { etrans; [exact G04|]. etrans; [exact G45|]. by repeat split. }
  assert (Hvu6 : valid r6 u) by done.
  (* the meaning of [u] *)
  assert (HDu6 : ∀ ρ, denv r6 u ρ = denv s (Z.pos k) ρ).
  { intros ρ. rewrite (denv_tables r5 r6) by done. rewrite HDu.
    rewrite (denv_tables r3 r4 g) by done. rewrite HDg.
    rewrite (grows_denv r r4 high ρ G04 HIr Hvh0), (grows_denv r r4 low ρ G04 HIr Hvl0).
    rewrite HDh, HDl.
    assert (Hvk : valid s (Z.pos k)) by (split; [done|by eexists]).
    rewrite (shannon_handle s (Z.pos k) t v HIs Hvk Hk1 Ht Hlv ρ).
    rewrite bool_decide_eq_false_2 by lia. by rewrite xorb_false_l. }
  assert (Hup : (0 < u)%Z).
  { pose proof (denv_all_true r6 u HI6 Hvu6) as E. rewrite HDu6 in E.
    rewrite (denv_all_true s (Z.pos k) HIs) in E by (split; [done|by eexists]).
    rewrite bool_decide_eq_true_2 in E by lia. symmetry in E.
    by apply bool_decide_eq_true in E. }
  set (r7 := bump u r6).
  assert (HI7 : Inv r7) by (by apply Inv_bump).
  assert (HC7 : Counts r7 (ledger_inc L2 (absn u))) by (by apply Counts_bump).
  assert (Hvu7 : valid r7 u) by done.
  set (r8 := bump u r7).
  assert (HI8 : Inv r8) by (by apply Inv_bump).
  assert (HC8 : Counts r8 (ledger_inc (ledger_inc L2 (absn u)) (absn u)))
    by (by apply Counts_bump).
  assert (Hvu8 : valid r8 u) by done.
  set (r9 := unbump u r8).
  assert (HI9 : Inv r9) by (by apply Inv_unbump).
  assert (HC9 : Counts r9 (ledger_inc L2 (absn u))).
  { eapply Counts_ext; [|apply (Counts_unbump r8 _ u Hvu8 HC8)]; [intros m|]; ledger. }
  assert (Hvh9 : valid r9 high) by (by apply (grows_valid r r6)).
  set (r10 := unbump high r9).
  assert (HI10 : Inv r10) by (by apply Inv_unbump).
  assert (HC10 : Counts r10 (ledger_inc (ledger_inc L (absn low)) (absn u))).
  { eapply Counts_ext; [|apply (Counts_unbump r9 _ high Hvh9 HC9)]; [intros m|];
      unfold L2; ledger. }
  assert (Hvl10 : valid r10 low) by (by apply (grows_valid r r6)).
  set (r11 := unbump low r10).
  assert (HI11 : Inv r11) by (by apply Inv_unbump).
  assert (HC11 : Counts r11 (ledger_inc L (absn u))).
  { eapply Counts_ext; [|apply (Counts_unbump r10 _ low Hvl10 HC10)]; [intros m|]; ledger. }
  assert (G011 : grows r r11) by (etrans; [exact G06|]; by repeat split).
  exists u, r11. split.
  { (* the run *)
    unfold make_node. rewrite decide_False by (rewrite Hk; by intros [? ?]).
    step Enl. apply (with_tmp_ok low _ r H n _ r10 HIr Hvl0); [|done|done].
    step Enh. apply (with_tmp_ok high _ r1 H n _ r9 HI1 Hvh1); [|done|done].
    rewrite (jvat_file s vl v (t_lvl t) HIs Hvl Hv). cbn [of_opt].
    rewrite (bind_ok _ _ _ v (ASt r2 H n)) by done.
    rewrite bind_assoc. step (lift_run _ _ H n _ _ Eg).
    erewrite bind_ok; cycle 1.
    { apply (with_tmp_ok g _ r3 H n u r5 HI3 Hvg); [|done|done].
      step (check_in_ok r4 H n g Hvg4). step (check_in_ok r4 H n high Hvh4).
      step (check_in_ok r4 H n low Hvl4). exact (lift_run _ _ H n _ _ Eu). }
    apply (with_tmp_ok u _ r6 H n _ r8 HI6 Hvu6); [|done|done].
    rewrite bool_decide_eq_true_2 by done. cbn [assert].
    rewrite (bind_ok _ _ _ tt (ASt r7 H n)) by done.
    by step (lift_run _ _ H n _ _ (incref_ok r7 u HI7 Hvu7)). }
  split; [done|]. split; [done|]. split; [done|].
  intros k' x. rewrite lookup_insert_Some. intros [[<- <-]|[_ Hx]].
  - split; [done|]. split; [split; [done|by eexists]|]. split; [done|].
    intros ρ. rewrite (denv_tables r6 r11) by done. apply HDu6.
  - by apply (jcache_ok_grows s r r11 cache HIr G011 Hc).
Qed.

End node_false.

(** ** 9. The loop over the lines *)
Lemma foldM_app {S A B} (f : B → A → M S B) l1 l2 : ∀ b s,
  foldM f b (l1 ++ l2) s = bind (foldM f b l1) (fun b' => foldM f b' l2) s.
Proof.
  induction l1 as [|a l1 IH]; intros b s; cbn [foldM app]; [done|].
  rewrite bind_assoc. unfold bind at 1 2.
  destruct (f b a s) as [[x|e] s1]; [apply IH|done].
Qed.

Lemma make_nodes_app vat lo l1 l2 : ∀ cache a cache1 a1,
  make_nodes vat lo cache l1 a = (Ok (cache1, None), a1) →
  make_nodes vat lo cache (l1 ++ l2) a = make_nodes vat lo cache1 l2 a1.
Proof.
  induction l1 as [|x l1 IH]; intros cache a cache1 a1 E; cbn [make_nodes app] in *.
  - by injection E as -> ->.
  - unfold bind, catch in *. destruct (make_node vat lo cache x a) as [[c|e] a'].
    + by apply IH.
    + done.
Qed.

Lemma make_nodes_one vat lo cache x a c a' :
  make_node vat lo cache x a = (Ok c, a') →
  make_nodes vat lo cache [x] a = (Ok (c, None), a').
Proof. intros E. cbn [make_nodes]. unfold bind, catch. by rewrite E. Qed.

Lemma catch_ok {S A} (m : M S A) s a s' : m s = (Ok a, s') → catch m s = (Ok (Ok a), s').
Proof. unfold catch. by intros ->. Qed.

Lemma load_nodes_false s vl r H n L nodes :
  Inv s → vars_file s vl → Inv r → last_len r = None → max_nodes r = None → Counts r L →
  (∀ v l, vars s !! v = Some l → is_Some (vars r !! v)) →
  jwf s nodes →
  ∃ cache r', make_nodes (jvat vl) false ∅ nodes (ASt r H n)
              = (Ok (cache, None), ASt r' H n) ∧
    Inv r' ∧ grows r r' ∧ jcache_ok s r' cache ∧
    (∀ k, is_Some (cache !! k) ↔ k ∈ nodes.*1) ∧
    Counts r' (ledger_add L (map_to_list cache).*2).
Proof.
  intros HIs Hvl HIr Hoff Hmx HC Hdecl Hwf.
  induction Hwf as [|acc k t Hwf IH Hk Ht Hk1 Hlo Hhi].
  { exists ∅, r. split; [done|]. split; [done|]. split; [reflexivity|].
    split; [intros k x Hx; by rewrite lookup_empty in Hx|]. split.
    - intros k. rewrite lookup_empty. split; [by intros [? ?]|]. intros Hx. by apply elem_of_nil in Hx.
    - rewrite map_to_list_empty. eapply Counts_ext; [|exact HC]. intros m. by rewrite ledger_add_nil. }
  destruct IH as (cache&r1&E1&HI1&G1&Hc1&Hdom&HC1).
  assert (Hck : cache !! k = None).
  { apply eq_None_not_Some. intros Hs. by apply Hdom in Hs. }
  assert (Hch : ∀ c, child_ok acc c → absn c = 1%positive ∨ is_Some (cache !! absn c)).
  { intros c [?|Hc]; [by left|right]. by apply Hdom. }
  destruct (make_node_false s HIs vl Hvl cache k t r1 H n _ HI1 (grows_off r r1 G1 Hoff)
              (grows_mx r r1 G1 Hmx) HC1)
    as (u&r2&E2&HI2&G2&HC2&Hc2); try done; try (by apply Hch).
  { intros v l Hv. rewrite (grows_vars r r1 G1). by apply (Hdecl v l). }
  exists (<[k := u]> cache), r2. rewrite (make_nodes_app _ _ _ _ _ _ _ _ E1).
  split; [by apply make_nodes_one|]. split; [done|]. split; [by etrans|]. split; [done|]. split.
  - intros k'. rewrite fmap_app, elem_of_app. cbn. rewrite elem_of_list_singleton.
    rewrite <- Hdom. destruct (decide (k' = k)) as [->|Hne].
    + rewrite lookup_insert. split; [by right|by eexists].
    + rewrite lookup_insert_ne by done. split; [by left|]. by intros [?|?].
  - eapply Counts_ext; [|exact HC2]. intros m. symmetry. by apply ledger_add_insert.
Qed.

(** ** 10. The roots: one new handle per root *)
Fixpoint hins (H : gmap nat Z) (n : nat) (us : list Z) : gmap nat Z :=
  match us with [] => H | u :: us => hins (<[n := u]> H) (S n) us end.

Lemma hins_old us : ∀ H n h, h < n ∨ n + length us ≤ h → hins H n us !! h = H !! h.
Proof.
  induction us as [|u us IH]; intros H n h Hh; [done|]. cbn [hins length] in *.
  rewrite IH by lia. apply lookup_insert_ne. lia.
Qed.
Lemma hins_new us : ∀ H n i u, us !! i = Some u → hins H n us !! (n + i) = Some u.
Proof.
  induction us as [|u0 us IH]; intros H n i u Hi; [done|]. cbn [hins].
  destruct i as [|i]; cbn in Hi.
  - injection Hi as ->. rewrite hins_old by lia. rewrite Nat.add_0_r. apply lookup_insert.
  - replace (n + S i) with (S n + i) by lia. by apply IH.
Qed.

Definition hroots_of (roots : rootsC) (n : nat) : rootsH :=
  match roots with
  | RNone => HList []
  | RList l => HList (seq n (length l))
  | RDict d => HDict (zip d.*1 (seq n (length d)))
  end.

Definition rootsH_values (h : rootsH) : list nat :=
  match h with HList l => l | HDict d => d.*2 end.

Lemma zip_with_snd {A} (l : list A) : ∀ (k : list nat), length k = length l →
  zip_with (fun _ h => h) l k = k.
Proof.
  induction l as [|x l IH]; intros [|h k] Hk; try done. cbn. f_equal. apply IH. by injection Hk.
Qed.

(** the memo only holds references of the receiver *)
Definition cvalid (r : st) (cache : gmap positive Z) : Prop :=
  ∀ k x, cache !! k = Some x → valid r x.
Lemma cvalid_grows r r' cache : grows r r' → cvalid r cache → cvalid r' cache.
Proof. intros G Hc k x Hx. apply (grows_valid r r' x G). by eapply Hc. Qed.

Definition root_ok (cache : gmap positive Z) (c : Z) : Prop :=
  c ≠ 0%Z ∧ (absn c = 1%positive ∨ is_Some (cache !! absn c)).

Section roots.
Context {A B : Type} (p : A → Z) (mk : A → nat → B) (f : A → MA B).
Context (Hf : ∀ x a, f x a = bind (wrap (p x)) (fun h => ret (mk x h)) a).

Lemma wrap_gen : ∀ (l : list A) r H n L,
  Inv r → Counts r L → Forall (fun x => valid r (p x)) l →
  ∃ r' H' n', mapM f l (ASt r H n) = (Ok (zip_with mk l (seq n (length l))), ASt r' H' n') ∧
    H' = hins H n (p <$> l) ∧ n' = n + length l ∧
    Inv r' ∧ grows r r' ∧ Counts r' (ledger_add L (p <$> l)).
Proof.
  induction l as [|x l IH]; intros r H n L HIr HC Hl.
  { exists r, H, n. split; [done|]. split; [done|]. split; [cbn; lia|]. split; [done|].
    split; [reflexivity|]. eapply Counts_ext; [|exact HC].
    intros m. by rewrite ledger_add_nil. }
  apply Forall_cons in Hl as [Hvu Hl]. cbn [mapM].
  set (u := p x) in *.
  assert (Ex : f x (ASt r H n) = (Ok (mk x n), ASt (bump u r) (<[n := u]> H) (S n))).
  { rewrite Hf. by step (wrap_ok (ASt r H n) u HIr Hvu). }
  step Ex.
  destruct (IH (bump u r) (<[n := u]> H) (S n) (ledger_inc L (absn u)))
    as (r'&H'&n'&E&->&->&HI'&G'&HC'); [by apply Inv_bump|by apply Counts_bump|done|].
  step E. eexists r', _, _. split; [reflexivity|]. split; [done|]. split; [cbn; lia|].
  split; [done|]. split; [etrans; [apply grows_bump|done]|].
  eapply Counts_ext; [|exact HC']. intros m. cbn [fmap list_fmap]. fold u.
  rewrite ledger_add_cons. unfold ledger_add. ledger.
Qed.

End roots.

Lemma mapM_pure {S A B} (f : A → M S B) (g : A → B) (l : list A) s :
  (∀ x, x ∈ l → f x s = (Ok (g x), s)) → mapM f l s = (Ok (g <$> l), s).
Proof.
  induction l as [|x l IH]; intros Hl; [done|]. cbn [mapM].
  rewrite (bind_ok _ _ _ _ _ (Hl x (elem_of_list_here _ _))).
  rewrite (bind_ok _ _ _ _ _ (IH (fun y Hy => Hl y (elem_of_list_further _ _ _ Hy)))).
  done.
Qed.

Definition roots_map (f : Z → Z) (roots : rootsC) : rootsC :=
  match roots with
  | RNone => RNone
  | RList l => RList (f <$> l)
  | RDict d => RDict ((fun x : nat * Z => (x.1, f x.2)) <$> d)
  end.

(** the "roots" line, both container shapes: all lookups, then all wraps *)
Lemma load_roots_run cache roots r H n L :
  roots ≠ RNone → Inv r → Counts r L → cvalid r cache →
  (∀ c, c ∈ roots_values roots → root_ok cache c) →
  let us := nfi_val cache <$> roots_values roots in
  ∃ r', root_nodes cache roots (ASt r H n)
          = (Ok (roots_map (nfi_val cache) roots), ASt r H n) ∧
    wrap_roots (roots_map (nfi_val cache) roots) (ASt r H n)
      = (Ok (hroots_of roots n), ASt r' (hins H n us) (n + length us)) ∧
    Inv r' ∧ grows r r' ∧ Counts r' (ledger_add L us).
Proof.
  intros Hnone HI HC Hc Hroot us.
  assert (Hnfi : ∀ c, c ∈ roots_values roots →
            node_from_int cache c (ASt r H n) = (Ok (nfi_val cache c), ASt r H n) ∧
            valid r (nfi_val cache c)).
  { intros c Hin. destruct (Hroot c Hin) as [Hc0 Hc1]. apply node_from_int_ok; [done..|].
    destruct Hc1 as [?|[y Hy]]; [by left|right]. exists y. split; [done|]. by eapply Hc. }
  destruct roots as [|l|d]; [done| |]; cbn [roots_values] in *.
  - assert (Hf : ∀ (u : Z) a, wrap u a
              = bind (wrap (id u)) (fun h => ret ((fun (_ : Z) h => h) u h)) a).
    { intros u a. unfold bind, id. by destruct (wrap u a) as [[h|e] a2]. }
    destruct (wrap_gen id (fun _ h => h) wrap Hf (nfi_val cache <$> l) r H n L HI HC)
      as (r3&H'&n'&E3&->&->&HI3&G3&HC3).
    { apply Forall_fmap, Forall_forall. intros c Hc'. by apply Hnfi. }
    rewrite list_fmap_id in *. rewrite zip_with_snd in E3 by (by rewrite seq_length).
    rewrite fmap_length in E3. exists r3. split.
    { unfold root_nodes. rewrite (bind_ok _ _ _ _ _ (mapM_pure _ (nfi_val cache) l _
        (fun c Hc' => proj1 (Hnfi c Hc')))). done. }
    subst us. rewrite fmap_length. split; [|done]. cbn [wrap_roots roots_map]. step E3.
    by cbn [bind ret hroots_of].
  - assert (Hf : ∀ (x : nat * Z) a,
              (let '(nm, u) := x in h <- wrap u ;; ret (nm, h)) a
              = bind (wrap (snd x)) (fun h => ret ((fun (x : nat * Z) h => (x.1, h)) x h)) a).
    { by intros [nm k] a. }
    destruct (wrap_gen snd (fun (x : nat * Z) h => (x.1, h))
                (fun '(nm, u) => h <- wrap u ;; ret (nm, h)) Hf
                ((fun x : nat * Z => (x.1, nfi_val cache x.2)) <$> d) r H n L HI HC)
      as (r3&H'&n'&E3&->&->&HI3&G3&HC3).
    { apply Forall_fmap, Forall_forall. intros [nm c] Hc'. cbn. apply Hnfi.
      apply elem_of_list_fmap. by exists (nm, c). }
    assert (Eus : snd <$> ((fun x : nat * Z => (x.1, nfi_val cache x.2)) <$> d) = us).
    { subst us. rewrite <- !list_fmap_compose. by apply list_fmap_ext. }
    rewrite Eus in *. rewrite fmap_length in E3. exists r3. split.
    { unfold root_nodes.
      erewrite (bind_ok (mapM _ d)); [reflexivity|].
      apply (mapM_pure _ (fun x : nat * Z => (x.1, nfi_val cache x.2))).
      intros [nm c] Hin. cbn.
      rewrite (bind_ok _ _ _ _ _ (proj1 (Hnfi c ltac:(apply elem_of_list_fmap; by exists (nm, c))))).
      done. }
    assert (Hlen : length us = length d) by (subst us; by rewrite !fmap_length).
    rewrite Hlen. split; [|done]. cbn [wrap_roots roots_map]. step E3.
    cbn [bind hroots_of]. unfold ret. do 3 f_equal.
    rewrite zip_with_fmap_l. by rewrite (zip_with_fmap_l pair fst).
Qed.

(** ** 11. Releasing the references held by the memo *)
Lemma ref_ok r u c : u ≠ 0%Z → refc r !! absn u = Some c → ref u r = (Ok c, r).
Proof. intros Hu Hc. unfold ref, getref. rewrite decide_False by done. by rewrite Hc. Qed.

(** with [load_order] every memo entry must also be a successor or a root *)
Lemma release_gen (lo : bool) :
  ∀ (l : list (positive * Z)) r H n L,
  Inv r → Forall (valid r) l.*2 → Counts r (ledger_add L l.*2) →
  (lo = true → Forall (fun x => 0 < indeg (succ r) (absn x) + L (absn x)) l.*2) →
  ∃ r', forM l (fun '(_, u) =>
          tmp_new u ;;;
          r <- lift (ref u) ;;
          assert (bool_decide (2 <= r)) ;;;
          (if lo then assert (bool_decide (3 <= r)) else ret tt) ;;;
          lift (decref u) ;;;
          tmp_del u) (ASt r H n) = (Ok tt, ASt r' H n) ∧
    Inv r' ∧ grows r r' ∧ succ r' = succ r ∧ Counts r' L.
Proof.
  induction l as [|[k u] l IH]; intros r H n L HIr Hl HC Hlo.
  { exists r. split; [done|]. split; [done|]. split; [reflexivity|]. split; [done|].
    eapply Counts_ext; [|exact HC]. intros m. by rewrite ledger_add_nil. }
  cbn [fmap list_fmap snd] in Hl, HC, Hlo. apply Forall_cons in Hl as [Hu Hl]. cbn [forM].
  set (L0 := ledger_add L l.*2).
  assert (HC0 : Counts r (ledger_inc L0 (absn u))).
  { eapply Counts_ext; [|exact HC]. intros m. by rewrite ledger_add_cons. }
  rewrite bind_assoc. step (tmp_new_ok r H n u HIr Hu).
  set (r1 := bump u r).
  assert (HI1 : Inv r1) by (by apply Inv_bump).
  assert (HC1 : Counts r1 (ledger_inc (ledger_inc L0 (absn u)) (absn u)))
    by (by apply Counts_bump).
  assert (Hu1 : valid r1 u) by done.
  destruct HC1 as [HC1a HC1b].
  assert (Hd : absn u ∈ dom (succ r1)) by (apply elem_of_dom, Hu1).
  pose proof (HC1a _ Hd) as Hrc.
  rewrite bind_assoc. step (lift_run _ _ H n _ _ (ref_ok r1 u _ (proj1 Hu) Hrc)).
  assert (E2 : ledger_inc (ledger_inc L0 (absn u)) (absn u) (absn u) = L0 (absn u) + 2).
  { unfold ledger_inc. rewrite !decide_True by done. lia. }
  rewrite E2.
  rewrite bool_decide_eq_true_2 by lia.
  cbn [assert]. rewrite bind_assoc. rewrite (bind_ok _ _ _ tt (ASt r1 H n)) by done.
  assert (E3 : (if lo then assert (bool_decide (3 <= indeg (succ r1) (absn u) + (L0 (absn u) + 2)))
                else ret tt) (ASt r1 H n) = (Ok tt, ASt r1 H n)).
  { destruct lo; [|done]. specialize (Hlo eq_refl). apply Forall_cons in Hlo as [Hlo _].
    rewrite bool_decide_eq_true_2; [done|]. change (succ r1) with (succ r).
    unfold L0, ledger_add. lia. }
  rewrite bind_assoc. step E3.
  rewrite bind_assoc.
  step (lift_run _ _ H n _ _ (decref_run r1 u (proj1 Hu) (valid_refc r1 u HI1 Hu1))).
  set (r2 := unbump u r1).
  assert (HI2 : Inv r2) by (by apply Inv_unbump).
  assert (HC2 : Counts r2 (ledger_inc L0 (absn u))).
  { eapply Counts_ext; [|apply (Counts_unbump r1 _ u Hu1 (conj HC1a HC1b))]; [intros m|]; ledger. }
  assert (Hu2 : valid r2 u) by done.
  step (tmp_del_ok r2 H n u HI2 Hu2).
  set (r3 := unbump u r2).
  assert (HI3 : Inv r3) by (by apply Inv_unbump).
  assert (HC3 : Counts r3 L0).
  { eapply Counts_ext; [|apply (Counts_unbump r2 _ u Hu2 HC2)]; [intros m|]; ledger. }
  destruct (IH r3 H n L HI3) as (r'&E&HI'&G'&Es'&HC'); [|done| |].
  { eapply Forall_impl; [exact Hl|]. intros x Hx. exact Hx. }
  { intros Hlo'. specialize (Hlo Hlo'). apply Forall_cons in Hlo as [_ Hlo]. exact Hlo. }
  exists r'. split; [done|]. split; [done|]. split; [|split; [by rewrite Es'|done]].
  etrans; [|exact G']. by repeat split.
Qed.

(** ** 12. [declare]: only missing names are added, at the bottom *)
Lemma declare_run vs : ∀ s r s', Inv s → declare vs s = (r, s') →
  r = Ok tt ∧ Inv s' ∧ frame s s' ∧ (∀ L, Counts s L → Counts s' L) ∧
  (∀ u, valid s u → valid s' u ∧ ∀ ρ, denv s' u ρ = denv s u ρ) ∧
  vars s ⊆ vars s' ∧ (∀ v, v ∈ vs → is_Some (vars s' !! v)) ∧
  ((∀ v, v ∈ vs → is_Some (vars s !! v)) → s' = s).
Proof.
  induction vs as [|v vs IH]; intros s r s' HI Hrun.
  { cbn in Hrun. injection Hrun as <- <-. split_and!; try done; try reflexivity.
    intros v Hv. by apply elem_of_nil in Hv. }
  destruct (declare_total s (v :: vs) r s' HI Hrun) as (->&_).
  unfold declare in Hrun. cbn [forM] in Hrun. unfold bind at 1 2 in Hrun.
  destruct (add_var v None s) as [[l|e] s1] eqn:Ea; [|done]. cbn [ret] in Hrun.
  destruct (add_var_total s v None (Ok l) s1 HI Ea ltac:(done)) as (HI1&Hf1&HC1&Hd1&Hr).
  destruct (IH s1 (Ok tt) s' HI1 Hrun) as (_&HI'&Hf'&HC'&Hd'&Hsub'&Hin'&Hsame').
  assert (Hsub1 : vars s ⊆ vars s1).
  { destruct Hr as [[_ ->]|(Hn&_&_&->&_)]; [done|by apply insert_subseteq]. }
  assert (Hv1 : vars s1 !! v = Some l).
  { destruct Hr as [[? ->]|(Hn&_&_&->&_)]; [done|apply lookup_insert]. }
  split; [done|]. split; [done|]. split; [by etrans|]. split; [by intros L HL; apply HC', HC1|].
  split.
  { intros u Hu. destruct (Hd1 u Hu) as (Hu1&_&Hρ1). destruct (Hd' u Hu1) as (Hu2&Hρ2).
    split; [done|]. intros ρ. by rewrite Hρ2. }
  split; [by etrans|]. split.
  - intros x Hx. apply elem_of_cons in Hx as [->|Hx]; [|by apply Hin'].
    exists l. by apply (lookup_weaken _ _ _ _ Hv1 Hsub').
  - intros Hall. assert (s1 = s) as ->.
    { destruct Hr as [[_ ->]|(Hn&_)]; [done|].
      destruct (Hall v (elem_of_list_here _ _)) as [? ?]. congruence. }
    apply Hsame'. intros x Hx. apply Hall. by apply elem_of_list_further.
Qed.


(** ** 13. The whole loader, [load_order = false] (J1) *)
Lemma same_fun_grows s r r' u u' :
  Inv r → grows r r' → same_fun s r u u' → same_fun s r' u u'.
Proof.
  intros HI G [Hv HD]. split; [by apply (grows_valid r r')|].
  intros ρ. by rewrite (grows_denv r r').
Qed.

Lemma jcache_cvalid s r cache : jcache_ok s r cache → cvalid r cache.
Proof. intros Hc k x Hx. by destruct (Hc k x Hx) as (_&_&?&_). Qed.

Lemma cvalid_list r (cache : gmap positive Z) :
  cvalid r cache → Forall (valid r) (map_to_list cache).*2.
Proof.
  intros Hc. apply Forall_forall. intros x Hx.
  apply elem_of_list_fmap in Hx as ([k y]&->&Hin).
  apply elem_of_map_to_list in Hin. by eapply Hc.
Qed.

Theorem json_load_false s roots vorder jf r0 H n L :
  Inv s → json_file s roots vorder jf → roots ≠ RNone →
  Forall (valid s) (roots_values roots) →
  Inv r0 → last_len r0 = None → max_nodes r0 = None → Counts r0 L →
  ∃ r1 r' us,
    declare (jf_levels jf).*1 r0 = (Ok tt, r1) ∧
    a_load_json jf false (ASt r0 H n)
      = (Ok (hroots_of roots n), ASt r' (hins H n us) (n + length us)) ∧
    (* the variables *)
    Inv r1 ∧ frame r0 r1 ∧ vars r0 ⊆ vars r1 ∧
    (∀ v, is_Some (vars s !! v) → is_Some (vars r1 !! v)) ∧
    ((∀ v, is_Some (vars s !! v) → is_Some (vars r0 !! v)) → r1 = r0) ∧
    (∀ u, valid r0 u → valid r1 u ∧ ∀ ρ, denv r1 u ρ = denv r0 u ρ) ∧
    (∀ L', Counts r0 L' → Counts r1 L') ∧
    (* the nodes *)
    Inv r' ∧ grows r1 r' ∧
    Forall2 (same_fun s r') (roots_values roots) us ∧
    Counts r' (ledger_add L us).
Proof.
  intros HIs (Eroots&Evo&Hvl&Hwf&Hrc&_) Hnone Hr HI0 Hoff Hmx HC0.
  destruct (declare (jf_levels jf).*1 r0) as [rd r1] eqn:Ed.
  destruct (declare_run _ r0 rd r1 HI0 Ed) as (->&HI1&Hf1&HC1&Hd1&Hsub1&Hin1&Hsame1).
  assert (Hdecl : ∀ v l, vars s !! v = Some l → is_Some (vars r1 !! v)).
  { intros v l Hv. apply Hin1. apply elem_of_list_fmap. exists (v, l). split; [done|].
    by apply Hvl. }
  assert (Hoff1 : last_len r1 = None) by (destruct Hf1 as (E&_); by rewrite E).
  assert (Hmx1 : max_nodes r1 = None) by (by rewrite (frame_max_nodes _ _ Hf1)).
  destruct (load_nodes_false s (jf_levels jf) r1 H n L (jf_nodes jf) HIs Hvl HI1 Hoff1 Hmx1
              (HC1 _ HC0) Hdecl Hwf) as (cache&r2&E2&HI2&G2&Hc2&Hdom&HC2).
  assert (Hroot : ∀ c, c ∈ roots_values roots →
            valid s c ∧ (absn c = 1%positive ∨ is_Some (cache !! absn c))).
  { intros c Hc. split; [by eapply Forall_forall in Hr|].
    destruct (Hrc c Hc) as [?|?]; [by left|right]. by apply Hdom. }
  set (us := nfi_val cache <$> roots_values roots).
  destruct (load_roots_run cache roots r2 H n _ Hnone HI2 HC2 (jcache_cvalid s r2 cache Hc2))
    as (r3&Ern&E3&HI3&G3&HC3).
  { intros c Hc. destruct (Hroot c Hc) as [[? _] ?]. by split. }
  fold us in E3, HC3.
  assert (Hc3 : jcache_ok s r3 cache) by (by apply (jcache_ok_grows s r2 r3)).
  destruct (release_gen false (map_to_list cache) r3 (hins H n us) (n + length us)
              (ledger_add L us) HI3) as (r'&E4&HI4&G4&_&HC4); [| |done|].
  { by apply cvalid_list, (jcache_cvalid s). }
  { eapply Counts_ext; [|exact HC3]. intros m. unfold ledger_add. lia. }
  exists r1, r', us. split; [done|]. split.
  { unfold a_load_json. cbn [bind ret]. step (lift_run _ _ H n _ _ Ed). cbn [bind ret].
    step E2. rewrite Eroots. step (catch_ok _ _ _ _ Ern). step E3. step E4.
    by cbn [bind ret]. }
  split; [done|]. split; [done|]. split; [done|]. split.
  { intros v [l Hv]. by apply (Hdecl v l). }
  split.
  { intros Hall. apply Hsame1. intros v Hv.
    apply elem_of_list_fmap in Hv as ([v' l]&->&Hv). apply Hall. exists l. by apply Hvl. }
  split; [done|]. split; [done|]. split; [done|].
  split; [etrans; [exact G2|]; by etrans|]. split; [|done].
  apply Forall2_fmap_r, Forall_Forall2_diag, Forall_forall. intros c Hc.
  destruct (Hroot c Hc) as [Hv Hin].
  apply (same_fun_grows s r3 r'); [done..|]. by apply nfi_same.
Qed.

(** ** 14. Dump, then load with [load_order = false] into ANY consistent
    receiver with dynamic reordering disabled (J1) *)
Lemma dump_json_none vorder s r s' : dump_json RNone vorder s = (r, s') → r = Err EValue.
Proof. unfold dump_json. cbn [bind get]. by intros [= <- _]. Qed.

Theorem json_roundtrip_false s roots vorder jf sd b L :
  Inv s → Forall (valid s) (roots_values roots) →
  dump_json roots vorder s = (Ok jf, sd) →
  Inv (mgr b) → last_len (mgr b) = None → max_nodes (mgr b) = None → Counts (mgr b) L →
  sd = s ∧
  ∃ b' r1 us,
    declare (jf_levels jf).*1 (mgr b) = (Ok tt, r1) ∧
    a_load_json jf false b = (Ok (hroots_of roots (next_hid b)), b') ∧
    (* the receiver *)
    Inv (mgr b') ∧ Inv r1 ∧ grows r1 (mgr b') ∧ frame (mgr b) (mgr b') ∧
    vars (mgr b) ⊆ vars (mgr b') ∧
    (∀ v, is_Some (vars s !! v) → is_Some (vars (mgr b') !! v)) ∧
    ((∀ v, is_Some (vars s !! v) → is_Some (vars (mgr b) !! v)) →
       extends (mgr b) (mgr b')) ∧
    (∀ u, valid (mgr b) u →
       valid (mgr b') u ∧ ∀ ρ, denv (mgr b') u ρ = denv (mgr b) u ρ) ∧
    (* the handles *)
    next_hid b' = next_hid b + length (roots_values roots) ∧
    (∀ h, h < next_hid b ∨ next_hid b' ≤ h → handles b' !! h = handles b !! h) ∧
    (∀ i u', us !! i = Some u' → handles b' !! (next_hid b + i) = Some u') ∧
    Forall2 (same_fun s (mgr b')) (roots_values roots) us ∧
    (* the reference counts *)
    Counts (mgr b') (ledger_add L us).
Proof.
  intros HIs Hr Hd HIb Hoff Hmx HC.
  assert (Hnone : roots ≠ RNone).
  { intros ->. by apply dump_json_none in Hd. }
  destruct (dump_json_spec s HIs roots vorder jf sd Hr Hd) as [-> Hjf].
  split; [done|]. destruct b as [r0 H n]. cbn [mgr handles next_hid] in *.
  destruct (json_load_false s roots vorder jf r0 H n L HIs Hjf Hnone Hr HIb Hoff Hmx HC)
    as (r1&r'&us&Ed&El&HI1&Hf1&Hsub&Hdecl&Hsame&Hold&_&HI'&G'&HF&HC').
  assert (Hlen : length us = length (roots_values roots))
    by (symmetry; by eapply Forall2_length).
  exists (ASt r' (hins H n us) (n + length us)), r1, us. cbn [mgr handles next_hid].
  split; [done|]. split; [done|]. split; [done|]. split; [done|]. split; [done|].
  split; [destruct G' as [_ Hf']; by etrans|].
  split; [by rewrite (grows_vars r1 r' G')|].
  split; [intros v Hv; rewrite (grows_vars r1 r' G'); by apply Hdecl|].
  split; [intros Hall; rewrite <- (Hsame Hall); apply G'|].
  split.
  { intros u Hu. destruct (Hold u Hu) as [Hu1 HD1]. split; [by apply (grows_valid r1 r')|].
    intros ρ. by rewrite (grows_denv r1 r' u ρ G' HI1 Hu1). }
  split; [by rewrite Hlen|]. split; [intros h Hh; by apply hins_old|].
  split; [intros i u' Hi; by apply hins_new|]. done.
Qed.

(** ** 15. [jwf] read by positions: line [i] describes a stored node whose
    id is new and whose children are defined strictly before position [i] *)
Lemma jwf_lookup s l : jwf s l → ∀ i k lv lo hi, l !! i = Some (k, (lv, lo, hi)) →
  ∃ t, succ s !! k = Some t ∧ k ≠ 1%positive ∧
    lv = t_lvl t ∧ lo = jenc (t_lo t) ∧ hi = jenc (t_hi t) ∧
    k ∉ (take i l).*1 ∧ child_ok (take i l) (t_lo t) ∧ child_ok (take i l) (t_hi t).
Proof.
  induction 1 as [|acc k0 t Hwf IH Hk Ht Hk1 Hlo Hhi]; intros i k lv lo hi Hi; [done|].
  destruct (decide (i < length acc)) as [Hlt|Hge].
  - rewrite lookup_app_l in Hi by done. rewrite take_app_le by lia. by apply IH.
  - assert (i = length acc) as ->.
    { apply lookup_lt_Some in Hi. rewrite app_length in Hi. cbn in Hi. lia. }
    rewrite list_lookup_middle in Hi by done. injection Hi as <- <- <- <-.
    rewrite take_app. exists t. by split_and!.
Qed.

Lemma jwf_NoDup s l : jwf s l → NoDup l.*1.
Proof.
  induction 1 as [|acc k t Hwf IH Hk _ _ _ _]; [constructor|].
  rewrite fmap_app. apply NoDup_app. split; [done|]. split; [|apply NoDup_singleton].
  intros x Hx Hx'. cbn in Hx'. apply elem_of_list_singleton in Hx' as ->. done.
Qed.

(** ** 16. [load_order = true] (J2): the node that [find_or_add] returns *)
Lemma incref_succ u s r s' : incref u s = (r, s') → succ s' = succ s.
Proof.
  unfold incref, bind. destruct (decide (u = 0%Z)); [by intros [= _ <-]|].
  unfold getref. destruct (refc s !! absn u); by intros [= _ <-].
Qed.

Lemma find_or_add_node s i v w u s' :
  Inv s → valid s v → valid s w → v ≠ w →
  find_or_add i v w s = (Ok u, s') →
  ∃ t, succ s' !! absn u = Some t ∧ t_lvl t = i ∧
       absn (t_lo t) = absn v ∧ absn (t_hi t) = absn w.
Proof.
  intros HI Hv Hw Hne. unfold find_or_add. unfold bind at 1.
  destruct (request_reordering s) as [[[]|e] s1] eqn:Hrr; [|by intros [=]].
  apply request_reordering_spec in Hrr as (Hsame&_&_).
  assert (HI1 : Inv s1) by (by eapply Inv_same).
  pose proof Hsame as (E1&_).
  assert (Hv1 : valid s1 v) by (unfold valid; by rewrite E1).
  assert (Hw1 : valid s1 w) by (unfold valid; by rewrite E1).
  cbn [bind get].
  destruct (decide (nvars s1 <= i)); [by intros [=]|].
  rewrite (proj2 (mem_valid s1 v) Hv1), (proj2 (mem_valid s1 w) Hw1). cbn [negb].
  set (σ := if decide (w < 0)%Z then (-1)%Z else 1%Z).
  assert (Hσ : (σ = 1 ∨ σ = -1)%Z) by (subst σ; case_decide; auto).
  assert (Habs : ∀ x, absn (σ * x) = absn x).
  { intros x. unfold absn. destruct Hσ as [-> | ->]; f_equal; lia. }
  destruct (decide (σ * v = σ * w)%Z) as [E|_]; [exfalso; apply Hne; destruct Hσ as [-> | ->]; lia|].
  destruct (pred s1 !! Triple i (σ * v) (σ * w)) as [m|] eqn:Hp.
  { intros [= <- <-]. apply (inv_pred _ HI1) in Hp. rewrite Habs, absn_pos.
    eexists. split; [exact Hp|]. cbn. by rewrite !Habs. }
  unfold assert.
  case_bool_decide; cbn [bind ret raise]; [|by intros [=]].
  case_bool_decide as Hfree; cbn [bind ret raise modify]; [|by intros [=]].
  destruct (fits _ _); cbn [ensure bind ret raise modify]; [|by intros [=]].
  unfold bind at 1.
  match goal with |- context [incref (σ * v)%Z ?st] =>
    set (s2 := st); destruct (incref (σ * v)%Z s2) as [[[]|e] s3] eqn:E3; [|by intros [=]] end.
  unfold bind at 1.
  destruct (incref (σ * w)%Z s3) as [[[]|e] s4] eqn:E4; [|by intros [=]].
  unfold ret. intros [= <- <-].
  apply incref_succ in E3, E4. rewrite Habs, absn_pos, E4, E3.
  subst s2. cbn. rewrite lookup_insert. eexists. split; [done|]. cbn. by rewrite !Habs.
Qed.

(** ** 17. The memo with [load_order = true]: the receiver has the order of
    the file ([recv s r]), every cached node is the copy of the file's node
    at the same level ([um_ok], as for the pickle loader), and every child
    of a processed line has an in-edge in the receiver ([jpar]) *)
Definition has_parent (r : st) (n : positive) : Prop :=
  ∃ k t, succ r !! k = Some t ∧ 0 < edges_to t n.

Lemma has_parent_grows r r' n : grows r r' → has_parent r n → has_parent r' n.
Proof.
  intros [(Hsub&_) _] (k&t&Hk&He). exists k, t. split; [|done].
  by eapply lookup_weaken.
Qed.
Lemma has_parent_indeg r n : has_parent r n → 0 < indeg (succ r) n.
Proof. intros (k&t&Hk&He). pose proof (indeg_ge _ _ _ n Hk). lia. Qed.

Definition jpar (s r : st) (cache : gmap positive Z) : Prop :=
  ∀ k t c, is_Some (cache !! k) → succ s !! k = Some t →
    (c = t_lo t ∨ c = t_hi t) → absn c ≠ 1%positive →
    ∃ x, cache !! absn c = Some x ∧ has_parent r (absn x).

Lemma um_cvalid s r cache : um_ok s r cache → cvalid r cache.
Proof. intros Hc k x Hx. by destruct (Hc k x Hx) as (_&?&_). Qed.

Lemma absn_flip x c : absn (flip x c) = absn x.
Proof. unfold flip. case_decide; [apply absn_neg|done]. Qed.

Lemma nfi_um s r cache c :
  Inv s → recv s r → um_ok s r cache → valid s c →
  (absn c = 1%positive ∨ is_Some (cache !! absn c)) →
  valid r (nfi_val cache c) ∧ lvl_of s c ≤ lvl_of r (nfi_val cache c) ∧
  ∀ a, D r (nfi_val cache c) a = D s c a.
Proof.
  intros HIs Hrecv Hc Hv Hin. pose proof Hrecv as (HIr&_). unfold nfi_val.
  pose proof (recv_nvars s r Hrecv) as Hn.
  destruct (decide (c = (-1)%Z)) as [->|Hm1].
  { split; [by apply valid_m1|]. split.
    - rewrite (lvl_term s HIs), (lvl_term r HIr) by done. lia.
    - intros a. by rewrite (D_m1 r HIr), (D_m1 s HIs). }
  destruct (decide (c = 1%Z)) as [->|H1].
  { split; [by apply valid_1|]. split.
    - rewrite (lvl_term s HIs), (lvl_term r HIr) by done. lia.
    - intros a. by rewrite (D_1 r HIr), (D_1 s HIs). }
  destruct Hin as [E|[x Hx]]; [destruct (absn_1 c E (proj1 Hv)); done|].
  rewrite Hx. cbn [from_option id]. destruct (Hc _ _ Hx) as (_&Hvx&_&Hlx&HD).
  split; [by apply valid_flip|]. split.
  - rewrite lvl_flip. exact Hlx.
  - intros a. rewrite (D_flip r HIr x c a Hvx), HD. symmetry. by apply D_abs.
Qed.

Section node_true.
Context (s : st) (HIs : Inv s) (vl : list (nat * nat)) (Hvl : vars_file s vl).

Lemma make_node_true cache k t r H n L :
  recv s r → Counts r L → um_ok s r cache → jpar s r cache → cache !! k = None →
  succ s !! k = Some t → k ≠ 1%positive →
  (absn (t_lo t) = 1%positive ∨ is_Some (cache !! absn (t_lo t))) →
  (absn (t_hi t) = 1%positive ∨ is_Some (cache !! absn (t_hi t))) →
  ∃ u r', make_node (jvat vl) true cache
            (k, (t_lvl t, jenc (t_lo t), jenc (t_hi t))) (ASt r H n)
          = (Ok (<[k := u]> cache), ASt r' H n) ∧
    recv s r' ∧ grows r r' ∧ Counts r' (ledger_inc L (absn u)) ∧
    um_ok s r' (<[k := u]> cache) ∧ jpar s r' (<[k := u]> cache).
Proof.
  intros Hrecv HC Hc Hpar Hk Ht Hk1 Hlo Hhi.
  pose proof Hrecv as (HIr&Evars&El2v&Hoff&Hmx).
  pose proof (recv_nvars s r Hrecv) as Hnv.
  destruct (inv_node _ HIs _ _ Ht Hk1) as (Hl&Hvlo&Hhp&Hvhi&Hll&Hlh&Hne).
  destruct (node_has_var s (Z.pos k) t HIs Ht Hk1) as (v&Hlv&Hv).
  destruct (nfi_um s r cache (t_lo t) HIs Hrecv Hc Hvlo Hlo) as (Hvl0&Hll0&HDl).
  destruct (nfi_um s r cache (t_hi t) HIs Hrecv Hc Hvhi Hhi) as (Hvh0&Hlh0&HDh).
  pose proof (um_cvalid s r cache Hc) as Hcv.
  assert (Hin : ∀ c, absn c = 1%positive ∨ is_Some (cache !! absn c) →
            absn c = 1%positive ∨ ∃ x, cache !! absn c = Some x ∧ valid r x).
  { intros c [?|[x Hx]]; [by left|right]. exists x. split; [done|]. by eapply Hcv. }
  set (low := nfi_val cache (t_lo t)) in *.
  set (r1 := bump low r).
  assert (HI1 : Inv r1) by (by apply Inv_bump).
  set (high := nfi_val cache (t_hi t)) in *.
  assert (Hvh1 : valid r1 high) by done.
  set (r2 := bump high r1).
  assert (HI2 : Inv r2) by (by apply Inv_bump).
  assert (HC1 : Counts r1 (ledger_inc L (absn low))) by (by apply Counts_bump).
  assert (HC2 : Counts r2 (ledger_inc (ledger_inc L (absn low)) (absn high)))
    by (by apply Counts_bump).
  set (L2 := ledger_inc (ledger_inc L (absn low)) (absn high)) in *.
  assert (G02 : grows r r2) by (by repeat split).
  assert (Hv2 : vars r2 !! v = Some (t_lvl t)) by (change (vars r2) with (vars r); by rewrite Evars).
  (* u = find_or_add level low high *)
  assert (Hvl2 : valid r2 low) by done.
  assert (Hvh2 : valid r2 high) by done.
  assert (Hll2 : t_lvl t < lvl_of r2 low) by (change (lvl_of r2 low) with (lvl_of r low); lia).
  assert (Hlh2 : t_lvl t < lvl_of r2 high) by (change (lvl_of r2 high) with (lvl_of r high); lia).
  destruct (find_or_add (t_lvl t) low high r2) as [ru r3] eqn:Eu.
  pose proof (find_or_add_counts r2 L2 _ _ _ _ _ HI2 HC2 Eu) as HC3.
  destruct (find_or_add_spec r2 _ low high ru r3 HI2 Hvl2 Hvh2 Hll2 Hlh2 Eu) as (HI3&He3&Hf3&Hu).
  destruct ru as [u|e]; [|by destruct (benign_never r2 e Hoff Hmx (proj1 Hu))].
  destruct Hu as (Hvu&Hlu&HDu).
  assert (G23 : grows r2 r3) by done.
  set (r4 := bump u r3).
  assert (HI4 : Inv r4) by (by apply Inv_bump).
  assert (HC4 : Counts r4 (ledger_inc L2 (absn u))) by (by apply Counts_bump).
  (* the meaning of [u] *)
  assert (Hvk : valid s (Z.pos k)) by (split; [done|by eexists]).
  assert (HDu3 : ∀ a, D r3 u a = D s (Z.pos k) a).
  { intros a. rewrite HDu.
    rewrite (D_same r r2 high), (D_same r r2 low) by done. rewrite HDh, HDl.
    rewrite (D_step s HIs (Z.pos k) a t Hvk Ht Hk1).
    rewrite bool_decide_eq_false_2 by lia. by rewrite xorb_false_l. }
  assert (Hup : (0 < u)%Z).
  { pose proof (D_all_true r3 HI3 u Hvu) as E. rewrite HDu3 in E.
    rewrite (D_all_true s HIs (Z.pos k) Hvk) in E.
    rewrite bool_decide_eq_true_2 in E by lia. symmetry in E.
    by apply bool_decide_eq_true in E. }
  (* the stored node of [u] *)
  assert (Hlh' : low ≠ high).
  { intros E. apply Hne. apply (canonical_levels s HIs); [done..|].
    intros a. by rewrite <- HDl, <- HDh, E. }
  destruct (find_or_add_node r2 _ low high u r3 HI2 Hvl2 Hvh2 Hlh' Eu) as (t'&Ht'&Hl'&Hlo'&Hhi').
  assert (Hu1 : absn u ≠ 1%positive).
  { intros E. rewrite E, (inv_term _ HI3) in Ht'. injection Ht' as <-. cbn in Hl'.
    rewrite (extends_nvars _ _ He3) in Hl'. change (nvars r2) with (nvars r) in Hl'. lia. }
  destruct (inv_node _ HI3 _ _ Ht' Hu1) as (_&[Hlo0 _]&_&[Hhi0 _]&_).
  assert (Hvu4 : valid r4 u) by done.
  set (r5 := bump u r4).
  assert (HI5 : Inv r5) by (by apply Inv_bump).
  assert (HC5 : Counts r5 (ledger_inc (ledger_inc L2 (absn u)) (absn u)))
    by (by apply Counts_bump).
  assert (Hvu5 : valid r5 u) by done.
  set (r6 := unbump u r5).
  assert (HI6 : Inv r6) by (by apply Inv_unbump).
  assert (HC6 : Counts r6 (ledger_inc L2 (absn u))).
  { eapply Counts_ext; [|apply (Counts_unbump r5 _ u Hvu5 HC5)]; [intros m|]; ledger. }
  assert (G06 : grows r r6).
  { etrans; [exact G02|]. etrans; [exact G23|]. by repeat split. }
  assert (Hvh6 : valid r6 high) by (by apply (grows_valid r r6)).
  set (r7 := unbump high r6).
  assert (HI7 : Inv r7) by (by apply Inv_unbump).
  assert (HC7 : Counts r7 (ledger_inc (ledger_inc L (absn low)) (absn u))).
  { eapply Counts_ext; [|apply (Counts_unbump r6 _ high Hvh6 HC6)]; [intros m|];
      unfold L2; ledger. }
  assert (Hvl7 : valid r7 low) by (by apply (grows_valid r r6)).
  set (r8 := unbump low r7).
  assert (HI8 : Inv r8) by (by apply Inv_unbump).
  assert (HC8 : Counts r8 (ledger_inc L (absn u))).
  { eapply Counts_ext; [|apply (Counts_unbump r7 _ low Hvl7 HC7)]; [intros m|]; ledger. }
  assert (G08 : grows r r8) by (etrans; [exact G06|]; by repeat split).
  assert (G38 : grows r3 r8) by (by repeat split).
  exists u, r8. split.
  { (* the run *)
    unfold make_node. rewrite decide_False by (rewrite Hk; by intros [? ?]).
    rewrite !jref_id_jenc.
    step (proj1 (node_from_int_ok cache (t_lo t) r H n HIr (proj1 Hvlo) (Hin _ Hlo))).
    apply (with_tmp_ok low _ r H n _ r7 HIr Hvl0); [|done|done].
    step (proj1 (node_from_int_ok cache (t_hi t) r1 H n HI1 (proj1 Hvhi) (Hin _ Hhi))).
    apply (with_tmp_ok high _ r1 H n _ r6 HI1 Hvh1); [|done|done].
    rewrite (jvat_file s vl v (t_lvl t) HIs Hvl Hv). cbn [of_opt].
    rewrite (bind_ok _ _ _ v (ASt r2 H n)) by done.
    stepa (lift_run _ _ H n _ _ (level_of_var_ok r2 v _ Hv2)).
    step (lift_run _ _ H n _ _ Eu).
    apply (with_tmp_ok u _ r3 H n _ r5 HI3 Hvu); [|done|done].
    rewrite bool_decide_eq_true_2 by done. cbn [assert].
    rewrite (bind_ok _ _ _ tt (ASt r4 H n)) by done.
    by step (lift_run _ _ H n _ _ (incref_ok r4 u HI4 Hvu4)). }
  split.
  { destruct G08 as [(_&Ev&El) (Ef&_&_&_&Em)]. split; [done|]. split_and!; congruence. }
  split; [done|]. split; [done|]. split.
  - intros k' x. rewrite lookup_insert_Some. intros [[<- <-]|[_ Hx]].
    + split; [done|]. split; [done|]. split; [done|]. split.
      * change (lvl_of r8 u) with (lvl_of r3 u).
        assert (lvl_of s (Z.pos k) = t_lvl t) as -> by (unfold lvl_of; by rewrite absn_pos, Ht).
        done.
      * intros a. rewrite (D_same r3 r8) by done. apply HDu3.
    + apply (um_ok_extends s r r8 cache HIr (proj1 G08) Hc _ _ Hx).
  - intros k' t0 c Hk' Ht0 Hc0 Hc1.
    destruct (decide (k' = k)) as [->|Hkk].
    + assert (t0 = t) as -> by congruence.
      assert (Hcin : absn c = 1%positive ∨ is_Some (cache !! absn c))
        by (destruct Hc0 as [-> | ->]; done).
      destruct Hcin as [?|[x Hx]]; [done|].
      assert (Hck : absn c ≠ k) by (intros E; rewrite E in Hx; congruence).
      exists x. rewrite lookup_insert_ne by done. split; [done|].
      apply (has_parent_grows r3 r8 _ G38). exists (absn u), t'. split; [done|].
      assert (Hnf : nfi_val cache c = flip x c).
      { unfold nfi_val. rewrite !decide_False.
        - by rewrite Hx.
        - intros ->. done.
        - intros ->. done. }
      destruct Hc0 as [-> | ->].
      * replace (absn x) with (absn (t_lo t')); [by apply edges_to_lo|].
        rewrite Hlo'. unfold low. by rewrite Hnf, absn_flip.
      * replace (absn x) with (absn (t_hi t')); [by apply edges_to_hi|].
        rewrite Hhi'. unfold high. by rewrite Hnf, absn_flip.
    + rewrite lookup_insert_ne in Hk' by done.
      destruct (Hpar k' t0 c Hk' Ht0 Hc0 Hc1) as (x&Hx&Hp).
      assert (Hck : absn c ≠ k) by (intros E; rewrite E in Hx; congruence).
      exists x. rewrite lookup_insert_ne by done. split; [done|].
      by apply (has_parent_grows r r8).
Qed.

End node_true.

Lemma load_nodes_true s vl r H n L nodes :
  Inv s → vars_file s vl → recv s r → Counts r L → jwf s nodes →
  ∃ cache r', make_nodes (jvat vl) true ∅ nodes (ASt r H n)
              = (Ok (cache, None), ASt r' H n) ∧
    recv s r' ∧ grows r r' ∧ um_ok s r' cache ∧ jpar s r' cache ∧
    (∀ k, is_Some (cache !! k) ↔ k ∈ nodes.*1) ∧
    Counts r' (ledger_add L (map_to_list cache).*2).
Proof.
  intros HIs Hvl Hrecv HC Hwf.
  induction Hwf as [|acc k t Hwf IH Hk Ht Hk1 Hlo Hhi].
  { exists ∅, r. split; [done|]. split; [done|]. split; [reflexivity|].
    split; [intros k x Hx; by rewrite lookup_empty in Hx|]. split.
    { intros k t c [x Hx]. by rewrite lookup_empty in Hx. }
    split.
    - intros k. rewrite lookup_empty. split; [by intros [? ?]|]. intros Hx. by apply elem_of_nil in Hx.
    - rewrite map_to_list_empty. eapply Counts_ext; [|exact HC]. intros m. by rewrite ledger_add_nil. }
  destruct IH as (cache&r1&E1&Hrecv1&G1&Hc1&Hp1&Hdom&HC1).
  assert (Hck : cache !! k = None).
  { apply eq_None_not_Some. intros Hs. by apply Hdom in Hs. }
  assert (Hch : ∀ c, child_ok acc c → absn c = 1%positive ∨ is_Some (cache !! absn c)).
  { intros c [?|Hc]; [by left|right]. by apply Hdom. }
  destruct (make_node_true s HIs vl Hvl cache k t r1 H n _ Hrecv1 HC1 Hc1 Hp1 Hck Ht Hk1)
    as (u&r2&E2&Hrecv2&G2&HC2&Hc2&Hp2); try (by apply Hch).
  exists (<[k := u]> cache), r2. rewrite (make_nodes_app _ _ _ _ _ _ _ _ E1).
  split; [by apply make_nodes_one|]. split; [done|]. split; [by etrans|]. split; [done|].
  split; [done|]. split.
  - intros k'. rewrite fmap_app, elem_of_app. cbn. rewrite elem_of_list_singleton.
    rewrite <- Hdom. destruct (decide (k' = k)) as [->|Hne].
    + rewrite lookup_insert. split; [by right|by eexists].
    + rewrite lookup_insert_ne by done. split; [by left|]. by intros [?|?].
  - eapply Counts_ext; [|exact HC2]. intros m. symmetry. by apply ledger_add_insert.
Qed.

(** ** 18. The whole loader, [load_order = true] (J2), under an explicit
    premise on the [reorder] call *)
Lemma lvl2var_of_vars s r : Inv s → Inv r → vars r = vars s → lvl2var r = lvl2var s.
Proof.
  intros HIs HIr E. apply map_eq. intros l. apply option_eq. intros v.
  by rewrite <- (inv_vars _ HIr), <- (inv_vars _ HIs), E.
Qed.

Lemma configure_false r : configure (Some false) r
  = (Ok (bool_decide (is_Some (last_len r))), r <| last_len := None |>).
Proof. done. Qed.
Lemma configure_true r : configure (Some true) r
  = (Ok (bool_decide (is_Some (last_len r))),
     r <| last_len := Some (Nat.max REORDER_STARTS (len r)) |>).
Proof. done. Qed.

Lemma um_same_fun s r cache c :
  Inv s → recv s r → um_ok s r cache → valid s c →
  (absn c = 1%positive ∨ is_Some (cache !! absn c)) →
  same_fun s r c (nfi_val cache c).
Proof.
  intros HIs Hrecv Hc Hv Hin. destruct (nfi_um s r cache c HIs Hrecv Hc Hv Hin) as (Hvx&_&HD).
  split; [done|]. intros ρ. unfold denv. destruct Hrecv as (_&_&->&_). apply HD.
Qed.

Theorem json_load_true s roots vorder jf r0 H n r1 r2 L2 :
  Inv s → json_file s roots vorder jf → roots ≠ RNone →
  Forall (valid s) (roots_values roots) →
  (* the "level_of_var" line with reordering switched off ... *)
  declare (jf_levels jf).*1 (r0 <| last_len := None |>) = (Ok tt, r1) →
  (* ... PREMISE: [reorder(order)] succeeds and installs the file's order *)
  reorder (Some (list_to_map (reverse (jf_levels jf)))) r1 = (Ok tt, r2) →
  Inv r2 → vars r2 = vars s → last_len r2 = None → max_nodes r2 = None → Counts r2 L2 →
  ∃ r3 us,
    let r' := r3 <| last_len := Some (Nat.max REORDER_STARTS (len r3)) |> in
    a_load_json jf true (ASt r0 H n)
      = (Ok (hroots_of roots n), ASt r' (hins H n us) (n + length us)) ∧
    Inv r' ∧ grows r2 r3 ∧ extends r2 r' ∧
    Forall2 (same_fun s r') (roots_values roots) us ∧
    Counts r' (ledger_add L2 us).
Proof.
  intros HIs (Eroots&Evo&Hvl&Hwf&Hrc&Hneed) Hnone Hr Ed Ere HI2 Ev2 Hoff2 Hmx2 HC2.
  assert (Hrecv2 : recv s r2).
  { split; [done|]. split; [done|]. split; [by apply lvl2var_of_vars|done]. }
  destruct (load_nodes_true s (jf_levels jf) r2 H n L2 (jf_nodes jf) HIs Hvl Hrecv2 HC2 Hwf)
    as (cache&r3&E3&Hrecv3&G3&Hc3&Hp3&Hdom&HC3).
  pose proof Hrecv3 as (HI3&_).
  assert (Hroot : ∀ c, c ∈ roots_values roots →
            valid s c ∧ (absn c = 1%positive ∨ is_Some (cache !! absn c))).
  { intros c Hc. split; [by eapply Forall_forall in Hr|].
    destruct (Hrc c Hc) as [?|?]; [by left|right]. by apply Hdom. }
  set (us := nfi_val cache <$> roots_values roots).
  destruct (load_roots_run cache roots r3 H n _ Hnone HI3 HC3 (um_cvalid s r3 cache Hc3))
    as (r4&Ern&E4&HI4&G4&HC4).
  { intros c Hc. destruct (Hroot c Hc) as [[? _] ?]. by split. }
  fold us in E4, HC4.
  assert (Hrecv4 : recv s r4) by (destruct G4; by apply (recv_step s r3 r4)).
  assert (Hc4 : um_ok s r4 cache) by (apply (um_ok_extends s r3 r4); [done|apply G4|done]).
  destruct (release_gen true (map_to_list cache) r4 (hins H n us) (n + length us)
              (ledger_add L2 us) HI4) as (r5&E5&HI5&G5&Es5&HC5).
  { by apply cvalid_list, (um_cvalid s). }
  { eapply Counts_ext; [|exact HC4]. intros m. unfold ledger_add. lia. }
  { intros _. apply Forall_forall. intros x Hx.
    apply elem_of_list_fmap in Hx as ([k y]&->&Hin). cbn [snd].
    apply elem_of_map_to_list in Hin.
    assert (Hk : k ∈ (jf_nodes jf).*1) by (apply Hdom; by eexists).
    assert (Hk1 : k ≠ 1%positive).
    { intros ->.
      apply elem_of_list_fmap in Hk as ([k0 [[lv lo] hi]]&E0&Hl). cbn in E0. subst k0.
      apply elem_of_list_lookup in Hl as [i Hi].
      by destruct (jwf_lookup s _ Hwf i _ _ _ _ Hi) as (?&_&?&_). }
    destruct (Hneed k Hk) as [(c&Hc&E)|(k'&t&Hk'&Ht&E)].
    - (* the node of a root: one returned handle *)
      assert (Hcv : valid s c) by (by eapply Forall_forall in Hr).
      assert (Hnf : absn (nfi_val cache c) = absn y).
      { unfold nfi_val. rewrite !decide_False.
        - by rewrite E, Hin, absn_flip.
        - intros ->. cbn in E. by subst k.
        - intros ->. cbn in E. by subst k. }
      assert (0 < ledger_add L2 us (absn y)); [|lia].
      unfold ledger_add, us.
      assert (Hin' : nfi_val cache c ∈ filter (fun u => absn u = absn y)
                       (nfi_val cache <$> roots_values roots)).
      { apply elem_of_list_filter. split; [done|]. apply elem_of_list_fmap. by exists c. }
      destruct (filter _ _); [by apply elem_of_nil in Hin'|cbn; lia].
    - (* a child of a line: an in-edge *)
      assert (Hk'' : is_Some (cache !! k')) by (by apply Hdom).
      assert (∃ c, (c = t_lo t ∨ c = t_hi t) ∧ absn c = k) as (c&Hc&Ec)
        by (destruct E as [E|E]; eauto).
      destruct (Hp3 k' t c Hk'' Ht Hc ltac:(by rewrite Ec)) as (x&Hx&Hpx).
      rewrite Ec, Hin in Hx. injection Hx as <-.
      pose proof (has_parent_indeg r4 (absn y) (has_parent_grows r3 r4 _ G4 Hpx)). lia. }
  exists r5, us. cbn zeta.
  set (r' := r5 <| last_len := Some (Nat.max REORDER_STARTS (len r5)) |>).
  assert (HI' : Inv r') by (apply (Inv_same r5); [by repeat split|done]).
  assert (Hrecv5 : recv s r5) by (destruct G5; by apply (recv_step s r4 r5)).
  assert (G25 : grows r2 r5) by (etrans; [exact G3|]; by etrans).
  split.
  { unfold a_load_json.
    rewrite bind_assoc, (bind_ok _ _ _ _ _ (lift_run _ _ H n _ _ (configure_false r0))).
    cbn [bind ret]. step (lift_run _ _ H n _ _ Ed). step (lift_run _ _ H n _ _ Ere).
    step E3. rewrite Eroots. step (catch_ok _ _ _ _ Ern). step E4. step E5.
    rewrite bind_assoc, (bind_ok _ _ _ _ _ (lift_run _ _ _ _ _ _ (configure_true r5))).
    by cbn [bind ret]. }
  split; [done|]. split; [done|]. split; [apply G25|]. split.
  - apply Forall2_fmap_r, Forall_Forall2_diag, Forall_forall. intros c Hc.
    destruct (Hroot c Hc) as [Hv Hin].
    destruct (um_same_fun s r5 cache c HIs Hrecv5) as [Hvx HD]; try done.
    { apply (um_ok_extends s r4 r5); [done|apply G5|done]. }
    split; [done|]. intros ρ. rewrite <- HD. by apply denv_tables.
  - by apply (Counts_same r5).
Qed.

(** ** 19. [reorder(order)] when the receiver already has that order: no swap *)
Lemma foldM_const {S A B} (f : B → A → M S B) (b : B) (l : list A) s :
  (∀ x, x ∈ l → f b x s = (Ok b, s)) → foldM f b l s = (Ok b, s).
Proof.
  induction l as [|x l IH]; intros Hl; [done|]. cbn [foldM].
  rewrite (bind_ok _ _ _ _ _ (Hl x (elem_of_list_here _ _))).
  apply IH. intros y Hy. apply Hl. by apply elem_of_list_further.
Qed.

Lemma levels_fold_ok (l : list (positive * triple)) :
  ∀ (acc : gmap nat (gset positive)) (s : st),
  (∀ u t, (u, t) ∈ l → is_Some (acc !! t_lvl t)) →
  ∃ acc', foldM (fun (acc : gmap nat (gset positive)) '(u, t) =>
            match acc !! t_lvl t with
            | None => raise EKey
            | Some X => ret (<[t_lvl t := X ∪ {[u]}]> acc)
            end) acc l s = (Ok acc', s).
Proof.
  induction l as [|[u t] l IH]; intros acc s Hl; [by eexists|]. cbn [foldM].
  destruct (Hl u t (elem_of_list_here _ _)) as [X HX]. rewrite HX.
  rewrite (bind_ok _ _ s (<[t_lvl t := X ∪ {[u]}]> acc) s) by done.
  apply IH. intros u' t' Hin. destruct (Hl u' t' (elem_of_list_further _ _ _ Hin)) as [Y HY].
  destruct (decide (t_lvl t = t_lvl t')) as [E|Hne].
  - rewrite E, lookup_insert. by eexists.
  - rewrite lookup_insert_ne by done. by eexists.
Qed.

Lemma levels_run r : Inv r → ∃ al, levels_ r = (Ok al, r).
Proof.
  intros HI. unfold levels_. cbn [bind get]. unfold levels_t in *.
  set (l0 := <[nvars r := ∅]> _).
  destruct (levels_fold_ok (map_to_list (succ r)) l0 r) as (acc'&E).
  { intros u t Hin. apply elem_of_map_to_list in Hin. subst l0.
    destruct (decide (t_lvl t = nvars r)) as [->|Hne]; [rewrite lookup_insert; by eexists|].
    rewrite lookup_insert_ne by done.
    assert (Hlt : t_lvl t < nvars r).
    { destruct (decide (u = 1%positive)) as [->|Hu1].
      - rewrite (inv_term _ HI) in Hin. injection Hin as <-. done.
      - by destruct (inv_node _ HI _ _ Hin Hu1) as (?&_). }
    apply (inv_lvls _ HI) in Hlt as [v Hv]. apply (inv_vars _ HI) in Hv.
    revert v Hv. generalize (t_lvl t). clear.
    apply (map_fold_ind (fun (acc : gmap nat (gset positive)) (m : gmap nat nat) =>
             ∀ i v, m !! v = Some i → is_Some (acc !! i))).
    - intros i v Hv. by rewrite lookup_empty in Hv.
    - intros v0 i0 m acc Hm IH i v Hv. apply lookup_insert_Some in Hv as [[-> ->]|[_ Hv]].
      + rewrite lookup_insert. by eexists.
      + destruct (decide (i0 = i)) as [->|?]; [rewrite lookup_insert; by eexists|].
        rewrite lookup_insert_ne by done. by eapply IH. }
  rewrite (bind_ok _ _ _ _ _ E). by eexists.
Qed.

Lemma order_of_file s vl : Inv s → vars_file s vl →
  (list_to_map (reverse vl) : gmap nat nat) = vars s.
Proof.
  intros HI [ND Hm]. apply map_eq. intros v. apply option_eq. intros l.
  rewrite <- Hm, <- elem_of_list_to_map.
  - by rewrite elem_of_reverse.
  - by rewrite fmap_reverse, reverse_Permutation.
Qed.

Lemma vat_ok r l v : lvl2var r !! l = Some v → var_at_level l r = (Ok v, r).
Proof. intros E. unfold var_at_level. cbn [bind get]. by rewrite E. Qed.

Lemma reorder_same_order s vl r :
  Inv s → vars_file s vl → Inv r → vars r = vars s → Forall (valid r) (roots r) →
  reorder (Some (list_to_map (reverse vl))) r = (Ok tt, r).
Proof.
  intros HIs Hvl HIr Ev Hroots. rewrite (order_of_file s vl HIs Hvl), <- Ev.
  unfold reorder, sort_to_order. cbn [bind get].
  rewrite bool_decide_eq_true_2 by done. cbn [ensure].
  rewrite (bind_ok _ _ r tt r) by done.
  destruct (levels_run r HIr) as (al&Eal). rewrite (bind_ok _ _ _ _ _ Eal).
  fold (nvars r).
  erewrite (bind_ok (foldM _ al (seq 0 (nvars r)))); [reflexivity|].
  apply foldM_const. intros _ _. apply foldM_const. intros i Hi.
  apply elem_of_seq in Hi. cbn [bind get].
  assert (Hf : forallb (fun u => mem u r) (roots r) = true).
  { apply forallb_forall. intros u Hu. apply mem_valid.
    eapply Forall_forall in Hroots; [exact Hroots|]. by apply elem_of_list_In. }
  rewrite Hf. cbn [ensure]. rewrite (bind_ok _ _ r tt r) by done.
  assert (H1 : i < nvars r) by lia. assert (H2 : i + 1 < nvars r) by lia.
  apply (inv_lvls _ HIr) in H1 as [x Hx], H2 as [y Hy].
  step (vat_ok r i x Hx). step (vat_ok r (i + 1) y Hy).
  apply (inv_vars _ HIr) in Hx, Hy. rewrite Hx, Hy. cbn [of_opt].
  rewrite (bind_ok _ _ r i r) by done. rewrite (bind_ok _ _ r (i + 1) r) by done.
  rewrite decide_False by lia. done.
Qed.

(** ** 20. [load_order = true], unconditionally, when the receiver already
    has exactly the variables and the order of the file (its setting of
    dynamic reordering does not matter: the loader switches it off) *)
Theorem json_load_true_same_order s roots vorder jf r0 H n L :
  Inv s → json_file s roots vorder jf → roots ≠ RNone →
  Forall (valid s) (roots_values roots) →
  Inv r0 → max_nodes r0 = None → vars r0 = vars s → Forall (valid r0) (Base.roots r0) →
  Counts r0 L →
  ∃ r3 us,
    let r' := r3 <| last_len := Some (Nat.max REORDER_STARTS (len r3)) |> in
    a_load_json jf true (ASt r0 H n)
      = (Ok (hroots_of roots n), ASt r' (hins H n us) (n + length us)) ∧
    Inv r' ∧ extends r0 r' ∧ rctx r' = rctx r0 ∧
    Forall2 (same_fun s r') (roots_values roots) us ∧
    Counts r' (ledger_add L us).
Proof.
  intros HIs Hjf Hnone Hr HI0 Hmx Ev Hroots HC.
  set (r1 := r0 <| last_len := None |>).
  assert (HI1 : Inv r1) by (apply (Inv_same r0); [by repeat split|done]).
  assert (HC1 : Counts r1 L) by (by apply (Counts_same r0)).
  pose proof Hjf as (_&_&Hvl&_).
  destruct (declare (jf_levels jf).*1 r1) as [rd r1'] eqn:Ed.
  destruct (declare_run _ r1 rd r1' HI1 Ed) as (->&_&_&_&_&_&_&Hsame).
  assert (r1' = r1) as ->.
  { apply Hsame. intros v Hv. apply elem_of_list_fmap in Hv as ([v' l]&->&Hv).
    change (vars r1) with (vars r0). rewrite Ev. exists l. by apply Hvl. }
  pose proof (reorder_same_order s (jf_levels jf) r1 HIs Hvl HI1 Ev Hroots) as Ere.
  destruct (json_load_true s roots vorder jf r0 H n r1 r1 L HIs Hjf Hnone Hr Ed Ere HI1 Ev
              eq_refl Hmx HC1) as (r3&us&E&HI'&G&He&HF&HC').
  exists r3, us. split; [exact E|]. split; [done|]. split; [exact He|].
  split; [|done]. destruct G as [_ (_&Hrc&_)]. exact Hrc.
Qed.

(** ** 21. Dump, then load with [load_order = true] *)
Theorem json_roundtrip_true s roots vorder jf sd b r1 r2 L2 :
  Inv s → Forall (valid s) (roots_values roots) →
  dump_json roots vorder s = (Ok jf, sd) →
  declare (jf_levels jf).*1 (mgr b <| last_len := None |>) = (Ok tt, r1) →
  (* PREMISE on the [reorder] call *)
  reorder (Some (list_to_map (reverse (jf_levels jf)))) r1 = (Ok tt, r2) →
  Inv r2 → vars r2 = vars s → last_len r2 = None → max_nodes r2 = None → Counts r2 L2 →
  sd = s ∧
  ∃ b' us,
    a_load_json jf true b = (Ok (hroots_of roots (next_hid b)), b') ∧
    Inv (mgr b') ∧ extends r2 (mgr b') ∧ is_Some (last_len (mgr b')) ∧
    next_hid b' = next_hid b + length (roots_values roots) ∧
    (∀ h, h < next_hid b ∨ next_hid b' ≤ h → handles b' !! h = handles b !! h) ∧
    (∀ i u', us !! i = Some u' → handles b' !! (next_hid b + i) = Some u') ∧
    Forall2 (same_fun s (mgr b')) (roots_values roots) us ∧
    Counts (mgr b') (ledger_add L2 us).
Proof.
  intros HIs Hr Hd Ed Ere HI2 Ev2 Hoff2 Hmx2 HC2.
  assert (Hnone : roots ≠ RNone).
  { intros ->. by apply dump_json_none in Hd. }
  destruct (dump_json_spec s HIs roots vorder jf sd Hr Hd) as [-> Hjf].
  split; [done|]. destruct b as [r0 H n]. cbn [mgr handles next_hid] in *.
  destruct (json_load_true s roots vorder jf r0 H n r1 r2 L2 HIs Hjf Hnone Hr Ed Ere HI2 Ev2
              Hoff2 Hmx2 HC2) as (r3&us&E&HI'&G&He&HF&HC').
  cbn zeta in *.
  assert (Hlen : length us = length (roots_values roots))
    by (symmetry; by eapply Forall2_length).
  eexists _, us. split; [exact E|]. cbn [mgr handles next_hid].
  split; [done|]. split; [done|]. split; [by eexists|].
  split; [by rewrite Hlen|]. split; [intros h Hh; by apply hins_old|].
  split; [intros i u' Hi; by apply hins_new|]. done.
Qed.

Theorem json_roundtrip_true_same_order s roots vorder jf sd b L :
  Inv s → Forall (valid s) (roots_values roots) →
  dump_json roots vorder s = (Ok jf, sd) →
  Inv (mgr b) → max_nodes (mgr b) = None → vars (mgr b) = vars s →
  Forall (valid (mgr b)) (Base.roots (mgr b)) →
  Counts (mgr b) L →
  sd = s ∧
  ∃ b' us,
    a_load_json jf true b = (Ok (hroots_of roots (next_hid b)), b') ∧
    Inv (mgr b') ∧ extends (mgr b) (mgr b') ∧ is_Some (last_len (mgr b')) ∧
    next_hid b' = next_hid b + length (roots_values roots) ∧
    (∀ h, h < next_hid b ∨ next_hid b' ≤ h → handles b' !! h = handles b !! h) ∧
    (∀ i u', us !! i = Some u' → handles b' !! (next_hid b + i) = Some u') ∧
    Forall2 (same_fun s (mgr b')) (roots_values roots) us ∧
    Counts (mgr b') (ledger_add L us).
Proof.
  intros HIs Hr Hd HIb Hmx Ev Hroots HC.
  assert (Hnone : roots ≠ RNone).
  { intros ->. by apply dump_json_none in Hd. }
  destruct (dump_json_spec s HIs roots vorder jf sd Hr Hd) as [-> Hjf].
  split; [done|]. destruct b as [r0 H n]. cbn [mgr handles next_hid] in *.
  destruct (json_load_true_same_order s roots vorder jf r0 H n L HIs Hjf Hnone Hr HIb Hmx Ev
              Hroots HC) as (r3&us&E&HI'&He&_&HF&HC').
  cbn zeta in *.
  assert (Hlen : length us = length (roots_values roots))
    by (symmetry; by eapply Forall2_length).
  eexists _, us. split; [exact E|]. cbn [mgr handles next_hid].
  split; [done|]. split; [done|]. split; [by eexists|].
  split; [by rewrite Hlen|]. split; [intros h Hh; by apply hins_old|].
  split; [intros i u' Hi; by apply hins_new|]. done.
Qed.

(** ** 22. ANY file, [load_order = false]: no reference is leaked.
    Two specifications of a step of the loader on a receiver [r] (handles
    and the handle counter untouched):
    - [neutral]: whatever the outcome the ledger is unchanged;
    - [tracked]: on success the ledger gains the references [ex], on failure
      nothing (every temporary has been released). *)
Definition neutral {A} (m : MA A) (r : st) (H : gmap nat Z) (n : nat)
    (Q : A → st → Prop) : Prop :=
  ∃ res r', m (ASt r H n) = (res, ASt r' H n) ∧ Inv r' ∧ grows r r' ∧
    (∀ L, Counts r L → Counts r' L) ∧ ∀ a, res = Ok a → Q a r'.

Definition tracked {A} (m : MA A) (r : st) (H : gmap nat Z) (n : nat)
    (Q : A → list Z → Prop) : Prop :=
  ∃ res r' ex, m (ASt r H n) = (res, ASt r' H n) ∧ Inv r' ∧ grows r r' ∧
    Forall (valid r') ex ∧ (∀ L, Counts r L → Counts r' (ledger_add L ex)) ∧
    match res with Ok a => Q a ex | Err _ => ex = [] end.

Lemma Counts_add_nil r L : Counts r L → Counts r (ledger_add L []).
Proof. apply Counts_ext. intros m. by rewrite ledger_add_nil. Qed.

Lemma neutral_pure {A} (m : MA A) r H n (Q : A → st → Prop) res :
  Inv r → m (ASt r H n) = (res, ASt r H n) → (∀ a, res = Ok a → Q a r) →
  neutral m r H n Q.
Proof. intros HI E HQ. exists res, r. split; [done|]. split; [done|]. by split. Qed.

Lemma neutral_bind {A B} (m : MA A) (f : A → MA B) r H n Q1 Q :
  neutral m r H n Q1 →
  (∀ a r1, Inv r1 → grows r r1 → Q1 a r1 → neutral (f a) r1 H n Q) →
  neutral (bind m f) r H n Q.
Proof.
  intros (res&r1&E&HI1&G1&HC1&HQ1) Hf. destruct res as [a|e].
  - destruct (Hf a r1 HI1 G1 (HQ1 a eq_refl)) as (res2&r2&E2&HI2&G2&HC2&Hres).
    exists res2, r2. rewrite (bind_ok _ _ _ _ _ E). split; [done|]. split; [done|].
    split; [by etrans|]. split; [|done]. intros L HL. by apply HC2, HC1.
  - exists (Err e), r1. rewrite (bind_err _ _ _ _ _ E). by split_and!.
Qed.

Lemma tracked_bind {A B} (m : MA A) (f : A → MA B) r H n Q1 Q :
  neutral m r H n Q1 →
  (∀ a r1, Inv r1 → grows r r1 → Q1 a r1 → tracked (f a) r1 H n Q) →
  tracked (bind m f) r H n Q.
Proof.
  intros (res&r1&E&HI1&G1&HC1&HQ1) Hf. destruct res as [a|e].
  - destruct (Hf a r1 HI1 G1 (HQ1 a eq_refl)) as (res2&r2&ex&E2&HI2&G2&Hv&HC2&Hres).
    exists res2, r2, ex. rewrite (bind_ok _ _ _ _ _ E). split; [done|]. split; [done|].
    split; [by etrans|]. split; [done|]. split; [|done]. intros L HL. by apply HC2, HC1.
  - exists (Err e), r1, []. rewrite (bind_err _ _ _ _ _ E). split_and!; try done.
    intros L HL. by apply Counts_add_nil, HC1.
Qed.

Lemma with_tmp_run {A} u (body : MA A) r H n res r2 :
  Inv r → valid r u →
  body (ASt (bump u r) H n) = (res, ASt r2 H n) → Inv r2 → valid r2 u →
  with_tmp u body (ASt r H n) = (res, ASt (unbump u r2) H n).
Proof.
  intros HI Hv Eb HI2 Hv2. unfold with_tmp. step (tmp_new_ok r H n u HI Hv).
  unfold bind at 1. unfold catch. rewrite Eb.
  step (tmp_del_ok r2 H n u HI2 Hv2). by destruct res.
Qed.

Lemma tracked_with_tmp {A} u (body : MA A) r H n Q :
  Inv r → valid r u → tracked body (bump u r) H n Q → tracked (with_tmp u body) r H n Q.
Proof.
  intros HI Hv (res&r2&ex&E&HI2&G2&Hvx&HC2&Hres).
  assert (Hv2 : valid r2 u) by (by apply (grows_valid (bump u r) r2)).
  exists res, (unbump u r2), ex. split; [by apply with_tmp_run|].
  split; [by apply Inv_unbump|]. split.
  { etrans; [apply grows_bump|]. etrans; [exact G2|]. apply grows_unbump. }
  split; [exact Hvx|]. split; [|done]. intros L HL.
  pose proof (HC2 _ (Counts_bump r L u Hv HL)) as HC.
  eapply Counts_ext; [|apply (Counts_unbump r2 _ u Hv2 HC)].
  - intros m. unfold ledger_add. ledger.
  - unfold ledger_add, ledger_inc. rewrite decide_True by done. lia.
Qed.

Lemma neutral_with_tmp u (body : MA Z) r H n :
  Inv r → valid r u →
  neutral body (bump u r) H n (fun a r' => valid r' a) →
  neutral (with_tmp u body) r H n (fun a r' => valid r' a).
Proof.
  intros HI Hv (res&r2&E&HI2&G2&HC2&Hres).
  assert (Hv2 : valid r2 u) by (by apply (grows_valid (bump u r) r2)).
  exists res, (unbump u r2). split; [by apply with_tmp_run|].
  split; [by apply Inv_unbump|]. split.
  { etrans; [apply grows_bump|]. etrans; [exact G2|]. apply grows_unbump. }
  split; [|exact Hres]. intros L HL.
  pose proof (HC2 _ (Counts_bump r L u Hv HL)) as HC.
  eapply Counts_ext; [|apply (Counts_unbump r2 _ u Hv2 HC)].
  - intros m. ledger.
  - unfold ledger_inc. rewrite decide_True by done. lia.
Qed.

Lemma neutral_lift {A} (m : MS A) r H n res r' (Q : A → st → Prop) :
  m r = (res, r') → safe r r' → (∀ a, res = Ok a → Q a r') →
  neutral (lift m) r H n Q.
Proof.
  intros E (HI&He&Hf&HC) HQ. exists res, r'. split; [by apply lift_run|].
  split; [done|]. split; [by split|]. by split.
Qed.

Lemma nfi_pure cache c a :
  ∃ res, node_from_int cache c a = (res, a) ∧
    ∀ x, res = Ok x → Inv (mgr a) → valid (mgr a) x.
Proof.
  unfold node_from_int.
  destruct (decide (c = (-1)%Z)) as [->|Hm1].
  { exists (Ok (-1)%Z). split; [done|]. intros x [= <-] HI. by apply valid_m1. }
  destruct (decide (c = 1%Z)) as [->|H1].
  { exists (Ok 1%Z). split; [done|]. intros x [= <-] HI. by apply valid_1. }
  destruct (decide (c = 0%Z)) as [->|H0]; [by exists (Err EKey)|].
  destruct (cache !! absn c) as [x|]; cbn [of_opt]; [|by exists (Err EKey)].
  rewrite (bind_ok _ _ _ x a) by done.
  assert (Ec : check_in x a = (if mem x (mgr a) then Ok tt else Err EValue, a)).
  { unfold check_in, bind, get. by destruct (mem x (mgr a)). }
  destruct (mem x (mgr a)) eqn:Hm.
  - rewrite (bind_ok _ _ _ _ _ Ec). eexists. split; [reflexivity|].
    intros y [= <-] _. apply mem_valid in Hm. case_decide; [by apply valid_neg|done].
  - rewrite (bind_err _ _ _ _ _ Ec). by exists (Err EValue).
Qed.

Lemma neutral_nfi cache c r H n :
  Inv r → neutral (node_from_int cache c) r H n (fun x r' => valid r' x).
Proof.
  intros HI. destruct (nfi_pure cache c (ASt r H n)) as (res&E&Hv).
  apply (neutral_pure _ _ _ _ _ res); [done..|]. intros x ->. by apply (Hv x).
Qed.

Lemma neutral_check_in u r H n : Inv r → neutral (check_in u) r H n (fun _ _ => True).
Proof.
  intros HI.
  assert (Ec : check_in u (ASt r H n) = (if mem u r then Ok tt else Err EValue, ASt r H n)).
  { unfold check_in, bind, get. cbn [mgr]. by destruct (mem u r). }
  by apply (neutral_pure _ _ _ _ _ _ HI Ec).
Qed.

(** one line, any contents *)
Lemma make_node_total vat cache k lv lo hi r H n :
  Inv r → last_len r = None →
  tracked (make_node vat false cache (k, (lv, lo, hi))) r H n
    (fun c' ex => (c' = cache ∧ ex = []) ∨
                  (cache !! k = None ∧ ∃ u, c' = <[k := u]> cache ∧ ex = [u])).
Proof.
  intros HI Hoff. unfold make_node. case_decide as Hk.
  { exists (Ok cache), r, []. split; [done|]. split; [done|]. split; [reflexivity|].
    split; [done|]. split; [intros L; apply Counts_add_nil|by left]. }
  assert (Hk' : cache !! k = None) by (by apply eq_None_not_Some).
  apply (tracked_bind _ _ r H n (fun x r' => valid r' x)); [by apply neutral_nfi|].
  intros low r1 HI1 G1 Hvl.
  apply tracked_with_tmp; [done|done|].
  assert (HI1' : Inv (bump low r1)) by (by apply Inv_bump).
  apply (tracked_bind _ _ _ H n (fun x r' => valid r' x)); [by apply neutral_nfi|].
  intros high r2 HI2 G2 Hvh.
  assert (Hvl2 : valid r2 low) by (by apply (grows_valid (bump low r1) r2)).
  assert (Hoff2 : last_len r2 = None).
  { apply (grows_off (bump low r1) r2 G2). by apply (grows_off r r1). }
  apply tracked_with_tmp; [done|done|].
  set (r2' := bump high r2).
  assert (HI2' : Inv r2') by (by apply Inv_bump).
  apply (tracked_bind _ _ _ H n (fun _ _ => True)).
  { destruct (vat lv) as [v|]; cbn [of_opt].
    - by apply (neutral_pure _ _ _ _ _ (Ok v)).
    - by apply (neutral_pure _ _ _ _ _ (Err EKey)). }
  intros v r3 HI3 G3 _.
  assert (Hoff3 : last_len r3 = None) by (by apply (grows_off r2' r3 G3)).
  assert (Hvl3 : valid r3 low) by (by apply (grows_valid r2' r3)).
  assert (Hvh3 : valid r3 high) by (by apply (grows_valid r2' r3)).
  apply (tracked_bind _ _ _ H n (fun u r' => valid r' u)).
  { apply (neutral_bind _ _ _ H n (fun g r' => valid r' g)).
    - destruct (var v r3) as [rg r4] eqn:Eg.
      destruct (var_total r3 v rg r4 HI3 Hoff3 Eg) as (Hs&_&_&Hvg).
      by apply (neutral_lift _ _ _ _ rg r4).
    - intros g r4 HI4 G4 Hvg. apply neutral_with_tmp; [done|done|].
      set (r4' := bump g r4).
      assert (HI4' : Inv r4') by (by apply Inv_bump).
      assert (Hoff4 : last_len r4' = None) by (by apply (grows_off r3 r4 G4)).
      assert (Hvl4 : valid r4' low) by (by apply (grows_valid r3 r4)).
      assert (Hvh4 : valid r4' high) by (by apply (grows_valid r3 r4)).
      apply (neutral_bind _ _ _ H n (fun _ _ => True)); [by apply neutral_check_in|].
      intros [] r5 HI5 G5 _.
      apply (neutral_bind _ _ _ H n (fun _ _ => True)); [by apply neutral_check_in|].
      intros [] r6 HI6 G6 _.
      apply (neutral_bind _ _ _ H n (fun _ _ => True)); [by apply neutral_check_in|].
      intros [] r7 HI7 G7 _.
      assert (G47 : grows r4' r7) by (etrans; [exact G5|]; by etrans).
      destruct (ite g high low r7) as [ru r8] eqn:Eu.
      destruct (ite_total r7 g high low ru r8 HI7 (grows_off r4' r7 G47 Hoff4) Eu) as (Hs&_&Hvu).
      apply (neutral_lift _ _ _ _ ru r8); [done..|].
      intros u ->. apply (Hvu (grows_valid r4' r7 _ G47 Hvh4) (grows_valid r4' r7 _ G47 Hvl4) u eq_refl). }
  intros u r5 HI5 G5 Hvu.
  apply tracked_with_tmp; [done|done|].
  set (r5' := bump u r5).
  assert (HI5' : Inv r5') by (by apply Inv_bump).
  apply (tracked_bind _ _ _ H n (fun _ _ => True)).
  { destruct (bool_decide (0 < u)%Z); cbn [assert].
    - by apply (neutral_pure _ _ _ _ _ (Ok tt)).
    - by apply (neutral_pure _ _ _ _ _ (Err EAssert)). }
  intros [] r6 HI6 G6 _.
  assert (Hvu6 : valid r6 u) by (by apply (grows_valid r5' r6)).
  exists (Ok (<[k := u]> cache)), (bump u r6), [u]. split.
  { by step (lift_run _ _ H n _ _ (incref_ok r6 u HI6 Hvu6)). }
  split; [by apply Inv_bump|]. split; [apply grows_bump|]. split.
  { apply Forall_singleton. exact Hvu6. }
  split.
  - intros L HL. eapply Counts_ext; [|apply (Counts_bump r6 L u Hvu6 HL)].
    intros m. rewrite ledger_add_cons. unfold ledger_inc. by rewrite ledger_add_nil.
  - right. split; [done|]. by exists u.
Qed.

Lemma make_nodes_total vat lines : ∀ cache r H n L,
  Inv r → last_len r = None → cvalid r cache →
  Counts r (ledger_add L (map_to_list cache).*2) →
  ∃ cache' failed r',
    make_nodes vat false cache lines (ASt r H n) = (Ok (cache', failed), ASt r' H n) ∧
    Inv r' ∧ grows r r' ∧ cvalid r' cache' ∧
    Counts r' (ledger_add L (map_to_list cache').*2).
Proof.
  induction lines as [|[k [[lv lo] hi]] lines IH]; intros cache r H n L HI Hoff Hcv HC.
  { exists cache, None, r. split; [done|]. split; [done|]. by split. }
  cbn [make_nodes].
  destruct (make_node_total vat cache k lv lo hi r H n HI Hoff)
    as (res&r1&ex&E&HI1&G1&Hvx&HC1&Hres).
  unfold bind at 1. unfold catch. rewrite E.
  assert (Hoff1 : last_len r1 = None) by (by apply (grows_off r r1)).
  destruct res as [c'|e].
  - assert (cvalid r1 c' ∧ Counts r1 (ledger_add L (map_to_list c').*2)) as [Hcv1 HC1'].
    { destruct Hres as [[-> ->]|(Hk&u&->&->)].
      - split; [by apply (cvalid_grows r)|]. eapply Counts_ext; [|exact (HC1 _ HC)].
        intros m. by rewrite ledger_add_nil.
      - rewrite Forall_singleton in Hvx. split.
        + intros k' x. rewrite lookup_insert_Some. intros [[_ <-]|[_ Hx]]; [done|].
          apply (grows_valid r r1 x G1). by eapply Hcv.
        + eapply Counts_ext; [|exact (HC1 _ HC)]. intros m.
          rewrite (ledger_add_insert L cache k u m Hk), ledger_add_cons.
          unfold ledger_inc. by rewrite ledger_add_nil. }
    destruct (IH c' r1 H n L HI1 Hoff1 Hcv1 HC1') as (c2&fl&r2&E2&HI2&G2&Hcv2&HC2).
    exists c2, fl, r2. split; [exact E2|]. split; [done|]. split; [by etrans|]. by split.
  - subst ex. exists cache, (Some e), r1. split; [done|]. split; [done|]. split; [done|].
    split; [by apply (cvalid_grows r)|]. eapply Counts_ext; [|exact (HC1 _ HC)].
    intros m. by rewrite ledger_add_nil.
Qed.

(** the repaired failure path: the memo's references are released *)
Lemma release_fail : ∀ (l : list (positive * Z)) r H n L,
  Inv r → Forall (valid r) l.*2 → Counts r (ledger_add L l.*2) →
  ∃ r', forM l (fun '(_, u) => lift (decref u)) (ASt r H n) = (Ok tt, ASt r' H n) ∧
    Inv r' ∧ grows r r' ∧ Counts r' L.
Proof.
  induction l as [|[k u] l IH]; intros r H n L HI Hl HC.
  { exists r. split; [done|]. split; [done|]. split; [reflexivity|].
    eapply Counts_ext; [|exact HC]. intros m. by rewrite ledger_add_nil. }
  cbn [fmap list_fmap snd] in Hl, HC. apply Forall_cons in Hl as [Hu Hl]. cbn [forM].
  step (lift_run _ _ H n _ _ (decref_run r u (proj1 Hu) (valid_refc r u HI Hu))).
  assert (HC1 : Counts (unbump u r) (ledger_add L l.*2)).
  { eapply Counts_ext; [|apply (Counts_unbump r _ u Hu HC)].
    - intros m. unfold ledger_dec. rewrite !ledger_add_cons. ledger.
    - rewrite ledger_add_cons. unfold ledger_inc. rewrite decide_True by done. lia. }
  destruct (IH (unbump u r) H n L (Inv_unbump r u HI)) as (r'&E&HI'&G'&HC'); [done|done|].
  exists r'. split; [done|]. split; [done|]. split; [|done].
  etrans; [apply grows_unbump|done].
Qed.

Lemma mapM_pure_P {S A B} (f : A → M S B) (P : B → Prop) (l : list A) s :
  (∀ x, ∃ res, f x s = (res, s) ∧ ∀ y, res = Ok y → P y) →
  ∃ res, mapM f l s = (res, s) ∧ ∀ ys, res = Ok ys → Forall P ys.
Proof.
  intros Hf. induction l as [|x l IH].
  { exists (Ok []). split; [done|]. by intros ys [= <-]. }
  cbn [mapM]. destruct (Hf x) as ([y|e]&E&Hy).
  - rewrite (bind_ok _ _ _ _ _ E). destruct IH as ([ys|e]&E'&Hys).
    + rewrite (bind_ok _ _ _ _ _ E'). exists (Ok (y :: ys)). split; [done|].
      intros ? [= <-]. constructor; [by apply Hy|by apply Hys].
    + rewrite (bind_err _ _ _ _ _ E'). by exists (Err e).
  - rewrite (bind_err _ _ _ _ _ E). by exists (Err e).
Qed.

Lemma root_nodes_pure cache roots a : Inv (mgr a) →
  ∃ res, root_nodes cache roots a = (res, a) ∧
    ∀ nodes, res = Ok nodes → nodes ≠ RNone ∧ Forall (valid (mgr a)) (roots_values nodes).
Proof.
  intros HI. destruct roots as [|l|d]; cbn [root_nodes].
  - by exists (Err EKey).
  - destruct (mapM_pure_P (node_from_int cache) (valid (mgr a)) l a) as ([ys|e]&E&Hys).
    { intros c. destruct (nfi_pure cache c a) as (res&E&Hv). exists res. split; [done|].
      intros y ->. by apply Hv. }
    + rewrite (bind_ok _ _ _ _ _ E). exists (Ok (RList ys)). split; [done|].
      intros ? [= <-]. split; [done|]. by apply Hys.
    + rewrite (bind_err _ _ _ _ _ E). by exists (Err e).
  - destruct (mapM_pure_P (fun '(n, k) => u <- node_from_int cache k ;; ret (n, u))
                (fun p : nat * Z => valid (mgr a) p.2) d a) as ([ys|e]&E&Hys).
    { intros [nm c]. destruct (nfi_pure cache c a) as ([y|e]&E&Hv).
      - rewrite (bind_ok _ _ _ _ _ E). exists (Ok (nm, y)). split; [done|].
        intros ? [= <-]. by apply Hv.
      - rewrite (bind_err _ _ _ _ _ E). by exists (Err e). }
    + rewrite (bind_ok _ _ _ _ _ E). exists (Ok (RDict ys)). split; [done|].
      intros ? [= <-]. split; [done|]. cbn. apply Forall_fmap. by apply Hys.
    + rewrite (bind_err _ _ _ _ _ E). by exists (Err e).
Qed.

Lemma wrap_roots_ok nodes r H n L :
  nodes ≠ RNone → Inv r → Counts r L → Forall (valid r) (roots_values nodes) →
  let us := roots_values nodes in
  ∃ r', wrap_roots nodes (ASt r H n)
          = (Ok (hroots_of nodes n), ASt r' (hins H n us) (n + length us)) ∧
    Inv r' ∧ grows r r' ∧ Counts r' (ledger_add L us).
Proof.
  intros Hnone HI HC Hv us. destruct nodes as [|l|d]; [done| |]; cbn [roots_values] in *.
  - assert (Hf : ∀ (u : Z) a, wrap u a
              = bind (wrap (id u)) (fun h => ret ((fun (_ : Z) h => h) u h)) a).
    { intros u a. unfold bind, id. by destruct (wrap u a) as [[h|e] a2]. }
    destruct (wrap_gen id (fun _ h => h) wrap Hf l r H n L HI HC)
      as (r3&H'&n'&E3&->&->&HI3&G3&HC3); [done|].
    rewrite list_fmap_id in *. rewrite zip_with_snd in E3 by (by rewrite seq_length).
    exists r3. subst us. split; [|done]. cbn [wrap_roots]. step E3.
    by cbn [bind ret hroots_of].
  - assert (Hf : ∀ (x : nat * Z) a,
              (let '(nm, u) := x in h <- wrap u ;; ret (nm, h)) a
              = bind (wrap (snd x)) (fun h => ret ((fun (x : nat * Z) h => (x.1, h)) x h)) a).
    { by intros [nm k] a. }
    destruct (wrap_gen snd (fun (x : nat * Z) h => (x.1, h))
                (fun '(nm, u) => h <- wrap u ;; ret (nm, h)) Hf d r H n L HI HC)
      as (r3&H'&n'&E3&->&->&HI3&G3&HC3).
    { apply Forall_forall. intros x Hx. eapply Forall_forall in Hv; [exact Hv|].
      apply elem_of_list_fmap. by exists x. }
    exists r3. subst us. rewrite fmap_length. split; [|done]. cbn [wrap_roots]. step E3.
    cbn [bind hroots_of]. unfold ret. do 3 f_equal.
    by rewrite (zip_with_fmap_l pair fst).
Qed.

(** [load_json(..., load_order=False)] of ANY file into a consistent receiver
    with reordering disabled: it returns handles and the ledger gains exactly
    one reference per handle, or it raises, creates no handle and leaks no
    reference.  In both cases the receiver only grows after [declare].  No
    hypothesis on [max_nodes r0]: a full table ([RuntimeError]) is one of the
    failures covered. *)
Theorem json_load_false_total jf r0 H n L :
  Inv r0 → last_len r0 = None → Counts r0 L →
  ∃ res r1 r' H' n',
    declare (jf_levels jf).*1 r0 = (Ok tt, r1) ∧
    a_load_json jf false (ASt r0 H n) = (res, ASt r' H' n') ∧
    Inv r' ∧ grows r1 r' ∧ frame r0 r' ∧
    (∀ u, valid r0 u → valid r' u ∧ ∀ ρ, denv r' u ρ = denv r0 u ρ) ∧
    match res with
    | Err e => H' = H ∧ n' = n ∧ Counts r' L
    | Ok hroots => ∃ us, H' = hins H n us ∧ n' = n + length us ∧
                         Forall (valid r') us ∧ Counts r' (ledger_add L us)
    end.
Proof.
  intros HI0 Hoff HC0.
  destruct (declare (jf_levels jf).*1 r0) as [rd r1] eqn:Ed.
  destruct (declare_run _ r0 rd r1 HI0 Ed) as (->&HI1&Hf1&HC1&Hd1&_).
  assert (Hoff1 : last_len r1 = None) by (destruct Hf1 as (E&_); by rewrite E).
  destruct (make_nodes_total
              (fun l => match list_find (fun vl => bool_decide (vl.2 = l))
                                (reverse (jf_levels jf)) with
                        | Some (_, (v, _)) => Some v | None => None end)
              (jf_nodes jf) ∅ r1 H n L HI1 Hoff1)
    as (cache&failed&r2&E2&HI2&G2&Hcv2&HC2).
  { intros k x Hx. by rewrite lookup_empty in Hx. }
  { rewrite map_to_list_empty. by apply Counts_add_nil, HC1. }
  assert (Hold : ∀ r', Inv r' → grows r1 r' →
            frame r0 r' ∧ ∀ u, valid r0 u → valid r' u ∧ ∀ ρ, denv r' u ρ = denv r0 u ρ).
  { intros r' HI' G'. split; [destruct G' as [_ Hf']; by etrans|].
    intros u Hu. destruct (Hd1 u Hu) as [Hu1 HD1]. split; [by apply (grows_valid r1 r')|].
    intros ρ. by rewrite (grows_denv r1 r' u ρ G' HI1 Hu1). }
  (* releasing after a failure *)
  assert (Hfail : ∀ e,
    ∃ r', (forM (map_to_list cache) (fun '(_, u) => lift (decref u)) ;;; raise e)
            (ASt r2 H n) = (Err e : res rootsH, ASt r' H n) ∧
      Inv r' ∧ grows r1 r' ∧ Counts r' L).
  { intros e. destruct (release_fail (map_to_list cache) r2 H n L HI2 (cvalid_list r2 cache Hcv2) HC2)
      as (r'&E&HI'&G'&HC'). exists r'. step E. split; [done|]. split; [done|].
    split; [by etrans|done]. }
  assert (Hhead : ∀ (k : gmap positive Z * option err → MA rootsH),
    a_load_json jf false (ASt r0 H n)
    = (let '(cache, failed) := (cache, failed) in
       nodes <- match failed with
                | Some e => ret (Err e)
                | None => catch (root_nodes cache (jf_roots jf))
                end ;;
       match nodes with
       | Err e => forM (map_to_list cache) (fun '(_, u) => lift (decref u)) ;;; raise e
       | Ok nodes =>
           hroots <- wrap_roots nodes ;;
           forM (map_to_list cache) (fun '(_, u) =>
             tmp_new u ;;;
             r <- lift (ref u) ;;
             assert (bool_decide (2 <= r)) ;;;
             (if false then assert (bool_decide (3 <= r)) else ret tt) ;;;
             lift (decref u) ;;;
             tmp_del u) ;;;
           (if false then lift (configure (Some true)) ;;; ret tt else ret tt) ;;;
           ret hroots
       end) (ASt r2 H n)).
  { intros _. unfold a_load_json. cbn [bind ret]. step (lift_run _ _ H n _ _ Ed).
    cbn [bind ret]. by step E2. }
  rewrite (Hhead (fun _ => ret (HList []))). clear Hhead. cbv beta iota.
  destruct failed as [e|].
  { destruct (Hfail e) as (r'&E&HI'&G'&HC').
    exists (Err e), r1, r', H, n. split; [done|]. split.
    { rewrite (bind_ok _ _ _ (Err e) (ASt r2 H n)) by done. exact E. }
    split; [done|]. split; [done|]. destruct (Hold r' HI' G'). by split_and!. }
  destruct (root_nodes_pure cache (jf_roots jf) (ASt r2 H n) HI2) as (rn&Ern&Hrn).
  assert (Ecatch : catch (root_nodes cache (jf_roots jf)) (ASt r2 H n) = (Ok rn, ASt r2 H n)).
  { unfold catch. by rewrite Ern. }
  step Ecatch. destruct rn as [nodes|e]; cycle 1.
  { destruct (Hfail e) as (r'&E&HI'&G'&HC').
    exists (Err e), r1, r', H, n. split; [done|]. split; [exact E|].
    split; [done|]. split; [done|]. destruct (Hold r' HI' G'). by split_and!. }
  destruct (Hrn nodes eq_refl) as [Hnone Hvn]. cbn [mgr] in Hvn.
  destruct (wrap_roots_ok nodes r2 H n _ Hnone HI2 HC2 Hvn) as (r3&E3&HI3&G3&HC3).
  set (us := roots_values nodes) in *.
  destruct (release_gen false (map_to_list cache) r3 (hins H n us) (n + length us)
              (ledger_add L us) HI3) as (r'&E4&HI4&G4&_&HC4); [| |done|].
  { apply cvalid_list. by apply (cvalid_grows r2 r3). }
  { eapply Counts_ext; [|exact HC3]. intros m. unfold ledger_add. lia. }
  assert (G' : grows r1 r') by (etrans; [exact G2|]; by etrans).
  exists (Ok (hroots_of nodes n)), r1, r', (hins H n us), (n + length us).
  split; [done|]. split.
  { step E3. step E4. by cbn [bind ret]. }
  split; [done|]. split; [done|]. destruct (Hold r' HI4 G'). split; [done|]. split; [done|].
  exists us. split; [done|]. split; [done|]. split; [|done].
  eapply Forall_impl; [exact Hvn|]. intros x Hx.
  apply (grows_valid r2 r' x); [by etrans|done].
Qed.
