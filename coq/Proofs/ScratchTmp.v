From DD Require Export GC Subst Driver2.
Definition vstate (vm lm : gmap nat nat) (k : nat) : st :=
  St {[1%positive := tterm k]} {[tterm k := 1%positive]} {[1%positive := 1]}
     2%positive ∅ vm lm None false [] [] None.
Lemma add_var_vstate vm lm v i :
  vm !! v = None → lm !! i = None →
  add_var v (Some i) (vstate vm lm (size vm))
  = (Ok i, vstate (<[v := i]> vm) (<[i := v]> lm) (size (<[v := i]> vm))).
Proof.
  intros Hv Hi. unfold add_var. cbn [bind get].
  change (vars (vstate vm lm (size vm))) with vm. rewrite Hv.
  rewrite decide_False by (by intros [? ?]).
  assert (E1 : next_free_level (Some i) (vstate vm lm (size vm)) = (Ok i, vstate vm lm (size vm))).
  { unfold next_free_level. cbn [bind get].
    change (lvl2var (vstate vm lm (size vm))) with lm. by rewrite Hi. }
  rewrite (bind_ok _ _ _ _ _ E1). cbn [bind modify get].
  unfold init_terminal, modify, ret.
  unfold vstate, set, nvars.
  cbn [succ pred refc min_free ite_tab vars lvl2var last_len rctx roots tape trig].
  unfold bind.
  cbn [succ pred refc min_free ite_tab vars lvl2var last_len rctx roots tape trig].
  rewrite !lookup_singleton. cbn [default].
  rewrite delete_singleton, insert_singleton. reflexivity.
Qed.
