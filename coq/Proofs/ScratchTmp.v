From DD Require Import Pickle.
Local Open Scope string_scope.
Definition w0 := fold_left (fun w o => fst (step2 w 0 o))
   [O1 (ONew [(0, 1); (1, 0); (2, 2)]); O1 (OVar 0); O1 (OVar 1); O1 (OVar 2);
    O1 (OApply "xor" 2 (Some 3%Z) None); O1 (OApply "\/" 5 (Some (-4)%Z) None);
    O1 (OSetRoots [8%Z])] world2_empty.
Definition s0 := world2_get w0 0.
Eval vm_compute in map_to_list (succ s0).
Eval vm_compute in map_to_list (vars s0).
Definition w1 := fst (step2 w0 0 (ODump 0 (RDict [(7, (-8)%Z); (3, 3%Z); (9, (-1)%Z)]) [8; 3; 1; 6; 7; 4]%positive [2; 0; 1])).
Eval vm_compute in snd (step2 w0 0 (ODump 0 (RDict [(7, (-8)%Z); (3, 3%Z); (9, (-1)%Z)]) [8; 3; 1; 6; 7; 4]%positive [2; 0; 1])).
Eval vm_compute in w_files w1 !! 0.
Definition w2 := fst (step2 w1 1 (O1 (ONew []))).
Eval vm_compute in snd (step2 w2 1 (OLoad 0 true)).
Eval vm_compute in map_to_list (succ (world2_get (fst (step2 w2 1 (OLoad 0 true))) 1)).
Eval vm_compute in snd (step2 w1 0 (OLoad 0 true)).
Eval vm_compute in snd (step2 w1 0 (ODumpManager 5 [1;2;0])).
Definition w3 := fst (step2 w1 0 (ODumpManager 5 [1;2;0])).
Eval vm_compute in snd (step2 w3 2 (OLoadManager 5)).
Eval vm_compute in bool_decide (succ (world2_get (fst (step2 w3 2 (OLoadManager 5))) 2) = succ s0).
Definition w1' := fst (step2 w1 0 (O1 (OSetLastLen (Some 1)))).
Eval vm_compute in snd (step2 w1' 0 (OLoad 0 true)).
