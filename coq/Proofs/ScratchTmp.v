From DD Require Export GC Subst Driver2.
Definition vstate (vm lm : gmap nat nat) (k : nat) : st :=
  St {[1%positive := tterm k]} {[tterm k := 1%positive]} {[1%positive := 1]}
     2%positive ∅ vm lm None false [] [] None.
Lemma st_ext (a b : st) :
  succ a = succ b → pred a = pred b → refc a = refc b → min_free a = min_free b →
  ite_tab a = ite_tab b → vars a = vars b → lvl2var a = lvl2var b →
  last_len a = last_len b → rctx a = rctx b → roots a = roots b → tape a = tape b →
  trig a = trig b → a = b.
Proof. destruct a, b. cbn. by intros -> -> -> -> -> -> -> -> -> -> -> ->. Qed.
Lemma init_terminal_vstate vm lm k k' :
  init_terminal k' (vstate vm lm k) = (Ok tt, vstate vm lm k').
Proof.
  unfold init_terminal, modify. f_equal.
  apply st_ext; try reflexivity.
  - cbn.  apply insert_singleton.
  - cbn. Show. rewrite lookup_singleton. cbn. by rewrite delete_singleton.
  - cbn. by rewrite lookup_singleton. 
Qed.
