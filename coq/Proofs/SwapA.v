(** * SwapA: the three relabelling phases of [swap]
      ([swap_collect], [swap_up], [swap_indep]) *)
From DD Require Export GC.

(** fields that the table-rewriting phases never touch *)
Definition keep (s s' : st) : Prop :=
  refc s' = refc s ∧ min_free s' = min_free s ∧ ite_tab s' = ite_tab s ∧
  vars s' = vars s ∧ lvl2var s' = lvl2var s ∧ last_len s' = last_len s ∧
  max_nodes s' = max_nodes s.
Global Instance keep_refl : Reflexive keep.
Proof. intros s. by repeat split. Qed.
Global Instance keep_trans : Transitive keep.
Proof. intros s1 s2 s3 (?&?&?&?&?&?&?) (?&?&?&?&?&?&?). split_and!; congruence. Qed.

(** [al] maps every level to exactly the nodes of that level *)
Definition levels_ok (s : st) (al : levels_t) : Prop :=
  ∀ l, l < nvars s → ∃ X : gset positive, al !! l = Some X ∧
    ∀ n, n ∈ X ↔ ∃ t, succ s !! n = Some t ∧ t_lvl t = l.

(** ** [pop_order] *)
Lemma pop_order_spec X s r s' : pop_order X s = (r, s') →
  succ s' = succ s ∧ pred s' = pred s ∧ keep s s' ∧
  (r = Err EOracle ∨ ∃ o, r = Ok o ∧ NoDup o ∧ ∀ n, n ∈ o ↔ n ∈ X).
Proof.
  unfold pop_order. cbn [bind get]. destruct (tape s) as [|o rest].
  - intros [= <- <-]. split_and!; try done. right. exists (elements X).
    split_and!; [done|apply NoDup_elements|]. intros n. apply elem_of_elements.
  - cbn [bind modify]. case_decide as Hd.
    + intros [= <- <-]. split_and!; try done. right. exists o.
      destruct Hd as [Hnd <-]. split_and!; try done. intros n.
      by rewrite elem_of_list_to_set.
    + intros [= <- <-]. split_and!; try done. by left.
Qed.

(** the entry of node [u] in the [levels] dictionaries of [swap] *)
Definition lk (s : st) (u : positive) : positive * (Z * Z) :=
  match succ s !! u with
  | Some t => (u, (t_lo t, t_hi t))
  | None => (u, (0%Z, 0%Z))
  end.

(** ** [swap_collect] *)
Definition collect_body (j : nat) (u : positive) : MS (positive * (Z * Z)) :=
  t <- getsucc u ;;
  assert (bool_decide (t_lvl t = j)) ;;;
  s <- get ;;
  u_ <- of_opt EKey (pred s !! t) ;;
  modify (fun s => s <| pred ::= delete t |>) ;;;
  assert (bool_decide (u = u_)) ;;;
  ret (u, (t_lo t, t_hi t)).

Lemma swap_collect_eq j o : swap_collect j o = mapM (collect_body j) o.
Proof. reflexivity. Qed.

Lemma swap_collect_spec j : ∀ o s,
  NoDup o →
  (∀ u, u ∈ o → ∃ t, succ s !! u = Some t ∧ t_lvl t = j ∧ pred s !! t = Some u) →
  (∀ t u, pred s !! t = Some u → succ s !! u = Some t) →
  ∃ s', swap_collect j o s = (Ok (lk s <$> o), s') ∧ succ s' = succ s ∧ keep s s' ∧
    ∀ t n, pred s' !! t = Some n ↔ pred s !! t = Some n ∧ n ∉ o.
Proof.
  intros o. rewrite swap_collect_eq. induction o as [|u o IH]; intros s Hnd Ho Hps.
  - exists s. split_and!; try done. intros t n. split; [|tauto].
    intros H. split; [done|]. apply not_elem_of_nil.
  - apply NoDup_cons in Hnd as [Hu Hnd].
    destruct (Ho u ltac:(left)) as (t&Ht&Hl&Hp).
    set (s1 := s <| pred ::= delete t |>).
    assert (Hbody : collect_body j u s = (Ok (lk s u), s1)).
    { unfold collect_body. rewrite (bind_ok _ _ _ _ _ (getsucc_ok s u t Ht)).
      unfold assert. rewrite bool_decide_eq_true_2 by done. cbn [bind ret get].
      rewrite Hp. cbn [of_opt bind ret modify].
      rewrite bool_decide_eq_true_2 by done. cbn [bind ret].
      unfold lk. by rewrite Ht. }
    destruct (IH s1) as (s'&Hrun&Hs&Hk&Hpr); [done| | |].
    { intros u' Hu'. destruct (Ho u' ltac:(by right)) as (t'&Ht'&Hl'&Hp').
      exists t'. split_and!; try done. cbn. rewrite lookup_delete_ne; [done|].
      intros ->. assert (u = u') by congruence. by subst. }
    { intros t' u'. cbn. intros H. apply lookup_delete_Some in H as [_ H]. by apply Hps. }
    exists s'. split_and!.
    + cbn [mapM fmap list_fmap]. rewrite (bind_ok _ _ _ _ _ Hbody).
      rewrite (bind_ok _ _ _ _ _ Hrun). done.
    + done.
    + done.
    + intros t' n. rewrite Hpr. cbn. rewrite lookup_delete_Some, elem_of_cons. split.
      * intros [[Hne Hp'] Hn]. split; [done|]. intros [->|?]; [|done].
        apply Hps in Hp'. congruence.
      * intros [Hp' Hn]. split; [|tauto]. split; [|done]. intros <-.
        apply Hn. left. congruence.
Qed.

(** ** [set_node] *)
Definition set_node_st (s : st) (u : positive) (r : triple) : st :=
  s <| succ ::= <[u := r]> |> <| pred ::= <[r := u]> |>.

Lemma set_node_ok s u r : pred s !! r = None →
  set_node u r s = (Ok tt, set_node_st s u r).
Proof.
  intros H. unfold set_node. cbn [bind modify get]. unfold assert.
  cbn [pred set]. rewrite H. by rewrite bool_decide_eq_true_2.
Qed.

Lemma level_of_pos s u t : succ s !! u = Some t →
  level_of (Z.pos u) s = (Ok (t_lvl t), s).
Proof.
  intros Ht. unfold level_of.
  by rewrite (bind_ok _ _ _ _ _ (getsuccZ_ok s (Z.pos u) t ltac:(done) Ht)).
Qed.

(** ** [swap_up] *)
Definition up_body (x y : nat) (e : positive * (Z * Z)) : MS unit :=
  let '(u, (v, w)) := e in
  i <- level_of (Z.pos u) ;;
  assert (bool_decide (i = y)) ;;;
  set_node u (Triple x v w).

Lemma swap_up_eq x y ly : swap_up x y ly = forM ly (up_body x y).
Proof.
  unfold swap_up. induction ly as [|[u [v w]] ly IH]; [done|].
  cbn [forM]. by rewrite IH.
Qed.

(** the generic relabelling loop: every listed node [(u,(v,w))] currently
    stored as [(y,v,w)] becomes [(x,v,w)] *)
Lemma swap_up_spec x y : ∀ (l : list (positive * (Z * Z))) s,
  NoDup (l.*1) →
  (∀ u v w, (u, (v, w)) ∈ l → succ s !! u = Some (Triple y v w) ∧
                               pred s !! Triple x v w = None) →
  (∀ u u' p, (u, p) ∈ l → (u', p) ∈ l → u = u') →
  ∃ s', swap_up x y l s = (Ok tt, s') ∧ keep s s' ∧
    (∀ n, n ∉ l.*1 → succ s' !! n = succ s !! n) ∧
    (∀ u v w, (u, (v, w)) ∈ l → succ s' !! u = Some (Triple x v w)) ∧
    (∀ t n, pred s' !! t = Some n ↔
       pred s !! t = Some n ∨ ∃ v w, (n, (v, w)) ∈ l ∧ t = Triple x v w).
Proof.
  intros l. rewrite swap_up_eq. induction l as [|[u [v w]] l IH]; intros s Hnd Hl Hinj.
  - exists s. split_and!; try done.
    + intros ??? H. by apply elem_of_nil in H.
    + intros t n. split; [by left|]. intros [?|(?&?&H&_)]; [done|]. by apply elem_of_nil in H.
  - cbn [fmap list_fmap fst] in Hnd. apply NoDup_cons in Hnd as [Hu Hnd].
    destruct (Hl u v w ltac:(left)) as [Hsu Hpu].
    set (s1 := set_node_st s u (Triple x v w)).
    assert (Hbody : up_body x y (u, (v, w)) s = (Ok tt, s1)).
    { unfold up_body. rewrite (bind_ok _ _ _ _ _ (level_of_pos s u _ Hsu)).
      unfold assert. cbn [t_lvl]. rewrite bool_decide_eq_true_2 by done. cbn [bind ret].
      by apply set_node_ok. }
    destruct (IH s1) as (s'&Hrun&Hk&Hs1&Hs2&Hp); [done| | |].
    { intros u' v' w' Hin. destruct (Hl u' v' w' ltac:(by right)) as [Hs' Hp'].
      assert (u' ≠ u).
      { intros ->. apply Hu. apply elem_of_list_fmap. by exists (u, (v', w')). }
      cbn. rewrite !lookup_insert_ne; [done| |done].
      intros [= -> ->]. apply H. symmetry. apply (Hinj u u' (v', w')); [left|by right]. }
    { intros u1 u2 p H1 H2. apply (Hinj u1 u2 p); by right. }
    exists s'. split_and!.
    + cbn [forM]. rewrite (bind_ok _ _ _ _ _ Hbody). exact Hrun.
    + etrans; [|exact Hk]. by repeat split.
    + intros n Hn. cbn [fmap list_fmap fst] in Hn. rewrite not_elem_of_cons in Hn.
      destruct Hn as [Hnu Hn]. rewrite (Hs1 n Hn). cbn. by rewrite lookup_insert_ne.
    + intros u' v' w' Hin. apply elem_of_cons in Hin as [[= -> -> ->]|Hin]; [|by apply Hs2].
      rewrite (Hs1 u Hu). cbn. by rewrite lookup_insert.
    + intros t n. rewrite Hp. cbn. split.
      * intros [H|(v'&w'&Hin&->)].
        -- destruct (decide (t = Triple x v w)) as [->|Hne].
           ++ rewrite lookup_insert in H. injection H as <-. right. exists v, w. split; [left|done].
           ++ rewrite lookup_insert_ne in H by done. by left.
        -- right. exists v', w'. split; [by right|done].
      * intros [H|(v'&w'&Hin&->)].
        -- left. rewrite lookup_insert_ne; [done|]. intros <-. congruence.
        -- apply elem_of_cons in Hin as [[= -> -> ->]|Hin].
           ++ left. by rewrite lookup_insert.
           ++ right. eauto.
Qed.

(** ** [swap_indep] *)
Lemma low_high_ok s v t : v ≠ 0%Z → succ s !! absn v = Some t →
  (absn v ≠ 1%positive → t_lo t ≠ 0%Z) →
  ∃ a b, low_high v s = (Ok (t_lvl t, a, b), s).
Proof.
  intros Hv Ht Hlo. unfold low_high.
  rewrite (bind_ok _ _ _ _ _ (getsuccZ_ok s v t Hv Ht)).
  case_decide as E; [by eexists _, _|].
  unfold assert, is_term. rewrite bool_decide_eq_false_2 by auto.
  cbn [negb bind ret]. by eexists _, _.
Qed.

Definition indep_body (x y : nat) (done : gset positive)
    (e : positive * (Z * Z)) : MS (gset positive) :=
  let '(u, (v, w)) := e in
    i <- level_of (Z.pos u) ;;
    assert (bool_decide (i = x)) ;;;
    assert (bool_decide (v ≠ 0%Z)) ;;; assert (bool_decide (w ≠ 0%Z)) ;;;
    c <- low_high v ;; let '(iv, _, _) := c in
    c <- low_high w ;; let '(iw, _, _) := c in
    if decide (iv <= y ∨ iw <= y) then ret done else
    set_node u (Triple y v w) ;;;
    ret (done ∪ {[u]}).

Lemma swap_indep_eq x y l : swap_indep x y l = foldM (indep_body x y) ∅ l.
Proof. reflexivity. Qed.

Definition indepS (s : st) (y : nat) (v w : Z) : Prop :=
  y < lvl_of s v ∧ y < lvl_of s w.
Global Instance indepS_dec s y v w : Decision (indepS s y v w).
Proof. unfold indepS. apply _. Defined.

Definition child_ok (s : st) (v : Z) : Prop :=
  v ≠ 0%Z ∧ ∃ t, succ s !! absn v = Some t ∧ (absn v ≠ 1%positive → t_lo t ≠ 0%Z).

Lemma swap_indep_spec x y : ∀ (l : list (positive * (Z * Z))) s acc,
  NoDup (l.*1) →
  (∀ u v w, (u, (v, w)) ∈ l →
     succ s !! u = Some (Triple x v w) ∧ child_ok s v ∧ child_ok s w ∧
     absn v ∉ l.*1 ∧ absn w ∉ l.*1 ∧ pred s !! Triple y v w = None) →
  (∀ u u' p, (u, p) ∈ l → (u', p) ∈ l → u = u') →
  ∃ s' dn, foldM (indep_body x y) acc l s = (Ok (acc ∪ dn), s') ∧ keep s s' ∧
    (∀ n, n ∉ l.*1 → succ s' !! n = succ s !! n) ∧
    (∀ u v w, (u, (v, w)) ∈ l → succ s' !! u =
       Some (Triple (if decide (indepS s y v w) then y else x) v w)) ∧
    (∀ n, n ∈ dn ↔ ∃ v w, (n, (v, w)) ∈ l ∧ indepS s y v w) ∧
    (∀ t n, pred s' !! t = Some n ↔
       pred s !! t = Some n ∨
       ∃ v w, (n, (v, w)) ∈ l ∧ indepS s y v w ∧ t = Triple y v w).
Proof.
  intros l. induction l as [|[u [v w]] l IH]; intros s acc Hnd Hl Hinj.
  - exists s, ∅. split_and!; try done.
    + cbn [foldM]. unfold ret. rewrite (right_id_L ∅ (∪) acc). done.
    + intros ??? H. by apply elem_of_nil in H.
    + intros n. split; [set_solver|]. intros (?&?&H&_). by apply elem_of_nil in H.
    + intros t n. split; [by left|]. intros [?|(?&?&H&_)]; [done|]. by apply elem_of_nil in H.
  - cbn [fmap list_fmap fst] in Hnd. apply NoDup_cons in Hnd as [Hu Hnd].
    destruct (Hl u v w ltac:(left)) as (Hsu&[Hv0 (tv&Htv&Hlv)]&[Hw0 (tw&Htw&Hlw)]&Hvl&Hwl&Hpu).
    cbn [fmap list_fmap fst] in Hvl, Hwl. rewrite not_elem_of_cons in Hvl, Hwl.
    destruct Hvl as [Hvu Hvl], Hwl as [Hwu Hwl].
    set (b := bool_decide (indepS s y v w)).
    set (s1 := if b then set_node_st s u (Triple y v w) else s).
    assert (Hbody : indep_body x y acc (u, (v, w)) s =
                    (Ok (if b then acc ∪ {[u]} else acc), s1)).
    { unfold indep_body. rewrite (bind_ok _ _ _ _ _ (level_of_pos s u _ Hsu)).
      unfold assert. cbn [t_lvl]. rewrite !bool_decide_eq_true_2 by done. cbn [bind ret].
      destruct (low_high_ok s v tv Hv0 Htv Hlv) as (a1&b1&E1).
      destruct (low_high_ok s w tw Hw0 Htw Hlw) as (a2&b2&E2).
      rewrite (bind_ok _ _ _ _ _ E1), (bind_ok _ _ _ _ _ E2).
      assert (Hiff : indepS s y v w ↔ ¬ (t_lvl tv ≤ y ∨ t_lvl tw ≤ y)).
      { unfold indepS, lvl_of. rewrite Htv, Htw. lia. }
      subst b s1. case_decide as Hd; case_bool_decide as Hb; try tauto.
      rewrite (bind_ok _ _ _ _ _ (set_node_ok s u _ Hpu)). done. }
    assert (Hsame : ∀ n, n ≠ u → succ s1 !! n = succ s !! n).
    { intros n Hn. subst s1. destruct b; [|done]. cbn. by rewrite lookup_insert_ne. }
    assert (Hlvl : ∀ z, absn z ≠ u → lvl_of s1 z = lvl_of s z).
    { intros z Hz. unfold lvl_of. by rewrite Hsame. }
    assert (Hk1 : keep s s1) by (subst s1; destruct b; by repeat split).
    destruct (IH s1 (if b then acc ∪ {[u]} else acc)) as (s'&dn&Hrun&Hk&Hs1&Hs2&Hdn&Hp); [done| | |].
    { intros u' v' w' Hin.
      destruct (Hl u' v' w' ltac:(by right)) as (Hs'&[Hv0' (tv'&Htv'&Hlv')]&[Hw0' (tw'&Htw'&Hlw')]&Hvl'&Hwl'&Hp').
      cbn [fmap list_fmap fst] in Hvl', Hwl'. rewrite not_elem_of_cons in Hvl', Hwl'.
      destruct Hvl' as [Hvu' Hvl'], Hwl' as [Hwu' Hwl'].
      assert (u' ≠ u).
      { intros ->. apply Hu. apply elem_of_list_fmap. by exists (u, (v', w')). }
      rewrite !Hsame by done. split_and!; try done.
      - split; [done|]. exists tv'. by rewrite Hsame.
      - split; [done|]. exists tw'. by rewrite Hsame.
      - subst s1. destruct b; [|done]. cbn. rewrite lookup_insert_ne; [done|].
        intros [= -> ->]. apply H. symmetry. apply (Hinj u u' (v', w')); [left|by right]. }
    { intros u1 u2 p H1 H2. apply (Hinj u1 u2 p); by right. }
    assert (Hind : ∀ u' v' w', (u', (v', w')) ∈ l → indepS s1 y v' w' ↔ indepS s y v' w').
    { intros u' v' w' Hin.
      destruct (Hl u' v' w' ltac:(by right)) as (_&_&_&Hvl'&Hwl'&_).
      cbn [fmap list_fmap fst] in Hvl', Hwl'. rewrite not_elem_of_cons in Hvl', Hwl'.
      unfold indepS. rewrite !Hlvl by tauto. done. }
    exists s', ((if b then {[u]} else ∅) ∪ dn). split_and!.
    + cbn [foldM]. rewrite (bind_ok _ _ _ _ _ Hbody). rewrite Hrun. f_equal. f_equal.
      destruct b; [by rewrite (assoc_L (∪))|by rewrite (left_id_L ∅ (∪))].
    + by etrans.
    + intros n Hn. cbn [fmap list_fmap fst] in Hn. rewrite not_elem_of_cons in Hn.
      destruct Hn as [Hnu Hn]. rewrite (Hs1 n Hn). by apply Hsame.
    + intros u' v' w' Hin. apply elem_of_cons in Hin as [[= -> -> ->]|Hin].
      * rewrite (Hs1 u Hu). subst s1 b. case_bool_decide; case_decide; try done.
        cbn. by rewrite lookup_insert.
      * rewrite (Hs2 u' v' w' Hin). do 2 f_equal.
        pose proof (Hind u' v' w' Hin). repeat case_decide; tauto.
    + intros n. rewrite elem_of_union, Hdn. split.
      * intros [Hn|(v'&w'&Hin&Hi)].
        -- subst b. case_bool_decide; [|set_solver]. apply elem_of_singleton in Hn as ->.
           exists v, w. split; [left|done].
        -- exists v', w'. split; [by right|]. by apply (Hind n v' w' Hin).
      * intros (v'&w'&Hin&Hi). apply elem_of_cons in Hin as [[= -> -> ->]|Hin].
        -- left. subst b. rewrite bool_decide_eq_true_2 by done. set_solver.
        -- right. exists v', w'. split; [done|]. by apply (Hind n v' w' Hin).
    + intros t n. rewrite Hp. split.
      * intros [H|(v'&w'&Hin&Hi&->)].
        -- subst s1 b. case_bool_decide as Hb; [|by left]. cbn in H.
           destruct (decide (t = Triple y v w)) as [->|Hne].
           ++ rewrite lookup_insert in H. injection H as <-. right. exists v, w.
              split_and!; [left|done|done].
           ++ rewrite lookup_insert_ne in H by done. by left.
        -- right. exists v', w'. split_and!; [by right| |done]. by apply (Hind n v' w' Hin).
      * intros [H|(v'&w'&Hin&Hi&->)].
        -- left. subst s1 b. case_bool_decide; [|done]. cbn.
           rewrite lookup_insert_ne; [done|]. intros <-. congruence.
        -- apply elem_of_cons in Hin as [[= -> -> ->]|Hin].
           ++ left. subst s1 b. rewrite bool_decide_eq_true_2 by done. cbn.
              by rewrite lookup_insert.
           ++ right. exists v', w'. split_and!; [done| |done]. by apply (Hind n v' w' Hin).
Qed.
