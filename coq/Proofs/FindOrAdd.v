(** * FindOrAdd: specification of [find_or_add] *)
From DD Require Export Sem.

(** ** [_next_free_int] *)
Arguments next_free : simpl never.
Lemma next_free_spec fuel (m : gmap positive triple) i :
  (∀ k, (i <= k)%positive → (k < next_free fuel m i)%positive → is_Some (m !! k)) ∧
  (i <= next_free fuel m i)%positive ∧
  (m !! next_free fuel m i = None ∨ Pos.to_nat (next_free fuel m i) = Pos.to_nat i + fuel).
Proof.
  revert i. induction fuel as [|f IH]; intros i; unfold next_free; fold next_free.
  - split_and!; [intros; lia|lia|right; lia].
  - destruct (decide (is_Some (m !! i))) as [Hi|Hi].
    + destruct (IH (Pos.succ i)) as (H1&H2&H3). split_and!.
      * intros k Hk1 Hk2. destruct (decide (k = i)) as [->|]; [done|].
        apply H1; lia.
      * lia.
      * destruct H3; [by left|right; lia].
    + split_and!; [intros; lia|lia|left]. by apply eq_None_not_Some.
Qed.

(** [n] consecutive keys present means at least [n] entries *)
Lemma consecutive_size (m : gmap positive triple) (i : positive) n :
  (∀ k, (i <= k)%positive → Pos.to_nat k < Pos.to_nat i + n → is_Some (m !! k)) →
  n ≤ size m.
Proof.
  intros H.
  set (X := (list_to_set (Pos.of_nat <$> seq (Pos.to_nat i) n) : gset positive)).
  assert (X ⊆ dom m) as Hsub.
  { intros k Hk. apply elem_of_list_to_set, elem_of_list_fmap in Hk as (j&->&Hj).
    apply elem_of_seq in Hj. apply elem_of_dom. apply H; lia. }
  apply subseteq_size in Hsub. rewrite size_dom in Hsub.
  etrans; [|exact Hsub]. subst X.
  rewrite size_list_to_set.
  - by rewrite fmap_length, seq_length.
  - apply NoDup_fmap_2_strong; [|apply NoDup_seq].
    intros x y Hx Hy E. apply elem_of_seq in Hx, Hy. lia.
Qed.

Lemma next_free_fresh (m : gmap positive triple) i :
  m !! next_free (S (size m)) m i = None ∧
  (i <= next_free (S (size m)) m i)%positive ∧
  ∀ k, (i <= k)%positive → (k < next_free (S (size m)) m i)%positive → is_Some (m !! k).
Proof.
  destruct (next_free_spec (S (size m)) m i) as (H1&H2&H3).
  split_and!; try done. destruct H3 as [|H3]; [done|]. exfalso.
  assert (S (size m) ≤ size m); [|lia].
  apply (consecutive_size m i). intros k Hk1 Hk2. apply H1; lia.
Qed.

(** ** State after adding a node *)
Definition add_node (s : st) (u : positive) (t : triple) : st :=
  let succ' := <[u := t]> (succ s) in
  s <| pred ::= <[t := u]> |> <| succ := succ' |>
    <| refc ::= <[u := 0]> |>
    <| min_free := next_free (S (size succ')) succ' u |>.

Definition bump (u : Z) (s : st) : st := s <| refc ::= alter S (absn u) |>.

(** parts of the state that node creation does not touch *)
Definition frame (s s' : st) : Prop :=
  last_len s' = last_len s ∧ rctx s' = rctx s ∧
  roots s' = roots s ∧ tape s' = tape s ∧ max_nodes s' = max_nodes s.

Global Instance frame_refl : Reflexive frame.
Proof. intros s. by repeat split. Qed.
Global Instance frame_trans : Transitive frame.
Proof. intros s1 s2 s3 (?&?&?&?&?) (?&?&?&?&?). split_and!; congruence. Qed.
Lemma frame_max_nodes s s' : frame s s' → max_nodes s' = max_nodes s.
Proof. by intros (_&_&_&_&?). Qed.

(** ** The two exceptions that a node-creating operation can raise on valid
    arguments: the reordering request (only while requests are enabled) and
    the full table (only when [max_nodes] is bounded) *)
Definition benign (s : st) (e : err) : Prop :=
  (e = ENeedsReordering ∧ is_Some (last_len s)) ∨
  (e = ERuntime ∧ is_Some (max_nodes s)).

Lemma benign_frame s s' e : frame s s' → benign s' e → benign s e.
Proof.
  intros (E1&_&_&_&E2) [[-> H]|[-> H]]; [left|right]; (split; [done|]); congruence.
Qed.
Lemma benign_unbounded s e : max_nodes s = None → benign s e →
  e = ENeedsReordering ∧ is_Some (last_len s).
Proof. intros E [?|[_ [n Hn]]]; [done|congruence]. Qed.
Lemma benign_off s e : last_len s = None → benign s e →
  e = ERuntime ∧ is_Some (max_nodes s).
Proof. intros E [[_ [n Hn]]|?]; [congruence|done]. Qed.
Lemma benign_never s e : last_len s = None → max_nodes s = None → ¬ benign s e.
Proof. intros E1 E2 [[_ [n Hn]]|[_ [n Hn]]]; congruence. Qed.
Lemma benign_rctx s b e : benign (s <| rctx := b |>) e ↔ benign s e.
Proof. done. Qed.

(** [_next_free_int] finds room below [max_nodes] as long as two numbers are
    unused: with [min_free] the least unused number, all of [1 .. n-1] except
    [min_free] would otherwise be nodes *)
Lemma find_or_add_room (m : gmap positive triple) (u : positive) t (n : positive) :
  m !! u = None → (∀ k, (k < u)%positive → is_Some (m !! k)) →
  size m + 2 < Pos.to_nat n →
  (next_free (S (size (<[u := t]> m))) (<[u := t]> m) u < n)%positive.
Proof.
  intros Hu Hbelow Hsz.
  destruct (next_free_fresh (<[u := t]> m) u) as (H1&H2&H3).
  set (f := next_free (S (size (<[u := t]> m))) (<[u := t]> m) u) in *.
  destruct (decide (f < n)%positive) as [|Hge]; [done|]. exfalso.
  assert (Hall : ∀ k, (1 <= k)%positive → Pos.to_nat k < Pos.to_nat 1 + (Pos.to_nat n - 1) →
            is_Some (<[u := t]> m !! k)).
  { intros k _ Hk. destruct (decide (k = u)) as [->|Hne]; [by rewrite lookup_insert|].
    destruct (decide (k < u)%positive).
    - rewrite lookup_insert_ne by done. by apply Hbelow.
    - apply H3; lia. }
  apply consecutive_size in Hall. rewrite map_size_insert_None in Hall by done. lia.
Qed.

Lemma Inv_trig s o : Inv s → Inv (s <| trig := o |>).
Proof. apply Inv_same. by repeat split. Qed.

Lemma Inv_bump s u : Inv s → Inv (bump u s).
Proof. apply Inv_same. repeat split. cbn. apply dom_alter_L. Qed.

Lemma Inv_add_node s i v w :
  Inv s → valid s v → valid s w → (0 < w)%Z → v ≠ w →
  i < lvl_of s v → i < lvl_of s w → pred s !! Triple i v w = None →
  let s' := add_node s (min_free s) (Triple i v w) in
  Inv s' ∧ extends s s' ∧
  succ s' !! min_free s = Some (Triple i v w).
Proof.
  intros HI Hv Hw Hwp Hne Hlv Hlw Hpred s'.
  set (u := min_free s) in *. set (t := Triple i v w) in *.
  destruct (inv_free _ HI) as [Hfree Hbelow]. fold u in Hfree.
  assert (Hu1 : u ≠ 1%positive).
  { intros E. rewrite E, (inv_term _ HI) in Hfree. done. }
  assert (Hext : extends s s').
  { split_and!; try done. cbn. by apply insert_subseteq. }
  assert (Hnv : nvars s' = nvars s) by done.
  assert (Hi : i < nvars s) by (pose proof (lvl_le s HI v Hv); lia).
  split_and!; [|done|by apply lookup_insert].
  split.
  - cbn. rewrite lookup_insert_ne by done. apply HI.
  - intros n t' Hn Hn1. cbn in Hn. rewrite Hnv.
    destruct (decide (n = u)) as [->|Hnu].
    + rewrite lookup_insert in Hn. simplify_eq. cbn.
      rewrite !(lvl_extends s s') by done.
      split_and!; try done; by eapply valid_extends.
    + rewrite lookup_insert_ne in Hn by done.
      destruct (inv_node _ HI _ _ Hn Hn1) as (?&?&?&?&?&?&?).
      rewrite !(lvl_extends s s') by done.
      split_and!; try done; by eapply valid_extends.
  - intros n t'. cbn.
    destruct (decide (n = u)) as [->|Hnu]; destruct (decide (t' = t)) as [->|Htt].
    + by rewrite !lookup_insert.
    + rewrite lookup_insert, lookup_insert_ne by done. split; [congruence|].
      intros Hp. apply (inv_pred _ HI) in Hp. congruence.
    + rewrite lookup_insert_ne, lookup_insert by done. split; [|congruence].
      intros Hs. apply (inv_pred _ HI) in Hs. congruence.
    + rewrite !lookup_insert_ne by done. apply HI.
  - cbn. destruct (next_free_fresh (<[u:=t]> (succ s)) u) as (H1&H2&H3).
    split; [done|]. intros k Hk.
    destruct (decide (k < u)%positive).
    + rewrite lookup_insert_ne by lia. by apply Hbelow.
    + apply H3; lia.
  - cbn. rewrite !dom_insert_L. by rewrite (inv_ref _ HI).
  - intros g a b c Hite. cbn in Hite.
    destruct (inv_ite _ HI _ _ _ _ Hite) as (?&?&?&?&?&HD).
    rewrite !(lvl_extends s s') by done.
    split_and!; try done; try by eapply valid_extends.
    intros x. rewrite !(D_extends s s') by done. apply HD.
  - apply HI.
  - rewrite Hnv. apply HI.
Qed.

(** ** [_request_reordering] only ever touches the trigger counter *)
Lemma request_reordering_spec s r s' :
  request_reordering s = (r, s') →
  same_tables s s' ∧ frame s s' ∧
  (r = Ok tt ∨ (r = Err ENeedsReordering ∧ is_Some (last_len s))).
Proof.
  unfold request_reordering. intros H.
  destruct (last_len s) as [l|] eqn:Hl.
  - destruct (trig s) as [[|[|k]]|] eqn:Ht; try case_decide; simplify_eq;
      (split_and!; [by repeat split|by repeat split|eauto]).
  - simplify_eq. split_and!; [by repeat split|by repeat split|eauto].
Qed.

Lemma incref_ok s u : Inv s → valid s u → incref u s = (Ok tt, bump u s).
Proof.
  intros HI [Hu0 Hs]. unfold incref, bind, getref.
  rewrite decide_False by done.
  apply elem_of_dom in Hs. rewrite <- (inv_ref _ HI) in Hs.
  apply elem_of_dom in Hs as [n Hn]. by rewrite Hn.
Qed.

Lemma frame_same s s' : frame s s' → last_len s' = last_len s.
Proof. by intros (?&_). Qed.

Theorem find_or_add_spec s i v w r s' :
  Inv s → valid s v → valid s w → i < lvl_of s v → i < lvl_of s w →
  find_or_add i v w s = (r, s') →
  Inv s' ∧ extends s s' ∧ frame s s' ∧
  match r with
  | Ok u => valid s' u ∧ i ≤ lvl_of s' u ∧
            ∀ a, D s' u a = if a i then D s w a else D s v a
  | Err e => benign s e ∧ succ s' = succ s
  end.
Proof.
  intros HI Hv Hw Hlv Hlw. unfold find_or_add. unfold bind at 1.
  destruct (request_reordering s) as [[[]|e] s1] eqn:Hrr;
    apply request_reordering_spec in Hrr as (Hsame&Hfr&Hr).
  2:{ intros ?; simplify_eq. destruct Hr as [|[[= ->] ?]]; [done|].
      pose proof Hsame as (E1&E2&E3&E4&E5&E6&E7).
      split_and!; try done.
      - by eapply Inv_same.
      - split_and!; by rewrite ?E1, ?E6, ?E7.
      - by left. }
  assert (HI1 : Inv s1) by (by eapply Inv_same).
  assert (Hext1 : extends s s1).
  { destruct Hsame as (E1&?&?&?&?&E6&E7). split_and!; by rewrite ?E1, ?E6, ?E7. }
  clear Hr.
  assert (Hv1 : valid s1 v) by (by eapply valid_extends).
  assert (Hw1 : valid s1 w) by (by eapply valid_extends).
  rewrite <- (lvl_extends s s1) in Hlv, Hlw by done.
  assert (HD1 : ∀ x a, valid s x → D s x a = D s1 x a)
    by (intros; symmetry; by apply D_extends).
  assert (Hgoal : ∀ r s', 
     (Inv s' ∧ extends s1 s' ∧ frame s1 s' ∧
      match r with
      | Ok u => valid s' u ∧ i ≤ lvl_of s' u ∧
                ∀ a, D s' u a = if a i then D s1 w a else D s1 v a
      | Err e => e = ERuntime ∧ is_Some (max_nodes s1) ∧ s' = s1
      end) →
     Inv s' ∧ extends s s' ∧ frame s s' ∧
     match r with
     | Ok u => valid s' u ∧ i ≤ lvl_of s' u ∧
               ∀ a, D s' u a = if a i then D s w a else D s v a
     | Err e => benign s e ∧ succ s' = succ s
     end).
  { intros r0 s0 (?&?&?&Hm). split_and!; [done|by etrans|by etrans|].
    destruct r0.
    - destruct Hm as (?&?&HD). split_and!; try done.
      intros b. rewrite HD. by rewrite !HD1.
    - destruct Hm as (->&Hmx&->). split; [|apply Hsame].
      right. split; [done|]. by rewrite <- (frame_max_nodes _ _ Hfr). }
  intros Hrun. apply Hgoal. clear Hgoal HD1 Hext1 Hfr Hsame Hv Hw HI.
  revert Hrun. cbn [bind get].
  assert (Hi : i < nvars s1) by (pose proof (lvl_le s1 HI1 v Hv1); lia).
  rewrite decide_False by lia.
  rewrite (proj2 (mem_valid s1 v) Hv1), (proj2 (mem_valid s1 w) Hw1). cbn [negb].
  set (σ := if decide (w < 0)%Z then (-1)%Z else 1%Z).
  assert (Hσ : ((σ = 1 ∧ 0 < w) ∨ (σ = -1 ∧ w < 0))%Z).
  { subst σ. destruct Hw1. case_decide; lia. }
  assert (Hv' : valid s1 (σ * v)%Z ∧ lvl_of s1 (σ * v)%Z = lvl_of s1 v ∧
                ∀ a, D s1 (σ * v)%Z a = xorb (bool_decide (σ = -1)%Z) (D s1 v a)).
  { destruct Hσ as [[-> ?]|[-> ?]].
    - rewrite Z.mul_1_l. split_and!; try done. intros. by destruct (D s1 v a).
    - replace (-1 * v)%Z with (- v)%Z by lia. split_and!;
        [by apply valid_neg|by rewrite lvl_neg|intros; by rewrite D_neg]. }
  assert (Hw' : valid s1 (σ * w)%Z ∧ lvl_of s1 (σ * w)%Z = lvl_of s1 w ∧ (0 < σ * w)%Z ∧
                ∀ a, D s1 (σ * w)%Z a = xorb (bool_decide (σ = -1)%Z) (D s1 w a)).
  { destruct Hσ as [[-> ?]|[-> ?]].
    - rewrite Z.mul_1_l. split_and!; try done. intros. by destruct (D s1 w a).
    - replace (-1 * w)%Z with (- w)%Z by lia. split_and!;
        [by apply valid_neg|by rewrite lvl_neg|lia|intros; by rewrite D_neg]. }
  destruct Hv' as (Hvv&Hvl&HvD), Hw' as (Hwv&Hwl&Hwp&HwD).
  set (v' := (σ * v)%Z) in *. set (w' := (σ * w)%Z) in *.
  (* the result is [σ * x] for a valid [x] that denotes the node (i, v', w') *)
  assert (Hfin : ∀ s2 x, Inv s2 → extends s1 s2 → valid s2 x → i ≤ lvl_of s2 x →
            (∀ a, D s2 x a = if a i then D s1 w' a else D s1 v' a) →
            valid s2 (σ * x)%Z ∧ i ≤ lvl_of s2 (σ * x)%Z ∧
            ∀ a, D s2 (σ * x)%Z a = if a i then D s1 w a else D s1 v a).
  { intros s2 x HI2 He2 Hx Hlx HDx. destruct Hσ as [[Eσ ?]|[Eσ ?]]; rewrite Eσ in *.
    - rewrite Z.mul_1_l. split_and!; try done. intros a. rewrite HDx, HvD, HwD.
      case_bool_decide; [lia|]. by destruct (a i), (D s1 w a), (D s1 v a).
    - replace (-1 * x)%Z with (- x)%Z by lia.
      split_and!; [by apply valid_neg|by rewrite lvl_neg|].
      intros a. rewrite D_neg, HDx, HvD, HwD by done.
      case_bool_decide; [|lia]. by destruct (a i), (D s1 w a), (D s1 v a). }
  destruct (decide (v' = w')) as [Evw|Hne].
  { intros [= <- <-]. split; [done|split; [reflexivity|split; [reflexivity|]]].
    apply (Hfin s1 v' HI1 (reflexivity _) Hvv); [lia|].
    intros a. rewrite Evw. by destruct (a i). }
  destruct (pred s1 !! Triple i v' w') as [u|] eqn:Hp.
  { intros [= <- <-]. split; [done|split; [reflexivity|split; [reflexivity|]]].
    apply (inv_pred _ HI1) in Hp.
    assert (Hu1 : u ≠ 1%positive).
    { intros ->. rewrite (inv_term _ HI1) in Hp. injection Hp as _ _ E. lia. }
    assert (Hvu : valid s1 (Z.pos u)) by (split; [done|]; rewrite absn_pos; by eexists).
    apply (Hfin s1 (Z.pos u) HI1 (reflexivity _) Hvu).
    - unfold lvl_of. rewrite absn_pos, Hp. done.
    - intros a. rewrite (D_step s1 HI1 (Z.pos u) a _ Hvu Hp) by done.
      rewrite bool_decide_eq_false_2 by lia. cbn [t_lvl t_lo t_hi]. rewrite xorb_false_l.
      by destruct (a i). }
  destruct (Inv_add_node s1 i v' w' HI1 Hvv Hwv Hwp Hne ltac:(lia) ltac:(lia) Hp)
    as (HI2&He2&Hnew).
  set (u := min_free s1) in *. set (s2 := add_node s1 u (Triple i v' w')) in *.
  assert (Hu1 : (1 < u)%positive).
  { destruct (inv_free _ HI1) as [Hf Hb]. fold u in Hf.
    destruct (decide (u = 1%positive)) as [E|]; [|lia].
    rewrite E, (inv_term _ HI1) in Hf. done. }
  destruct (inv_free _ HI1) as [Hf _]. fold u in Hf.
  unfold assert. rewrite !bool_decide_eq_true_2 by done. cbn [bind ret modify].
  destruct (fits (max_nodes s1) _) eqn:Hfit; cbn [ensure bind ret raise]; cycle 1.
  { intros [= <- <-]. split; [done|split; [reflexivity|split; [reflexivity|]]].
    split; [done|split; [|done]]. unfold fits in Hfit. by destruct (max_nodes s1). }
  cbn [bind modify].
  change (s1 <| pred ::= <[Triple i v' w' := u]> |> <| succ := <[u := Triple i v' w']> (succ s1) |>
             <| refc ::= <[u := 0]> |>
             <| min_free := next_free (S (size (<[u := Triple i v' w']> (succ s1))))
                             (<[u := Triple i v' w']> (succ s1)) u |>) with s2.
  assert (Hvv2 : valid s2 v') by (by eapply valid_extends).
  assert (Hwv2 : valid s2 w') by (by eapply valid_extends).
  unfold bind at 1. rewrite (incref_ok s2 v' HI2 Hvv2).
  assert (HI3 : Inv (bump v' s2)) by (by apply Inv_bump).
  unfold bind at 1. rewrite (incref_ok (bump v' s2) w' HI3 Hwv2). unfold ret.
  intros [= <- <-].
  assert (HI4 : Inv (bump w' (bump v' s2))) by (by apply Inv_bump).
  assert (He4 : extends s1 (bump w' (bump v' s2))) by done.
  split; [done|split; [done|split; [by repeat split|]]].
  assert (Hvu : valid (bump w' (bump v' s2)) (Z.pos u))
    by (split; [done|]; rewrite absn_pos; by eexists).
  apply (Hfin _ (Z.pos u)); try done.
  - unfold lvl_of. rewrite absn_pos.
    change (succ (bump w' (bump v' s2))) with (succ s2). by rewrite Hnew.
  - intros a. rewrite (D_step _ HI4 (Z.pos u) a (Triple i v' w') Hvu Hnew) by (rewrite absn_pos; lia).
    rewrite bool_decide_eq_false_2 by lia. cbn [t_lvl t_lo t_hi]. rewrite xorb_false_l.
    rewrite !(D_extends s1 (bump w' (bump v' s2))) by done. by destruct (a i).
Qed.
