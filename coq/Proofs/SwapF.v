(** * SwapF: the state after the exchange of the two variables is a
      well-formed manager, and every old reference denotes the same function
      by variable name *)
From DD Require Export SwapE.

Definition swap_vars (s : st) (x vx vy : nat) : st :=
  s <| vars ::= <[vx := x + 1]> |> <| vars ::= <[vy := x]> |>
    <| lvl2var ::= <[x + 1 := vx]> |> <| lvl2var ::= <[x := vy]> |>
    <| ite_tab := ∅ |>.

(** the transposition of levels [x] and [x+1] *)
Definition tr (x l : nat) : nat :=
  if decide (l = x) then x + 1 else if decide (l = x + 1) then x else l.

Section final.
Context (s0 : st) (HI : Inv s0) (x : nat) (Hy : x + 1 < nvars s0).
Context (vx vy : nat) (Hvx : lvl2var s0 !! x = Some vx)
        (Hvy : lvl2var s0 !! (x + 1) = Some vy).

Lemma vxy_ne : vx ≠ vy.
Proof.
  intros E. apply (inv_vars _ HI) in Hvx, Hvy. rewrite E in Hvx. rewrite Hvx in Hvy.
  injection Hvy. lia.
Qed.

Lemma swap_vars_nvars s : vars s = vars s0 → nvars (swap_vars s x vx vy) = nvars s0.
Proof.
  intros E. unfold nvars. cbn. rewrite E.
  rewrite !map_size_insert_Some; [done| |].
  - apply (inv_vars _ HI) in Hvx. eauto.
  - rewrite lookup_insert_ne by apply vxy_ne. apply (inv_vars _ HI) in Hvy. eauto.
Qed.

Lemma swap_vars_vars s v l : vars s = vars s0 → vars s0 !! v = Some l →
  vars (swap_vars s x vx vy) !! v = Some (tr x l).
Proof.
  intros E Hv. cbn. rewrite E. unfold tr.
  pose proof vxy_ne as Hne.
  pose proof (proj2 (inv_vars _ HI _ _) Hvx) as Hx.
  pose proof (proj2 (inv_vars _ HI _ _) Hvy) as Hy'.
  destruct (decide (v = vy)) as [->|Hn1].
  { rewrite lookup_insert. rewrite Hy' in Hv. injection Hv as <-.
    rewrite decide_False by lia. by rewrite decide_True. }
  rewrite lookup_insert_ne by done.
  destruct (decide (v = vx)) as [->|Hn2].
  { rewrite lookup_insert. rewrite Hx in Hv. injection Hv as <-. by rewrite decide_True. }
  rewrite lookup_insert_ne by done. rewrite Hv. f_equal.
  rewrite !decide_False; [done|..].
  - intros ->. apply (inv_vars _ HI) in Hv. congruence.
  - intros ->. apply (inv_vars _ HI) in Hv. congruence.
Qed.

Lemma swap_vars_l2v s l : lvl2var s = lvl2var s0 →
  lvl2var (swap_vars s x vx vy) !! l = lvl2var s0 !! tr x l.
Proof.
  intros E. cbn. rewrite E. unfold tr.
  destruct (decide (l = x)) as [->|Hn1]; [by rewrite lookup_insert|].
  rewrite lookup_insert_ne by done.
  destruct (decide (l = x + 1)) as [->|Hn2]; [by rewrite lookup_insert|].
  by rewrite lookup_insert_ne.
Qed.

Lemma tr_tr l : tr x (tr x l) = l.
Proof. unfold tr. repeat case_decide; lia. Qed.
Lemma tr_lt l : tr x l < nvars s0 ↔ l < nvars s0.
Proof. unfold tr. repeat case_decide; lia. Qed.

Lemma Inv_final s : Mid s0 x s ∅ → Inv (swap_vars s x vx vy).
Proof.
  intros HM. set (s' := swap_vars s x vx vy).
  assert (Hnv : nvars s' = nvars s0) by (apply swap_vars_nvars, HM).
  split.
  - rewrite Hnv. apply HM.
  - intros n t Hn Hn1. rewrite Hnv, <- (Mid_nvars _ _ _ _ HM).
    apply (m_node _ _ _ _ HM n t Hn Hn1). set_solver.
  - intros n t. change (pred s') with (pred s). change (succ s') with (succ s).
    rewrite (m_pred _ _ _ _ HM). split; [|tauto]. intros H. split; [done|set_solver].
  - apply HM.
  - apply HM.
  - intros g u v w Hi. cbn in Hi. by rewrite lookup_empty in Hi.
  - intros v l. unfold s'. rewrite (swap_vars_l2v s l (m_l2v _ _ _ _ HM)). split.
    + intros Hv. destruct (vars s0 !! v) as [l0|] eqn:H0.
      * rewrite (swap_vars_vars s v l0 (m_vars _ _ _ _ HM) H0) in Hv. injection Hv as <-.
        rewrite tr_tr. by apply (inv_vars _ HI).
      * exfalso. cbn in Hv. rewrite (m_vars _ _ _ _ HM) in Hv.
        pose proof (proj2 (inv_vars _ HI _ _) Hvx). pose proof (proj2 (inv_vars _ HI _ _) Hvy).
        rewrite !lookup_insert_ne in Hv by congruence. congruence.
    + intros Hl. apply (inv_vars _ HI) in Hl.
      rewrite (swap_vars_vars s v _ (m_vars _ _ _ _ HM) Hl). by rewrite tr_tr.
  - intros l. rewrite Hnv. unfold s'. rewrite (swap_vars_l2v s l (m_l2v _ _ _ _ HM)).
    rewrite <- (inv_lvls _ HI). symmetry. apply tr_lt.
Qed.
End final.

Lemma tr_x x : tr x x = x + 1.
Proof. unfold tr. by rewrite decide_True. Qed.
Lemma tr_y x : tr x (x + 1) = x.
Proof. unfold tr. rewrite decide_False by lia. by rewrite decide_True. Qed.
Lemma tr_other x l : l ≠ x → l ≠ x + 1 → tr x l = l.
Proof. intros. unfold tr. by rewrite !decide_False. Qed.

Lemma D_sgn s w z b : Inv s → valid s z →
  D s (sgn w * z) b = xorb (bool_decide (sgn w = -1)%Z) (D s z b).
Proof.
  intros HI Hz. destruct (sgn_cases w) as [->| ->].
  - rewrite Z.mul_1_l. by destruct (D s z b).
  - replace (-1 * z)%Z with (- z)%Z by lia. by rewrite D_neg.
Qed.

Lemma foa_res_D s i v w p : Inv s → foa_res s i v w p → valid s v → valid s w →
  ∀ b, D s p b = if b i then D s w b else D s v b.
Proof.
  intros HI [[E ->]|[Hne (n&Hn&->)]] Hv Hw b.
  - apply sgn_inj in E. subst. by destruct (b i).
  - assert (Hn1 : n ≠ 1%positive).
    { intros ->. rewrite (inv_term _ HI) in Hn. injection Hn as _ E _.
      destruct Hv as [Hv0 _]. destruct (sgn_cases w) as [E'|E']; rewrite E' in E; lia. }
    assert (Hvn : valid s (Z.pos n)) by (split; [done|]; rewrite absn_pos; eauto).
    rewrite D_sgn by done.
    rewrite (D_step s HI (Z.pos n) b _ Hvn Hn Hn1). cbn [t_lvl t_lo t_hi].
    rewrite (bool_decide_eq_false_2 (Z.pos n < 0)%Z) by lia. rewrite xorb_false_l.
    rewrite !D_sgn by done.
    by destruct (b i), (bool_decide (sgn w = -1)%Z), (D s w b), (D s v b).
Qed.

Section sem.
Context (s0 : st) (HI : Inv s0) (x : nat) (Hy : x + 1 < nvars s0).
Context (vx vy : nat) (Hvx : lvl2var s0 !! x = Some vx)
        (Hvy : lvl2var s0 !! (x + 1) = Some vy).

Theorem swap_sem s : Mid s0 x s ∅ →
  ∀ u, valid s0 u → ∀ b, D (swap_vars s x vx vy) u b = D s0 u (fun l => b (tr x l)).
Proof.
  intros HM. set (s' := swap_vars s x vx vy).
  pose proof (Inv_final s0 HI x Hy vx vy Hvx Hvy s HM) as HI'. fold s' in HI'.
  assert (Hdom : ∀ z, valid s0 z → valid s' z).
  { intros z [Hz0 Hz]. split; [done|]. by apply (Mid_dom s0 x s ∅). }
  intros u. remember (nvars s0 - lvl_of s0 u) as k eqn:Hk. revert u Hk.
  induction (lt_wf k) as [k _ IH]. intros u Hk Hv b.
  assert (IH' : ∀ z, valid s0 z → lvl_of s0 u < lvl_of s0 z →
            D s' z b = D s0 z (λ l, b (tr x l))).
  { intros z Hz Hl. apply (IH (nvars s0 - lvl_of s0 z)); try done.
    pose proof (lvl_le s0 HI z Hz). pose proof (lvl_le s0 HI u Hv).
    assert (lvl_of s0 u < nvars s0) by lia. lia. }
  destruct (node_cases s0 HI u Hv) as [[E _]|(t0&H0&Hn1&Hlo&Hl&Hln&Hvl&Hvh&Hhp&Hll&Hlh&Hne)].
  { by rewrite (D_term s' HI' u b E), (D_term s0 HI u _ E). }
  rewrite Hl in IH'.
  destruct (m_old _ _ _ _ HM _ t0 H0 ltac:(set_solver)) as (t&Ht&Himg).
  change (succ s) with (succ s') in Ht.
  rewrite (D_step s' HI' u b t (Hdom u Hv) Ht Hn1).
  rewrite (D_step s0 HI u _ t0 Hv H0 Hn1). f_equal.
  unfold mid_img in Himg. case_decide as E1.
  - (* an old y-node, now at level x *)
    subst t. cbn [t_lvl t_lo t_hi]. rewrite E1, tr_y.
    rewrite (IH' _ Hvl) by lia. rewrite (IH' _ Hvh) by lia. done.
  - case_decide as E2; cycle 1.
    { subst t. rewrite (tr_other x (t_lvl t0)) by done.
      rewrite (IH' _ Hvl) by lia. rewrite (IH' _ Hvh) by lia. done. }
    case_decide as E3.
    + (* an independent x-node, now at level x+1 *)
      subst t. cbn [t_lvl t_lo t_hi]. rewrite E2, tr_x.
      rewrite (IH' _ Hvl) by lia. rewrite (IH' _ Hvh) by lia. done.
    + (* a dependent x-node, rewritten in place *)
      destruct Himg as (p&q&->&Hp&Hq). cbn [t_lvl t_lo t_hi]. rewrite E2, tr_x.
      destruct (cofs_spec s0 HI (x + 1) Hy _ Hvl ltac:(lia)) as (Hv0&Hv1&Lv0&Lv1&_&_&_&Dv).
      destruct (cofs_spec s0 HI (x + 1) Hy _ Hvh ltac:(lia)) as (Hw0&Hw1&Lw0&Lw1&_&_&_&Dw).
      assert (Hp' : foa_res s' (x + 1) (cofs s0 (x + 1) (t_lo t0)).1
                      (cofs s0 (x + 1) (t_hi t0)).1 p) by exact Hp.
      assert (Hq' : foa_res s' (x + 1) (cofs s0 (x + 1) (t_lo t0)).2
                      (cofs s0 (x + 1) (t_hi t0)).2 q) by exact Hq.
      rewrite (foa_res_D s' _ _ _ _ HI' Hp' (Hdom _ Hv0) (Hdom _ Hw0) b).
      rewrite (foa_res_D s' _ _ _ _ HI' Hq' (Hdom _ Hv1) (Hdom _ Hw1) b).
      rewrite (IH' _ Hv0), (IH' _ Hv1), (IH' _ Hw0), (IH' _ Hw1) by lia.
      rewrite Dv, Dw. rewrite tr_y.
      by destruct (b x), (b (x + 1)).
Qed.
End sem.
