(** * Cofactor: [_cofactor]/[cofactor] substitute constants for levels, and
      [_compose] substitutes a function for one level (C04). *)
From DD Require Export LevelKeys.

(** the assignment [a] overridden by the constants of [values] (levels -> bool) *)
Definition override (values : gmap nat bool) (a : nat → bool) : nat → bool :=
  fun j => match values !! j with Some b => b | None => a j end.

(** ** lists: [drop_while], [skip_below], [sorted_levels] *)
Lemma drop_while_nil {A} (p : A → bool) l :
  drop_while p l = [] → ∀ x, x ∈ l → p x = true.
Proof.
  induction l as [|y l IH]; cbn [drop_while]; intros H x Hx.
  - by apply elem_of_nil in Hx.
  - destruct (p y) eqn:E; [|done].
    apply elem_of_cons in Hx as [->|Hx]; [done|by apply IH].
Qed.

Lemma elem_of_drop_while {A} (p : A → bool) l x :
  x ∈ l → p x = false → x ∈ drop_while p l.
Proof.
  induction l as [|y l IH]; cbn [drop_while]; intros Hx Hp; [done|].
  destruct (p y) eqn:E; [|done].
  apply elem_of_cons in Hx as [->|Hx]; [congruence|by apply IH].
Qed.

Lemma skip_below_nil i ord : skip_below i ord = [] → ∀ k, k ∈ ord → k < i.
Proof.
  intros H k Hk. unfold skip_below in H.
  pose proof (drop_while_nil _ _ H k Hk) as Hp. cbv beta in Hp.
  by apply bool_decide_eq_true in Hp.
Qed.

Lemma skip_below_elem i ord k : k ∈ ord → i ≤ k → k ∈ skip_below i ord.
Proof.
  intros Hk Hi. unfold skip_below. apply elem_of_drop_while; [done|].
  apply bool_decide_eq_false. lia.
Qed.

Lemma elem_of_sorted_levels (X : gset nat) k : k ∈ sorted_levels X ↔ k ∈ X.
Proof.
  unfold sorted_levels. rewrite merge_sort_Permutation. apply elem_of_elements.
Qed.

(** the list really is sorted (not needed for correctness: see [ord_ok]) *)
Lemma sorted_levels_sorted (X : gset nat) : Sorted le (sorted_levels X).
Proof. unfold sorted_levels. apply (Sorted_merge_sort le). Qed.

(** ** [flip] *)
Lemma valid_flip s r u : valid s r → valid s (flip r u).
Proof. intros. unfold flip. case_decide; [by apply valid_neg|done]. Qed.
Lemma lvl_flip s r u : lvl_of s (flip r u) = lvl_of s r.
Proof. unfold flip. case_decide; [by rewrite lvl_neg|done]. Qed.

(** ** the invariants of the recursion *)

(** [ord] still lists every level of [dom values] that [u] can depend on.
    (The model passes the sorted list of [dom values] minus a prefix of levels
    below the level of [u]; nothing more than this consequence is needed.) *)
Definition ord_ok (s : st) (u : Z) (ord : list nat) (values : gmap nat bool) : Prop :=
  ∀ k, is_Some (values !! k) → lvl_of s u ≤ k → k ∈ ord.

Definition cache_ok (s : st) (values : gmap nat bool) (cache : gmap Z Z) : Prop :=
  ∀ k x, cache !! k = Some x →
    valid s k ∧ valid s x ∧ lvl_of s k ≤ lvl_of s x ∧
    ∀ a, D s x a = D s k (override values a).

Lemma cache_ok_empty s values : cache_ok s values ∅.
Proof. intros k x Hk. by rewrite lookup_empty in Hk. Qed.

Lemma cache_ok_extends s s' values cache :
  Inv s → extends s s' → cache_ok s values cache → cache_ok s' values cache.
Proof.
  intros HI He Hc k x Hk. destruct (Hc k x Hk) as (Hvk&Hvx&Hl&HD).
  rewrite (lvl_extends s s' k), (lvl_extends s s' x) by done.
  split_and!; [by apply (valid_extends s s')..|done|].
  intros a. rewrite (D_extends s s' x), (D_extends s s' k) by done. apply HD.
Qed.

Lemma cache_ok_insert s values cache k x :
  cache_ok s values cache → valid s k → valid s x → lvl_of s k ≤ lvl_of s x →
  (∀ a, D s x a = D s k (override values a)) →
  cache_ok s values (<[k := x]> cache).
Proof.
  intros Hc Hk Hx Hl HD k' x' Hk'.
  destruct (decide (k' = k)) as [->|Hne].
  - rewrite lookup_insert in Hk'. by simplify_eq.
  - rewrite lookup_insert_ne in Hk' by done. by apply Hc.
Qed.

Lemma ord_ok_child s s' u c ord values :
  ord_ok s u ord values → lvl_of s u ≤ lvl_of s' c →
  ord_ok s' c (skip_below (lvl_of s u) ord) values.
Proof.
  intros H Hl k Hk Hck. apply skip_below_elem; [|lia]. apply H; [done|lia].
Qed.

Lemma frame_last_len s s' : frame s s' → is_Some (last_len s') → is_Some (last_len s).
Proof. intros (E&_). by rewrite E. Qed.

Lemma bind_assoc {S A B C} (m : M S A) (f : A → M S B) (g : B → M S C) s :
  bind (bind m f) g s = bind m (fun a => bind (f a) g) s.
Proof. unfold bind. by destruct (m s) as [[a|e] s1]. Qed.

(** ** [_cofactor] *)
Lemma cofactor_rec_aux fuel : ∀ s u ord values cache r s',
  Inv s → valid s u →
  ord_ok s u ord values →
  cache_ok s values cache →
  nvars s - lvl_of s u < fuel →
  cofactor_rec fuel u ord values cache s = (r, s') →
  Inv s' ∧ extends s s' ∧ frame s s' ∧
  match r with
  | Ok (x, cache') => valid s' x ∧ lvl_of s u ≤ lvl_of s' x ∧ cache_ok s' values cache' ∧
        ∀ a, D s' x a = D s u (override values a)
  | Err e => benign s e
  end.
Proof.
  induction fuel as [|f IH]; intros s u ord values cache r s' HI Hu Hord Hc Hfuel; [lia|].
  cbn [cofactor_rec].
  destruct (decide (absn u = 1%positive ∧ u ≠ 0%Z)) as [[E1 _]|Hnt].
  { intros [= <- <-]. split; [done|split; [reflexivity|split; [reflexivity|]]].
    split_and!; [done|done|done|]. intros a. by rewrite !D_term. }
  destruct (cache !! u) as [x|] eqn:Hcu.
  { intros [= <- <-]. split; [done|split; [reflexivity|split; [reflexivity|]]].
    destruct (Hc _ _ Hcu) as (?&?&?&?). by split_and!. }
  destruct (node_cases s HI u Hu) as [[E El]|(t&Ht&Hn1&Hlo&Hl&Hln&Hvl&Hvh&Hhp&Hll&Hlh&Hne)].
  { exfalso. apply Hnt. split; [done|apply Hu]. }
  rewrite (bind_ok _ _ _ _ _ (getsuccZ_ok s u t (proj1 Hu) Ht)).
  unfold is_term, assert. rewrite bool_decide_eq_false_2 by done. cbn [negb].
  rewrite (bind_ok _ _ s tt s) by done.
  rewrite <- Hl in Hll, Hlh.
  (* what the node denotes under the overridden assignment *)
  assert (HDu : ∀ a, D s u (override values a) =
            xorb (bool_decide (u < 0)%Z)
              (if override values a (t_lvl t) then D s (t_hi t) (override values a)
               else D s (t_lo t) (override values a))).
  { intros a. by apply D_step. }
  destruct (skip_below (t_lvl t) ord) as [|n ord'] eqn:Hsk.
  { (* exhausted valuation *)
    intros [= <- <-]. split; [done|split; [reflexivity|split; [reflexivity|]]].
    split_and!; [done|done|done|]. intros a. apply D_indep; [done..|].
    intros j Hj. unfold override. destruct (values !! j) as [b|] eqn:Hvj; [|done].
    exfalso. pose proof (skip_below_nil _ _ Hsk j (Hord j ltac:(by eexists) Hj)). lia. }
  assert (Hord' : ∀ s1 c, lvl_of s u ≤ lvl_of s1 c → ord_ok s1 c (n :: ord') values).
  { intros s1 c Hl1. rewrite <- Hsk, <- Hl. by apply (ord_ok_child s s1 u). }
  cbv iota. clear Hsk. set (ord1 := n :: ord') in *. clearbody ord1. clear n ord'.
  destruct (values !! t_lvl t) as [val|] eqn:Hval.
  - (* the level is assigned: follow one child *)
    set (c := if val then t_hi t else t_lo t).
    assert (Hvc : valid s c) by (subst c; by destruct val).
    assert (Hlc : lvl_of s u < lvl_of s c) by (subst c; by destruct val).
    destruct (cofactor_rec f c ord1 values cache s) as [rp s1] eqn:Ep.
    pose proof Ep as Ep'.
    apply IH in Ep' as (HI1&He1&Hf1&Hp); [|done|done|apply Hord'; lia|done|lia].
    destruct rp as [[x c1]|e]; cycle 1.
    { rewrite (bind_err _ _ _ _ _ Ep). intros [= <- <-].
      by split_and!. }
    rewrite (bind_ok _ _ _ _ _ Ep). intros [= <- <-].
    destruct Hp as (Hxv&Hxl&Hc1&HxD).
    assert (HDr : ∀ a, D s1 (flip x u) a = D s u (override values a)).
    { intros a. rewrite D_flip, HxD, HDu by done. f_equal.
      unfold override at 2. rewrite Hval. subst c. by destruct val. }
    split; [done|split; [done|split; [done|]]].
    split_and!.
    + by apply valid_flip.
    + rewrite lvl_flip. lia.
    + apply cache_ok_insert; [done|by apply (valid_extends s s1)|by apply valid_flip| |].
      * rewrite lvl_flip, (lvl_extends s s1 u) by done. lia.
      * intros a. rewrite (D_extends s s1 u) by done. apply HDr.
    + done.
  - (* the level is free: both children, then the node *)
    rewrite bind_assoc.
    destruct (cofactor_rec f (t_lo t) ord1 values cache s) as [rp s1] eqn:Ep.
    pose proof Ep as Ep'.
    apply IH in Ep' as (HI1&He1&Hf1&Hp); [|done|done|apply Hord'; lia|done|lia].
    destruct rp as [[p c1]|e]; cycle 1.
    { rewrite (bind_err _ _ _ _ _ Ep). intros [= <- <-].
      by split_and!. }
    rewrite (bind_ok _ _ _ _ _ Ep). cbv beta iota. rewrite bind_assoc.
    destruct Hp as (Hpv&Hpl&Hc1&HpD).
    assert (Hnv1 : nvars s1 = nvars s) by (by apply extends_nvars).
    destruct (cofactor_rec f (t_hi t) ord1 values c1 s1) as [rq s2] eqn:Eq.
    pose proof Eq as Eq'.
    apply IH in Eq' as (HI2&He2&Hf2&Hq);
      [|done|by apply (valid_extends s s1)
       |apply Hord'; rewrite (lvl_extends s s1) by done; lia|done
       |rewrite Hnv1, (lvl_extends s s1) by done; lia].
    destruct rq as [[q c2]|e]; cycle 1.
    { rewrite (bind_err _ _ _ _ _ Eq). intros [= <- <-].
      split_and!; [done|by etrans|by etrans|]. apply (benign_frame s s1); [done|apply Hq]. }
    rewrite (bind_ok _ _ _ _ _ Eq). cbv beta iota. rewrite bind_assoc.
    destruct Hq as (Hqv&Hql&Hc2&HqD).
    rewrite (lvl_extends s s1 (t_hi t)) in Hql by done.
    assert (He02 : extends s s2) by (by etrans).
    destruct (find_or_add (t_lvl t) p q s2) as [rw s3] eqn:Ew.
    assert (Hpv2 : valid s2 p) by (by apply (valid_extends s1 s2)).
    assert (Hpl2 : t_lvl t < lvl_of s2 p) by (rewrite (lvl_extends s1 s2) by done; lia).
    assert (Hql2 : t_lvl t < lvl_of s2 q) by lia.
    pose proof Ew as Ew'.
    apply find_or_add_spec in Ew' as (HI3&He3&Hf3&Hw); [|done..].
    destruct rw as [w|e]; cycle 1.
    { rewrite (bind_err _ _ _ _ _ Ew). intros [= <- <-].
      split_and!; [done|by etrans|by do 2 etrans|].
      apply (benign_frame s s1); [done|]. apply (benign_frame s1 s2); [done|apply Hw]. }
    rewrite (bind_ok _ _ _ _ _ Ew).
    destruct Hw as (Hwv&Hwl&HwD).
    cbn [bind ret]. intros [= <- <-].
    assert (He03 : extends s s3) by (by etrans).
    assert (HDr : ∀ a, D s3 (flip w u) a = D s u (override values a)).
    { intros a. rewrite D_flip, HwD, HDu by done. f_equal.
      rewrite (D_extends s1 s2 p) by done. rewrite HpD, HqD.
      rewrite (D_extends s s1 (t_hi t)) by done.
      unfold override at 3. by rewrite Hval. }
    split; [done|split; [done|split; [by do 2 etrans|]]].
    split_and!.
    + by apply valid_flip.
    + rewrite lvl_flip. lia.
    + apply cache_ok_insert; [|by apply (valid_extends s s3)|by apply valid_flip| |].
      * by apply (cache_ok_extends s2 s3).
      * rewrite lvl_flip, (lvl_extends s s3 u) by done. lia.
      * intros a. rewrite (D_extends s s3 u) by done. apply HDr.
    + done.
Qed.

Theorem cofactor_rec_spec fuel : ∀ s u ord values cache r s',
  Inv s → valid s u → no_reorder s →
  ord_ok s u ord values →
  cache_ok s values cache →
  nvars s - lvl_of s u < fuel →
  cofactor_rec fuel u ord values cache s = (r, s') →
  Inv s' ∧ extends s s' ∧ frame s s' ∧
  match r with
  | Ok (x, cache') => valid s' x ∧ lvl_of s u ≤ lvl_of s' x ∧ cache_ok s' values cache' ∧
        ∀ a, D s' x a = D s u (override values a)
  | Err e => benign s e
  end.
Proof. intros s u ord values cache r s' HI Hu _. by apply cofactor_rec_aux. Qed.

(** ** the key mapping [_map_to_level] never touches the manager *)
Definition pure {A} (m : MS A) : Prop := ∀ s r s', m s = (r, s') → s' = s.

Lemma pure_ret {A} (a : A) : pure (ret a).
Proof. by intros s r s' [= _ <-]. Qed.
Lemma pure_raise {A} e : pure (raise (A:=A) e).
Proof. by intros s r s' [= _ <-]. Qed.
Lemma pure_get : pure (get (S:=st)).
Proof. by intros s r s' [= _ <-]. Qed.
Lemma pure_bind {A B} (m : MS A) (f : A → MS B) :
  pure m → (∀ a, pure (f a)) → pure (bind m f).
Proof.
  intros Hm Hf s r s'. unfold bind. destruct (m s) as [[a|e] s1] eqn:E.
  - apply Hm in E as ->. apply Hf.
  - apply Hm in E as ->. by intros [= _ <-].
Qed.
Lemma pure_forM {A} (l : list A) (f : A → MS unit) :
  (∀ a, pure (f a)) → pure (forM l f).
Proof.
  intros Hf. induction l as [|a l IH]; cbn [forM]; [apply pure_ret|].
  apply pure_bind; [apply Hf|done].
Qed.
Lemma pure_mapM {A B} (f : A → MS B) (l : list A) :
  (∀ a, pure (f a)) → pure (mapM f l).
Proof.
  intros Hf. induction l as [|a l IH]; cbn [mapM]; [apply pure_ret|].
  apply pure_bind; [apply Hf|]. intros b.
  apply pure_bind; [done|]. intros bs. apply pure_ret.
Qed.
Lemma pure_map_key byname first k : pure (map_key byname first k).
Proof.
  unfold map_key. apply pure_bind; [apply pure_get|]. intros s.
  destruct byname.
  - destruct (vars s !! k); [apply pure_ret|apply pure_raise].
  - destruct (lvl2var s !! k); [apply pure_ret|apply pure_raise].
Qed.
Lemma pure_map_to_level_dict {A} byname (kv : list (nat * A)) :
  pure (map_to_level_dict byname kv).
Proof.
  unfold map_to_level_dict. destruct kv as [|[k a] rest]; [apply pure_ret|].
  apply pure_bind.
  { destruct byname; [apply pure_ret|]. apply pure_forM. intros [k' ?].
    apply pure_bind; [apply pure_map_key|]. intros; apply pure_ret. }
  intros _. apply pure_bind; [apply pure_map_key|]. intros l.
  apply pure_bind; [|intros; apply pure_ret].
  apply pure_mapM. intros [k' a']. apply pure_bind; [apply pure_map_key|].
  intros; apply pure_ret.
Qed.

Lemma map_to_level_dict_state {A} byname (kv : list (nat * A)) s r s' :
  map_to_level_dict byname kv s = (r, s') → s' = s.
Proof. apply pure_map_to_level_dict. Qed.

(** ** the decorated [cofactor], dynamic reordering disabled *)
Lemma cofactor_names_spec s u values lv r s' :
  Inv s → valid s u → last_len s = None → max_nodes s = None →
  map_to_level_dict true values (s <| rctx := true |>) = (Ok lv, s <| rctx := true |>) →
  cofactor_names u values s = (r, s') →
  ∃ x, r = Ok x ∧ Inv s' ∧ extends s s' ∧ valid s' x ∧
       ∀ a, D s' x a = D s u (override lv a).
Proof.
  intros HI Hu Hoff Hmx Hmap Hrun. unfold cofactor_names in Hrun.
  apply try_to_reorder_inert in Hrun as (r1&s1&Hrun&Hcase).
  set (s0 := s <| rctx := true |>) in *.
  assert (HI0 : Inv s0) by (by apply Inv_rctx).
  assert (Hu0 : valid s0 u) by done.
  rewrite (bind_ok _ _ _ _ _ Hmap) in Hrun. cbn [bind get] in Hrun.
  rewrite (proj2 (mem_valid s0 u) Hu0) in Hrun. cbn [ensure bind ret] in Hrun.
  destruct (cofactor_rec (S (S (nvars s0))) u (sorted_levels (dom lv)) lv ∅ s0)
    as [rr s2] eqn:Erec.
  pose proof Erec as Erec'.
  apply cofactor_rec_aux in Erec' as (HI2&He2&Hf2&Hr);
    [|done|done| |apply cache_ok_empty|lia].
  2:{ intros k Hk _. apply elem_of_sorted_levels. by apply elem_of_dom. }
  assert (Hnone : ∀ e, ¬ benign s0 e) by (intros e; by apply benign_never).
  destruct rr as [[x c]|e]; [|by destruct (Hnone e)].
  rewrite (bind_ok _ _ _ _ _ Erec) in Hrun. cbn [fst ret] in Hrun.
  injection Hrun as <- <-.
  destruct Hcase as [[[=] _]|[-> ->]].
  destruct Hr as (Hxv&_&_&HxD).
  exists x. split_and!; [done|by apply Inv_rctx|done|done|].
  intros a. rewrite D_rctx, HxD. unfold s0. by rewrite D_rctx.
Qed.

(** keys given as levels: the prelude (read-only) turns them into the names
    of the variables at these levels NOW, and these names map back to the same
    level dict *)
Lemma cofactor_levels_run s u values lv sx :
  Inv s → fst (map_to_level_dict false values sx) = Ok lv → lvl2var sx = lvl2var s →
  Forall (fun p => declared_lvl s p.1) values ∧
  lv = list_to_map (reverse values) ∧
  (∀ l, l ∈ dom lv → declared_lvl s l) ∧
  cofactor u false values s = cofactor_names u (namevals_at s lv) s.
Proof.
  intros HI Hmap El. rewrite map_to_level_dict_false in Hmap. cbn [fst] in Hmap.
  destruct (decide (Forall (fun p => declared_lvl sx p.1) values)) as [Hall|]; [|done].
  injection Hmap as <-.
  assert (Hall' : Forall (fun p => declared_lvl s p.1) values).
  { eapply Forall_impl; [exact Hall|]. intros p. unfold declared_lvl. by rewrite El. }
  split; [done|split; [done|split]].
  - by apply level_dict_declared.
  - rewrite cofactor_levels_unfold. by rewrite decide_True.
Qed.

Theorem cofactor_spec s u byname values lv r s' :
  Inv s → valid s u → last_len s = None → max_nodes s = None →
  map_to_level_dict byname values (s <| rctx := true |>) = (Ok lv, s <| rctx := true |>) →
  cofactor u byname values s = (r, s') →
  ∃ x, r = Ok x ∧ Inv s' ∧ extends s s' ∧ valid s' x ∧
       ∀ a, D s' x a = D s u (override lv a).
Proof.
  destruct byname; [apply cofactor_names_spec|].
  intros HI Hu Hoff Hmx Hmap Hrun.
  destruct (cofactor_levels_run s u values lv (s <| rctx := true |>) HI) as (_&_&Hd&E);
    [by rewrite Hmap|done|].
  rewrite E in Hrun.
  apply (cofactor_names_spec s u (namevals_at s lv) lv r s'); try done.
  by apply level_dict_roundtrip.
Qed.

(** variant: whatever state the key mapping is said to end in *)
Corollary cofactor_spec' s u byname values lv r s' s2 :
  Inv s → valid s u → last_len s = None → max_nodes s = None →
  map_to_level_dict byname values (s <| rctx := true |>) = (Ok lv, s2) →
  cofactor u byname values s = (r, s') →
  ∃ x, r = Ok x ∧ Inv s' ∧ extends s s' ∧ valid s' x ∧
       ∀ a, D s' x a = D s u (override lv a).
Proof.
  intros HI Hu Hoff Hmx Hmap. pose proof (map_to_level_dict_state _ _ _ _ _ Hmap) as ->.
  by apply cofactor_spec.
Qed.

(** * Single-variable composition [_compose(f, j, g)] *)

Definition cache_ok_c (s : st) (j : nat) (cache : gmap (Z * Z) Z) : Prop :=
  ∀ f g x, cache !! (f, g) = Some x →
    valid s f ∧ valid s g ∧ valid s x ∧
    lvl_of s f `min` lvl_of s g ≤ lvl_of s x ∧
    ∀ a, D s x a = D s f (upd a j (D s g a)).

Lemma cache_ok_c_empty s j : cache_ok_c s j ∅.
Proof. intros f g x Hk. by rewrite lookup_empty in Hk. Qed.

Lemma cache_ok_c_extends s s' j cache :
  Inv s → extends s s' → cache_ok_c s j cache → cache_ok_c s' j cache.
Proof.
  intros HI He Hc f g x Hk. destruct (Hc f g x Hk) as (Hvf&Hvg&Hvx&Hl&HD).
  rewrite (lvl_extends s s' f), (lvl_extends s s' g), (lvl_extends s s' x) by done.
  split_and!; [by apply (valid_extends s s')..|done|].
  intros a. rewrite (D_extends s s' x), (D_extends s s' f), (D_extends s s' g) by done.
  apply HD.
Qed.

Lemma cache_ok_c_insert s j cache f g x :
  cache_ok_c s j cache → valid s f → valid s g → valid s x →
  lvl_of s f `min` lvl_of s g ≤ lvl_of s x →
  (∀ a, D s x a = D s f (upd a j (D s g a))) →
  cache_ok_c s j (<[(f, g) := x]> cache).
Proof.
  intros Hc Hf Hg Hx Hl HD f' g' x' Hk'.
  destruct (decide ((f', g') = (f, g))) as [E|Hne].
  - rewrite E, lookup_insert in Hk'. by simplify_eq.
  - rewrite lookup_insert_ne in Hk' by done. by apply Hc.
Qed.

Lemma min_ite_bound a g h l w :
  a < h → a < l → g `min` h `min` l ≤ w → a `min` g ≤ w.
Proof. lia. Qed.
Lemma min_descent z n a b f :
  z < a → z < b → z < n → n - z < S f → n - (a `min` b) < f.
Proof. lia. Qed.
Lemma above_or_term z n a : z < a ∨ a = n → z < n → z < a.
Proof. lia. Qed.

Lemma compose_rec_aux fuel : ∀ s f_ j g cache r s',
  Inv s → valid s f_ → valid s g → no_reorder s →
  cache_ok_c s j cache →
  nvars s - (lvl_of s f_ `min` lvl_of s g) < fuel →
  compose_rec fuel f_ j g cache s = (r, s') →
  Inv s' ∧ extends s s' ∧ frame s s' ∧
  match r with
  | Ok (x, cache') => valid s' x ∧
        lvl_of s f_ `min` lvl_of s g ≤ lvl_of s' x ∧ cache_ok_c s' j cache' ∧
        ∀ a, D s' x a = D s f_ (upd a j (D s g a))
  | Err e => benign s e
  end.
Proof.
  induction fuel as [|fu IH]; intros s f_ j g cache r s' HI Hf Hg Hnr Hc Hfuel; [lia|].
  cbn [compose_rec].
  destruct (decide (absn f_ = 1%positive ∧ f_ ≠ 0%Z)) as [[E1 _]|Hnt].
  { intros [= <- <-]. split; [done|split; [reflexivity|split; [reflexivity|]]].
    split_and!; [done|apply Nat.le_min_l|done|]. intros a. by rewrite !D_term. }
  destruct (cache !! (f_, g)) as [x|] eqn:Hcu.
  { intros [= <- <-]. split; [done|split; [reflexivity|split; [reflexivity|]]].
    destruct (Hc _ _ _ Hcu) as (?&?&?&?&?). by split_and!. }
  destruct (node_cases s HI f_ Hf) as [[E El]|(t&Ht&Hn1&Hlo&Hl&Hln&Hvl&Hvh&Hhp&Hll&Hlh&Hne)].
  { exfalso. apply Hnt. split; [done|apply Hf]. }
  rewrite (bind_ok _ _ _ _ _ (getsuccZ_ok s f_ t (proj1 Hf) Ht)).
  unfold is_term, assert. rewrite bool_decide_eq_false_2 by done. cbn [negb].
  rewrite (bind_ok _ _ s tt s) by done.
  destruct (decide (j < t_lvl t)) as [Hji|Hji].
  { (* f does not depend on level j *)
    intros [= <- <-]. split; [done|split; [reflexivity|split; [reflexivity|]]].
    split_and!; [done|apply Nat.le_min_l|done|]. intros a.
    symmetry. apply D_upd_above; [done..|lia]. }
  destruct (decide (t_lvl t = j)) as [Eij|Hij].
  - (* the substituted level: ite(g, high, low) *)
    rewrite bind_assoc.
    destruct (ite g (t_hi t) (t_lo t) s) as [rw s1] eqn:Ew.
    pose proof Ew as Ew'.
    apply ite_spec in Ew' as (HI1&He1&Hf1&Hw); [|done..].
    destruct rw as [w|e]; cycle 1.
    { rewrite (bind_err _ _ _ _ _ Ew). intros [= <- <-].
      by split_and!. }
    rewrite (bind_ok _ _ _ _ _ Ew). cbn [bind ret]. intros [= <- <-].
    destruct Hw as (Hwv&Hwl&HwD).
    assert (Hlw : lvl_of s f_ `min` lvl_of s g ≤ lvl_of s1 w).
    { unfold minlvl3 in Hwl. rewrite Hl. by apply (min_ite_bound _ _ _ _ _ Hlh Hll). }
    assert (HDr : ∀ a, D s1 (flip w f_) a = D s f_ (upd a j (D s g a))).
    { intros a. rewrite D_flip, HwD by done.
      rewrite (D_step s HI f_ _ t Hf Ht Hn1). f_equal.
      rewrite Eij, upd_same.
      rewrite (D_upd_above s HI (t_hi t)), (D_upd_above s HI (t_lo t)) by first [done|lia].
      done. }
    split; [done|split; [done|split; [done|]]].
    split_and!.
    + by apply valid_flip.
    + by rewrite lvl_flip.
    + apply cache_ok_c_insert;
        [by apply (cache_ok_c_extends s s1)|by apply (valid_extends s s1)..
        |by apply valid_flip| |].
      * rewrite lvl_flip, (lvl_extends s s1 f_), (lvl_extends s s1 g) by done. done.
      * intros a. rewrite (D_extends s s1 f_), (D_extends s s1 g) by done. apply HDr.
    + done.
  - (* above the substituted level: descend in f and g simultaneously *)
    rewrite bind_assoc.
    rewrite (bind_ok _ _ _ _ _ (level_of_ok s g Hg)). cbv beta zeta.
    set (z := t_lvl t `min` lvl_of s g) in *.
    assert (Hzf : z ≤ lvl_of s f_) by (rewrite Hl; apply Nat.le_min_l).
    assert (Hzg : z ≤ lvl_of s g) by apply Nat.le_min_r.
    assert (Hzn : z < nvars s) by (pose proof (Nat.le_min_l (t_lvl t) (lvl_of s g)); lia).
    assert (Hzj : z ≠ j) by (pose proof (Nat.le_min_l (t_lvl t) (lvl_of s g)); lia).
    assert (Hfuel' : nvars s - z < S fu) by (subst z; by rewrite <- Hl).
    assert (Hzeq : lvl_of s f_ `min` lvl_of s g = z) by (subst z; by rewrite Hl).
    destruct (top_cofactor_ok s f_ z HI Hf Hzf) as (f0&f1&Ef&Hvf0&Hvf1&Lf0&Lf1&_&_&Df).
    destruct (top_cofactor_ok s g z HI Hg Hzg) as (g0&g1&Eg&Hvg0&Hvg1&Lg0&Lg1&_&_&Dg).
    apply above_or_term in Lf0, Lf1, Lg0, Lg1; try done.
    rewrite bind_assoc, (bind_ok _ _ _ _ _ Ef). cbv beta iota.
    rewrite bind_assoc, (bind_ok _ _ _ _ _ Eg). cbv beta iota.
    rewrite bind_assoc.
    clearbody z. clear Hfuel.
    (* first recursive call *)
    destruct (compose_rec fu f0 j g0 cache s) as [rp s1] eqn:Ep.
    pose proof Ep as Ep'.
    apply IH in Ep' as (HI1&He1&Hf1&Hp);
      [|done|done|done|done|done|by apply (min_descent z)].
    destruct rp as [[p c1]|e]; cycle 1.
    { rewrite (bind_err _ _ _ _ _ Ep). intros [= <- <-].
      by split_and!. }
    rewrite (bind_ok _ _ _ _ _ Ep). cbv beta iota. rewrite bind_assoc.
    destruct Hp as (Hpv&Hpl&Hc1&HpD).
    assert (Hnv1 : nvars s1 = nvars s) by (by apply extends_nvars).
    (* second recursive call *)
    destruct (compose_rec fu f1 j g1 c1 s1) as [rq s2] eqn:Eq.
    pose proof Eq as Eq'.
    apply IH in Eq' as (HI2&He2&Hf2&Hq);
      [|done|by apply (valid_extends s s1)|by apply (valid_extends s s1)
       |by apply (no_reorder_frame s s1)|done
       |rewrite Hnv1, !(lvl_extends s s1) by done; by apply (min_descent z)].
    destruct rq as [[q c2]|e]; cycle 1.
    { rewrite (bind_err _ _ _ _ _ Eq). intros [= <- <-].
      split_and!; [done|by etrans|by etrans|]. apply (benign_frame s s1); [done|apply Hq]. }
    rewrite (bind_ok _ _ _ _ _ Eq). cbv beta iota. rewrite bind_assoc.
    destruct Hq as (Hqv&Hql&Hc2&HqD).
    rewrite !(lvl_extends s s1) in Hql by done.
    assert (He02 : extends s s2) by (by etrans).
    (* the node *)
    destruct (find_or_add z p q s2) as [rw s3] eqn:Ew.
    assert (Hpv2 : valid s2 p) by (by apply (valid_extends s1 s2)).
    assert (Hpl2 : z < lvl_of s2 p) by (rewrite (lvl_extends s1 s2) by done; lia).
    assert (Hql2 : z < lvl_of s2 q) by lia.
    pose proof Ew as Ew'.
    apply find_or_add_spec in Ew' as (HI3&He3&Hf3&Hw); [|done..].
    destruct rw as [w|e]; cycle 1.
    { rewrite (bind_err _ _ _ _ _ Ew). intros [= <- <-].
      split_and!; [done|by etrans|by do 2 etrans|].
      apply (benign_frame s s1); [done|]. apply (benign_frame s1 s2); [done|apply Hw]. }
    rewrite (bind_ok _ _ _ _ _ Ew).
    destruct Hw as (Hwv&Hwl&HwD).
    cbn [bind ret]. intros [= <- <-].
    assert (He03 : extends s s3) by (by etrans).
    assert (HDr : ∀ a, D s3 w a = D s f_ (upd a j (D s g a))).
    { intros a. rewrite HwD. rewrite (D_extends s1 s2 p) by done. rewrite HpD, HqD.
      rewrite (D_extends s s1 f1), (D_extends s s1 g1) by done.
      rewrite (Df (upd a j (D s g a))). rewrite upd_other by done.
      rewrite (Dg a). by destruct (a z). }
    split; [done|split; [done|split; [by do 2 etrans|]]].
    split_and!.
    + done.
    + by rewrite Hzeq.
    + apply cache_ok_c_insert;
        [by apply (cache_ok_c_extends s2 s3)|by apply (valid_extends s s3)..|done| |].
      * rewrite (lvl_extends s s3 f_), (lvl_extends s s3 g) by done. by rewrite Hzeq.
      * intros a. rewrite (D_extends s s3 f_), (D_extends s s3 g) by done. apply HDr.
    + done.
Qed.

(** the named statement; [j < nvars s] is not used by the proof (for [i = j]
    it follows from the invariant, in the other cases it is irrelevant) *)
Theorem compose_rec_spec fuel : ∀ s f_ j g cache r s',
  Inv s → valid s f_ → valid s g → no_reorder s → j < nvars s →
  cache_ok_c s j cache →
  nvars s - (lvl_of s f_ `min` lvl_of s g) < fuel →
  compose_rec fuel f_ j g cache s = (r, s') →
  Inv s' ∧ extends s s' ∧ frame s s' ∧
  match r with
  | Ok (x, cache') => valid s' x ∧
        lvl_of s f_ `min` lvl_of s g ≤ lvl_of s' x ∧ cache_ok_c s' j cache' ∧
        ∀ a, D s' x a = D s f_ (upd a j (D s g a))
  | Err e => benign s e
  end.
Proof. intros s f_ j g cache r s' HI Hf Hg Hnr _. by apply compose_rec_aux. Qed.

(** the measure "sum of the two levels" is a special case *)
Lemma compose_measure_sum s f_ g fuel :
  Inv s → valid s f_ → valid s g →
  2 * nvars s - lvl_of s f_ - lvl_of s g < fuel →
  nvars s - (lvl_of s f_ `min` lvl_of s g) < fuel.
Proof.
  intros HI Hf Hg. pose proof (lvl_le s HI f_ Hf). pose proof (lvl_le s HI g Hg). lia.
Qed.

(** the fuel of the model's top-level [compose] always suffices *)
Lemma compose_fuel_ok s f_ g :
  nvars s - (lvl_of s f_ `min` lvl_of s g) < S (S (2 * nvars s)).
Proof. lia. Qed.

(** ** the decorated [compose] with one substitution, reordering disabled *)
Theorem compose_spec s f_ var g j r s' :
  Inv s → valid s f_ → valid s g → last_len s = None → max_nodes s = None →
  vars s !! var = Some j →
  compose f_ [(var, g)] s = (r, s') →
  ∃ x, r = Ok x ∧ Inv s' ∧ extends s s' ∧ valid s' x ∧
       ∀ a, D s' x a = D s f_ (upd a j (D s g a)).
Proof.
  intros HI Hf Hg Hoff Hmx Hvar Hrun. unfold compose in Hrun.
  apply try_to_reorder_inert in Hrun as (r1&s1&Hrun&Hcase).
  set (s0 := s <| rctx := true |>) in *.
  assert (HI0 : Inv s0) by (by apply Inv_rctx).
  cbn [bind get] in Hrun.
  assert (Hlv : level_of_var var s0 = (Ok j, s0)).
  { unfold level_of_var. cbn [bind get]. change (vars s0) with (vars s). by rewrite Hvar. }
  rewrite (bind_ok _ _ _ _ _ Hlv) in Hrun.
  destruct (compose_rec (S (S (2 * nvars s0))) f_ j g ∅ s0) as [rr s2] eqn:Erec.
  pose proof Erec as Erec'.
  apply compose_rec_aux in Erec' as (HI2&He2&Hf2&Hr);
    [|done|done|done|by left|apply cache_ok_c_empty|apply compose_fuel_ok].
  destruct rr as [[x c]|e]; cycle 1.
  { by destruct (benign_never s0 e Hoff Hmx). }
  rewrite (bind_ok _ _ _ _ _ Erec) in Hrun. cbn [fst ret] in Hrun.
  injection Hrun as <- <-.
  destruct Hcase as [[[=] _]|[-> ->]].
  destruct Hr as (Hxv&_&_&HxD).
  exists x. split_and!; [done|by apply Inv_rctx|done|done|].
  intros a. rewrite D_rctx, HxD. unfold s0. by rewrite !D_rctx.
Qed.
