(** * The LALR(1) tables regenerated from dd/_parser.py (by running PLY on the
      grammar) against the LR driver model [Model/LR.v]. *)
From DD Require Export Driver8.
Local Open Scope string_scope.

(** the productions for which [sem_action] has a branch, in PLY's numbering
    (production 0 is the augmented start production, never reduced) *)
Definition known_prods : list string :=
  ["S' -> expr"; "expr -> TRUE"; "expr -> FALSE"; "expr -> AT number"; "number -> NUMBER";
   "number -> MINUS NUMBER"; "expr -> name"; "expr -> NOT expr"; "expr -> expr AND expr";
   "expr -> expr OR expr"; "expr -> expr XOR expr"; "expr -> expr IMPLIES expr";
   "expr -> expr EQUIV expr"; "expr -> expr EQUALS expr"; "expr -> expr MINUS expr";
   "expr -> ITE LPAREN expr COMMA expr COMMA expr RPAREN"; "expr -> EXISTS names COLON expr";
   "expr -> FORALL names COLON expr"; "expr -> RENAME subs COLON expr"; "subs -> subs COMMA sub";
   "subs -> sub"; "sub -> name DIV name"; "names -> names COMMA name"; "names -> name";
   "name -> NAME"; "expr -> LPAREN expr RPAREN"].

Lemma lalr_prods_known : (fun p : string * nat * string => p.2) <$> lalr_prods = known_prods.
Proof. reflexivity. Qed.

(** the declared length of every production is the number of its symbols *)
Definition rhs_len (text : string) : nat :=
  length (filter (fun c => bool_decide (Ascii.nat_of_ascii c = 32)) (list_ascii_of_string text)) - 1.
Lemma lalr_prods_lengths :
  forallb (fun p : string * nat * string => bool_decide (p.1.2 = rhs_len p.2)) lalr_prods = true.
Proof. by vm_compute. Qed.

(** PLY reads the lookahead before every action of this grammar *)
Lemma lalr_no_defaulted : lalr_defaulted = [].
Proof. reflexivity. Qed.

(** every action refers to an existing state / production; every goto to an existing state *)
Definition nstates : nat := length lalr_action.
Lemma lalr_tables_closed :
  forallb (fun row : nat * list (string * Z) =>
    forallb (fun kv : string * Z =>
      if decide (0 < kv.2)%Z then bool_decide (Z.to_nat kv.2 < nstates)
      else bool_decide (Z.to_nat (- kv.2) < length lalr_prods)) row.2) lalr_action
  && forallb (fun row : nat * list (string * nat) =>
       forallb (fun kv : string * nat => bool_decide (kv.2 < nstates)) row.2) lalr_goto = true.
Proof. by vm_compute. Qed.

(** a text rejected late: dd (and the LR model) have built the valid prefix,
    the precedence-climbing model rejects before building anything *)
Definition w_two : world2 :=
  fst (step2 world2_empty 0 (O1 (ONew [(0, 0); (1, 1)]))).
Lemma late_rejection :
  snd (step_expr_lr w_two 0 "v0 & v1 ) )") = Err ERuntime ∧
  len (world2_get (fst (step_expr_lr w_two 0 "v0 & v1 ) )")) 0) = 4 ∧
  snd (step_expr_text w_two 0 "v0 & v1 ) )") = Err EValue ∧
  len (world2_get (fst (step_expr_text w_two 0 "v0 & v1 ) )")) 0) = 1 ∧
  (* on accepted texts both give the same reference and state *)
  snd (step_expr_lr w_two 0 "v0 & ~v1 | (* c *) v1") = snd (step_expr_text w_two 0 "v0 & ~v1 | (* c *) v1") ∧
  digest (world2_get (fst (step_expr_lr w_two 0 "v0 & ~v1 | (* c *) v1")) 0)
  = digest (world2_get (fst (step_expr_text w_two 0 "v0 & ~v1 | (* c *) v1")) 0).
Proof. vm_compute. repeat split; reflexivity. Qed.
