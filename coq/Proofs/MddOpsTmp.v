(** * MddOps: [MDD.find_or_add], [MDD.ite], [MDD.apply], canonicity and
      [MDD.collect_garbage] *)
From DD Require Export MddSem ApplyVocab GC.
Local Open Scope string_scope.

Lemma hd_head (l : list Z) : default 0%Z (head l) = hd 0%Z l.
Proof. by destruct l. Qed.

(** ** Primitive steps *)
Lemma m_var_at_level_ok s i n : MInv s → mlen_at s i n →
  ∃ v, m_var_at_level i s = (Ok v, s) ∧ mvars s !! v = Some (i, n).
Proof.
  intros HI [v Hv]. unfold m_var_at_level. cbn [bind get].
  destruct (list_find _ _) as [[k [v' [l n']]]|] eqn:Hf.
  - apply list_find_Some in Hf as (Hf&Hb&_). apply bool_decide_unpack in Hb. subst l.
    apply elem_of_list_lookup_2, elem_of_map_to_list in Hf.
    pose proof (minv_vars _ HI _ _ _ _ _ Hf Hv) as ->. exists v. by split.
  - exfalso. apply list_find_None in Hf. rewrite Forall_forall in Hf.
    apply (Hf (v, (i, n))); [by apply elem_of_map_to_list|]. cbn. by apply bool_decide_pack.
Qed.

Lemma m_len_of_ok s v i n : mvars s !! v = Some (i, n) → m_len_of v s = (Ok n, s).
Proof. intros H. unfold m_len_of. cbn [bind get]. by rewrite H. Qed.

Lemma m_getsucc_ok s u (t : mtuple) : u ≠ 0%Z → mlk s (absn u) = Some t →
  m_getsucc u s = (Ok t, s).
Proof.
  intros Hu Ht. unfold m_getsucc. cbn [bind get]. rewrite decide_False by done. by rewrite Ht.
Qed.

(** ** [_allocate]: for every tape *)
Lemma m_allocate_spec s r s1 : MInv s → m_allocate s = (r, s1) →
  MInv s1 ∧ msucc s1 = msucc s ∧ mpred s1 = mpred s ∧ mref s1 = mref s ∧
  mite s1 = mite s ∧ mvars s1 = mvars s ∧
  match r with
  | Ok u => mlk s u = None ∧ (u <= mmax s1)%positive ∧ u ∉ mfree s1
  | Err e => e = EOracle ∧ mtape s ≠ []
  end.
Proof.
  intros HI. unfold m_allocate. cbn [bind get].
  destruct (elements (mfree s)) as [|e l] eqn:Hel.
  - cbn [bind modify ret]. intros [= <- <-].
    apply elements_empty_inv, leibniz_equiv in Hel.
    split_and!; try done.
    + apply (MInv_same s); try done. cbn. lia.
    + apply (minv_max _ HI). lia.
    + cbn. rewrite Hel. set_solver.
  - assert (He : e ∈ mfree s) by (apply elem_of_elements; rewrite Hel; left).
    assert (Hgen : ∀ u s0, u ∈ mfree s → msucc s0 = msucc s → mpred s0 = mpred s →
              mref s0 = mref s → mite s0 = mite s → mvars s0 = mvars s →
              mmax s0 = mmax s → mfree s0 = mfree s →
              let s1 := s0 <| mfree ::= fun f => f ∖ {[u]} |> in
              MInv s1 ∧ msucc s1 = msucc s ∧ mpred s1 = mpred s ∧ mref s1 = mref s ∧
              mite s1 = mite s ∧ mvars s1 = mvars s ∧
              mlk s u = None ∧ (u <= mmax s1)%positive ∧ u ∉ mfree s1).
    { intros u s0 Hu E1 E2 E3 E4 E5 E6 E7 s1'.
      destruct (minv_free _ HI u Hu) as [Hn Hm].
      split_and!; try done.
      - apply (MInv_same s); try done.
        + cbn. by rewrite E3.
        + cbn. rewrite E6. lia.
        + cbn. rewrite E7. set_solver.
      - cbn. rewrite E6. done.
      - cbn. set_solver. }
    destruct (mtape s) as [|t rest] eqn:Htape.
    + cbn [bind ret modify]. intros [= <- <-]. by apply Hgen.
    + cbn [bind ret modify]. destruct (decide (t ∈ mfree s)) as [Ht|Ht].
      * cbn [bind ret modify]. intros [= <- <-]. by apply Hgen.
      * cbn [bind raise]. intros [= <- <-]. split_and!; try done.
        apply (MInv_same s); try done.
Qed.

(** ** State after adding a node *)
Definition madd_node (s : mst) (u : positive) (t : mtuple) : mst :=
  s <| mpred ::= <[t := u]> |> <| msucc ::= <[u := t]> |> <| mref ::= <[u := 0]> |>.

Lemma MInv_madd_node s u i nodes :
  MInv s → mlk s u = None → (u <= mmax s)%positive → u ∉ mfree s →
  i < mnvars s → mlen_at s i (length nodes) →
  (∀ x, x ∈ nodes → mvalid s x ∧ i < mlvl_of s x) →
  (0 < hd 0%Z nodes)%Z → ¬ all_eq nodes → mpred s !! ((i, nodes) : mtuple) = None →
  let s' := madd_node s u (i, nodes) in
  MInv s' ∧ mextends s s' ∧ mlk s' u = Some (i, nodes).
Proof.
  intros HI Hfree Hmax Hnf Hi Hlen Hch Hhd Hne Hpred s'.
  set (t := (i, nodes) : mtuple) in *.
  assert (Hu1 : u ≠ 1%positive).
  { intros E. rewrite E, (minv_term _ HI) in Hfree. done. }
  assert (Hext : mextends s s').
  { split; [|done]. cbn. by apply insert_subseteq. }
  assert (Hnv : mnvars s' = mnvars s) by done.
  split_and!; [|done|by apply lookup_insert].
  split.
  - cbn. rewrite lookup_insert_ne by done. apply HI.
  - intros n i' nodes' Hn Hn1. cbn in Hn. rewrite Hnv.
    assert (Hold : ∀ j l, j < mnvars s → mlen_at s j (length l) →
               (∀ x, x ∈ l → mvalid s x ∧ j < mlvl_of s x) →
               (0 < hd 0%Z l)%Z → ¬ all_eq l →
               j < mnvars s ∧ mlen_at s' j (length l) ∧
               (∀ x, x ∈ l → mvalid s' x ∧ j < mlvl_of s' x) ∧
               (0 < hd 0%Z l)%Z ∧ ¬ all_eq l).
    { intros j l ? ? Hc ? ?. split_and!; try done.
      intros x Hx. destruct (Hc x Hx) as [Hvx Hlx].
      rewrite (mlvl_extends s s') by done. split; [|done]. by apply (mvalid_extends s s'). }
    destruct (decide (n = u)) as [->|Hnu].
    + rewrite lookup_insert in Hn. injection Hn as <- <-. by apply Hold.
    + rewrite lookup_insert_ne in Hn by done.
      destruct (minv_node _ HI _ _ _ Hn Hn1) as (?&?&?&?&?). by apply Hold.
  - intros n t'. cbn.
    destruct (decide (n = u)) as [->|Hnu]; destruct (decide (t' = t)) as [->|Htt].
    + rewrite !lookup_insert. by split.
    + rewrite lookup_insert, lookup_insert_ne by done. split.
      * intros Hp. apply (minv_pred _ HI) in Hp as [Hp _]. congruence.
      * intros [? _]. congruence.
    + rewrite lookup_insert, lookup_insert_ne by done. split; [congruence|].
      intros [Hs Hn1]. assert (mpred s !! t = Some n) by (by apply (minv_pred _ HI)). congruence.
    + rewrite !lookup_insert_ne by done. apply HI.
  - cbn. rewrite !dom_insert_L. by rewrite (minv_ref _ HI).
  - intros k Hk. cbn in Hk |- *. destruct (minv_free _ HI k Hk) as [? ?].
    rewrite lookup_insert_ne; [done|]. intros ->. done.
  - intros k Hk. cbn in Hk |- *. rewrite lookup_insert_ne by lia. by apply (minv_max _ HI).
  - intros g a b c Hite. cbn in Hite.
    destruct (minv_ite _ HI _ _ _ _ Hite) as (?&?&?&?&?&HD).
    rewrite !(mlvl_extends s s') by done.
    split_and!; try done; try by eapply mvalid_extends.
    intros x. rewrite !(MD_extends s s') by done. apply HD.
  - apply HI.
  - rewrite Hnv. apply HI.
Qed.

(** ** The reference-count loop of [find_or_add] *)
Definition mbump_all (l : list Z) (m : gmap positive nat) : gmap positive nat :=
  foldl (fun m x => alter S (absn x) m) m l.

Lemma dom_mbump_all l m : dom (mbump_all l m) = dom m.
Proof.
  revert m. induction l as [|x l IH]; intros m; [done|].
  unfold mbump_all in *. cbn [foldl]. rewrite IH. apply dom_alter_L.
Qed.

Lemma m_incref_run s u : u ≠ 0%Z → is_Some (mref s !! absn u) →
  m_incref u s = (Ok tt, s <| mref ::= alter S (absn u) |>).
Proof.
  intros Hu [n Hn]. unfold m_incref. cbn [bind get].
  rewrite decide_False by done. by rewrite Hn.
Qed.

Lemma m_incref_loop l : ∀ s, (∀ x, x ∈ l → x ≠ 0%Z ∧ absn x ∈ dom (mref s)) →
  forM l m_incref s = (Ok tt, s <| mref := mbump_all l (mref s) |>).
Proof.
  induction l as [|x l IH]; intros s Hl.
  - cbn. by destruct s.
  - cbn [forM]. destruct (Hl x ltac:(left)) as [Hx Hd].
    rewrite (bind_ok _ _ _ _ _ (m_incref_run s x Hx (proj1 (elem_of_dom _ _) Hd))).
    rewrite IH.
    + by destruct s.
    + intros y Hy. destruct (Hl y ltac:(by right)) as [? ?]. split; [done|].
      cbn. by rewrite dom_alter_L.
Qed.

(** ** [find_or_add] *)
Theorem m_find_or_add_spec s i nodes r s' :
  MInv s → nodes ≠ [] → mlen_at s i (length nodes) →
  (∀ x, x ∈ nodes → mvalid s x ∧ i < mlvl_of s x) →
  m_find_or_add i nodes s = (r, s') →
  MInv s' ∧ mextends s s' ∧
  match r with
  | Ok u => mvalid s' u ∧ i ≤ mlvl_of s' u ∧
            ∀ I, MD s' u I = MD s (msel nodes (I i)) I
  | Err e => e = EOracle ∧ mtape s ≠ []
  end.
Proof.
  intros HI Hne Hlen Hch.
  assert (Hi : i < mnvars s).
  { destruct nodes as [|x l]; [done|]. destruct (Hch x ltac:(left)) as [Hx Hl].
    pose proof (mlvl_le s HI x Hx). lia. }
  unfold m_find_or_add. cbn [bind get]. unfold ensure.
  rewrite bool_decide_eq_true_2 by exact Hi. rewrite (bind_ok _ _ s tt s) by done.
  destruct (m_var_at_level_ok s i _ HI Hlen) as (v&Ev&Hv).
  rewrite (bind_ok _ _ _ _ _ Ev).
  rewrite (bind_ok _ _ _ _ _ (m_len_of_ok s v _ _ Hv)).
  rewrite bool_decide_eq_true_2 by done. rewrite (bind_ok _ _ s tt s) by done.
  rewrite bool_decide_eq_true_2 by done. rewrite (bind_ok _ _ s tt s) by done.
  assert (Hmem : forallb (fun u => m_mem u s) nodes = true).
  { apply forallb_forall. intros x Hx%elem_of_list_In. apply m_mem_valid, Hch, Hx. }
  rewrite Hmem. rewrite (bind_ok _ _ s tt s) by done.
  rewrite !hd_head.
  set (σ := bool_decide (hd 0 nodes < 0)%Z).
  assert (Er : (if decide (hd 0 nodes < 0)%Z then -1 else 1)%Z = (if σ then -1 else 1)%Z).
  { subst σ. case_decide; case_bool_decide; done. }
  rewrite Er. clear Er. set (r0 := (if σ then -1 else 1)%Z).
  set (nodes' := (fun x => (r0 * x)%Z) <$> nodes).
  assert (Hsel : ∀ k, msel nodes' k = (r0 * msel nodes k)%Z).
  { intros k. subst nodes'. rewrite (msel_fmap (fun x => (r0 * x)%Z)) by lia. done. }
  assert (Hch' : ∀ x, x ∈ nodes' → mvalid s x ∧ i < mlvl_of s x).
  { intros x Hx. apply elem_of_list_fmap in Hx as (y&->&Hy). destruct (Hch y Hy) as [Hvy Hly].
    destruct (MD_sign s HI σ y Hvy) as (?&El&_). fold r0 in El |- *. rewrite El. by split. }
  assert (Hhd : hd 0%Z nodes' = (r0 * hd 0 nodes)%Z).
  { subst nodes'. destruct nodes; [done|]. done. }
  assert (Hhdpos : (0 < hd 0 nodes')%Z).
  { rewrite Hhd. assert (hd 0%Z nodes ∈ nodes) as Hin by (destruct nodes; [done|left]).
    destruct (Hch _ Hin) as [[Hh0 _] _]. subst r0 σ. case_bool_decide; lia. }
  assert (Hne' : nodes' ≠ []) by (subst nodes'; by destruct nodes).
  assert (HDsel : ∀ I, MD s (msel nodes' (I i)) I = xorb σ (MD s (msel nodes (I i)) I)).
  { intros I. rewrite Hsel. destruct (Hch _ (msel_in nodes (I i) Hne)) as [Hvy _].
    destruct (MD_sign s HI σ _ Hvy) as (_&_&HD). apply HD. }
  (* the result is [r0 * x] for a valid [x] denoting the node (i, nodes') *)
  assert (Hfin : ∀ s2 x, MInv s2 → mextends s s2 → mvalid s2 x → i ≤ mlvl_of s2 x →
            (∀ I, MD s2 x I = MD s (msel nodes' (I i)) I) →
            mvalid s2 (r0 * x)%Z ∧ i ≤ mlvl_of s2 (r0 * x)%Z ∧
            ∀ I, MD s2 (r0 * x)%Z I = MD s (msel nodes (I i)) I).
  { intros s2 x HI2 He2 Hx Hlx HDx.
    destruct (MD_sign s2 HI2 σ x Hx) as (Hv2&El&HD). fold r0 in Hv2, El, HD.
    rewrite El. split_and!; try done. intros I. rewrite HD, HDx, HDsel.
    by destruct σ, (MD s (msel nodes (I i)) I). }
  destruct (forallb (fun x => bool_decide (x = hd 0%Z nodes')) nodes') eqn:Hall.
  { intros [= <- <-]. split; [done|split; [reflexivity|]].
    assert (Hae : all_eq nodes').
    { intros x Hx. rewrite forallb_forall in Hall.
      apply elem_of_list_In, Hall, bool_decide_eq_true in Hx. done. }
    assert (hd 0%Z nodes' ∈ nodes') as Hin by (destruct nodes'; [done|left]).
    destruct (Hch' _ Hin) as [Hvh Hlh].
    apply (Hfin s _ HI (reflexivity _) Hvh); [lia|].
    intros I. by rewrite (Hae _ (msel_in nodes' (I i) Hne')). }
  assert (Hnae : ¬ all_eq nodes').
  { intros Hae. apply not_true_iff_false in Hall. apply Hall, forallb_forall.
    intros x Hx%elem_of_list_In. apply bool_decide_eq_true. by apply Hae. }
  destruct (mpred s !! ((i, nodes') : mtuple)) as [u|] eqn:Hp.
  { intros [= <- <-]. split; [done|split; [reflexivity|]].
    apply (minv_pred _ HI) in Hp as [Hp Hu1].
    assert (Hvu : mvalid s (Z.pos u)) by (split; [done|]; rewrite absn_pos; by eexists).
    apply (Hfin s (Z.pos u) HI (reflexivity _) Hvu).
    - unfold mlvl_of. rewrite absn_pos, Hp. done.
    - intros I. rewrite (MD_step s HI (Z.pos u) I _ _ Hvu Hp) by done.
      rewrite bool_decide_eq_false_2 by lia. by rewrite xorb_false_l. }
  destruct (m_allocate s) as [ru s1] eqn:Eal.
  pose proof Eal as Eal'. apply m_allocate_spec in Eal' as (HI1&E1&E2&E3&E4&E5&Hu); [|done].
  assert (He1 : mextends s s1) by (split; by rewrite ?E1, ?E5).
  destruct ru as [u|e]; cycle 1.
  { rewrite (bind_err _ _ _ _ _ Eal). intros [= <- <-]. split; [done|split; [done|exact Hu]]. }
  rewrite (bind_ok _ _ _ _ _ Eal). cbn [bind get].
  destruct Hu as (Hfree&Hmax&Hnf).
  assert (Hfree1 : mlk s1 u = None) by (by rewrite E1).
  unfold m_mem, assert. rewrite bool_decide_eq_false_2; cycle 1.
  { intros [_ [t Ht]]. rewrite absn_pos, Hfree1 in Ht. done. }
  cbn [negb]. rewrite (bind_ok _ _ s1 tt s1) by done. cbn [bind modify].
  change (s1 <| mpred ::= <[((i, nodes') : mtuple) := u]> |> <| msucc ::= <[u := ((i, nodes') : mtuple)]> |>
             <| mref ::= <[u := 0]> |>) with (madd_node s1 u (i, nodes')).
  assert (Hch1 : ∀ x, x ∈ nodes' → mvalid s1 x ∧ i < mlvl_of s1 x).
  { intros x Hx. destruct (Hch' x Hx) as [? ?]. rewrite (mlvl_extends s s1) by done.
    split; [by apply (mvalid_extends s s1)|done]. }
  destruct (MInv_madd_node s1 u i nodes' HI1 Hfree1 Hmax Hnf) as (HI2&He2&Hnew); try done.
  { by rewrite (mextends_nvars s s1). }
  { destruct Hlen as [v0 Hv0]. exists v0. subst nodes'. by rewrite fmap_length, E5. }
  { by rewrite E2. }
  set (s2 := madd_node s1 u (i, nodes')) in *.
  assert (Hinc : ∀ x, x ∈ nodes' → x ≠ 0%Z ∧ absn x ∈ dom (mref s2)).
  { intros x Hx. destruct (Hch1 x Hx) as [[Hx0 Hxs] _]. split; [done|].
    rewrite (minv_ref _ HI2). apply elem_of_dom.
    destruct Hxs as [t Ht]. exists t. apply (lookup_weaken _ _ _ _ Ht (proj1 He2)). }
  rewrite (bind_ok _ _ _ _ _ (m_incref_loop nodes' s2 Hinc)).
  cbn [ret]. intros [= <- <-].
  set (s3 := s2 <| mref := mbump_all nodes' (mref s2) |>).
  assert (HI3 : MInv s3).
  { apply (MInv_same s2); try done. cbn. apply dom_mbump_all. }
  assert (He3 : mextends s s3) by (by etrans).
  split; [done|split; [done|]].
  assert (Hvu : mvalid s3 (Z.pos u)) by (split; [done|]; rewrite absn_pos; by eexists).
  apply (Hfin _ (Z.pos u)); try done.
  - unfold mlvl_of. rewrite absn_pos.
Show.
