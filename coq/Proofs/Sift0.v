(** * Sift0: a rooted collection removes every root whose count is zero;
      [swap] keeps managers free of unreferenced nodes *)
From DD Require Export SwapJ.

Lemma gc_next_mono (U : gset positive) u t rv rw n :
  n ∈ U → n ≠ u → n ∈ gc_next U u t rv rw.
Proof. intros Hn Hu. unfold gc_next. repeat case_decide; set_solver. Qed.

Lemma gc_loop_complete C s0 L fuel (R : gset positive) : ∀ U s r s',
  J C s0 L s U → size (succ s) < fuel →
  (∀ n, n ∈ R → n ∈ U ∨ n ∉ dom (succ s)) →
  gc_loop fuel U s = (r, s') →
  ∀ n, n ∈ R → n ∉ dom (succ s').
Proof.
  induction fuel as [|f IH]; intros U s r s' HJ Hsz HR; [lia|].
  destruct (elements U) as [|u l] eqn:Hel.
  { cbn [gc_loop]. rewrite Hel. intros [= <- <-] n Hn.
    apply elements_empty_inv, leibniz_equiv in Hel. subst U.
    destruct (HR n Hn) as [H|H]; [by apply elem_of_empty in H|done]. }
  assert (HuU : u ∈ U) by (apply elem_of_elements; rewrite Hel; left).
  destruct (j_unused _ _ _ _ _ HJ u HuU) as (Hu1&Hud&Hr).
  pose proof (j_inv _ _ _ _ _ HJ) as HW.
  pose proof (j_counts _ _ _ _ _ HJ) as HC.
  apply elem_of_dom in Hud as [t Ht].
  destruct (node_facts s HW u t Ht Hu1) as (Hv0&Hwp&Hvd&Hwd&Hvu&Hwu).
  destruct (W_free s HW) as [Hfree _].
  destruct (gc_loop_unfold f U s u l t Hel Hu1 Ht Hv0 Hwp) as (rv&rw&Hrv&Hrw&->);
    try done.
  - by apply (W_pred s HW).
  - assert (min_free s ≠ 1%positive); [|lia].
    intros E. rewrite E, (W_term s HW) in Hfree. done.
  - apply (Counts_ref s L _ HC). by apply elem_of_dom.
  - apply (Counts_ref s L _ HC). by apply elem_of_dom.
  - apply IH.
    + by apply J_step.
    + change (succ (gc_del s u t)) with (delete u (succ s)).
      rewrite map_size_delete, Ht.
      assert (size (succ s) ≠ 0); [|lia].
      intros E. apply map_size_empty_inv in E. rewrite E in Ht. done.
    + intros n Hn. change (succ (gc_del s u t)) with (delete u (succ s)).
      rewrite dom_delete_L. destruct (decide (n = u)) as [->|Hnu]; [right; set_solver|].
      destruct (HR n Hn) as [H|H]; [left; by apply gc_next_mono|right; set_solver].
Qed.

Theorem gc_rooted_complete (roots : list Z) s L r s' :
  Inv s → Counts s L → (∀ u, u ∈ roots → valid s u) →
  collect_garbage (Some roots) s = (r, s') →
  ∀ u, u ∈ roots → refc s !! absn u = Some 0 → absn u ≠ 1%positive →
       absn u ∉ dom (succ s').
Proof.
  intros HI HC Hroots. unfold collect_garbage. cbn [bind get].
  assert (Hl : ∀ u, u ∈ roots → u ≠ 0%Z ∧ is_Some (refc s !! absn u)).
  { intros u Hu. destruct (Hroots u Hu) as [? Hs]. split; [done|].
    apply elem_of_dom. rewrite (inv_ref _ HI). by apply elem_of_dom. }
  destruct (gc_scan s roots ∅ Hl) as (X&HX&HXs).
  rewrite (bind_ok _ _ _ _ _ HX).
  destruct (gc_loop (S (len s)) (X ∖ {[1%positive]}) s) as [r1 s1] eqn:Eloop.
  assert (HJ0 : J False s L s (X ∖ {[1%positive]})).
  { split.
    - by apply Inv_W.
    - done.
    - done.
    - done.
    - done.
    - reflexivity.
    - intros n Hn. apply elem_of_difference in Hn as [Hn Hn1].
      rewrite elem_of_singleton in Hn1.
      apply HXs in Hn as [Hn|(u&Hu&E&Hr)]; [by apply elem_of_empty in Hn|].
      split_and!; [done| |done]. rewrite <- (inv_ref _ HI). apply elem_of_dom. eauto.
    - intros n Hn. by apply (reach_dom s (fun k => 0 < L k) n HI).
    - done. }
  pose proof (gc_loop_complete False s L (S (len s)) (X ∖ {[1%positive]}) _ s r1 s1 HJ0
                ltac:(unfold len; lia) ltac:(intros; by left) Eloop) as Hcomp.
  pose proof (gc_loop_spec False s L (S (len s)) _ s r1 s1 HJ0 ltac:(unfold len; lia) Eloop)
    as [-> _].
  rewrite (bind_ok _ _ _ _ _ Eloop). cbn [bind modify get].
  intros Hrun u Hu Hr Hu1.
  assert (succ s' = succ s1) as ->.
  { unfold assert in Hrun. case_bool_decide; by injection Hrun as _ <-. }
  apply Hcomp. apply elem_of_difference. split; [|by rewrite elem_of_singleton].
  apply HXs. right. exists u. done.
Qed.

(** ** the last loop of [swap] again: every child of a rewritten node is
    among the roots of the final collection *)
Definition Gfull (s0 : st) (x : nat) (T G : gset positive) : Prop :=
  ∀ u v w, succ s0 !! u = Some (Triple x v w) → ¬ indepS s0 (x + 1) v w → u ∉ T →
           absn v ∈ G ∧ absn w ∈ G.

Section full.
Context (s0 : st) (HI : Inv s0) (x : nat) (Hy : x + 1 < nvars s0).

Lemma dep_fold_full done L : ∀ (l : list (positive * (Z * Z))) s T G XF,
  DepInv s0 x L s T G XF → Gfull s0 x T G → NoDup (l.*1) →
  (∀ u v w, (u, (v, w)) ∈ l → u ∉ done →
            u ∈ T ∧ succ s0 !! u = Some (Triple x v w)) →
  (∀ n, n ∈ T → n ∈ l.*1 ∧ n ∉ done) →
  ∃ s' G' XF', foldM (dep_body x (x + 1) done) (G, XF) l s = (Ok (G', XF'), s') ∧
    DepInv s0 x L s' ∅ G' XF' ∧ Gfull s0 x ∅ G'.
Proof.
  intros l. induction l as [|[u [v w]] l IH]; intros s T G XF HD HF Hnd Hl HT.
  - exists s, G, XF. split; [done|].
    assert (T = ∅) as <-; [|done].
    apply elem_of_equiv_empty_L. intros n Hn. destruct (HT n Hn) as [H _].
    by apply elem_of_nil in H.
  - cbn [fmap list_fmap fst] in Hnd. apply NoDup_cons in Hnd as [Hu Hnd].
    cbn [foldM]. destruct (decide (u ∈ done)) as [Hud|Hud].
    + rewrite (bind_ok _ _ _ _ _ (dep_body_done x done G XF u v w s Hud)).
      apply (IH s T G XF); try done.
      * intros u' v' w' Hin. apply Hl. by right.
      * intros n Hn. destruct (HT n Hn) as [H1 H2]. split; [|done].
        cbn [fmap list_fmap fst] in H1. apply elem_of_cons in H1 as [->|H1]; done.
    + destruct (Hl u v w ltac:(left) Hud) as [HuT Hu0].
      destruct (DepInv_step s0 HI x Hy done L s T G XF u v w HD HuT Hud Hu0)
        as (s1&G1&XF1&Hrun&HD1).
      destruct (dep_step s0 HI x Hy done s T L u v w G XF (di_mid _ _ _ _ _ _ _ HD)
                  (di_counts _ _ _ _ _ _ _ HD) HuT Hud Hu0 (di_room _ _ _ _ _ _ _ HD))
        as (s1'&p&q&XF1'&Hrun'&_).
      rewrite Hrun in Hrun'. injection Hrun' as EG _ _.
      rewrite (bind_ok _ _ _ _ _ Hrun).
      apply (IH s1 (T ∖ {[u]}) G1 XF1); try done.
      * intros u' v' w' Hu' Hdep HuT'. rewrite EG.
        destruct (decide (u' = u)) as [->|Hne].
        -- rewrite Hu0 in Hu'. injection Hu' as <- <-. set_solver.
        -- destruct (HF u' v' w' Hu' Hdep) as [? ?]; [set_solver|]. set_solver.
      * intros u' v' w' Hin Hud'. destruct (Hl u' v' w' ltac:(by right) Hud') as [H1 H2].
        split; [|done]. apply elem_of_difference. split; [done|].
        rewrite elem_of_singleton. intros ->. apply Hu. apply elem_of_list_fmap.
        by exists (u, (v', w')).
      * intros n Hn. apply elem_of_difference in Hn as [Hn Hnu].
        rewrite elem_of_singleton in Hnu. destruct (HT n Hn) as [H1 H2]. split; [|done].
        cbn [fmap list_fmap fst] in H1. apply elem_of_cons in H1 as [->|H1]; done.
Qed.
End full.

Section loops_full.
Context (s0 : st) (HI : Inv s0) (x : nat) (Hy : x + 1 < nvars s0).
Context (L : positive → nat) (HC : Counts s0 L) (Hll : last_len s0 = None).
Context (ox oy : list positive) (Hndx : NoDup ox) (Hndy : NoDup oy).
Context (Hox : ∀ n, n ∈ ox ↔ ∃ t, succ s0 !! n = Some t ∧ t_lvl t = x).
Context (Hoy : ∀ n, n ∈ oy ↔ ∃ t, succ s0 !! n = Some t ∧ t_lvl t = x + 1).

Lemma swap_loops_full sC : dep_room s0 x → succ sC = succ s0 → keep s0 sC →
  (∀ t n, pred sC !! t = Some n ↔ pred s0 !! t = Some n ∧ n ∉ ox) →
  ∃ sD sE sF dn s6 G XF,
    swap_collect (x + 1) oy sC = (Ok (lk s0 <$> oy), sD) ∧
    swap_up x (x + 1) (lk s0 <$> oy) sD = (Ok tt, sE) ∧
    swap_indep x (x + 1) (lk s0 <$> ox) sE = (Ok dn, sF) ∧
    swap_dep x (x + 1) dn (lk s0 <$> ox) sF = (Ok (G, XF), s6) ∧
    DepInv s0 x L s6 ∅ G XF ∧ Gfull s0 x ∅ G.
Proof.
  intros Hroom Es Hk Hp.
  destruct (collect_y s0 HI x Hy ox oy Hndy Hox Hoy sC Es Hk Hp) as (sD&HrD&EsD&HkD&HpD).
  destruct (up_phase s0 HI x Hy ox oy Hndy Hox Hoy sD EsD HkD HpD) as (sE&HrE&HkE&HsE&HpE).
  destruct (indep_phase s0 HI x Hy ox Hndx Hox sE HkE HsE HpE) as (sF&dn&HrF&HkF&HsF&Hdn&HpF).
  set (T := (list_to_set ox : gset positive) ∖ dn).
  assert (HT : ∀ n, n ∈ T ↔ isdep s0 x n).
  { intros n. unfold T. rewrite elem_of_difference, elem_of_list_to_set, Hox, Hdn. split.
    - intros [(t&Ht&Hl) Hnd]. exists t. split_and!; try done. intros Hi. apply Hnd. eauto.
    - intros (t&Ht&Hl&Hd). split; [eauto|]. intros (t'&Ht'&_&Hi). rewrite Ht in Ht'.
      injection Ht' as <-. done. }
  assert (HM : Mid s0 x sF T).
  { apply Mid_init; try done. intros t n. rewrite HpF, HT. done. }
  assert (HCF : Counts sF L) by (apply (Counts_relab s0 x L HC); [done|apply HkF]).
  assert (HD : DepInv s0 x L sF T ∅ ∅).
  { split; [done|done| | | |].
    - intros n Hn. by apply elem_of_empty in Hn.
    - intros n Hn. by apply elem_of_empty in Hn.
    - intros n H0 [t Hn]. rewrite HsF, lookup_fmap, H0 in Hn. done.
    - apply (room_relab s0 x); [done|apply HkF|by apply Hroom]. }
  assert (HF : Gfull s0 x T ∅).
  { intros u v w Hu Hdep HuT. exfalso. apply HuT, HT. exists (Triple x v w). done. }
  destruct (dep_fold_full s0 HI x Hy dn L (lk s0 <$> ox) sF T ∅ ∅ HD HF)
    as (s6&G&XF&Hr6&HD6&HF6).
  - by rewrite lk_fst.
  - intros u v w Hin Hud. apply elem_lk in Hin as [Hu Hin].
    apply Hox in Hu as (t&Ht&Hl). destruct (Hin t Ht) as [<- <-]. split.
    + apply HT. exists t. split_and!; try done. intros Hi. apply Hud, Hdn. eauto.
    + rewrite Ht. f_equal. destruct t; cbn in *; congruence.
  - intros n Hn. unfold T in Hn. apply elem_of_difference in Hn as [Hn Hnd].
    rewrite lk_fst. by apply elem_of_list_to_set in Hn.
  - exists sD, sE, sF, dn, s6, G, XF. rewrite swap_dep_eq. done.
Qed.
End loops_full.

Lemma foldM_state {A B} (f : B → A → MS B) :
  (∀ b a s r s1, f b a s = (r, s1) → s1 = s) →
  ∀ l b s r s1, foldM f b l s = (r, s1) → s1 = s.
Proof.
  intros Hf. induction l as [|a l IH]; intros b s r s1.
  - by intros [= _ <-].
  - cbn [foldM]. unfold bind. destruct (f b a s) as [[b'|e] s2] eqn:E.
    + apply Hf in E as ->. apply IH.
    + apply Hf in E as ->. by intros [= _ <-].
Qed.

(** the run of [swap] up to the final collection, with its internal data *)
Lemma swap_internal s x al L r s' :
  Inv s → Counts s L → last_len s = None → x + 1 < nvars s → levels_ok s al →
  swap x (x + 1) (Some al) s = (r, s') →
  r = Err EOracle ∨
  (r = Err ERuntime ∧ s' = s ∧ is_Some (max_nodes s)) ∨
  ∃ s6 G XF vx vy,
    DepInv s x L s6 ∅ G XF ∧ Gfull s x ∅ G ∧
    lvl2var s !! x = Some vx ∧ lvl2var s !! (x + 1) = Some vy ∧
    collect_garbage (Some (Z.pos <$> elements G)) (swap_vars s6 x vx vy) = (Ok tt, s').
Proof.
  intros HI HC Hll Hy Hal. unfold swap.
  rewrite (bind_ok _ _ s al s) by done. cbn [bind get].
  unfold ensure. rewrite !bool_decide_eq_true_2 by lia. cbn [bind ret].
  rewrite decide_False by lia.
  rewrite !bool_decide_eq_true_2 by lia. cbn [bind ret].
  destruct (Hal x ltac:(lia)) as (Sx&HSx&HSxs).
  destruct (Hal (x + 1) Hy) as (Sy&HSy&HSys).
  rewrite HSx. cbn [of_opt]. rewrite (bind_ok _ _ s Sx s) by done.
  destruct (dep_count_ok s x Sx HI ltac:(lia) HSxs) as (k&Hdc&Hk).
  rewrite (bind_ok _ _ _ _ _ Hdc).
  destruct (swap_fits (max_nodes s) (len s) k) eqn:Hfit; cbn [ensure]; cycle 1.
  { cbn [bind raise]. intros [= <- <-]. right. left. split_and!; try done.
    by apply (swap_fits_false s k). }
  rewrite (bind_ok _ _ s tt s) by done.
  assert (Hroom : dep_room s x).
  { intros T HT. rewrite (Hk T HT). by apply swap_fits_room. }
  destruct (pop_order Sx s) as [ro sA] eqn:Epo.
  destruct (pop_order_spec Sx s ro sA Epo) as (EsA&EpA&HkA&Hro).
  destruct Hro as [->|(ox&->&Hndx&Hoxs)].
  { rewrite (bind_err _ _ _ _ _ Epo). intros [= <- <-]. by left. }
  rewrite (bind_ok _ _ _ _ _ Epo).
  assert (Hox : ∀ n, n ∈ ox ↔ ∃ t, succ s !! n = Some t ∧ t_lvl t = x).
  { intros n. by rewrite Hoxs, HSxs. }
  destruct (collect_x s HI x ox Hndx Hox sA EsA EpA HkA) as (sB&HrB&EsB&HkB&HpB).
  rewrite (bind_ok _ _ _ _ _ HrB).
  rewrite HSy. cbn [of_opt]. rewrite (bind_ok _ _ sB Sy sB) by done.
  destruct (pop_order Sy sB) as [ro sC] eqn:Epo2.
  destruct (pop_order_spec Sy sB ro sC Epo2) as (EsC&EpC&HkC&Hro).
  destruct Hro as [->|(oy&->&Hndy&Hoys)].
  { rewrite (bind_err _ _ _ _ _ Epo2). intros [= <- <-]. by left. }
  rewrite (bind_ok _ _ _ _ _ Epo2).
  assert (Hoy : ∀ n, n ∈ oy ↔ ∃ t, succ s !! n = Some t ∧ t_lvl t = x + 1).
  { intros n. by rewrite Hoys, HSys. }
  destruct (swap_loops_full s HI x Hy L HC Hll ox oy Hndx Hndy Hox Hoy sC)
    as (sD&sE&sF&dn&s6&G&XF&HrD&HrE&HrF&Hr6&HD&HF).
  { done. }
  { congruence. }
  { by etrans. }
  { intros t n. rewrite EpC. apply HpB. }
  rewrite (bind_ok _ _ _ _ _ HrD), (bind_ok _ _ _ _ _ HrE), (bind_ok _ _ _ _ _ HrF),
    (bind_ok _ _ _ _ _ Hr6).
  pose proof (di_mid _ _ _ _ _ _ _ HD) as HM.
  destruct (proj1 (inv_lvls _ HI x) ltac:(lia)) as [vx Hvx].
  destruct (proj1 (inv_lvls _ HI (x + 1)) Hy) as [vy Hvy].
  assert (Hvl : var_at_level x s6 = (Ok vx, s6)).
  { unfold var_at_level. cbn [bind get]. by rewrite (m_l2v _ _ _ _ HM), Hvx. }
  rewrite (bind_ok _ _ _ _ _ Hvl). cbn [bind modify].
  assert (Hvl2 : var_at_level (x + 1) (s6 <| vars ::= <[vx := x + 1]> |>)
                 = (Ok vy, s6 <| vars ::= <[vx := x + 1]> |>)).
  { unfold var_at_level. cbn [bind get]. cbn [lvl2var set]. by rewrite (m_l2v _ _ _ _ HM), Hvy. }
  rewrite (bind_ok _ _ _ _ _ Hvl2). cbn [bind modify].
  fold (swap_vars s6 x vx vy).
  destruct (collect_garbage (Some (Z.pos <$> elements G)) (swap_vars s6 x vx vy))
    as [rg s8] eqn:Egc.
  destruct (swap_gc s HI x Hy L s6 G XF HD vx vy Hvx Hvy rg s8 Egc) as (->&_).
  rewrite (bind_ok _ _ _ _ _ Egc). cbn [bind get].
  intros Hrun. right. right. exists s6, G, XF, vx, vy. split_and!; try done.
  assert (s' = s8) as ->; [|done].
  revert Hrun. unfold bind at 1.
  destruct (foldM _ (∅, ∅) ox s8) as [[[nx ny]|e] sa] eqn:E1;
    (apply foldM_state in E1 as ->;
     [|intros [bx by_] a s1 r1 s2; destruct (succ s8 !! a); repeat case_decide;
       by intros [= _ <-]]); [|by intros [= _ <-]].
  unfold bind at 1.
  destruct (foldM _ nx (elements XF) s8) as [[nx'|e] sa] eqn:E2;
    (apply foldM_state in E2 as ->;
     [|intros b a s1 r1 s2; unfold bind, of_opt, assert, ret, raise;
       destruct (succ s8 !! a); [case_bool_decide|]; by intros [= _ <-]]);
    [|by intros [= _ <-]].
  unfold bind at 1.
  destruct (foldM _ ny oy s8) as [[ny'|e] sa] eqn:E3;
    (apply foldM_state in E3 as ->;
     [|intros b a s1 r1 s2; unfold bind, assert, ret, raise;
       destruct (succ s8 !! a); [case_bool_decide|]; by intros [= _ <-]]);
    by intros [= _ <-].
Qed.

(** ** no unreferenced nodes *)
Definition nozero (s : st) : Prop :=
  ∀ n, n ∈ dom (succ s) → n ≠ 1%positive → refc s !! n ≠ Some 0.

Theorem swap_nozero s x al L r s' :
  Inv s → Counts s L → last_len s = None → x + 1 < nvars s → levels_ok s al →
  swap x (x + 1) (Some al) s = (r, s') → r ≠ Err EOracle →
  nozero s → nozero s'.
Proof.
  intros HI HC Hll Hy Hal Hrun Hr Hnz.
  destruct (swap_internal s x al L r s' HI HC Hll Hy Hal Hrun)
    as [?|[(_&->&_)|(s6&G&XF&vx&vy&HD&HF&Hvx&Hvy&Egc)]]; [done|done|].
  destruct (swap_gc s HI x Hy L s6 G XF HD vx vy Hvx Hvy _ s' Egc)
    as (_&HI'&HC'&Hsub&_&_&_&Honly&_).
  pose proof (di_mid _ _ _ _ _ _ _ HD) as HM.
  assert (HI7 : Inv (swap_vars s6 x vx vy)) by (by apply (Inv_final s HI x Hy vx vy Hvx Hvy)).
  assert (HC7 : Counts (swap_vars s6 x vx vy) L)
    by (apply (Counts_same s6); [done|done|apply HD]).
  assert (Hroots : ∀ u, u ∈ Z.pos <$> elements G → valid (swap_vars s6 x vx vy) u).
  { intros u Hu. apply elem_of_list_fmap in Hu as (n&->&Hn). apply elem_of_elements in Hn.
    by apply (G_valid s HI x Hy L s6 G XF HD). }
  pose proof (gc_rooted_complete _ _ L _ s' HI7 HC7 Hroots Egc) as Hcomp.
  intros n Hn Hn1.
  (* it suffices to exhibit a surviving parent *)
  assert (HP : ∀ k tk, succ s6 !! k = Some tk → ¬ oldY s x G k → 0 < edges_to tk n →
             refc s' !! n ≠ Some 0).
  { intros k tk Hk HkY He.
    assert (k ∈ dom (succ s')) as Hkd by (apply Honly; [apply elem_of_dom; eauto|done]).
    apply elem_of_dom in Hkd as [tk' Hk'].
    pose proof (lookup_weaken _ _ _ _ Hk' Hsub) as Hk6. rewrite Hk in Hk6. injection Hk6 as <-.
    destruct HC' as [HC1 _]. rewrite (HC1 n Hn).
    pose proof (indeg_ge _ _ _ n Hk'). intros [= E]. lia. }
  destruct (decide (0 < L n)) as [HL|HL].
  { destruct HC' as [HC1 _]. rewrite (HC1 n Hn). intros [= E]. lia. }
  apply elem_of_dom in Hn as [t Ht]. pose proof (lookup_weaken _ _ _ _ Ht Hsub) as Ht6.
  destruct (lvl_class s x s6 n t HM Ht6) as [[H0 _]|(t0&H0&Hcl)].
  - (* a fresh node: child of a rewritten node *)
    assert (n ∈ XF) as HnX by (apply (di_new _ _ _ _ _ _ _ HD n H0); eauto).
    destruct (di_XF _ _ _ _ _ _ _ HD n HnX) as [_ (k&tk0&p&q&Hk0&Hlk&_&Hk&Hor)].
    assert (k ≠ 1%positive) as Hk1.
    { intros ->. rewrite (inv_term _ HI) in Hk0. injection Hk0 as <-. cbn in Hlk. lia. }
    destruct (m_node _ _ _ _ HM k _ Hk Hk1 ltac:(set_solver)) as (_&[Hp0 _]&_&[Hq0 _]&_).
    cbn [t_lo t_hi] in Hp0, Hq0.
    apply (HP k _ Hk).
    + intros [_ (t1&Ht1&Hl1)]. rewrite Hk0 in Ht1. injection Ht1 as <-. lia.
    + destruct Hor as [->| ->];
        [by apply (edges_to_lo (Triple _ _ _))|by apply (edges_to_hi (Triple _ _ _))].
  - (* an old node: it had a parent *)
    assert (Hnd0 : n ∈ dom (succ s)) by (apply elem_of_dom; eauto).
    pose proof (Hnz n Hnd0 Hn1) as Hr0. destruct HC as [HC1 HC2].
    rewrite (HC1 n Hnd0) in Hr0.
    assert (0 < indeg (succ s) n) as Hin by (destruct (indeg (succ s) n); [|lia]; exfalso; apply Hr0; f_equal; lia).
    destruct (indeg_pos _ _ Hin) as (k0&tk0&Hk0&He0).
    destruct (Inv_edges_dom s k0 tk0 n HI Hk0 He0) as [_ Hk01].
    destruct (inv_node _ HI _ _ Hk0 Hk01) as (_&Hvl&_&Hvh&Hll0&Hlh0&_).
    assert (Hlvn : t_lvl tk0 < t_lvl t0).
    { destruct (edges_to_cases _ _ He0) as [[_ E]|[_ E]].
      - unfold lvl_of in Hll0. by rewrite E, H0 in Hll0.
      - unfold lvl_of in Hlh0. by rewrite E, H0 in Hlh0. }
    destruct (m_old _ _ _ _ HM k0 tk0 Hk0 ltac:(set_solver)) as (tk&Hk6&Himg).
    unfold mid_img in Himg. case_decide as E1.
    { (* parent on the old level x+1 *)
      subst tk. destruct (decide (k0 ∈ G)) as [HkG|HkG].
      - assert (oldY s x G k0) as HY by (split; [done|eauto]).
        assert (∃ c, (c = t_lo tk0 ∨ c = t_hi tk0) ∧ absn c = n) as (c&Hc&<-).
        { destruct (edges_to_cases _ _ He0) as [[_ E]|[_ E]]; eauto. }
        destruct (G_kids s HI x Hy L s6 G XF HD k0 _ c HY Hk6 Hc Hn1) as (k&tk&Hk&HkY&He).
        by apply (HP k tk).
      - apply (HP k0 _ Hk6); [|done]. by intros [? _]. }
    case_decide as E2; cycle 1.
    { subst tk. apply (HP k0 _ Hk6); [|done]. intros [_ (t1&Ht1&Hl1)]. congruence. }
    assert (HkY : ¬ oldY s x G k0).
    { intros [_ (t1&Ht1&Hl1)]. rewrite Hk0 in Ht1. injection Ht1 as <-. lia. }
    case_decide as E3.
    { subst tk. by apply (HP k0 _ Hk6). }
    (* the parent is a rewritten node *)
    destruct tk0 as [lk v w]. cbn [t_lvl t_lo t_hi] in *. subst lk.
    destruct (dep_facts s HI x Hy k0 v w Hk0) as (_&Hv&Hw&_&_&Hlv&Hlw).
    assert (∃ z, (z = v ∨ z = w) ∧ absn z = n ∧ valid s z) as (z&Hz&Ezn&Hvz).
    { destruct (edges_to_cases _ _ He0) as [[_ E]|[_ E]]; cbn in E; [exists v|exists w]; auto. }
    destruct (decide (t_lvl t0 = x + 1)) as [Ey|Ey].
    + (* an old y-node whose count did not drop to zero *)
      assert (n ∈ G) as HnG.
      { destruct (HF k0 v w Hk0 E3 ltac:(set_solver)) as [? ?].
        destruct Hz as [->| ->]; by rewrite <- Ezn. }
      destruct (decide (refc s6 !! n = Some 0)) as [Hz0|Hz0].
      { exfalso. apply (Hcomp (Z.pos n)); [|done|done|apply elem_of_dom; eauto].
        apply elem_of_list_fmap. exists n. split; [done|]. by apply elem_of_elements. }
      destruct (di_counts _ _ _ _ _ _ _ HD) as [HD1 _].
      assert (Hnd6 : n ∈ dom (succ s6)) by (apply elem_of_dom; eauto).
      rewrite (HD1 n Hnd6) in Hz0.
      assert (0 < indeg (succ s6) n) as Hin6.
      { destruct (indeg (succ s6) n); [|lia]. exfalso. apply Hz0. f_equal. lia. }
      destruct (indeg_pos _ _ Hin6) as (k1&tk1&Hk1&He1).
      apply (HP k1 tk1 Hk1); [|done].
      intros [_ (t1&Ht1&Hl1)].
      destruct (m_old _ _ _ _ HM k1 t1 Ht1 ltac:(set_solver)) as (tk1'&Hk1'&Himg1).
      unfold mid_img in Himg1. rewrite decide_True in Himg1 by done. subst tk1'.
      rewrite Hk1 in Hk1'. injection Hk1' as ->.
      assert (k1 ≠ 1%positive) as Hk11.
      { intros ->. rewrite (inv_term _ HI) in Ht1. injection Ht1 as <-. cbn in Hl1. lia. }
      destruct (inv_node _ HI _ _ Ht1 Hk11) as (_&_&_&_&Hl1a&Hl1b&_).
      destruct (edges_to_cases _ _ He1) as [[_ E]|[_ E]]; cbn [t_lo t_hi] in E.
      * unfold lvl_of in Hl1a. rewrite E, H0 in Hl1a. lia.
      * unfold lvl_of in Hl1b. rewrite E, H0 in Hl1b. lia.
    + (* a node below level x+1: one of the cofactors *)
      assert (lvl_of s z = t_lvl t0) as Elz by (unfold lvl_of; by rewrite Ezn, H0).
      destruct (cofs_spec s HI (x + 1) Hy z Hvz ltac:(lia)) as (_&_&_&_&_&Hc&_).
      destruct (kept_edge s HI x Hy L s6 G XF HD k0 v w z z Hk0 E3 Hz) as (k&tk'&Hk&HkY'&He).
      { left. rewrite (Hc ltac:(lia)). done. }
      rewrite Ezn in He. by apply (HP k tk').
Qed.

Lemma swap_nvars s x al L r s' :
  Inv s → Counts s L → last_len s = None → x + 1 < nvars s → levels_ok s al →
  swap x (x + 1) (Some al) s = (r, s') → r ≠ Err EOracle → nvars s' = nvars s.
Proof.
  intros HI HC Hll Hy Hal Hrun Hr.
  destruct (swap_internal s x al L r s' HI HC Hll Hy Hal Hrun)
    as [?|[(_&->&_)|(s6&G&XF&vx&vy&HD&HF&Hvx&Hvy&Egc)]]; [done|done|].
  destruct (swap_gc s HI x Hy L s6 G XF HD vx vy Hvx Hvy _ s' Egc)
    as (_&_&_&_&Hv&_).
  unfold nvars at 1. rewrite Hv.
  apply (swap_vars_nvars s HI x Hy vx vy Hvx Hvy), HD.
Qed.
