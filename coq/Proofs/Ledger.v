(** * Ledger: the caller's ACTUAL ledger of external references along a
      history (C06).

    [Counts s L] ([Proofs/Counts.v]) says that every counter equals the
    in-degree plus the ledger entry [L n].  The history invariants [Good] /
    [GoodD] only carry [∃ L, Counts s L].  Here the ledger is computed from
    the calls the caller made and their outcomes:

    - a fresh manager ([ONew], the model's [init] state and every state
      [BDD(levels)] reaches) has ONE external reference, on the terminal
      node 1 ([_init_terminal] stores the count 1): [ledger_init];
    - a successful [incref u] adds one at [|u|];
    - a successful [decref u] of a node whose counter is positive subtracts
      one at [|u|] ([decref] of a counter that is already 0 only warns and
      changes nothing: [decref_effective]);
    - NO other operation of the alphabet of [Model/Driver.v] changes an
      external count: [collect_garbage] (with or without [roots]) only
      removes nodes whose counter is 0, [var]/[ite]/[apply]/... return
      nodes WITHOUT taking a reference for the caller, the reorderings keep
      the ledger; the assignment [bdd.max_nodes = n] ([OSetMaxNodes]) only
      sets the bound, and a call refused because the table is full
      ([RuntimeError], [ERuntime]) leaves the ledger alone like every other
      failed call ([ledger_after] looks at the outcome only for
      [incref]/[decref], which create no node);
    - in the larger alphabet of [Model/Driver2.v], [__del__] ([OShutdown])
      releases the manager's own reference on the terminal: one is
      subtracted at node 1 when its counter is positive. *)
From DD Require Import Dynamic3 Total3.
Local Open Scope string_scope.

(** ** 1. The ledger transformer of one call *)

(** the ledger of a fresh manager: the terminal node holds one reference *)
Definition ledger_init : positive → nat :=
  fun n => if decide (n = 1%positive) then 1 else 0.

Definition is_ok {A} (r : res A) : bool :=
  match r with Ok _ => true | Err _ => false end.

(** [decref u] really decrements: the counter of [|u|] is positive (otherwise
    Python only logs a warning and the counter stays 0) *)
Definition decref_effective (s : st) (u : Z) : bool :=
  bool_decide (0 < default 0 (refc s !! absn u)).

Definition ledger_after (s : st) (o : op) (r : res value) (L : positive → nat)
  : positive → nat :=
  match o with
  | ONew _ => ledger_init
  | OIncref u => if is_ok r then ledger_inc L (absn u) else L
  | ODecref u => if is_ok r && decref_effective s u then ledger_dec L (absn u) else L
  | _ => L
  end.

(** the ledger is only ever compared pointwise *)
Lemma ledger_after_ext s o r L L' :
  (∀ n, L n = L' n) → ∀ n, ledger_after s o r L n = ledger_after s o r L' n.
Proof.
  intros E n. destruct o; try apply E; cbn [ledger_after]; [done|..].
  - destruct (is_ok r); [|apply E]. unfold ledger_inc. case_decide; by rewrite E.
  - destruct (is_ok r && decref_effective s u); [|apply E].
    unfold ledger_dec. case_decide; by rewrite E.
Qed.

(** ** 2. One call *)

Lemma dsafe_counts {A} (m : MS A) s L r s' :
  dsafe m → GoodD s → Counts s L → m s = (r, s') → Counts s' L.
Proof.
  intros Hm (HI&Hc&Ht&_) HC H. by destruct (Hm s L r s' HI HC Hc Ht H) as (_&?&_).
Qed.

(** [decref] of a counter that is already 0: a no-op *)
Lemma decref_floor s u r s' :
  Inv s → valid s u → refc s !! absn u = Some 0 → decref u s = (r, s') →
  r = Ok tt ∧ refc s' = refc s ∧ succ s' = succ s ∧ ∀ L, Counts s L → Counts s' L.
Proof.
  intros HI Hu H0 H. rewrite decref_run in H; [|apply Hu|by eexists].
  injection H as <- <-.
  assert (E : refc (unbump u s) = refc s).
  { cbn. apply map_eq. intros n. rewrite lookup_alter_if. case_decide as En; [|by destruct (refc s !! n)].
    subst n. by rewrite H0. }
  split; [done|split; [done|split; [done|]]]. intros L. by apply Counts_same.
Qed.

Theorem run_op_ledger w o s r s' :
  GoodD s → allowedD o = true → is_new o = false → caller_ok s o →
  run_op w o s = (r, s') →
  ∀ L, Counts s L → Counts s' (ledger_after s o r L).
Proof.
  intros HG Ha Hnew Hgd H L HL. pose proof HG as (HI&Hc&Ht&_).
  destruct o; try discriminate Ha; try discriminate Hnew; cbn [run_op] in H;
    cbn [ledger_after].
  - (* OAddVar *)
    apply bind_ret_inv in H as (r0&H&Hr).
    destruct (add_var_total s v l r0 s' HI H) as (_&_&HC&_).
    { intros l0 -> Hv. by apply Hgd. }
    by apply HC.
  - (* ODeclare *)
    apply bind_ret_inv in H as (r0&H&Hr).
    destruct (declare_total s vs r0 s' HI H) as (_&_&_&HC&_). by apply HC.
  - apply (fun Hm => dsafe_counts _ s L r s' Hm HG HL H). dsafe. apply dsafe_var.
  - apply (fun Hm => dsafe_counts _ s L r s' Hm HG HL H). dsafe. apply dsafe_ite.
  - apply (fun Hm => dsafe_counts _ s L r s' Hm HG HL H). dsafe. apply dsafe_apply.
  - (* OIncref *)
    apply bind_ret_inv in H as (r0&H&Hr).
    destruct (incref_total s u r0 s' HI H) as (_&_&_&Hv&Hn).
    destruct (decide (valid s u)) as [Hu|Hu].
    + destruct (Hv Hu) as [-> HC]. rewrite Hr. cbn [is_ok]. by apply HC.
    + destruct (Hn Hu) as [-> ->]. rewrite Hr. done.
  - (* ODecref *)
    apply bind_ret_inv in H as (r0&H&Hr).
    destruct (decref_total s u r0 s' HI H) as (_&_&_&Hv&Hn).
    destruct (decide (valid s u)) as [Hu|Hu].
    + destruct (Hv Hu) as [-> HC]. rewrite Hr. cbn [is_ok andb].
      cbn [caller_ok] in Hgd. specialize (Hgd Hu).
      unfold decref_effective. rewrite bool_decide_eq_true_2 by lia.
      apply HC; [done|]. destruct HL as [H1 _].
      rewrite (H1 (absn u)) in Hgd by apply elem_of_dom, Hu. cbn in Hgd. lia.
    + destruct (Hn Hu) as [-> ->]. rewrite Hr. done.
  - apply (fun Hm => dsafe_counts _ s L r s' Hm HG HL H). dsafe. apply dsafe_quiet, quiet_ref.
  - (* OGc *)
    apply bind_ret_inv in H as (r0&H&Hr).
    by destruct (collect_garbage_total roots s L r0 s' HI HL H) as (_&?&_).
  - (* OConfigure *)
    apply bind_ret_inv in H as (r0&H&Hr).
    destruct (configure_total s b r0 s' HI H) as (_&_&HC&_). by apply HC.
  - (* OSetLastLen *)
    cbn [bind modify ret] in H. injection H as <- <-. by apply (Counts_same s).
  - (* OSetTrig *)
    cbn [bind modify ret] in H. injection H as <- <-. by apply (Counts_same s).
  - (* OSetMaxNodes: [bdd.max_nodes = n], a pure setter *)
    cbn [bind modify ret] in H. injection H as <- <-. by apply (Counts_same s).
  - apply (fun Hm => dsafe_counts _ s L r s' Hm HG HL H). dsafe. apply dsafe_cofactor.
  - apply (fun Hm => dsafe_counts _ s L r s' Hm HG HL H). dsafe. apply dsafe_quantify.
  - apply (fun Hm => dsafe_counts _ s L r s' Hm HG HL H). dsafe. apply dsafe_compose.
  - apply (fun Hm => dsafe_counts _ s L r s' Hm HG HL H). dsafe. apply dsafe_rename.
  - apply (fun Hm => dsafe_counts _ s L r s' Hm HG HL H). dsafe. apply dsafe_let.
  - apply (fun Hm => dsafe_counts _ s L r s' Hm HG HL H). dsafe. apply dsafe_cube.
  - apply (fun Hm => dsafe_counts _ s L r s' Hm HG HL H). dsafe. apply dsafe_quiet, quiet_support.
  - apply (fun Hm => dsafe_counts _ s L r s' Hm HG HL H). dsafe. apply dsafe_quiet, quiet_is_essential.
Qed.

(** what the two counter calls do to the ledger, spelled out: a call on a
    reference that is not a node of the manager fails with [KeyError] and
    leaves manager and ledger alone; otherwise it succeeds and moves the entry
    of [|u|] by exactly one (the caller obligation makes every successful
    [decref] effective) *)
Theorem incref_ledger w u s r s' L :
  GoodD s → Counts s L → run_op w (OIncref u) s = (r, s') →
  (valid s u ∧ r = Ok VU ∧ ∀ n, ledger_after s (OIncref u) r L n =
                                 L n + (if decide (n = absn u) then 1 else 0)) ∨
  (¬ valid s u ∧ r = Err EKey ∧ s' = s ∧ ∀ n, ledger_after s (OIncref u) r L n = L n).
Proof.
  intros (HI&_) HL H. cbn [run_op] in H. apply bind_ret_inv in H as (r0&H&Hr).
  destruct (incref_total s u r0 s' HI H) as (_&_&_&Hv&Hn).
  destruct (decide (valid s u)) as [Hu|Hu].
  - left. destruct (Hv Hu) as [-> _]. subst r. split; [done|split; [done|]].
    intros n. cbn [ledger_after is_ok]. unfold ledger_inc. case_decide; lia.
  - right. destruct (Hn Hu) as [-> ->]. subst r. done.
Qed.

Theorem decref_ledger w u s r s' L :
  GoodD s → Counts s L → caller_ok s (ODecref u) → run_op w (ODecref u) s = (r, s') →
  (valid s u ∧ r = Ok VU ∧ decref_effective s u = true ∧ 0 < L (absn u) ∧
     ∀ n, ledger_after s (ODecref u) r L n + (if decide (n = absn u) then 1 else 0) = L n) ∨
  (¬ valid s u ∧ r = Err EKey ∧ s' = s ∧ ∀ n, ledger_after s (ODecref u) r L n = L n).
Proof.
  intros (HI&_) HL Hgd H. cbn [run_op] in H. apply bind_ret_inv in H as (r0&H&Hr).
  destruct (decref_total s u r0 s' HI H) as (_&_&_&Hv&Hn).
  destruct (decide (valid s u)) as [Hu|Hu].
  - left. destruct (Hv Hu) as [-> _]. subst r. cbn [caller_ok] in Hgd. specialize (Hgd Hu).
    assert (He : decref_effective s u = true)
      by (unfold decref_effective; rewrite bool_decide_eq_true_2; [done|lia]).
    assert (HLu : 0 < L (absn u)).
    { destruct HL as [H1 _]. rewrite (H1 (absn u)) in Hgd by apply elem_of_dom, Hu.
      cbn in Hgd. lia. }
    split; [done|split; [done|split; [done|split; [done|]]]].
    intros n. cbn [ledger_after is_ok andb]. rewrite He. unfold ledger_dec.
    case_decide; [subst n|]; lia.
  - right. destruct (Hn Hu) as [-> ->]. subst r. done.
Qed.

(** the floor of [decref], outside the caller obligation: on a node whose
    counter is 0 the call succeeds, nothing changes, and the ledger
    transformer is the identity *)
Theorem decref_ledger_floor w u s r s' L :
  GoodD s → Counts s L → valid s u → refc s !! absn u = Some 0 →
  run_op w (ODecref u) s = (r, s') →
  r = Ok VU ∧ decref_effective s u = false ∧ Counts s' (ledger_after s (ODecref u) r L) ∧
  ∀ n, ledger_after s (ODecref u) r L n = L n.
Proof.
  intros (HI&_) HL Hu H0 H. cbn [run_op] in H. apply bind_ret_inv in H as (r0&H&Hr).
  destruct (decref_floor s u r0 s' HI Hu H0 H) as (->&_&_&HC). subst r.
  assert (He : decref_effective s u = false).
  { unfold decref_effective. rewrite H0. cbn. apply bool_decide_eq_false_2. lia. }
  cbn [ledger_after is_ok andb]. rewrite He. split_and!; try done. by apply HC.
Qed.

(** ** 3. One step of the driver, the constructor included *)
Theorem step_ledger w m o :
  allowedD o = true →
  (is_new o = false → GoodD (world_get w m) ∧ caller_ok (world_get w m) o) →
  ∀ L, (is_new o = false → Counts (world_get w m) L) →
  Counts (world_get (step w m o).1 m)
         (ledger_after (world_get w m) o (step w m o).2 L).
Proof.
  intros Ha Hpre L HL. rewrite (step_run w m o Ha). cbn [fst snd].
  set (s := world_get w m) in *.
  destruct (run_op w o s) as [r s'] eqn:E. cbn [fst snd].
  rewrite !world_get_insert.
  apply (Counts_same s'); [done..|].
  destruct (is_new o) eqn:Hnew.
  - destruct o; try discriminate Hnew. cbn [allowedD] in Ha.
    apply bool_decide_eq_true in Ha as [Hn1 Hn2].
    cbn [run_op bind modify] in E.
    apply bind_ret_inv in E as (r0&E&Hr). cbn [ledger_after].
    destruct (init_levels_total levels r0 s' Hn1 Hn2 E)
      as [(_&->&->)|(_&->&_&_&_&_&HC')]; [apply Counts_init|done].
  - destruct (Hpre eq_refl) as [HG Hgd].
    by apply (run_op_ledger w o s r s' HG Ha Hnew Hgd E L (HL eq_refl)).
Qed.

(** ** 4. Histories: the ledger folded along the calls and their outcomes *)
Fixpoint ledger_hist (w : world) (m : nat) (ops : list op) (L : positive → nat)
  : positive → nat :=
  match ops with
  | [] => L
  | o :: ops =>
      ledger_hist (fst (step w m o)) m ops
        (ledger_after (world_get w m) o (snd (step w m o)) L)
  end.

Theorem run_ledger ops : ∀ w m L,
  GoodD (world_get w m) → hist_okD w m ops → Counts (world_get w m) L →
  Counts (world_get (Total.run w m ops) m) (ledger_hist w m ops L).
Proof.
  induction ops as [|o ops IH]; intros w m L HG Hh HL; [exact HL|].
  destruct Hh as (Ha&Hnew&Hgd&Hh). cbn [Total.run fold_left ledger_hist].
  destruct (step_goodD w m o Ha (fun _ => conj HG Hgd)) as (HG'&_).
  apply IH; [done|done|].
  apply (step_ledger w m o Ha (fun _ => conj HG Hgd) L). by intros _.
Qed.

(** from the empty world: the first call constructs the manager, whose
    ledger is [ledger_init] whatever the (irrelevant) ledger before *)
Theorem run_ledger_from_new levels ops m L :
  allowedD (ONew levels) = true →
  hist_okD (fst (step world_empty m (ONew levels))) m ops →
  Counts (world_get (Total.run world_empty m (ONew levels :: ops)) m)
         (ledger_hist world_empty m (ONew levels :: ops) L).
Proof.
  intros Ha Hh. cbn [Total.run fold_left ledger_hist].
  destruct (step_goodD world_empty m (ONew levels) Ha) as (HG&_); [by intros [=]|].
  apply run_ledger; [done|done|].
  apply (step_ledger world_empty m (ONew levels) Ha); by intros [=].
Qed.

(** ** 5. In the property's words: counting the calls of the history *)

(** the successful [incref]s on node [n] in the history *)
Definition inc_here (o : op) (r : res value) (n : positive) : nat :=
  match o with
  | OIncref u => if is_ok r && bool_decide (absn u = n) then 1 else 0
  | _ => 0
  end.
(** the effective [decref]s on node [n] *)
Definition dec_here (s : st) (o : op) (r : res value) (n : positive) : nat :=
  match o with
  | ODecref u => if is_ok r && decref_effective s u && bool_decide (absn u = n) then 1 else 0
  | _ => 0
  end.
Fixpoint increfs (w : world) (m : nat) (ops : list op) (n : positive) : nat :=
  match ops with
  | [] => 0
  | o :: ops => inc_here o (snd (step w m o)) n + increfs (fst (step w m o)) m ops n
  end.
Fixpoint decrefs (w : world) (m : nat) (ops : list op) (n : positive) : nat :=
  match ops with
  | [] => 0
  | o :: ops =>
      dec_here (world_get w m) o (snd (step w m o)) n + decrefs (fst (step w m o)) m ops n
  end.

(** one call without the constructor: the entry moves by the call's own
    contribution (no flooring: an effective [decref] meets a positive entry) *)
Lemma ledger_after_count_run w o s r s' L :
  is_new o = false → GoodD s → caller_ok s o → Counts s L → run_op w o s = (r, s') →
  ∀ n, ledger_after s o r L n + dec_here s o r n = L n + inc_here o r n.
Proof.
  intros Hnew HG Hgd HL E n.
  destruct o; try discriminate Hnew; cbn [ledger_after dec_here inc_here]; try lia.
  - destruct (incref_ledger w u s r s' L HG HL E) as [(_&->&_)|(_&->&_)]; cbn [is_ok andb]; [|lia].
    unfold ledger_inc. case_bool_decide; case_decide; try congruence; lia.
  - destruct (decref_ledger w u s r s' L HG HL Hgd E) as [(_&->&He&HLu&_)|(_&->&_)];
      cbn [is_ok andb]; [|lia].
    rewrite He. cbn [andb]. unfold ledger_dec.
    case_bool_decide; case_decide; try congruence; subst; lia.
Qed.

Lemma ledger_after_count w m o L :
  allowedD o = true → is_new o = false →
  GoodD (world_get w m) → caller_ok (world_get w m) o → Counts (world_get w m) L →
  ∀ n, ledger_after (world_get w m) o (step w m o).2 L n +
         dec_here (world_get w m) o (step w m o).2 n =
       L n + inc_here o (step w m o).2 n.
Proof.
  intros Ha Hnew HG Hgd HL. rewrite (step_run w m o Ha). cbn [fst snd].
  destruct (run_op w o (world_get w m)) as [r s'] eqn:E. cbn [fst snd].
  by apply (ledger_after_count_run w o _ r s').
Qed.

Theorem ledger_hist_count ops : ∀ w m L,
  GoodD (world_get w m) → hist_okD w m ops → Counts (world_get w m) L →
  ∀ n, ledger_hist w m ops L n + decrefs w m ops n = L n + increfs w m ops n.
Proof.
  induction ops as [|o ops IH]; intros w m L HG Hh HL n; [cbn; lia|].
  destruct Hh as (Ha&Hnew&Hgd&Hh). cbn [ledger_hist increfs decrefs].
  destruct (step_goodD w m o Ha (fun _ => conj HG Hgd)) as (HG'&_).
  pose proof (step_ledger w m o Ha (fun _ => conj HG Hgd) L (fun _ => HL)) as HL'.
  pose proof (IH _ m _ HG' Hh HL' n) as E1.
  pose proof (ledger_after_count w m o L Ha Hnew HG Hgd HL n) as E2.
  lia.
Qed.

(** every counter along an allowed history, in the words of the property:
    in-degree + references taken − references released (the ledger [L] of the
    state the history starts from; no subtraction underflows) *)
Theorem run_counts_exact ops w m L :
  GoodD (world_get w m) → hist_okD w m ops → Counts (world_get w m) L →
  let sF := world_get (Total.run w m ops) m in
  (∀ n, decrefs w m ops n ≤ L n + increfs w m ops n) ∧
  (∀ n, n ∈ dom (succ sF) →
     refc sF !! n = Some (indeg (succ sF) n + (L n + increfs w m ops n - decrefs w m ops n))) ∧
  (∀ n, n ∉ dom (succ sF) → L n + increfs w m ops n = decrefs w m ops n).
Proof.
  intros HG Hh HL sF.
  pose proof (run_ledger ops w m L HG Hh HL) as [H1 H2]. fold sF in H1, H2.
  pose proof (ledger_hist_count ops w m L HG Hh HL) as E.
  split; [intros n; specialize (E n); lia|split].
  - intros n Hn. rewrite (H1 n Hn). f_equal. specialize (E n). lia.
  - intros n Hn. specialize (H2 n Hn). specialize (E n). lia.
Qed.

(** from a fresh manager: the ledger starts with the manager's own reference
    on the terminal *)
Theorem run_counts_exact_from_new levels ops m :
  allowedD (ONew levels) = true →
  let w1 := fst (step world_empty m (ONew levels)) in
  hist_okD w1 m ops →
  let sF := world_get (Total.run world_empty m (ONew levels :: ops)) m in
  (∀ n, decrefs w1 m ops n ≤ ledger_init n + increfs w1 m ops n) ∧
  (∀ n, n ∈ dom (succ sF) →
     refc sF !! n =
     Some (indeg (succ sF) n + (ledger_init n + increfs w1 m ops n - decrefs w1 m ops n))) ∧
  (∀ n, n ∉ dom (succ sF) → ledger_init n + increfs w1 m ops n = decrefs w1 m ops n).
Proof.
  intros Ha w1 Hh sF.
  destruct (step_goodD world_empty m (ONew levels) Ha) as (HG&_); [by intros [=]|].
  assert (HL : Counts (world_get w1 m) ledger_init).
  { apply (step_ledger world_empty m (ONew levels) Ha) with (L := ledger_init); by intros [=]. }
  exact (run_counts_exact ops w1 m ledger_init HG Hh HL).
Qed.

(** ** 6. The whole alphabet of [Total3] ([Driver2.op2]): the explicit
    reorderings, [find_or_add], [copy_bdd], [image], [preimage], the queries,
    the dumps, [undeclare_vars] keep the ledger; [__del__] releases the
    manager's own reference on the terminal *)
Definition ledger_after2 (s : st) (o : op2) (r : res value) (L : positive → nat)
  : positive → nat :=
  match o with
  | O1 o => ledger_after s o r L
  | OShutdown => if is_ok r && decref_effective s 1 then ledger_dec L 1%positive else L
  | _ => L
  end.

(** [__del__] with the ledger tracked: the entry of the terminal drops by one,
    then the garbage collection keeps the ledger *)
Theorem shutdown_ledger s L r s' :
  Inv s → Counts s L → caller_ok s (ODecref 1) → shutdown s = (r, s') →
  (∃ b, r = Ok b) ∧ decref_effective s 1 = true ∧ 0 < L 1%positive ∧
  Counts s' (ledger_dec L 1%positive).
Proof.
  intros HI HL Hgd. unfold shutdown.
  assert (Hv1 : valid s 1) by (by apply valid_1).
  assert (is_Some (refc s !! 1%positive)) as [r1 Hr1].
  { apply elem_of_dom. rewrite (inv_ref _ HI). apply elem_of_dom, Hv1. }
  assert (Eref : ref 1 s = (Ok r1, s)).
  { unfold ref. rewrite decide_False by done. by apply getref_ok. }
  rewrite (bind_ok _ _ _ _ _ Eref).
  cbn [caller_ok] in Hgd. specialize (Hgd Hv1). change (absn 1) with 1%positive in Hgd.
  rewrite Hr1 in Hgd. cbn in Hgd.
  assert (He : decref_effective s 1 = true).
  { unfold decref_effective. change (absn 1) with 1%positive. rewrite Hr1.
    apply bool_decide_eq_true_2. cbn. lia. }
  assert (HL1 : 0 < L 1%positive).
  { destruct HL as [H1 _]. rewrite (H1 1%positive) in Hr1 by apply elem_of_dom, Hv1.
    injection Hr1 as <-. lia. }
  rewrite decide_True by lia.
  destruct (decref 1 s) as [rd s1] eqn:Ed.
  destruct (decref_total s 1 rd s1 HI Ed) as (HI1&_&_&Hv&_).
  destruct (Hv Hv1) as [-> HC]. specialize (HC L HL HL1). change (absn 1) with 1%positive in HC.
  rewrite (bind_ok _ _ _ _ _ Ed).
  destruct (collect_garbage None s1) as [rg s2] eqn:Eg.
  destruct (collect_garbage_total None s1 _ rg s2 HI1 HC Eg)
    as (_&HL2&_&_&_&_&[(->&_&_)|(_&_&Hn)]); [|by destruct Hn].
  rewrite (bind_ok _ _ _ _ _ Eg). cbn [bind get ret]. intros [= <- <-].
  split; [by eexists|]. done.
Qed.

Lemma rout_counts {A} (m : MS A) (h : A → value) s r s' L :
  (∀ r0, m s = (r0, s') → rout L s r0 s') →
  (x <- m ;; ret (h x)) s = (r, s') → Counts s' L.
Proof.
  intros Hm H. apply bind_ret_inv in H as (r0&H&_). by destruct (Hm r0 H) as (_&?&_).
Qed.

Lemma guarded_counts {A} (m : MS A) (h : A → value) s r s' L :
  GoodD s → nrf m → nt m → tsafe m → Counts s L →
  (x <- guarded m ;; ret (h x)) s = (r, s') → Counts s' L.
Proof.
  intros HG Hn Hnt Hs HL H. apply bind_ret_inv in H as (r0&H&_).
  destruct (guarded_total m s r0 s' HG Hn Hnt Hs H) as (_&_&_&_&_&HC&_). by apply HC.
Qed.

Theorem run_op2_ledger w o s r s' :
  GoodD s → allowed3 o = true → is_new2 o = false → caller_ok3 s o →
  run_op2 w o s = (r, s') →
  ∀ L, Counts s L → Counts s' (ledger_after2 s o r L).
Proof.
  intros HG Ha Hnew Hgd H L HL. pose proof HG as (HI&Hc&Ht&_).
  assert (Hq : ∀ (m : MS value), quiet m → m s = (r, s') → Counts s' L).
  { intros m Hm Hrun. destruct (Hm _ _ _ Hrun) as (->&_). done. }
  destruct o as [o| | | | | | | | | | | | | | | | | ]; try discriminate Ha; cbn [run_op2] in H;
    cbn [ledger_after2].
  - (* Driver.op *)
    cbn [allowed3] in Ha. cbn [caller_ok3] in Hgd. destruct Hgd as [[Hgd0 Hfoa] Hoff].
    destruct (allowedD o) eqn:HaD.
    { by apply (run_op_ledger w o s r s'). }
    cbn [orb] in Ha. destruct o; try discriminate Ha; try discriminate HaD; cbn [run_op] in H;
      cbn [ledger_after].
    + (* OFindOrAdd *)
      apply bind_ret_inv in H as (r0&H&_).
      destruct (find_or_add_total s i v w0 r0 s' HI Hfoa H) as (_&_&_&HC). by apply HC.
    + (* OSwap *)
      apply (rout_counts (swap_pub x y) (fun r => VL [VN r.1.1; VN r.1.2]) s r s' L); [|done].
      intros r0 E. by apply (swap_pub_total x y s L r0 s').
    + (* OReorder *)
      apply (rout_counts (reorder_pub ((fun l => list_to_map (reverse l)) <$> order))
               (fun _ => VU) s r s' L); [|done].
      intros r0 E.
      by apply (reorder_pub_total ((fun l => list_to_map (reverse l)) <$> order) s L r0 s').
    + (* OReorderPairs *)
      apply (rout_counts (reorder_to_pairs_pub pairs) (fun _ => VU) s r s' L); [|done].
      intros r0 E. by apply (reorder_to_pairs_pub_total pairs s L r0 s').
    + (* OSetRoots *)
      cbn [bind modify ret] in H. injection H as <- <-. by apply (Counts_same s).
    + (* OCopy *)
      destruct (w !! src) as [ssrc|].
      * by apply (guarded_counts (copy_bdd ssrc u) (fun r => VZ r) s r s' L HG
                    (nrf_copy_bdd ssrc u) (nt_copy_bdd ssrc u) (tsafe_copy_bdd ssrc u)).
      * by injection H as <- <-.
    + (* OImage *)
      by apply (guarded_counts (image t s0 byname rn qbyname q fa) (fun r => VZ r) s r s' L HG
                  (nrf_image _ _ _ _ _ _ _) (nt_image _ _ _ _ _ _ _) (tsafe_image _ _ _ _ _ _ _)).
    + (* OPreimage *)
      by apply (guarded_counts (preimage t s0 byname rn qbyname q fa) (fun r => VZ r) s r s' L HG
                  (nrf_preimage _ _ _ _ _ _ _) (nt_preimage _ _ _ _ _ _ _)
                  (tsafe_preimage _ _ _ _ _ _ _)).
  - apply (fun Hm => Hq _ Hm H). quiet2; apply quiet_count.
  - apply (fun Hm => Hq _ Hm H). quiet2; apply quiet_pick_iter.
  - apply (fun Hm => Hq _ Hm H). quiet2; apply quiet_pick.
  - (* OUndeclare *)
    apply bind_ret_inv in H as (r0&H&Hr).
    destruct (undeclare_spec s vs r0 s' HI H)
      as [(_&_&->)|(_&rm&_&_&_&_&_&_&_&_&_&_&HC&_)]; [done|by apply HC].
  - apply (fun Hm => Hq _ Hm H). quiet2; apply quiet_descendants.
  - apply (fun Hm => Hq _ Hm H). quiet2.
  - apply (fun Hm => Hq _ Hm H). quiet2; apply quiet_level_of_var.
  - apply (fun Hm => Hq _ Hm H). quiet2.
  - apply (fun Hm => Hq _ Hm H). quiet2.
  - apply (fun Hm => Hq _ Hm H). quiet2.
  - (* OShutdown *)
    apply bind_ret_inv in H as (r0&H&Hr).
    destruct (shutdown_ledger s L r0 s' HI HL Hgd H) as ([b ->]&->&_&HC).
    by rewrite Hr.
  - apply (fun Hm => Hq _ Hm H). quiet2; apply quiet_to_nx.
  - apply (fun Hm => Hq _ Hm H). quiet2; apply quiet_to_dot.
  - apply (fun Hm => Hq _ Hm H). by apply quiet_raise.
  - apply (fun Hm => Hq _ Hm H). by apply quiet_raise.
Qed.

(** one step of the extended driver on manager [m] (dumps, the short cut of
    [copy_bdd] inside one manager and the constructor included) *)
Lemma world2_get_insert (w : world2) m x f :
  w_mgrs f = <[m := x]> (w_mgrs w) → world2_get f m = x.
Proof. intros E. unfold world2_get. rewrite E. unfold world. by rewrite lookup_insert. Qed.

Theorem step2_ledger w m o :
  allowed3 o = true →
  (is_new2 o = false → GoodD (world2_get w m) ∧ caller_ok3 (world2_get w m) o) →
  ∀ L, (is_new2 o = false → Counts (world2_get w m) L) →
  Counts (world2_get (step2 w m o).1 m)
         (ledger_after2 (world2_get w m) o (step2 w m o).2 L).
Proof.
  intros Ha Hpre L HL. set (s := world2_get w m) in *.
  (* the dumps: the manager is only read *)
  assert (Hio : ∀ {A} (mio : MS A) (f : A → value * world2),
            qn mio → (∀ a, w_mgrs (snd (f a)) = w_mgrs w) → is_new2 o = false →
            (∀ r, ledger_after2 s o r L = L) →
            run_io w o = Some (a <- mio ;; ret (f a)) →
            Counts (world2_get (step2 w m o).1 m) (ledger_after2 s o (step2 w m o).2 L)).
  { intros A mio f Hq Hf Hn HLa Hrio. rewrite HLa.
    unfold step2. rewrite Hrio. fold (world2_get w m). fold s. unfold bind.
    destruct (mio s) as [[a|e] s1] eqn:E; destruct (Hq _ _ _ E) as [-> Hne]; cbn [ret].
    - destruct (f a) as [v w'] eqn:Ef. specialize (Hf a). rewrite Ef in Hf. cbn in Hf |- *.
      erewrite world2_get_insert; [|cbn; by rewrite Hf].
      apply (Counts_same s); [done..|]. by apply HL.
    - cbn. erewrite world2_get_insert; [|cbn; reflexivity].
      apply (Counts_same s); [done..|]. by apply HL. }
  destruct (run_io w o) as [io|] eqn:Hrio.
  - destruct o as [o| | | | | | | | | | | | | | | | | ]; try discriminate Hrio;
      try discriminate Ha; cbn [run_io] in Hrio.
    + by apply (Hio _ (dump_pickle roots order vorder)
                  (fun pf => (VU, w <| w_files ::= <[fid := pf]> |>))
                  (qn_dump_pickle _ _ _)).
    + by apply (Hio _ (dump_manager vorder)
                  (fun mf => (VU, w <| w_mfiles ::= <[fid := mf]> |>))
                  (qn_dump_manager _)).
  - clear Hio. rewrite (step2_noio w m o Hrio). fold s.
    destruct (exec2 w m o s) as [r s'] eqn:E. cbn [fst snd].
    assert (Htape : (match o with O1 (OTape _) => s' | _ => s' <| tape := [] |> end)
                    = s' <| tape := [] |>).
    { destruct o as [[]| | | | | | | | | | | | | | | | | ]; done. }
    rewrite Htape. erewrite world2_get_insert; [|cbn; reflexivity].
    apply (Counts_same s'); [done..|].
    destruct (is_new2 o) eqn:Hnew.
    + (* the constructor *)
      destruct o as [[]| | | | | | | | | | | | | | | | | ]; try discriminate Hnew.
      cbn [exec2 run_op2 run_op bind modify] in E. cbn [allowed3 allowedD orb extraD] in Ha.
      rewrite orb_false_r in Ha. apply bool_decide_eq_true in Ha as [Hn1 Hn2].
      apply bind_ret_inv in E as (r0&E&Hr). cbn [ledger_after2 ledger_after].
      destruct (init_levels_total levels r0 s' Hn1 Hn2 E)
        as [(_&->&->)|(_&->&_&_&_&_&HC')]; [apply Counts_init|done].
    + destruct (Hpre eq_refl) as [HG Hgd].
      destruct (exec2_cases w m o s) as [E'|(u&->&E')]; rewrite E' in E.
      * by apply (run_op2_ledger (w_mgrs w) o s r s' HG Ha Hnew Hgd E L (HL eq_refl)).
      * injection E as <- <-. cbn [ledger_after2 ledger_after]. by apply HL.
Qed.

(** a call on ANOTHER manager leaves manager [m] alone *)
Lemma step2_other w m' m o :
  allowed3 o = true →
  (is_new2 o = false → GoodD (world2_get w m') ∧ caller_ok3 (world2_get w m') o) →
  m' ≠ m → world2_get (step2 w m' o).1 m = world2_get w m.
Proof.
  intros Ha Hpre Hne. destruct (step3_spec w m' o Ha Hpre) as [(s''&E&_) _].
  unfold world2_get. rewrite E. unfold world. by rewrite lookup_insert_ne.
Qed.

(** histories of calls on any managers: the ledger of manager [m] *)
Fixpoint ledger_hist2 (w : world2) (ops : list (nat * op2)) (m : nat) (L : positive → nat)
  : positive → nat :=
  match ops with
  | [] => L
  | (m', o) :: ops =>
      ledger_hist2 (fst (step2 w m' o)) ops m
        (if decide (m' = m)
         then ledger_after2 (world2_get w m) o (snd (step2 w m' o)) L else L)
  end.

Lemma hist3_pre w m o :
  WGoodD w → (is_new2 o = false → is_Some (w_mgrs w !! m)) → caller_ok3 (world2_get w m) o →
  is_new2 o = false → GoodD (world2_get w m) ∧ caller_ok3 (world2_get w m) o.
Proof.
  intros HW Hex Hgd Hn. destruct (Hex Hn) as [s0 Hs0]. split; [|done].
  unfold world2_get. rewrite Hs0. by apply (HW m).
Qed.

Theorem run2_ledger ops : ∀ w m L,
  WGoodD w → hist_ok3 w ops → Counts (world2_get w m) L →
  Counts (world2_get (run2 w ops) m) (ledger_hist2 w ops m L).
Proof.
  induction ops as [|[m' o] ops IH]; intros w m L HW Hh HL; [exact HL|].
  destruct Hh as (Ha&Hex&Hgd&Hh). cbn [run2 fold_left ledger_hist2].
  destruct (step3_good w m' o HW Ha Hex Hgd) as (HW'&_).
  pose proof (hist3_pre w m' o HW Hex Hgd) as Hpre.
  apply IH; [done|done|].
  destruct (decide (m' = m)) as [->|Hne].
  - apply (step2_ledger w m o Ha Hpre L). by intros _.
  - by rewrite (step2_other w m' m o Ha Hpre Hne).
Qed.

(** from the empty world: a manager that does not exist yet has the empty
    ledger; its constructor installs [ledger_init] *)
Theorem run2_ledger_from_empty ops m :
  hist_ok3 world2_empty ops →
  Counts (world2_get (run2 world2_empty ops) m) (ledger_hist2 world2_empty ops m (fun _ => 0)).
Proof.
  intros Hh. apply run2_ledger; [apply WGoodD_empty|done|].
  split; [|done]. intros n Hn. unfold world2_get in Hn.
  change (w_mgrs world2_empty !! m) with ((∅ : gmap nat st) !! m) in Hn.
  rewrite lookup_empty in Hn. cbn in Hn. by rewrite dom_empty_L in Hn.
Qed.

(** *** counting the calls on manager [m] in a history of the whole alphabet
    (without a re-construction of [m]: a constructor resets the ledger) *)
Definition inc_here2 (o : op2) (r : res value) (n : positive) : nat :=
  match o with O1 o => inc_here o r n | _ => 0 end.
Definition dec_here2 (s : st) (o : op2) (r : res value) (n : positive) : nat :=
  match o with
  | O1 o => dec_here s o r n
  | OShutdown =>
      if is_ok r && decref_effective s 1 && bool_decide (1%positive = n) then 1 else 0
  | _ => 0
  end.
Fixpoint increfs2 (w : world2) (ops : list (nat * op2)) (m : nat) (n : positive) : nat :=
  match ops with
  | [] => 0
  | (m', o) :: ops =>
      (if decide (m' = m) then inc_here2 o (snd (step2 w m' o)) n else 0) +
      increfs2 (fst (step2 w m' o)) ops m n
  end.
Fixpoint decrefs2 (w : world2) (ops : list (nat * op2)) (m : nat) (n : positive) : nat :=
  match ops with
  | [] => 0
  | (m', o) :: ops =>
      (if decide (m' = m) then dec_here2 (world2_get w m) o (snd (step2 w m' o)) n else 0) +
      decrefs2 (fst (step2 w m' o)) ops m n
  end.
Definition no_new (ops : list (nat * op2)) (m : nat) : Prop :=
  Forall (fun p => p.1 = m → is_new2 p.2 = false) ops.

Lemma step2_out w m o :
  run_io w o = None → (∀ src u, o ≠ O1 (OCopy src u)) →
  (step2 w m o).2 = (run_op2 (w_mgrs w) o (world2_get w m)).1.
Proof.
  intros Hrio Hnc. rewrite (step2_noio w m o Hrio).
  destruct (exec2_cases w m o (world2_get w m)) as [E|(u&->&_)]; [|by destruct (Hnc m u)].
  rewrite E. by destruct (run_op2 _ _ _).
Qed.

Lemma ledger_after2_count w m o L :
  allowed3 o = true → is_new2 o = false →
  GoodD (world2_get w m) → caller_ok3 (world2_get w m) o → Counts (world2_get w m) L →
  ∀ n, ledger_after2 (world2_get w m) o (step2 w m o).2 L n +
         dec_here2 (world2_get w m) o (step2 w m o).2 n =
       L n + inc_here2 o (step2 w m o).2 n.
Proof.
  intros Ha Hnew HG Hgd HL n. set (s := world2_get w m) in *.
  destruct o as [o| | | | | | | | | | | | | | | | | ];
    cbn [ledger_after2 dec_here2 inc_here2]; try lia.
  - assert (Hcase : (∃ u, o = OIncref u ∨ o = ODecref u) ∨
                    (∀ r, ledger_after s o r L n = L n ∧ dec_here s o r n = 0 ∧ inc_here o r n = 0)).
    { destruct o; try discriminate Hnew; try (by right); left; eexists; eauto. }
    destruct Hcase as [Hid|Hn].
    + rewrite step2_out; [|by destruct Hid as (u&[->| ->])..]. fold s. cbn [run_op2].
      destruct (run_op (w_mgrs w) o s) as [r s'] eqn:E. cbn [fst].
      destruct Hgd as [[Hgd _] _].
      by apply (ledger_after_count_run (w_mgrs w) o s r s').
    + destruct (Hn (step2 w m (O1 o)).2) as (->&->&->). lia.
  - rewrite step2_out by done. fold s. cbn [run_op2].
    destruct (shutdown s) as [r0 s'] eqn:E.
    destruct HG as (HI&_).
    destruct (shutdown_ledger s L r0 s' HI HL Hgd E) as ([b ->]&He&HL1&_).
    unfold bind. rewrite E. cbn [ret fst is_ok andb]. rewrite He. cbn [andb].
    unfold ledger_dec. case_bool_decide; case_decide; try congruence; subst; lia.
Qed.

Theorem ledger_hist2_count ops : ∀ w m L,
  WGoodD w → hist_ok3 w ops → no_new ops m → Counts (world2_get w m) L →
  ∀ n, ledger_hist2 w ops m L n + decrefs2 w ops m n = L n + increfs2 w ops m n.
Proof.
  induction ops as [|[m' o] ops IH]; intros w m L HW Hh Hnn HL n; [cbn; lia|].
  destruct Hh as (Ha&Hex&Hgd&Hh). apply Forall_cons in Hnn as [Hn1 Hnn]. cbn [fst snd] in Hn1.
  cbn [ledger_hist2 increfs2 decrefs2].
  destruct (step3_good w m' o HW Ha Hex Hgd) as (HW'&_).
  pose proof (hist3_pre w m' o HW Hex Hgd) as Hpre.
  destruct (decide (m' = m)) as [->|Hne].
  - specialize (Hn1 eq_refl). destruct (Hpre Hn1) as [HG _].
    pose proof (step2_ledger w m o Ha Hpre L (fun _ => HL)) as HL'.
    pose proof (IH _ m _ HW' Hh Hnn HL' n) as E1.
    pose proof (ledger_after2_count w m o L Ha Hn1 HG Hgd HL n) as E2. lia.
  - assert (HL' : Counts (world2_get (step2 w m' o).1 m) L)
      by (by rewrite (step2_other w m' m o Ha Hpre Hne)).
    pose proof (IH _ m _ HW' Hh Hnn HL' n) as E1. lia.
Qed.

Theorem run2_counts_exact ops w m L :
  WGoodD w → hist_ok3 w ops → no_new ops m → Counts (world2_get w m) L →
  let sF := world2_get (run2 w ops) m in
  (∀ n, decrefs2 w ops m n ≤ L n + increfs2 w ops m n) ∧
  (∀ n, n ∈ dom (succ sF) →
     refc sF !! n =
     Some (indeg (succ sF) n + (L n + increfs2 w ops m n - decrefs2 w ops m n))) ∧
  (∀ n, n ∉ dom (succ sF) → L n + increfs2 w ops m n = decrefs2 w ops m n).
Proof.
  intros HW Hh Hnn HL sF.
  pose proof (run2_ledger ops w m L HW Hh HL) as [H1 H2]. fold sF in H1, H2.
  pose proof (ledger_hist2_count ops w m L HW Hh Hnn HL) as E.
  split; [intros n; specialize (E n); lia|split].
  - intros n Hn. rewrite (H1 n Hn). f_equal. specialize (E n). lia.
  - intros n Hn. specialize (H2 n Hn). specialize (E n). lia.
Qed.

(** ** 7. A concrete history (dynamic reordering switched on): a fresh
    manager, two variables, [incref] twice on the first, [apply], [decref],
    a node taken and released, [collect_garbage], and failing calls
    ([incref]/[decref] of a number that is not a node, an unknown operator,
    an undeclared variable) *)
Definition ledger_levels : list (nat * nat) := [(0, 0); (1, 1)].
Definition ledger_ops : list op :=
  [OConfigure (Some true);
   OVar 0; OIncref 2; OIncref 2; OVar 1; OIncref 3;
   OApply "and" 2 (Some 3%Z) None; OIncref 4; ODecref 2; ODecref 3;
   OApply "or" 2 (Some 3%Z) None; OIncref 5; ODecref 5; OGc None;
   OIncref 99; ODecref 77; OApply "nand" 2 (Some 3%Z) None; OVar 7].

Lemma ledger_ops_ok :
  hist_okD (fst (step world_empty 0 (ONew ledger_levels))) 0 ledger_ops.
Proof.
  cbn [ledger_ops hist_okD allowedD is_new caller_ok].
  repeat split;
    first [ intros _; vm_compute; lia
          | intros [_ [? Hv]]; vm_compute in Hv; discriminate ].
Qed.

Example ledger_example :
  let ops := ONew ledger_levels :: ledger_ops in
  let sF := world_get (Total.run world_empty 0 ops) 0 in
  Counts sF (ledger_hist world_empty 0 ops (fun _ => 0)).
Proof. apply run_ledger_from_new; [by vm_compute|apply ledger_ops_ok]. Qed.

Example ledger_example_exact :
  let w1 := fst (step world_empty 0 (ONew ledger_levels)) in
  let sF := world_get (Total.run world_empty 0 (ONew ledger_levels :: ledger_ops)) 0 in
  (∀ n, decrefs w1 0 ledger_ops n ≤ ledger_init n + increfs w1 0 ledger_ops n) ∧
  (∀ n, n ∈ dom (succ sF) →
     refc sF !! n =
     Some (indeg (succ sF) n +
           (ledger_init n + increfs w1 0 ledger_ops n - decrefs w1 0 ledger_ops n))) ∧
  (∀ n, n ∉ dom (succ sF) →
     ledger_init n + increfs w1 0 ledger_ops n = decrefs w1 0 ledger_ops n).
Proof. apply run_counts_exact_from_new; [by vm_compute|apply ledger_ops_ok]. Qed.

(** a bounded table ([bdd.max_nodes = 4], [OSetMaxNodes]): the conjunction
    needs a fourth node and is refused with [RuntimeError] ([ERuntime]); the
    failed call, and the [incref] of the node that was not made, leave the
    ledger alone; with the bound lifted the same call succeeds *)
Definition ledger_ops_full : list op :=
  [OConfigure (Some true);
   OVar 0; OIncref 2; OVar 1; OIncref 3;
   OSetMaxNodes (Some 4%positive);
   OApply "and" 2 (Some 3%Z) None; OIncref 4; ODecref 2;
   OSetMaxNodes None;
   OApply "and" 2 (Some 3%Z) None; OIncref 4].

Lemma ledger_ops_full_ok :
  hist_okD (fst (step world_empty 0 (ONew ledger_levels))) 0 ledger_ops_full.
Proof.
  cbn [ledger_ops_full hist_okD allowedD is_new caller_ok].
  repeat split;
    first [ intros _; vm_compute; lia
          | intros [_ [? Hv]]; vm_compute in Hv; discriminate ].
Qed.

Example ledger_example_full :
  let ops := ONew ledger_levels :: ledger_ops_full in
  let sF := world_get (Total.run world_empty 0 ops) 0 in
  Counts sF (ledger_hist world_empty 0 ops (fun _ => 0)).
Proof. apply run_ledger_from_new; [by vm_compute|apply ledger_ops_full_ok]. Qed.

(** the same over the whole alphabet, two managers: explicit reorderings
    (one rejected), [copy_bdd] into a second manager, a query, the release
    of every reference and [__del__] *)
Definition ledger_ops2 : list (nat * op2) :=
  [(0, O1 (ONew [(0, 0); (1, 1)]));
   (0, O1 (OVar 0)); (0, O1 (OIncref 2)); (0, O1 (OVar 1)); (0, O1 (OIncref 3));
   (0, O1 (OApply "and" 2 (Some 3%Z) None)); (0, O1 (OIncref 4));
   (1, O1 (ONew [(0, 0); (1, 1)])); (1, O1 (OCopy 0 4)); (1, O1 (OIncref 4));
   (0, O1 (OSwap 0 1)); (0, O1 (OReorder None)); (0, O1 (OSwap 0 5));
   (0, OCount 4 None);
   (0, O1 (ODecref 2)); (0, O1 (ODecref 3)); (0, O1 (ODecref 4)); (0, OShutdown)].

Lemma is_Some_true {A} (o : option A) :
  (match o with Some _ => true | None => false end) = true → is_Some o.
Proof. destruct o; [by eexists|done]. Qed.

Ltac ledger_caller3 :=
  lazymatch goal with
  | |- True => exact I
  | |- caller_ok3 _ (O1 _) =>
      split;
      [split; [first [exact I | intros _; vm_compute; lia]|exact I]
      |cbn [needs_off]; intros [=]]
  | |- caller_ok3 _ OShutdown => intros _; vm_compute; lia
  | |- _ => exact I
  end.
Ltac ledger_hist3_step :=
  split; [reflexivity|];
  split; [cbn [is_new2 is_new];
          lazymatch goal with
          | |- true = false → _ => intros [=]
          | |- _ => intros _; apply is_Some_true; vm_compute; reflexivity
          end|];
  split; [ledger_caller3|].

Lemma ledger_ops2_ok : hist_ok3 world2_empty ledger_ops2.
Proof. cbn [ledger_ops2 hist_ok3]. repeat ledger_hist3_step. exact I. Qed.

Example ledger_example2 m :
  Counts (world2_get (run2 world2_empty ledger_ops2) m)
         (ledger_hist2 world2_empty ledger_ops2 m (fun _ => 0)).
Proof. apply run2_ledger_from_empty, ledger_ops2_ok. Qed.
