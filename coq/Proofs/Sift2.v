(** * Sift2: the reordering functions never touch the [rctx] flag, the
      [roots] attribute nor [max_nodes] (a purely syntactic frame, for every outcome) *)
From DD Require Export Sift1.

Definition rr (s : st) : bool * list Z * option positive := (rctx s, roots s, max_nodes s).
Lemma rr_max_nodes s s' : rr s' = rr s → max_nodes s' = max_nodes s.
Proof. unfold rr. congruence. Qed.
Definition pres {A} (m : MS A) : Prop := ∀ s r s', m s = (r, s') → rr s' = rr s.

Lemma pres_ret {A} (a : A) : pres (ret a).
Proof. by intros s r s' [= _ <-]. Qed.
Lemma pres_raise {A} e : pres (raise e : MS A).
Proof. by intros s r s' [= _ <-]. Qed.
Lemma pres_get : pres (get : MS st).
Proof. by intros s r s' [= _ <-]. Qed.
Lemma pres_modify f : (∀ s, rr (f s) = rr s) → pres (modify f).
Proof. intros Hf s r s' [= _ <-]. apply Hf. Qed.
Lemma pres_bind {A B} (m : MS A) (f : A → MS B) :
  pres m → (∀ a, pres (f a)) → pres (bind m f).
Proof.
  intros Hm Hf s r s'. unfold bind. destruct (m s) as [[a|e] s1] eqn:E.
  - intros H. rewrite (Hf a _ _ _ H). exact (Hm s _ s1 E).
  - intros [= _ <-]. exact (Hm s _ s1 E).
Qed.
Lemma pres_assert b : pres (assert b).
Proof. unfold assert. destruct b; [apply pres_ret|apply pres_raise]. Qed.
Lemma pres_ensure e b : pres (ensure e b).
Proof. unfold ensure. destruct b; [apply pres_ret|apply pres_raise]. Qed.
Lemma pres_of_opt {A} e (o : option A) : pres (of_opt e o).
Proof. destruct o; [apply pres_ret|apply pres_raise]. Qed.
Lemma pres_foldM {A B} (f : B → A → MS B) l b : (∀ b a, pres (f b a)) → pres (foldM f b l).
Proof.
  intros Hf. revert b. induction l as [|a l IH]; intros b; [apply pres_ret|].
  cbn [foldM]. apply pres_bind; [apply Hf|]. intros b'. apply IH.
Qed.
Lemma pres_mapM {A B} (f : A → MS B) l : (∀ a, pres (f a)) → pres (mapM f l).
Proof.
  intros Hf. induction l as [|a l IH]; [apply pres_ret|].
  cbn [mapM]. apply pres_bind; [apply Hf|]. intros b.
  apply pres_bind; [apply IH|]. intros bs. apply pres_ret.
Qed.
Lemma pres_forM {A} (f : A → MS unit) l : (∀ a, pres (f a)) → pres (forM l f).
Proof.
  intros Hf. induction l as [|a l IH]; [apply pres_ret|].
  cbn [forM]. apply pres_bind; [apply Hf|]. intros _. apply IH.
Qed.
Lemma pres_getsucc n : pres (getsucc n).
Proof. intros s r s'. unfold getsucc. destruct (succ s !! n); by intros [= _ <-]. Qed.
Lemma pres_getref n : pres (getref n).
Proof. intros s r s'. unfold getref. destruct (refc s !! n); by intros [= _ <-]. Qed.
Lemma pres_rr : pres request_reordering.
Proof.
  intros s r s'. unfold request_reordering.
  destruct (last_len s); [|by intros [= _ <-]].
  destruct (trig s) as [[|[|k]]|]; try case_decide; by intros [= _ <-].
Qed.

(** the generic step *)
Ltac pres1 :=
  first
    [ apply pres_ret | apply pres_raise | apply pres_get | apply pres_assert
    | apply pres_ensure | apply pres_of_opt | apply pres_getsucc | apply pres_getref
    | apply pres_rr
    | (apply pres_modify; intros; reflexivity)
    | (apply pres_bind; [|intros ?])
    | (apply pres_foldM; intros ? ?)
    | (apply pres_mapM; intros ?)
    | (apply pres_forM; intros ?)
    | case_decide | case_match ].
Ltac pres_go := repeat pres1.

Lemma pres_getsuccZ u : pres (getsuccZ u).
Proof. unfold getsuccZ. pres_go. Qed.
Lemma pres_level_of u : pres (level_of u).
Proof. unfold level_of. pres_go. apply pres_getsuccZ. Qed.
Lemma pres_incref u : pres (incref u).
Proof. unfold incref. pres_go. Qed.
Lemma pres_decref u : pres (decref u).
Proof. unfold decref. pres_go. Qed.
Lemma pres_ref u : pres (ref u).
Proof. unfold ref. pres_go. Qed.
Lemma pres_find_or_add i v w : pres (find_or_add i v w).
Proof. unfold find_or_add. pres_go; first [apply pres_incref]. Qed.

Ltac pres_all :=
  repeat first
    [ apply pres_getsuccZ | apply pres_level_of | apply pres_incref
    | apply pres_decref | apply pres_ref | apply pres_find_or_add | pres1 ].

Lemma pres_pop_order X : pres (pop_order X).
Proof. unfold pop_order. pres_all. Qed.
Lemma pres_levels : pres levels_.
Proof. unfold levels_. pres_all. Qed.
Lemma pres_low_high u : pres (low_high u).
Proof. unfold low_high. pres_all. Qed.
Lemma pres_swap_cofactor u y : pres (swap_cofactor u y).
Proof. unfold swap_cofactor. pres_all. Qed.
Lemma pres_set_node u t : pres (set_node u t).
Proof. unfold set_node. pres_all. Qed.
Lemma pres_swap_collect j o : pres (swap_collect j o).
Proof. unfold swap_collect. pres_all. Qed.
Lemma pres_swap_up x y l : pres (swap_up x y l).
Proof. unfold swap_up. pres_all. Qed.
Lemma pres_swap_indep x y l : pres (swap_indep x y l).
Proof.
  unfold swap_indep. pres_all.
Qed.

Ltac pres_all2 :=
  repeat first
    [ apply pres_getsuccZ | apply pres_level_of | apply pres_incref
    | apply pres_decref | apply pres_ref | apply pres_find_or_add
    | apply pres_low_high | apply pres_swap_cofactor | apply pres_set_node | pres1 ].

Lemma pres_swap_dep x y d l : pres (swap_dep x y d l).
Proof. unfold swap_dep. pres_all2. Qed.
Lemma pres_var_at_level l : pres (var_at_level l).
Proof. unfold var_at_level. pres_all. Qed.
Lemma pres_level_of_var v : pres (level_of_var v).
Proof. unfold level_of_var. pres_all. Qed.
Lemma pres_gc_loop fuel : ∀ U, pres (gc_loop fuel U).
Proof.
  induction fuel as [|f IH]; intros U; cbn [gc_loop]; [apply pres_raise|].
  destruct (elements U) as [|u l]; [apply pres_ret|].
  pres_all; apply IH.
Qed.
Lemma pres_collect_garbage roots : pres (collect_garbage roots).
Proof. unfold collect_garbage. pres_all; try apply pres_gc_loop. Qed.

Lemma pres_child_level v : pres (child_level v).
Proof. unfold child_level. pres_all. Qed.
Lemma pres_dep_count y X : pres (dep_count y X).
Proof. unfold dep_count. repeat first [apply pres_child_level | pres1]. Qed.

Ltac pres_all3 :=
  repeat first
    [ apply pres_dep_count | apply pres_pop_order | apply pres_levels | apply pres_swap_collect
    | apply pres_swap_up | apply pres_swap_indep | apply pres_swap_dep
    | apply pres_var_at_level | apply pres_level_of_var | apply pres_collect_garbage
    | pres1 ].

Lemma pres_swap x y al : pres (swap x y al).
Proof. unfold swap. pres_all3. Qed.
Lemma pres_shift_loop n : ∀ i d al sz, pres (shift_loop n i d al sz).
Proof.
  induction n as [|n IH]; intros i d al sz; cbn [shift_loop]; [apply pres_ret|].
  apply pres_bind; [apply pres_swap|]. intros [[o nn] al']. apply IH.
Qed.
Lemma pres_shift a e al : pres (shift a e al).
Proof. unfold shift. pres_all3; apply pres_shift_loop. Qed.
Ltac pres_all4 :=
  repeat first
    [ apply pres_swap | apply pres_shift
    | apply pres_pop_order | apply pres_levels
    | apply pres_var_at_level | apply pres_level_of_var | apply pres_collect_garbage
    | pres1 ].
Lemma pres_reorder_var v al : pres (reorder_var v al).
Proof. unfold reorder_var. pres_all4. Qed.
Lemma pres_apply_sifting : pres apply_sifting.
Proof.
  unfold apply_sifting.
  repeat first
    [ apply pres_reorder_var | apply pres_pop_order | apply pres_levels
    | apply pres_collect_garbage | pres1 ].
Qed.
Lemma pres_sort_to_order o : pres (sort_to_order o).
Proof. unfold sort_to_order. pres_all4. Qed.
Lemma pres_reorder_to_pairs p : pres (reorder_to_pairs p).
Proof. unfold reorder_to_pairs. pres_all4. Qed.
Lemma pres_reorder o : pres (reorder o).
Proof. destruct o; [apply pres_sort_to_order|apply pres_apply_sifting]. Qed.
