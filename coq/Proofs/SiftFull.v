(** * SiftFull: the three-way theorems about reordering, with a middle
      disjunct that SAYS what holds when a swap is refused by the full-table
      pre-check ([Err ERuntime], possible only with a bounded table): the
      manager is the one between two swaps — [Stp L s s'] (well formed, exact
      counts for the same ledger, every held reference keeps identity and
      function, [nozero] kept), the same declared variables, and for the
      top-level functions the same [rr] (context flag, roots, [max_nodes]).
      Corollaries of the three-way theorems of [Sift1..Sift8]/[SiftMin], the
      safety lemmas of [Sift8]/[Total3] and the [nft] lemmas of [Sift7]. *)
From DD Require Export Sift9 SiftMin Total3.

(** the full-table error implies a bounded table *)
Lemma nft_full {A} (m : MS A) s s' :
  nft m → m s = (Err ERuntime, s') → is_Some (max_nodes s).
Proof.
  intros Hn H. destruct (max_nodes s) as [n|] eqn:E; [by eexists|].
  by destruct (Hn s _ s' E H) as [_ ?].
Qed.

Lemma shift_loop_full L s0 a (down : bool) : Inv s0 → ∀ n i al sizes s r s',
  Stp L s0 s → levels_ok s al → vperm (mv a i) s0 s →
  (if down then a ≤ i ∧ i + n < nvars s0 else i ≤ a ∧ n ≤ i ∧ i < nvars s0) →
  (∀ p v, (p, v) ∈ sizes → Visited L s0 a p v) →
  shift_loop n i down al sizes s = (r, s') →
  r = Err EOracle ∨
  (r = Err ERuntime ∧ is_Some (max_nodes s) ∧ Stp L s0 s' ∧
   dom (vars s') = dom (vars s0)) ∨
  ∃ sizes' al', r = Ok (sizes', al') ∧ Stp L s0 s' ∧ levels_ok s' al' ∧
    vperm (mv a (if down then i + n else i - n)) s0 s' ∧
    (∀ p v, (p, v) ∈ sizes' → Visited L s0 a p v) ∧
    (∀ p, p ∈ sizes.*1 → p ∈ sizes'.*1) ∧
    (0 < n → ∀ p, Sift1.between i (if down then i + n else i - n) p → p ∈ sizes'.*1) ∧
    (n = 0 → sizes' = sizes).
Proof.
  intros HI0 n i al sizes s r s' HS Hal Hp Hb Hsz Hrun.
  destruct (shift_loop_spec L s0 a down HI0 n i al sizes s r s' HS Hal Hp Hb Hsz Hrun)
    as [?|[->|?]]; [by left| |by right; right].
  right; left. split; [done|].
  split; [exact (nft_full _ s s' (nft_shift_loop n i down al sizes) Hrun)|].
  pose proof HS as (_&Hn&_).
  destruct (shift_loop_safe L s0 down n i al sizes s _ s' HS Hal
              (Stp_dom L _ s0 s HS Hp) ltac:(rewrite Hn; destruct down; lia) Hrun)
    as [[=]|(?&?&_)].
  done.
Qed.

Theorem shift_full L s a e al r s' :
  Gd L s → levels_ok s al → a < nvars s → e < nvars s →
  shift a e al s = (r, s') →
  r = Err EOracle ∨
  (r = Err ERuntime ∧ is_Some (max_nodes s) ∧ Stp L s s' ∧
   dom (vars s') = dom (vars s)) ∨
  ∃ sizes al', r = Ok (sizes, al') ∧ Stp L s s' ∧ levels_ok s' al' ∧
    vperm (mv a e) s s' ∧
    (∀ p v, (p, v) ∈ sizes → Visited L s a p v) ∧
    (a ≠ e → ∀ p, Sift1.between a e p → p ∈ sizes.*1) ∧
    (a = e → sizes = []).
Proof.
  intros HG Hal Ha He Hrun.
  destruct (shift_spec L s a e al r s' HG Hal Ha He Hrun) as [?|[->|?]];
    [by left| |by right; right].
  right; left. split; [done|].
  split; [exact (nft_full _ s s' (nft_shift a e al) Hrun)|].
  destruct (shift_safe L s a e al s _ s' (Stp_refl L s HG) Hal eq_refl Hrun)
    as [[=]|(?&?&_)].
  done.
Qed.

Theorem sort_to_order_full order s L r s' :
  Gd L s →
  dom order = dom (vars s) →
  (∀ v v' l, order !! v = Some l → order !! v' = Some l → v = v') →
  (∀ v l, order !! v = Some l → l < nvars s) →
  (∀ u, u ∈ roots s → held L u) →
  sort_to_order order s = (r, s') →
  r = Err EOracle ∨
  (r = Err ERuntime ∧ is_Some (max_nodes s) ∧ Stp L s s' ∧
   dom (vars s') = dom (vars s) ∧ rr s' = rr s) ∨
  (r = Ok tt ∧ Stp L s s' ∧ vars s' = order ∧ rr s' = rr s).
Proof.
  intros HG Hd Hinj Hb Hroots Hrun.
  destruct (sort_to_order_correct order s L r s' HG Hd Hinj Hb Hroots Hrun) as [?|[->|?]];
    [by left| |by right; right].
  right; left. split; [done|].
  split; [exact (nft_full _ s s' (nft_sort_to_order order) Hrun)|].
  by destruct (sort_to_order_safe order s L _ s' HG Hrun) as [[=]|?].
Qed.

Theorem reorder_to_pairs_full pairs s L r s' :
  Gd L s →
  NoDup (pairs.*1 ++ pairs.*2) →
  (∀ v, v ∈ pairs.*1 ++ pairs.*2 → is_Some (vars s !! v)) →
  reorder_to_pairs pairs s = (r, s') →
  r = Err EOracle ∨
  (r = Err ERuntime ∧ is_Some (max_nodes s) ∧ Stp L s s' ∧
   dom (vars s') = dom (vars s) ∧ rr s' = rr s) ∨
  (r = Ok tt ∧ Stp L s s' ∧ dom (vars s') = dom (vars s) ∧ rr s' = rr s ∧
   ∀ x y, (x, y) ∈ pairs → adj s' x y).
Proof.
  intros HG Hnd Hdecl Hrun.
  destruct (reorder_to_pairs_correct pairs s L r s' HG Hnd Hdecl Hrun) as [?|[->|?]];
    [by left| |by right; right].
  right; left. split; [done|].
  split; [exact (nft_full _ s s' (nft_reorder_to_pairs pairs) Hrun)|].
  by destruct (reorder_to_pairs_safe pairs s L _ s' HG Hrun) as [[=]|?].
Qed.

Theorem reorder_var_full L s var al r s' :
  Gd L s → nozero s → levels_ok s al → is_Some (vars s !! var) →
  reorder_var var al s = (r, s') →
  r = Err EOracle ∨
  (r = Err ERuntime ∧ is_Some (max_nodes s) ∧ Stp L s s' ∧
   dom (vars s') = dom (vars s)) ∨
  ∃ k al' lv, r = Ok (k, al') ∧ vars s !! var = Some lv ∧
    Stp L s s' ∧ levels_ok s' al' ∧ vperm (mv lv k) s s' ∧ len s' ≤ len s.
Proof.
  intros HG Hz Hal Hv Hrun.
  destruct (reorder_var_spec L s var al r s' HG Hz Hal Hv Hrun) as [?|[->|?]];
    [by left| |by right; right].
  right; left. split; [done|].
  split; [exact (nft_full _ s s' (nft_reorder_var var al) Hrun)|].
  destruct (reorder_var_safe L s var al s _ s' (Stp_refl L s HG) Hal eq_refl Hrun)
    as [[=]|(?&?&_)].
  done.
Qed.

Theorem reorder_var_min_full L s var al r s' :
  Gd L s → nozero s → levels_ok s al → is_Some (vars s !! var) →
  reorder_var var al s = (r, s') →
  r = Err EOracle ∨
  (r = Err ERuntime ∧ is_Some (max_nodes s) ∧ Stp L s s' ∧
   dom (vars s') = dom (vars s)) ∨
  ∃ k al' lv, r = Ok (k, al') ∧ vars s !! var = Some lv ∧
    Stp L s s' ∧ levels_ok s' al' ∧ vperm (mv lv k) s s' ∧ k < nvars s ∧
    (∀ p, p < nvars s → ∃ v, Visited L s lv p v ∧ len s' ≤ v) ∧
    (∀ p sp, p < nvars s → Stp L s sp → vperm (mv lv p) s sp → len s' ≤ len sp).
Proof.
  intros HG Hz Hal Hv Hrun.
  destruct (reorder_var_min L s var al r s' HG Hz Hal Hv Hrun) as [?|[->|?]];
    [by left| |by right; right].
  right; left. split; [done|].
  split; [exact (nft_full _ s s' (nft_reorder_var var al) Hrun)|].
  destruct (reorder_var_safe L s var al s _ s' (Stp_refl L s HG) Hal eq_refl Hrun)
    as [[=]|(?&?&_)].
  done.
Qed.

Theorem apply_sifting_full s L r s' :
  Inv s → Counts s L → last_len s = None →
  apply_sifting s = (r, s') →
  r = Err EOracle ∨
  (r = Err ERuntime ∧ is_Some (max_nodes s) ∧ Stp L s s' ∧
   dom (vars s') = dom (vars s) ∧ rr s' = rr s) ∨
  (r = Ok tt ∧ Gd L s' ∧ nozero s' ∧ rr s' = rr s ∧
   dom (vars s') = dom (vars s) ∧ keepsH L s s' ∧ len s' ≤ len s).
Proof.
  intros HI HC Hll Hrun.
  destruct (apply_sifting_spec s L r s' HI HC Hll Hrun) as [?|[->|?]];
    [by left| |by right; right].
  right; left. split; [done|].
  split; [exact (nft_full _ s s' nft_apply_sifting Hrun)|].
  by destruct (apply_sifting_safe s L _ s' ltac:(by split_and!) Hrun) as [[=]|?].
Qed.

(** ** the public entry points: for every setting of dynamic reordering *)
Theorem reorder_to_pairs_pub_safe pairs s L r s' :
  Inv s → Counts s L → reorder_to_pairs_pub pairs s = (r, s') →
  r = Err EOracle ∨
  (Inv s' ∧ Counts s' L ∧ last_len s' = last_len s ∧
   dom (vars s') = dom (vars s) ∧ keepsH L s s' ∧ rr s' = rr s).
Proof.
  intros HI HC Hrun. apply guarded_run in Hrun as [[Hll Hrun]|(ll&s1&Hll&Hrun&->)].
  - destruct (reorder_to_pairs_safe pairs s L r s' ltac:(by split_and!) Hrun)
      as [?|(((?&?&?)&_&?&_)&?&?)]; [by left|right]. split_and!; try done. congruence.
  - destruct (reorder_to_pairs_safe pairs _ L r s1 (Gd_off L s HI HC) Hrun)
      as [?|(((HI1&HC1&_)&_&Hk&_)&Hd&Hr)]; [by left|right]. split_and!; try done.
    + apply (Inv_same s1); [by repeat split|done].
    + by apply (keepsH_ll L s None s1 (Some ll)).
Qed.

Theorem reorder_pub_sift_full s L r s' :
  Inv s → Counts s L → reorder_pub None s = (r, s') →
  r = Err EOracle ∨
  (r = Err ERuntime ∧ is_Some (max_nodes s) ∧ Inv s' ∧ Counts s' L ∧
   last_len s' = last_len s ∧ dom (vars s') = dom (vars s) ∧ keepsH L s s' ∧
   rr s' = rr s) ∨
  (r = Ok tt ∧ Inv s' ∧ Counts s' L ∧ last_len s' = last_len s ∧ nozero s' ∧
   dom (vars s') = dom (vars s) ∧ keepsH L s s' ∧ rr s' = rr s ∧ len s' ≤ len s).
Proof.
  intros HI HC Hrun.
  destruct (reorder_pub_sift s L r s' HI HC Hrun) as [?|[->|?]];
    [by left| |by right; right].
  right; left. split; [done|].
  split; [exact (nft_full _ s s' (nft_reorder_pub None) Hrun)|].
  by destruct (reorder_pub_safe None s L _ s' HI HC Hrun) as [[=]|?].
Qed.

Theorem reorder_pub_order_full order s L r s' :
  Inv s → Counts s L →
  dom order = dom (vars s) →
  (∀ v v' l, order !! v = Some l → order !! v' = Some l → v = v') →
  (∀ v l, order !! v = Some l → l < nvars s) →
  (∀ u, u ∈ roots s → held L u) →
  reorder_pub (Some order) s = (r, s') →
  r = Err EOracle ∨
  (r = Err ERuntime ∧ is_Some (max_nodes s) ∧ Inv s' ∧ Counts s' L ∧
   last_len s' = last_len s ∧ dom (vars s') = dom (vars s) ∧ keepsH L s s' ∧
   rr s' = rr s) ∨
  (r = Ok tt ∧ Inv s' ∧ Counts s' L ∧ last_len s' = last_len s ∧ vars s' = order ∧
   keepsH L s s' ∧ rr s' = rr s).
Proof.
  intros HI HC Hd Hinj Hb Hroots Hrun.
  destruct (reorder_pub_order order s L r s' HI HC Hd Hinj Hb Hroots Hrun) as [?|[->|?]];
    [by left| |by right; right].
  right; left. split; [done|].
  split; [exact (nft_full _ s s' (nft_reorder_pub (Some order)) Hrun)|].
  by destruct (reorder_pub_safe (Some order) s L _ s' HI HC Hrun) as [[=]|?].
Qed.

Theorem reorder_to_pairs_pub_full pairs s L r s' :
  Inv s → Counts s L →
  NoDup (pairs.*1 ++ pairs.*2) →
  (∀ v, v ∈ pairs.*1 ++ pairs.*2 → is_Some (vars s !! v)) →
  reorder_to_pairs_pub pairs s = (r, s') →
  r = Err EOracle ∨
  (r = Err ERuntime ∧ is_Some (max_nodes s) ∧ Inv s' ∧ Counts s' L ∧
   last_len s' = last_len s ∧ dom (vars s') = dom (vars s) ∧ keepsH L s s' ∧
   rr s' = rr s) ∨
  (r = Ok tt ∧ Inv s' ∧ Counts s' L ∧ last_len s' = last_len s ∧
   dom (vars s') = dom (vars s) ∧ keepsH L s s' ∧ rr s' = rr s ∧
   ∀ x y, (x, y) ∈ pairs → adj s' x y).
Proof.
  intros HI HC Hnd Hdecl Hrun.
  destruct (reorder_to_pairs_pub_correct pairs s L r s' HI HC Hnd Hdecl Hrun) as [?|[->|?]];
    [by left| |by right; right].
  right; left. split; [done|].
  split; [exact (nft_full _ s s' (nft_reorder_to_pairs_pub pairs) Hrun)|].
  by destruct (reorder_to_pairs_pub_safe pairs s L _ s' HI HC Hrun) as [[=]|?].
Qed.
