(** * Sift8: [reorder] is safe for ANY order argument; the public entry
      points; the premise of the decorator ([sifting_ok']) *)
From DD Require Export Sift7 Dynamic.

(** ** a loop of steps that are safe *)
Definition SafeOut (L : positive → nat) (s0 : st) (r : res levels_t) (s' : st) : Prop :=
  r = Err EOracle ∨
  (Stp L s0 s' ∧ dom (vars s') = dom (vars s0) ∧ ∀ al', r = Ok al' → levels_ok s' al').

Lemma fold_safe {A} (f : levels_t → A → MS levels_t) L s0 (P : A → Prop) :
  (∀ al a s r s', P a → Stp L s0 s → levels_ok s al → dom (vars s) = dom (vars s0) →
     f al a s = (r, s') → SafeOut L s0 r s') →
  ∀ l al s r s', Forall P l → Stp L s0 s → levels_ok s al → dom (vars s) = dom (vars s0) →
    foldM f al l s = (r, s') → SafeOut L s0 r s'.
Proof.
  intros Hf. induction l as [|a l IH]; intros al s r s' HP HS Hal Hd.
  - cbn [foldM]. intros [= <- <-]. right. split_and!; try done. by intros al' [= <-].
  - apply Forall_cons in HP as [Ha HP]. cbn [foldM].
    destruct (f al a s) as [r1 s1] eqn:E1.
    destruct (Hf al a s r1 s1 Ha HS Hal Hd E1) as [->|(HS1&Hd1&Hal1)].
    + rewrite (bind_err _ _ _ _ _ E1). intros [= <- <-]. by left.
    + destruct r1 as [al1|e].
      * rewrite (bind_ok _ _ _ _ _ E1). apply IH; try done. by apply Hal1.
      * rewrite (bind_err _ _ _ _ _ E1). intros [= <- <-]. right. split_and!; try done.
Qed.

Lemma sort_body_safe order L s0 al i s r s' :
  Stp L s0 s → levels_ok s al → dom (vars s) = dom (vars s0) →
  sort_body order al i s = (r, s') → SafeOut L s0 r s'.
Proof.
  intros HS Hal Hd. pose proof HS as (HG&Hn&_).
  assert (Hsame : ∀ r0, SafeOut L s0 r0 s → (∀ al', r0 = Ok al' → al' = al) →
            SafeOut L s0 r0 s) by done.
  assert (Hstay : ∀ r0, (∀ al', r0 = Ok al' → al' = al) → SafeOut L s0 r0 s).
  { intros r0 Hr. right. split_and!; try done. intros al' E. by rewrite (Hr al' E). }
  unfold sort_body. cbn [bind get].
  destruct (forallb (λ r0, mem r0 s) (roots s)); cbn [ensure]; cycle 1.
  { cbn [bind raise]. intros [= <- <-]. by apply Hstay. }
  rewrite (bind_ok _ _ s tt s) by done.
  assert (Hvat : ∀ l, var_at_level l s =
            (match lvl2var s !! l with Some v => Ok v | None => Err EValue end, s)).
  { intros l. unfold var_at_level. cbn [bind get]. by destruct (lvl2var s !! l). }
  pose proof (Hvat i) as Hvi. pose proof (Hvat (i + 1)) as Hvi1.
  destruct (lvl2var s !! i) as [x|] eqn:Ex; cycle 1.
  { rewrite (bind_err _ _ _ _ _ Hvi). intros [= <- <-]. by apply Hstay. }
  rewrite (bind_ok _ _ _ _ _ Hvi).
  destruct (lvl2var s !! (i + 1)) as [y|] eqn:Ey; cycle 1.
  { rewrite (bind_err _ _ _ _ _ Hvi1). intros [= <- <-]. by apply Hstay. }
  rewrite (bind_ok _ _ _ _ _ Hvi1).
  destruct (order !! x) as [p|]; cbn [of_opt]; cycle 1.
  { cbn [bind raise]. intros [= <- <-]. by apply Hstay. }
  rewrite (bind_ok _ _ s p s) by done.
  destruct (order !! y) as [q|]; cbn [of_opt]; cycle 1.
  { cbn [bind raise]. intros [= <- <-]. by apply Hstay. }
  rewrite (bind_ok _ _ s q s) by done.
  case_decide; cycle 1.
  { intros [= <- <-]. apply Hstay. by intros al' [= <-]. }
  assert (Hi1 : i + 1 < nvars s) by (apply (inv_lvls _ (proj1 HG)); eauto).
  destruct (swap i (i + 1) (Some al) s) as [r1 s1] eqn:Esw.
  destruct (swap_adj L s al i (i + 1) r1 s1 HG Hal ltac:(by left) ltac:(lia) Hi1 Esw)
    as [->|(al1&->&HS1&Hal1&Hp1)].
  { rewrite (bind_err _ _ _ _ _ Esw). intros [= <- <-]. by left. }
  rewrite (bind_ok _ _ _ _ _ Esw). cbn [snd]. intros [= <- <-]. right. split_and!.
  - by apply (Stp_trans L s0 s s1).
  - by rewrite (Stp_dom L _ s s1 HS1 Hp1).
  - by intros al' [= <-].
Qed.

Theorem sort_to_order_safe order s L r s' :
  Gd L s → sort_to_order order s = (r, s') →
  r = Err EOracle ∨ (Stp L s s' ∧ dom (vars s') = dom (vars s) ∧ rr s' = rr s).
Proof.
  intros HG Hrun. pose proof (pres_sort_to_order order s r s' Hrun) as Hrr.
  revert Hrun. rewrite sort_to_order_eq. cbn [bind get].
  case_bool_decide; cbn [ensure]; cycle 1.
  { cbn [bind raise]. intros [= <- <-]. right. split_and!; try done. by apply Stp_refl. }
  rewrite (bind_ok _ _ s tt s) by done.
  destruct (levels_spec s (proj1 HG)) as (al&Hlev&Hal). rewrite (bind_ok _ _ _ _ _ Hlev).
  destruct (foldM (fun al (_ : nat) => foldM (sort_body order) al (seq 0 (size order - 1)))
              al (seq 0 (size order)) s) as [r1 s1] eqn:Eout.
  assert (Hout : SafeOut L s r1 s1).
  { apply (fold_safe (fun al (_ : nat) => foldM (sort_body order) al (seq 0 (size order - 1)))
             L s (fun _ => True)) with (seq 0 (size order)) al s; try done.
    - intros al0 _ s2 r2 s3 _ HS2 Hal2 Hd2.
      apply (fold_safe (sort_body order) L s (fun _ => True)); try done.
      + intros al3 i s4 r4 s5 _. apply sort_body_safe.
      + by apply Forall_forall.
    - by apply Forall_forall.
    - by apply Stp_refl. }
  destruct Hout as [->|(HS1&Hd1&_)].
  - rewrite (bind_err _ _ _ _ _ Eout). intros [= <- <-]. by left.
  - destruct r1 as [al1|e].
    + rewrite (bind_ok _ _ _ _ _ Eout). intros [= <- <-]. by right.
    + rewrite (bind_err _ _ _ _ _ Eout). intros [= <- <-]. by right.
Qed.

(** ** [reorder], any argument *)
Theorem reorder_safe o s L r s' :
  Gd L s → reorder o s = (r, s') →
  r = Err EOracle ∨
  (Gd L s' ∧ dom (vars s') = dom (vars s) ∧ keepsH L s s' ∧ rr s' = rr s).
Proof.
  intros HG Hrun. destruct o as [order|]; cbn [reorder] in Hrun.
  - destruct (sort_to_order_safe order s L r s' HG Hrun) as [?|((?&_&?&_)&?&?)]; [by left|right].
    done.
  - destruct HG as (HI&HC&Hll).
    destruct (apply_sifting_spec s L r s' HI HC Hll Hrun) as [?|(_&?&_&?&?&?&_)]; [by left|right].
    done.
Qed.

(** ** the public entry points: requests are switched off around the call *)
Lemma guarded_run {A} (m : MS A) s r s' : guarded m s = (r, s') →
  (last_len s = None ∧ m s = (r, s')) ∨
  ∃ ll s1, last_len s = Some ll ∧ m (s <| last_len := None |>) = (r, s1) ∧
           s' = s1 <| last_len := Some ll |>.
Proof.
  unfold guarded. cbn [bind get]. destruct (last_len s) as [ll|] eqn:Ell; [|by left].
  cbn [bind modify]. destruct (m (s <| last_len := None |>)) as [r0 s1] eqn:E.
  assert (Hc : catch m (s <| last_len := None |>) = (Ok r0, s1)) by (unfold catch; by rewrite E).
  rewrite (bind_ok _ _ _ _ _ Hc). cbn [bind modify].
  destruct r0; cbn [reraise ret raise]; intros [= <- <-]; right; eauto.
Qed.

Lemma Gd_off L s : Inv s → Counts s L → Gd L (s <| last_len := None |>).
Proof.
  intros HI HC. split_and!; [|by apply (Counts_same s)|done].
  apply (Inv_same s); [by repeat split|done].
Qed.
Lemma denv_ll s x u ρ : denv (s <| last_len := x |>) u ρ = denv s u ρ.
Proof. unfold denv. by apply D_same. Qed.
Lemma keepsH_ll L s x s1 y :
  keepsH L (s <| last_len := x |>) s1 → keepsH L s (s1 <| last_len := y |>).
Proof.
  intros Hk u Hu. destruct (Hk u Hu) as (V&V1&HD). split_and!; try done.
  intros ρ. by rewrite denv_ll, HD, denv_ll.
Qed.

Theorem reorder_pub_safe o s L r s' :
  Inv s → Counts s L → reorder_pub o s = (r, s') →
  r = Err EOracle ∨
  (Inv s' ∧ Counts s' L ∧ last_len s' = last_len s ∧
   dom (vars s') = dom (vars s) ∧ keepsH L s s' ∧ rr s' = rr s).
Proof.
  intros HI HC Hrun. apply guarded_run in Hrun as [[Hll Hrun]|(ll&s1&Hll&Hrun&->)].
  - destruct (reorder_safe o s L r s' ltac:(by split_and!) Hrun)
      as [?|((?&?&?)&?&?&?)]; [by left|right]. split_and!; try done. congruence.
  - destruct (reorder_safe o _ L r s1 (Gd_off L s HI HC) Hrun)
      as [?|((HI1&HC1&_)&Hd&Hk&Hr)]; [by left|right]. split_and!; try done.
    + apply (Inv_same s1); [by repeat split|done].
    + by apply (keepsH_ll L s None s1 (Some ll)).
Qed.

(** sifting through the public entry point *)
Theorem reorder_pub_sift s L r s' :
  Inv s → Counts s L → reorder_pub None s = (r, s') →
  r = Err EOracle ∨
  (r = Ok tt ∧ Inv s' ∧ Counts s' L ∧ last_len s' = last_len s ∧ nozero s' ∧
   dom (vars s') = dom (vars s) ∧ keepsH L s s' ∧ rr s' = rr s ∧ len s' ≤ len s).
Proof.
  intros HI HC Hrun. apply guarded_run in Hrun as [[Hll Hrun]|(ll&s1&Hll&Hrun&->)];
    cbn [reorder] in Hrun.
  - destruct (apply_sifting_spec s L r s' HI HC Hll Hrun)
      as [?|(?&(?&?&?)&?&?&?&?&?)]; [by left|right]. split_and!; try done. congruence.
  - destruct (Gd_off L s HI HC) as (HI0&HC0&Hll0).
    destruct (apply_sifting_spec _ L r s1 HI0 HC0 Hll0 Hrun)
      as [?|(?&(HI1&HC1&_)&Hz&Hr&Hd&Hk&Hle)]; [by left|right]. split_and!; try done.
    + apply (Inv_same s1); [by repeat split|done].
    + by apply (keepsH_ll L s None s1 (Some ll)).
Qed.

(** a given order through the public entry point *)
Theorem reorder_pub_order order s L r s' :
  Inv s → Counts s L →
  dom order = dom (vars s) →
  (∀ v v' l, order !! v = Some l → order !! v' = Some l → v = v') →
  (∀ v l, order !! v = Some l → l < nvars s) →
  (∀ u, u ∈ roots s → held L u) →
  reorder_pub (Some order) s = (r, s') →
  r = Err EOracle ∨
  (r = Ok tt ∧ Inv s' ∧ Counts s' L ∧ last_len s' = last_len s ∧ vars s' = order ∧
   keepsH L s s' ∧ rr s' = rr s).
Proof.
  intros HI HC Hd Hinj Hb Hroots Hrun.
  apply guarded_run in Hrun as [[Hll Hrun]|(ll&s1&Hll&Hrun&->)]; cbn [reorder] in Hrun.
  - destruct (sort_to_order_correct order s L r s' ltac:(by split_and!) Hd Hinj Hb Hroots Hrun)
      as [?|(?&((?&?&?)&_&?&_)&?&?)]; [by left|right]. split_and!; try done. congruence.
  - destruct (sort_to_order_correct order _ L r s1 (Gd_off L s HI HC) Hd Hinj Hb Hroots Hrun)
      as [?|(?&((HI1&HC1&_)&_&Hk&_)&Hv&Hr)]; [by left|right]. split_and!; try done.
    + apply (Inv_same s1); [by repeat split|done].
    + by apply (keepsH_ll L s None s1 (Some ll)).
Qed.

Theorem reorder_to_pairs_pub_correct pairs s L r s' :
  Inv s → Counts s L →
  NoDup (pairs.*1 ++ pairs.*2) →
  (∀ v, v ∈ pairs.*1 ++ pairs.*2 → is_Some (vars s !! v)) →
  reorder_to_pairs_pub pairs s = (r, s') →
  r = Err EOracle ∨
  (r = Ok tt ∧ Inv s' ∧ Counts s' L ∧ last_len s' = last_len s ∧
   dom (vars s') = dom (vars s) ∧ keepsH L s s' ∧ rr s' = rr s ∧
   ∀ x y, (x, y) ∈ pairs → adj s' x y).
Proof.
  intros HI HC Hnd Hdecl Hrun.
  apply guarded_run in Hrun as [[Hll Hrun]|(ll&s1&Hll&Hrun&->)].
  - destruct (reorder_to_pairs_correct pairs s L r s' ltac:(by split_and!) Hnd Hdecl Hrun)
      as [?|(?&((?&?&?)&_&?&_)&?&?&?)]; [by left|right]. split_and!; try done. congruence.
  - destruct (reorder_to_pairs_correct pairs _ L r s1 (Gd_off L s HI HC) Hnd Hdecl Hrun)
      as [?|(?&((HI1&HC1&_)&_&Hk&_)&Hd&Hr&Hadj)]; [by left|right]. split_and!; try done.
    + apply (Inv_same s1); [by repeat split|done].
    + by apply (keepsH_ll L s None s1 (Some ll)).
Qed.
