(** * Sift8: [reorder] is safe for ANY order argument; the public entry
      points; the premise of the decorator ([sifting_ok']) *)
From DD Require Export Sift7 Dynamic.

(** ** a loop of steps that are safe *)
Definition SafeOut (L : positive → nat) (s0 : st) (r : res levels_t) (s' : st) : Prop :=
  r = Err EOracle ∨
  (Stp L s0 s' ∧ dom (vars s') = dom (vars s0) ∧ ∀ al', r = Ok al' → levels_ok s' al').

Lemma fold_safe {A} (f : levels_t → A → MS levels_t) L s0 (P : A → Prop) :
  (∀ al a s r s', P a → Stp L s0 s → levels_ok s al → dom (vars s) = dom (vars s0) →
     f al a s = (r, s') → SafeOut L s0 r s') →
  ∀ l al s r s', Forall P l → Stp L s0 s → levels_ok s al → dom (vars s) = dom (vars s0) →
    foldM f al l s = (r, s') → SafeOut L s0 r s'.
Proof.
  intros Hf. induction l as [|a l IH]; intros al s r s' HP HS Hal Hd.
  - cbn [foldM]. intros [= <- <-]. right. split_and!; try done. by intros al' [= <-].
  - apply Forall_cons in HP as [Ha HP]. cbn [foldM].
    destruct (f al a s) as [r1 s1] eqn:E1.
    destruct (Hf al a s r1 s1 Ha HS Hal Hd E1) as [->|(HS1&Hd1&Hal1)].
    + rewrite (bind_err _ _ _ _ _ E1). intros [= <- <-]. by left.
    + destruct r1 as [al1|e].
      * rewrite (bind_ok _ _ _ _ _ E1). apply IH; try done. by apply Hal1.
      * rewrite (bind_err _ _ _ _ _ E1). intros [= <- <-]. right. split_and!; try done.
Qed.

Lemma sort_body_safe order L s0 al i s r s' :
  Stp L s0 s → levels_ok s al → dom (vars s) = dom (vars s0) →
  sort_body order al i s = (r, s') → SafeOut L s0 r s'.
Proof.
  intros HS Hal Hd. pose proof HS as (HG&Hn&_).
  assert (Hsame : ∀ r0, SafeOut L s0 r0 s → (∀ al', r0 = Ok al' → al' = al) →
            SafeOut L s0 r0 s) by done.
  assert (Hstay : ∀ r0, (∀ al', r0 = Ok al' → al' = al) → SafeOut L s0 r0 s).
  { intros r0 Hr. right. split_and!; try done. intros al' E. by rewrite (Hr al' E). }
  unfold sort_body. cbn [bind get].
  destruct (forallb (λ r0, mem r0 s) (roots s)); cbn [ensure]; cycle 1.
  { cbn [bind raise]. intros [= <- <-]. by apply Hstay. }
  rewrite (bind_ok _ _ s tt s) by done.
  assert (Hvat : ∀ l, var_at_level l s =
            (match lvl2var s !! l with Some v => Ok v | None => Err EValue end, s)).
  { intros l. unfold var_at_level. cbn [bind get]. by destruct (lvl2var s !! l). }
  pose proof (Hvat i) as Hvi. pose proof (Hvat (i + 1)) as Hvi1.
  destruct (lvl2var s !! i) as [x|] eqn:Ex; cycle 1.
  { rewrite (bind_err _ _ _ _ _ Hvi). intros [= <- <-]. by apply Hstay. }
  rewrite (bind_ok _ _ _ _ _ Hvi).
  destruct (lvl2var s !! (i + 1)) as [y|] eqn:Ey; cycle 1.
  { rewrite (bind_err _ _ _ _ _ Hvi1). intros [= <- <-]. by apply Hstay. }
  rewrite (bind_ok _ _ _ _ _ Hvi1).
  destruct (order !! x) as [p|]; cbn [of_opt]; cycle 1.
  { cbn [bind raise]. intros [= <- <-]. by apply Hstay. }
  rewrite (bind_ok _ _ s p s) by done.
  destruct (order !! y) as [q|]; cbn [of_opt]; cycle 1.
  { cbn [bind raise]. intros [= <- <-]. by apply Hstay. }
  rewrite (bind_ok _ _ s q s) by done.
  case_decide; cycle 1.
  { intros [= <- <-]. apply Hstay. by intros al' [= <-]. }
  assert (Hi1 : i + 1 < nvars s) by (apply (inv_lvls _ (proj1 HG)); eauto).
  destruct (swap i (i + 1) (Some al) s) as [r1 s1] eqn:Esw.
  destruct (swap_adj L s al i (i + 1) r1 s1 HG Hal ltac:(by left) ltac:(lia) Hi1 Esw)
    as [->|[(->&->&_)|(al1&->&HS1&Hal1&Hp1)]].
  { rewrite (bind_err _ _ _ _ _ Esw). intros [= <- <-]. by left. }
  { rewrite (bind_err _ _ _ _ _ Esw). intros [= <- <-]. by apply Hstay. }
  rewrite (bind_ok _ _ _ _ _ Esw). cbn [snd]. intros [= <- <-]. right. split_and!.
  - by apply (Stp_trans L s0 s s1).
  - by rewrite (Stp_dom L _ s s1 HS1 Hp1).
  - by intros al' [= <-].
Qed.

Theorem sort_to_order_safe order s L r s' :
  Gd L s → sort_to_order order s = (r, s') →
  r = Err EOracle ∨ (Stp L s s' ∧ dom (vars s') = dom (vars s) ∧ rr s' = rr s).
Proof.
  intros HG Hrun. pose proof (pres_sort_to_order order s r s' Hrun) as Hrr.
  revert Hrun. rewrite sort_to_order_eq. cbn [bind get].
  case_bool_decide; cbn [ensure]; cycle 1.
  { cbn [bind raise]. intros [= <- <-]. right. split_and!; try done. by apply Stp_refl. }
  rewrite (bind_ok _ _ s tt s) by done.
  destruct (levels_spec s (proj1 HG)) as (al&Hlev&Hal). rewrite (bind_ok _ _ _ _ _ Hlev).
  destruct (foldM (fun al (_ : nat) => foldM (sort_body order) al (seq 0 (size order - 1)))
              al (seq 0 (size order)) s) as [r1 s1] eqn:Eout.
  assert (Hout : SafeOut L s r1 s1).
  { apply (fold_safe (fun al (_ : nat) => foldM (sort_body order) al (seq 0 (size order - 1)))
             L s (fun _ => True)) with (seq 0 (size order)) al s; try done.
    - intros al0 _ s2 r2 s3 _ HS2 Hal2 Hd2.
      apply (fold_safe (sort_body order) L s (fun _ => True)); try done.
      + intros al3 i s4 r4 s5 _. apply sort_body_safe.
      + by apply Forall_forall.
    - by apply Forall_forall.
    - by apply Stp_refl. }
  destruct Hout as [->|(HS1&Hd1&_)].
  - rewrite (bind_err _ _ _ _ _ Eout). intros [= <- <-]. by left.
  - destruct r1 as [al1|e].
    + rewrite (bind_ok _ _ _ _ _ Eout). intros [= <- <-]. by right.
    + rewrite (bind_err _ _ _ _ _ Eout). intros [= <- <-]. by right.
Qed.

(** ** sifting is safe as well: a swap refused by the full-table pre-check
    stops the pass between two swaps *)
Definition SafeOutG {A} (lev : A → levels_t) (L : positive → nat) (s0 : st)
    (r : res A) (s' : st) : Prop :=
  r = Err EOracle ∨
  (Stp L s0 s' ∧ dom (vars s') = dom (vars s0) ∧ ∀ a, r = Ok a → levels_ok s' (lev a)).

Lemma safe_stay {A} (lev : A → levels_t) L s0 s (r : res A) :
  Stp L s0 s → dom (vars s) = dom (vars s0) → (∀ a, r ≠ Ok a) → SafeOutG lev L s0 r s.
Proof. intros HS Hd Hr. right. split_and!; try done. intros a E. by destruct (Hr a). Qed.

Lemma shift_loop_safe L s0 (down : bool) : ∀ n i al sizes s r s',
  Stp L s0 s → levels_ok s al → dom (vars s) = dom (vars s0) →
  (if down then i + n < nvars s else n ≤ i ∧ i < nvars s) →
  shift_loop n i down al sizes s = (r, s') →
  SafeOutG snd L s0 r s'.
Proof.
  induction n as [|n IH]; intros i al sizes s r s' HS Hal Hd Hb.
  - cbn [shift_loop]. intros [= <- <-]. right. split_and!; try done. by intros a [= <-].
  - cbn [shift_loop]. set (j := if down then i + 1 else i - 1).
    pose proof HS as (HG&Hnv&_).
    assert (Hij : j = i + 1 ∨ i = j + 1) by (subst j; destruct down; lia).
    destruct (swap i j (Some al) s) as [r1 s1] eqn:Esw.
    destruct (swap_adj L s al i j r1 s1 HG Hal Hij ltac:(destruct down; lia)
                ltac:(subst j; destruct down; lia) Esw)
      as [->|[(->&->&_)|(al1&->&HS1&Hal1&Hp1)]].
    { rewrite (bind_err _ _ _ _ _ Esw). intros [= <- <-]. by left. }
    { rewrite (bind_err _ _ _ _ _ Esw). intros [= <- <-]. by apply safe_stay. }
    rewrite (bind_ok _ _ _ _ _ Esw). cbv beta iota.
    pose proof HS1 as (_&Hn1&_).
    apply IH; [by apply (Stp_trans L s0 s s1)|done| |].
    + by rewrite (Stp_dom L _ s s1 HS1 Hp1).
    + rewrite Hn1. subst j. destruct down; lia.
Qed.

Lemma shift_safe L s0 a e al s r s' :
  Stp L s0 s → levels_ok s al → dom (vars s) = dom (vars s0) →
  shift a e al s = (r, s') → SafeOutG snd L s0 r s'.
Proof.
  intros HS Hal Hd. unfold shift. cbn [bind get]. unfold assert.
  case_bool_decide as Ha; cbn [bind ret raise];
    [|intros [= <- <-]; by apply safe_stay].
  case_bool_decide as He; cbn [bind ret raise];
    [|intros [= <- <-]; by apply safe_stay].
  case_decide; apply shift_loop_safe; try done; lia.
Qed.

Lemma reorder_var_safe L s0 var al s r s' :
  Stp L s0 s → levels_ok s al → dom (vars s) = dom (vars s0) →
  reorder_var var al s = (r, s') → SafeOutG snd L s0 r s'.
Proof.
  intros HS Hal Hd. unfold reorder_var. cbn [bind get]. unfold ensure, assert.
  case_bool_decide; cbn [bind ret raise]; [|intros [= <- <-]; by apply safe_stay].
  case_bool_decide; cbn [bind ret raise]; [|intros [= <- <-]; by apply safe_stay].
  assert (Hlv : level_of_var var s =
            (match vars s !! var with Some l => Ok l | None => Err EValue end, s)).
  { unfold level_of_var. cbn [bind get]. by destruct (vars s !! var). }
  destruct (vars s !! var) as [level|];
    [rewrite (bind_ok _ _ _ _ _ Hlv)
    |rewrite (bind_err _ _ _ _ _ Hlv); intros [= <- <-]; by apply safe_stay].
  destruct (if decide (nvars s - 1 <= 2 * level) then (nvars s - 1, 0) else (0, nvars s - 1))
    as [start end_].
  (* first shift *)
  destruct (shift level start al s) as [r1 s1] eqn:E1.
  destruct (shift_safe L s0 level start al s r1 s1 HS Hal Hd E1) as [->|(HS1&Hd1&Hal1)].
  { rewrite (bind_err _ _ _ _ _ E1). intros [= <- <-]. by left. }
  destruct r1 as [[sz1 al1]|e]; cycle 1.
  { rewrite (bind_err _ _ _ _ _ E1). intros [= <- <-]. by apply safe_stay. }
  rewrite (bind_ok _ _ _ _ _ E1). cbv beta iota.
  specialize (Hal1 _ eq_refl). cbn [snd] in Hal1.
  (* second shift *)
  destruct (shift start end_ al1 s1) as [r2 s2] eqn:E2.
  destruct (shift_safe L s0 start end_ al1 s1 r2 s2 HS1 Hal1 Hd1 E2) as [->|(HS2&Hd2&Hal2)].
  { rewrite (bind_err _ _ _ _ _ E2). intros [= <- <-]. by left. }
  destruct r2 as [[sizes al2]|e]; cycle 1.
  { rewrite (bind_err _ _ _ _ _ E2). intros [= <- <-]. by apply safe_stay. }
  rewrite (bind_ok _ _ _ _ _ E2). cbv beta iota.
  specialize (Hal2 _ eq_refl). cbn [snd] in Hal2.
  case_decide.
  { intros [= <- <-]. right. split_and!; try done. by intros a [= <-]. }
  destruct (argmin sizes) as [[k mk]|]; cbn [of_opt bind ret raise];
    [|intros [= <- <-]; by apply safe_stay].
  (* third shift *)
  destruct (shift end_ k al2 s2) as [r3 s3] eqn:E3.
  destruct (shift_safe L s0 end_ k al2 s2 r3 s3 HS2 Hal2 Hd2 E3) as [->|(HS3&Hd3&Hal3)].
  { rewrite (bind_err _ _ _ _ _ E3). intros [= <- <-]. by left. }
  destruct r3 as [[sz3 al3]|e]; cycle 1.
  { rewrite (bind_err _ _ _ _ _ E3). intros [= <- <-]. by apply safe_stay. }
  rewrite (bind_ok _ _ _ _ _ E3). cbv beta iota. cbn [bind get].
  specialize (Hal3 _ eq_refl). cbn [snd] in Hal3.
  case_bool_decide; cbn [bind ret raise]; [|intros [= <- <-]; by apply safe_stay].
  case_bool_decide; cbn [bind ret raise]; [|intros [= <- <-]; by apply safe_stay].
  intros [= <- <-]. right. split_and!; try done. by intros a [= <-].
Qed.

Lemma sift_body_safe L s0 al p s r s' :
  Stp L s0 s → levels_ok s al → dom (vars s) = dom (vars s0) →
  sift_body al p s = (r, s') → SafeOut L s0 r s'.
Proof.
  intros HS Hal Hd. unfold sift_body.
  destruct (reorder_var (Nat.pred (Pos.to_nat p)) al s) as [r1 s1] eqn:E1.
  destruct (reorder_var_safe L s0 _ al s r1 s1 HS Hal Hd E1) as [->|(HS1&Hd1&Hal1)].
  { rewrite (bind_err _ _ _ _ _ E1). intros [= <- <-]. by left. }
  destruct r1 as [[k al1]|e].
  - rewrite (bind_ok _ _ _ _ _ E1). intros [= <- <-]. right. split_and!; try done.
    intros al' [= <-]. by apply (Hal1 (k, al1)).
  - rewrite (bind_err _ _ _ _ _ E1). intros [= <- <-]. right. split_and!; try done.
Qed.

Theorem apply_sifting_safe s L r s' :
  Gd L s → apply_sifting s = (r, s') →
  r = Err EOracle ∨ (Stp L s s' ∧ dom (vars s') = dom (vars s) ∧ rr s' = rr s).
Proof.
  intros (HI&HC&Hll) Hrun.
  pose proof (pres_apply_sifting s r s' Hrun) as Hrr.
  revert Hrun. unfold apply_sifting.
  destruct (collect_garbage None s) as [rg s1] eqn:Egc.
  pose proof (gc_nozero s L rg s1 HI HC Egc) as Hz1.
  destruct (gc_exact s L rg s1 HI HC Egc) as (->&HI1&HC1&_&Hv1&Hl1&Hll1&Hdom1&Hsub1).
  rewrite (bind_ok _ _ _ _ _ Egc). cbn [bind get].
  destruct (levels_spec s1 HI1) as (al&Hlev&Hal). rewrite (bind_ok _ _ _ _ _ Hlev).
  assert (HG1 : Gd L s1) by (split_and!; [done|done|congruence]).
  assert (Hk1 : keepsH L s s1).
  { intros u [Hu0 Hu].
    destruct (gc_preserves_den None s L (Ok tt) s1 u HI HC I Egc Hu0) as (V1&V&HD).
    { destruct Hu as [?|Hu]; [by left|right]. apply reach_root; [done|].
      destruct HC as [_ HC2]. destruct (decide (absn u ∈ dom (succ s))) as [|Hd]; [done|].
      rewrite (HC2 _ Hd) in Hu. lia. }
    split_and!; try done. intros ρ. unfold denv. rewrite Hl1. apply HD. }
  assert (HS1 : Stp L s s1).
  { split; [done|]. split; [unfold nvars; by rewrite Hv1|]. split; [done|by intros _]. }
  destruct (pop_order (set_map Pos.of_succ_nat (dom (vars s1))) s1) as [ro sP] eqn:Epo.
  destruct (pop_order_spec _ s1 ro sP Epo) as (EsP&EpP&HkP&Hro).
  destruct Hro as [->|(names&->&_&Hnames)].
  { rewrite (bind_err _ _ _ _ _ Epo). intros [= <- <-]. by left. }
  rewrite (bind_ok _ _ _ _ _ Epo).
  destruct HkP as (Er&Em&Ei&Ev&El&Ell&_).
  assert (HGP : Gd L sP).
  { split_and!.
    - apply (Inv_same s1); [|done]. split_and!; try done. by rewrite Er.
    - by apply (Counts_same s1).
    - congruence. }
  assert (HSP : Stp L s sP).
  { apply (Stp_trans L s s1 sP); [done|]. split; [done|]. split; [unfold nvars; by rewrite Ev|].
    split.
    - intros u Hu. pose proof (held_valid L s1 u HI1 HC1 Hu) as Hv.
      split_and!; try done; [unfold valid; by rewrite EsP|].
      intros ρ. unfold denv. rewrite El. by apply D_same.
    - intros Hz n. rewrite EsP, Er. apply Hz. }
  assert (HalP : levels_ok sP al).
  { intros l Hl. unfold nvars in Hl. rewrite Ev in Hl. destruct (Hal l Hl) as (X&?&HX).
    exists X. split; [done|]. intros n. by rewrite EsP. }
  assert (HdP : dom (vars sP) = dom (vars s)) by (by rewrite Ev, Hv1).
  destruct (foldM (fun al p => r <- reorder_var (Nat.pred (Pos.to_nat p)) al ;; ret (snd r))
              al names sP) as [rf sF] eqn:Ef.
  assert (Hout : SafeOut L s rf sF).
  { apply (fold_safe sift_body L s (fun _ => True)) with names al sP; try done.
    - intros al0 p s2 r2 s3 _. apply sift_body_safe.
    - by apply Forall_forall. }
  destruct Hout as [->|(HSF&HdF&_)].
  { rewrite (bind_err _ _ _ _ _ Ef). intros [= <- <-]. by left. }
  destruct rf as [alF|e].
  - rewrite (bind_ok _ _ _ _ _ Ef). cbn [bind get]. unfold assert.
    case_bool_decide; intros [= <- <-]; by right.
  - rewrite (bind_err _ _ _ _ _ Ef). intros [= <- <-]. by right.
Qed.

(** ** [reorder], any argument *)
Theorem reorder_safe o s L r s' :
  Gd L s → reorder o s = (r, s') →
  r = Err EOracle ∨
  (Gd L s' ∧ dom (vars s') = dom (vars s) ∧ keepsH L s s' ∧ rr s' = rr s).
Proof.
  intros HG Hrun. destruct o as [order|]; cbn [reorder] in Hrun.
  - destruct (sort_to_order_safe order s L r s' HG Hrun) as [?|((?&_&?&_)&?&?)]; [by left|right].
    done.
  - destruct (apply_sifting_safe s L r s' HG Hrun) as [?|((?&_&?&_)&?&?)]; [by left|right].
    done.
Qed.

(** ** the public entry points: requests are switched off around the call *)
Lemma guarded_run {A} (m : MS A) s r s' : guarded m s = (r, s') →
  (last_len s = None ∧ m s = (r, s')) ∨
  ∃ ll s1, last_len s = Some ll ∧ m (s <| last_len := None |>) = (r, s1) ∧
           s' = s1 <| last_len := Some ll |>.
Proof.
  unfold guarded. cbn [bind get]. destruct (last_len s) as [ll|] eqn:Ell; [|by left].
  cbn [bind modify]. destruct (m (s <| last_len := None |>)) as [r0 s1] eqn:E.
  assert (Hc : catch m (s <| last_len := None |>) = (Ok r0, s1)) by (unfold catch; by rewrite E).
  rewrite (bind_ok _ _ _ _ _ Hc). cbn [bind modify].
  destruct r0; cbn [reraise ret raise]; intros [= <- <-]; right; eauto.
Qed.

Lemma Gd_off L s : Inv s → Counts s L → Gd L (s <| last_len := None |>).
Proof.
  intros HI HC. split_and!; [|by apply (Counts_same s)|done].
  apply (Inv_same s); [by repeat split|done].
Qed.
Lemma denv_ll s x u ρ : denv (s <| last_len := x |>) u ρ = denv s u ρ.
Proof. unfold denv. by apply D_same. Qed.
Lemma keepsH_ll L s x s1 y :
  keepsH L (s <| last_len := x |>) s1 → keepsH L s (s1 <| last_len := y |>).
Proof.
  intros Hk u Hu. destruct (Hk u Hu) as (V&V1&HD). split_and!; try done.
  intros ρ. by rewrite denv_ll, HD, denv_ll.
Qed.

Theorem reorder_pub_safe o s L r s' :
  Inv s → Counts s L → reorder_pub o s = (r, s') →
  r = Err EOracle ∨
  (Inv s' ∧ Counts s' L ∧ last_len s' = last_len s ∧
   dom (vars s') = dom (vars s) ∧ keepsH L s s' ∧ rr s' = rr s).
Proof.
  intros HI HC Hrun. apply guarded_run in Hrun as [[Hll Hrun]|(ll&s1&Hll&Hrun&->)].
  - destruct (reorder_safe o s L r s' ltac:(by split_and!) Hrun)
      as [?|((?&?&?)&?&?&?)]; [by left|right]. split_and!; try done. congruence.
  - destruct (reorder_safe o _ L r s1 (Gd_off L s HI HC) Hrun)
      as [?|((HI1&HC1&_)&Hd&Hk&Hr)]; [by left|right]. split_and!; try done.
    + apply (Inv_same s1); [by repeat split|done].
    + by apply (keepsH_ll L s None s1 (Some ll)).
Qed.

(** sifting through the public entry point *)
Theorem reorder_pub_sift s L r s' :
  Inv s → Counts s L → reorder_pub None s = (r, s') →
  r = Err EOracle ∨ r = Err ERuntime ∨
  (r = Ok tt ∧ Inv s' ∧ Counts s' L ∧ last_len s' = last_len s ∧ nozero s' ∧
   dom (vars s') = dom (vars s) ∧ keepsH L s s' ∧ rr s' = rr s ∧ len s' ≤ len s).
Proof.
  intros HI HC Hrun. apply guarded_run in Hrun as [[Hll Hrun]|(ll&s1&Hll&Hrun&->)];
    cbn [reorder] in Hrun.
  - destruct (apply_sifting_spec s L r s' HI HC Hll Hrun)
      as [?|[?|(?&(?&?&?)&?&?&?&?&?)]]; [by left|by right; left|right; right]. split_and!; try done. congruence.
  - destruct (Gd_off L s HI HC) as (HI0&HC0&Hll0).
    destruct (apply_sifting_spec _ L r s1 HI0 HC0 Hll0 Hrun)
      as [?|[?|(?&(HI1&HC1&_)&Hz&Hr&Hd&Hk&Hle)]]; [by left|by right; left|right; right]. split_and!; try done.
    + apply (Inv_same s1); [by repeat split|done].
    + by apply (keepsH_ll L s None s1 (Some ll)).
Qed.

(** a given order through the public entry point *)
Theorem reorder_pub_order order s L r s' :
  Inv s → Counts s L →
  dom order = dom (vars s) →
  (∀ v v' l, order !! v = Some l → order !! v' = Some l → v = v') →
  (∀ v l, order !! v = Some l → l < nvars s) →
  (∀ u, u ∈ roots s → held L u) →
  reorder_pub (Some order) s = (r, s') →
  r = Err EOracle ∨ r = Err ERuntime ∨
  (r = Ok tt ∧ Inv s' ∧ Counts s' L ∧ last_len s' = last_len s ∧ vars s' = order ∧
   keepsH L s s' ∧ rr s' = rr s).
Proof.
  intros HI HC Hd Hinj Hb Hroots Hrun.
  apply guarded_run in Hrun as [[Hll Hrun]|(ll&s1&Hll&Hrun&->)]; cbn [reorder] in Hrun.
  - destruct (sort_to_order_correct order s L r s' ltac:(by split_and!) Hd Hinj Hb Hroots Hrun)
      as [?|[?|(?&((?&?&?)&_&?&_)&?&?)]]; [by left|by right; left|right; right]. split_and!; try done. congruence.
  - destruct (sort_to_order_correct order _ L r s1 (Gd_off L s HI HC) Hd Hinj Hb Hroots Hrun)
      as [?|[?|(?&((HI1&HC1&_)&_&Hk&_)&Hv&Hr)]]; [by left|by right; left|right; right]. split_and!; try done.
    + apply (Inv_same s1); [by repeat split|done].
    + by apply (keepsH_ll L s None s1 (Some ll)).
Qed.

Theorem reorder_to_pairs_pub_correct pairs s L r s' :
  Inv s → Counts s L →
  NoDup (pairs.*1 ++ pairs.*2) →
  (∀ v, v ∈ pairs.*1 ++ pairs.*2 → is_Some (vars s !! v)) →
  reorder_to_pairs_pub pairs s = (r, s') →
  r = Err EOracle ∨ r = Err ERuntime ∨
  (r = Ok tt ∧ Inv s' ∧ Counts s' L ∧ last_len s' = last_len s ∧
   dom (vars s') = dom (vars s) ∧ keepsH L s s' ∧ rr s' = rr s ∧
   ∀ x y, (x, y) ∈ pairs → adj s' x y).
Proof.
  intros HI HC Hnd Hdecl Hrun.
  apply guarded_run in Hrun as [[Hll Hrun]|(ll&s1&Hll&Hrun&->)].
  - destruct (reorder_to_pairs_correct pairs s L r s' ltac:(by split_and!) Hnd Hdecl Hrun)
      as [?|[?|(?&((?&?&?)&_&?&_)&?&?&?)]]; [by left|by right; left|right; right]. split_and!; try done. congruence.
  - destruct (reorder_to_pairs_correct pairs _ L r s1 (Gd_off L s HI HC) Hnd Hdecl Hrun)
      as [?|[?|(?&((HI1&HC1&_)&_&Hk&_)&Hd&Hr&Hadj)]]; [by left|by right; left|right; right]. split_and!; try done.
    + apply (Inv_same s1); [by repeat split|done].
    + by apply (keepsH_ll L s None s1 (Some ll)).
Qed.
