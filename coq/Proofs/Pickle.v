(** * Pickle: dump/load round-trips (C12): [_dump_manager]/[_load_manager],
      [_dump_bdd]/[load] *)
From DD Require Export Views.

(** ** Declaring variables with explicit levels in a manager that has only
    the terminal node.  In the middle of such a loop the levels have gaps
    (the manager does not satisfy [Inv]): the states are described
    explicitly. *)
Definition vstate (vm lm : gmap nat nat) (k : nat) : st :=
  St {[1%positive := tterm k]} {[tterm k := 1%positive]} {[1%positive := 1]}
     2%positive ∅ vm lm None false [] [] None.

Lemma st_ext (a b : st) :
  succ a = succ b → pred a = pred b → refc a = refc b → min_free a = min_free b →
  ite_tab a = ite_tab b → vars a = vars b → lvl2var a = lvl2var b →
  last_len a = last_len b → rctx a = rctx b → roots a = roots b → tape a = tape b →
  trig a = trig b → a = b.
Proof. destruct a, b. cbn. by intros -> -> -> -> -> -> -> -> -> -> -> ->. Qed.

Lemma init_vstate : init = vstate ∅ ∅ 0.
Proof.
  unfold init, init_terminal, modify. cbn [snd].
  apply st_ext; try reflexivity; cbn -[tterm singletonM insert delete lookup].
  rewrite lookup_empty. cbn [default]. by rewrite delete_empty.
Qed.

Lemma init_terminal_vstate vm lm k k' :
  init_terminal k' (vstate vm lm k) = (Ok tt, vstate vm lm k').
Proof.
  unfold init_terminal, modify. f_equal.
  apply st_ext; try reflexivity; cbn -[tterm singletonM insert delete lookup].
  - apply insert_singleton.
  - rewrite lookup_singleton. cbn [default]. by rewrite delete_singleton.
Qed.

Lemma nfl_vstate vm lm k i : lm !! i = None →
  next_free_level (Some i) (vstate vm lm k) = (Ok i, vstate vm lm k).
Proof.
  intros Hi. unfold next_free_level. cbn [bind get].
  change (lvl2var (vstate vm lm k)) with lm. by rewrite Hi.
Qed.

Lemma add_var_vstate vm lm v i :
  vm !! v = None → lm !! i = None →
  add_var v (Some i) (vstate vm lm (size vm))
  = (Ok i, vstate (<[v := i]> vm) (<[i := v]> lm) (size (<[v := i]> vm))).
Proof.
  intros Hv Hi. unfold add_var. cbn [bind get].
  change (vars (vstate vm lm (size vm))) with vm. rewrite Hv.
  rewrite decide_False by (by intros [? ?]).
  rewrite (bind_ok _ _ _ _ _ (nfl_vstate vm lm _ i Hi)). cbn [bind modify get].
  change (vstate vm lm (size vm) <| vars ::= <[v:=i]> |> <| lvl2var ::= <[i:=v]> |>)
    with (vstate (<[v:=i]> vm) (<[i:=v]> lm) (size vm)).
  rewrite (bind_ok _ _ _ _ _ (init_terminal_vstate _ _ _ _)). reflexivity.
Qed.

(** the variable loop of [BDD(levels)] *)
Lemma var_loop (l : list (nat * nat)) : ∀ vm lm,
  NoDup l.*1 → NoDup l.*2 →
  (∀ v i, (v, i) ∈ l → vm !! v = None ∧ lm !! i = None) →
  ∃ vm' lm',
    forM l (fun '(v, l) => add_var v (Some l) ;;; ret tt) (vstate vm lm (size vm))
    = (Ok tt, vstate vm' lm' (size vm')) ∧
    (∀ v i, vm' !! v = Some i ↔ vm !! v = Some i ∨ (v, i) ∈ l) ∧
    (∀ i v, lm' !! i = Some v ↔ lm !! i = Some v ∨ (v, i) ∈ l).
Proof.
  induction l as [|[v i] l IH]; intros vm lm N1 N2 Hf.
  { exists vm, lm. split; [done|]. split; intros; split; try tauto;
      intros [?|H]; try done; by apply elem_of_nil in H. }
  cbn [fmap list_fmap] in N1, N2. cbn in N1, N2.
  apply NoDup_cons in N1 as [Nv N1], N2 as [Ni N2].
  destruct (Hf v i (elem_of_list_here _ _)) as [Hv Hi].
  cbn [forM]. rewrite (bind_ok _ _ _ tt _ (bind_ok _ _ _ _ _ (add_var_vstate vm lm v i Hv Hi))).
  destruct (IH (<[v := i]> vm) (<[i := v]> lm) N1 N2) as (vm'&lm'&E&H1&H2).
  { intros v' i' Hin. destruct (Hf v' i' (elem_of_list_further _ _ _ Hin)) as [? ?].
    rewrite !lookup_insert_ne; [done|..].
    - intros <-. apply Ni. apply elem_of_list_fmap. by exists (v', i).
    - intros <-. apply Nv. apply elem_of_list_fmap. by exists (v, i'). }
  exists vm', lm'. split; [done|]. split.
  - intros x j. rewrite H1, lookup_insert_Some, elem_of_cons. split.
    + intros [[[Ev Ei]|[? ?]]|?]; [right; left; congruence|by left|by right; right].
    + intros [Hx|[Hx|?]]; [|left; left; split; congruence|by right].
      left; right. split; [|done]. intros Ev. congruence.
  - intros j x. rewrite H2, lookup_insert_Some, elem_of_cons. split.
    + intros [[[Ev Ei]|[? ?]]|?]; [right; left; congruence|by left|by right; right].
    + intros [Hx|[Hx|?]]; [|left; left; split; congruence|by right].
      left; right. split; [|done]. intros Ev. congruence.
Qed.

(** the state reached is a consistent manager when the levels are [0..n-1] *)
Lemma Inv_vstate vm lm :
  (∀ v l, vm !! v = Some l ↔ lm !! l = Some v) →
  (∀ l, l < size vm ↔ is_Some (lm !! l)) →
  Inv (vstate vm lm (size vm)).
Proof.
  intros Hb Hl. set (k := size vm).
  assert (Es : succ (vstate vm lm k) = {[1%positive := tterm k]}) by done.
  assert (Ep : pred (vstate vm lm k) = {[tterm k := 1%positive]}) by done.
  assert (Er : refc (vstate vm lm k) = {[1%positive := 1]}) by done.
  split.
  - by rewrite Es, lookup_singleton.
  - intros n t Hn Hn1. rewrite Es in Hn. apply lookup_singleton_Some in Hn as [<- _]. done.
  - intros n t. rewrite Es, Ep, !lookup_singleton_Some. split; intros [<- <-]; done.
  - change (min_free (vstate vm lm k)) with 2%positive. rewrite Es. split; [done|].
    intros j Hj. assert (j = 1%positive) as -> by lia. rewrite lookup_singleton. by eexists.
  - by rewrite Es, Er, !dom_singleton_L.
  - intros g u v w Hi. change (ite_tab (vstate vm lm k)) with (∅ : gmap (Z * Z * Z) Z) in Hi.
    by rewrite lookup_empty in Hi.
  - exact Hb.
  - exact Hl.
Qed.

(** ** What [_dump_bdd] / [_dump_manager] write for the variables *)
Lemma level_of_var_ok s v l : vars s !! v = Some l → level_of_var v s = (Ok l, s).
Proof. intros H. unfold level_of_var. cbn [bind get]. by rewrite H. Qed.

Lemma dump_vars s (vorder : list nat) :
  (∀ v, v ∈ vorder → is_Some (vars s !! v)) →
  ∃ vl, mapM (fun v => l <- level_of_var v ;; ret (v, l)) vorder s = (Ok vl, s) ∧
    vl.*1 = vorder ∧ ∀ v l, (v, l) ∈ vl → vars s !! v = Some l.
Proof.
  induction vorder as [|v vo IH]; intros Hin.
  { exists []. split; [done|]. split; [done|]. intros ?? H. by apply elem_of_nil in H. }
  destruct (Hin v (elem_of_list_here _ _)) as [l Hl].
  destruct IH as (vl&E&E1&Hvl). { intros x Hx. apply Hin. by apply elem_of_list_further. }
  exists ((v, l) :: vl). cbn [mapM].
  assert (El : (l <- level_of_var v ;; ret (v, l)) s = (Ok (v, l), s)).
  { by rewrite (bind_ok _ _ _ _ _ (level_of_var_ok s v l Hl)). }
  rewrite (bind_ok _ _ _ _ _ El), (bind_ok _ _ _ _ _ E). split; [done|].
  split; [cbn; by rewrite E1|].
  intros x j Hx. apply elem_of_cons in Hx as [[= -> ->]|Hx]; [done|by apply Hvl].
Qed.

(** a correct dump of the variable order of a consistent manager *)
Definition vars_file (s : st) (vl : list (nat * nat)) : Prop :=
  NoDup vl.*1 ∧ ∀ v l, (v, l) ∈ vl ↔ vars s !! v = Some l.

Lemma dump_vars_file s (vorder : list nat) :
  NoDup vorder → (list_to_set vorder : gset nat) = dom (vars s) →
  ∃ vl, mapM (fun v => l <- level_of_var v ;; ret (v, l)) vorder s = (Ok vl, s) ∧
    vl.*1 = vorder ∧ vars_file s vl.
Proof.
  intros ND Hd.
  assert (Hin : ∀ v, v ∈ vorder ↔ is_Some (vars s !! v)).
  { intros v. rewrite <- elem_of_dom, <- Hd. by rewrite elem_of_list_to_set. }
  destruct (dump_vars s vorder) as (vl&E&E1&Hvl); [intros v; apply Hin|].
  exists vl. split; [done|]. split; [done|]. split; [by rewrite E1|].
  intros v l. split; [apply Hvl|]. intros Hl.
  assert (v ∈ vl.*1) as Hv by (rewrite E1; apply Hin; by eexists).
  apply elem_of_list_fmap in Hv as ([v' l']&->&Hv). cbn in Hl.
  apply Hvl in Hv as Hl'. by simplify_eq.
Qed.

Lemma NoDup_snd_inj {A B} (l : list (A * B)) :
  NoDup l.*1 → (∀ a1 a2 b, (a1, b) ∈ l → (a2, b) ∈ l → a1 = a2) → NoDup l.*2.
Proof.
  induction l as [|[a b] l IH]; intros ND Hinj; [constructor|].
  cbn in *. apply NoDup_cons in ND as [Na ND]. apply NoDup_cons. split.
  - intros Hb. apply elem_of_list_fmap in Hb as ([a' b']&Eb&Hin). cbn in Eb. subst b'.
    assert (a = a') as <-.
    { apply (Hinj a a' b); [apply elem_of_list_here|by apply elem_of_list_further]. }
    apply Na. apply elem_of_list_fmap. by exists (a, b).
  - apply IH; [done|]. intros a1 a2 b0 H1 H2.
    apply (Hinj a1 a2 b0); by apply elem_of_list_further.
Qed.

Section vfile.
Context (s : st) (HI : Inv s) (vl : list (nat * nat)) (Hvl : vars_file s vl).

Lemma vfile_NoDup2 : NoDup vl.*2.
Proof.
  destruct Hvl as [ND Hm]. apply NoDup_snd_inj; [done|].
  intros v1 v2 l H1 H2. apply Hm in H1, H2. by apply (vars_inj s v1 v2 l).
Qed.

Lemma vfile_length : length vl = nvars s.
Proof.
  destruct Hvl as [ND Hm]. unfold nvars.
  rewrite <- (fmap_length fst), <- (size_list_to_set (C := gset nat)) by done.
  rewrite <- (size_dom (D := gset nat)). f_equal. apply stdpp.sets.set_eq. intros v.
  rewrite elem_of_list_to_set, elem_of_dom, elem_of_list_fmap. split.
  - intros ([v' l]&->&Hin). apply Hm in Hin. by eexists.
  - intros [l Hl]. exists (v, l). split; [done|]. by apply Hm.
Qed.
End vfile.

Section vfile2.
Context (s : st) (HI : Inv s) (vl : list (nat * nat)) (Hvl : vars_file s vl).

Lemma valid_ordering_file : valid_ordering vl = true.
Proof.
  unfold valid_ordering. apply bool_decide_eq_true. rewrite (vfile_length s vl Hvl).
  apply stdpp.sets.set_eq. intros l.
  rewrite !elem_of_list_to_set, elem_of_seq, elem_of_list_fmap.
  destruct Hvl as [_ Hm]. split.
  - intros ([v l']&->&Hin). cbn. apply Hm in Hin. apply (inv_vars _ HI) in Hin.
    split; [lia|]. cbn. apply (inv_lvls _ HI). by eexists.
  - intros [_ Hl]. cbn in Hl. apply (inv_lvls _ HI) in Hl as [v Hv].
    exists (v, l). split; [done|]. apply Hm. by apply (inv_vars _ HI).
Qed.

(** [BDD(levels)] on the file's variables rebuilds the order of [s] *)
Lemma init_levels_file :
  init_levels vl init = (Ok tt, vstate (vars s) (lvl2var s) (nvars s)).
Proof.
  unfold init_levels. rewrite valid_ordering_file. cbn [assert].
  rewrite (bind_ok _ _ init tt init) by done.
  rewrite init_vstate. change 0 with (size (∅ : gmap nat nat)).
  destruct (var_loop vl ∅ ∅) as (vm'&lm'&E&H1&H2);
    [apply Hvl|by apply (vfile_NoDup2 s)|by intros; rewrite !lookup_empty|].
  rewrite E.
  assert (vm' = vars s) as ->.
  { apply map_eq. intros v. apply option_eq. intros l. rewrite H1, lookup_empty.
    destruct Hvl as [_ Hm]. rewrite Hm. naive_solver. }
  assert (lm' = lvl2var s) as ->.
  { apply map_eq. intros l. apply option_eq. intros v. rewrite H2, lookup_empty.
    destruct Hvl as [_ Hm]. rewrite Hm, (inv_vars _ HI). naive_solver. }
  done.
Qed.
End vfile2.

(** ** 6. Whole-manager pickle *)
Theorem manager_roundtrip s vorder mf sd s0 :
  Inv s → dump_manager vorder s = (Ok mf, sd) →
  sd = s ∧
  ∃ s1, load_manager mf s0 = (Ok tt, s1) ∧
    succ s1 = succ s ∧ pred s1 = pred s ∧ refc s1 = refc s ∧
    min_free s1 = min_free s ∧ vars s1 = vars s ∧ lvl2var s1 = lvl2var s ∧
    roots s1 = roots s ∧ ite_tab s1 = ∅ ∧
    last_len s1 = None ∧ rctx s1 = false ∧ trig s1 = None ∧
    Inv s1 ∧ ∀ u ρ, denv s1 u ρ = denv s u ρ.
Proof.
  intros HI. unfold dump_manager. cbn [bind get].
  destruct (bool_decide _) eqn:Eb; cbn [negb]; [|by intros [=]].
  apply bool_decide_eq_true in Eb as [ND Hd].
  destruct (dump_vars_file s vorder ND Hd) as (vl&E&_&Hvl).
  rewrite (bind_ok _ _ _ _ _ E). intros [= <- <-]. split; [done|].
  unfold load_manager. cbn [bind modify mf_vars].
  rewrite (bind_ok _ _ _ _ _ (init_levels_file s HI vl Hvl)).
  cbn [bind modify]. eexists. split; [reflexivity|].
  cbn [mf_roots mf_pred mf_succ mf_ref mf_min_free].
  split_and!; try reflexivity.
  - eapply (Inv_same (clr s)); [|by apply Inv_W]. by repeat split.
  - intros u ρ. unfold denv. by apply D_same.
Qed.

(** ** What [_dump_bdd] writes for the nodes *)
Record nodes_file (s : st) (sl : list (positive * triple)) : Prop := {
  nf_nodup : NoDup sl.*1;
  nf_sub : ∀ k t, (k, t) ∈ sl → succ s !! k = Some t;
  nf_closed : ∀ k t, (k, t) ∈ sl → k ≠ 1%positive →
     absn (t_lo t) ∈ sl.*1 ∧ absn (t_hi t) ∈ sl.*1;
}.

Lemma dump_nodes s (order : list positive) :
  (∀ k, k ∈ order → is_Some (succ s !! k)) →
  ∃ sl, mapM (fun k => t <- getsucc k ;; ret (k, t)) order s = (Ok sl, s) ∧
    sl.*1 = order ∧ ∀ k t, (k, t) ∈ sl → succ s !! k = Some t.
Proof.
  induction order as [|k o IH]; intros Hin.
  { exists []. split; [done|]. split; [done|]. intros ?? H. by apply elem_of_nil in H. }
  destruct (Hin k (elem_of_list_here _ _)) as [t Ht].
  destruct IH as (sl&E&E1&Hsl). { intros x Hx. apply Hin. by apply elem_of_list_further. }
  exists ((k, t) :: sl). cbn [mapM].
  assert (El : (t <- getsucc k ;; ret (k, t)) s = (Ok (k, t), s)).
  { by rewrite (bind_ok _ _ _ _ _ (getsucc_ok s k t Ht)). }
  rewrite (bind_ok _ _ _ _ _ El), (bind_ok _ _ _ _ _ E). split; [done|].
  split; [cbn; by rewrite E1|].
  intros x j Hx. apply elem_of_cons in Hx as [[= -> ->]|Hx]; [done|by apply Hsl].
Qed.

Lemma dump_pickle_inv s roots order vorder pf sd :
  Inv s → Forall (valid s) (roots_values roots) →
  dump_pickle roots order vorder s = (Ok pf, sd) →
  sd = s ∧ pf_roots pf = roots ∧ vars_file s (pf_vars pf) ∧
  nodes_file s (pf_succ pf) ∧ (pf_succ pf).*1 = order ∧ (pf_vars pf).*1 = vorder ∧
  (∀ u, u ∈ roots_values roots → absn u ∈ (pf_succ pf).*1) ∧
  (∀ n, n ∈ order ↔ match roots with
                     | RNone => n ∈ dom (succ s)
                     | _ => reach (succ s) (rootsR (roots_values roots)) n
                     end).
Proof.
  intros HI Hr. unfold dump_pickle. cbn [bind get].
  assert (∃ X : gset positive,
            (match roots with
             | RNone => ret (dom (succ s))
             | _ => descendants (roots_values roots)
             end) s = (Ok X, s) ∧
            (∀ n, n ∈ X ↔ match roots with
                           | RNone => n ∈ dom (succ s)
                           | _ => reach (succ s) (rootsR (roots_values roots)) n
                           end) ∧
            (∀ n, n ∈ X → n ∈ dom (succ s)) ∧
            (∀ n t, n ∈ X → n ≠ 1%positive → succ s !! n = Some t →
               absn (t_lo t) ∈ X ∧ absn (t_hi t) ∈ X) ∧
            (∀ u, u ∈ roots_values roots → absn u ∈ X)) as (X&EX&HX&Hd&Hc&Hroots).
  { assert (Hdesc : ∃ X, descendants (roots_values roots) s = (Ok X, s) ∧
              (∀ n, n ∈ X ↔ reach (succ s) (rootsR (roots_values roots)) n) ∧
              (∀ n, n ∈ X → n ∈ dom (succ s)) ∧
              (∀ n t, n ∈ X → n ≠ 1%positive → succ s !! n = Some t →
                 absn (t_lo t) ∈ X ∧ absn (t_hi t) ∈ X) ∧
              (∀ u, u ∈ roots_values roots → absn u ∈ X)).
    { destruct (descendants_exact s HI _ Hr) as (X&E&HX). exists X.
      destruct (reach_set_closed s HI _ X HX) as [Hd Hc]. split_and!; try done.
      intros u Hu. apply HX. apply reach_root; [by exists u|].
      apply (valid_dom s). by eapply Forall_forall in Hr. }
    destruct roots as [|l|d]; [|exact Hdesc..].
    exists (dom (succ s)). split_and!; try done.
    - intros n t Hn Hn1 Ht.
      destruct (inv_node _ HI _ _ Ht Hn1) as (_&[_ ?]&_&[_ ?]&_).
      split; by apply elem_of_dom.
    - intros u Hu. by apply elem_of_nil in Hu. }
  rewrite (bind_ok _ _ _ _ _ EX).
  destruct (bool_decide (NoDup order ∧ _)) eqn:Eb1; cbn [negb]; [|by intros [=]].
  destruct (bool_decide (NoDup vorder ∧ _)) eqn:Eb2; cbn [negb]; [|by intros [=]].
  apply bool_decide_eq_true in Eb1 as [ND1 Ho], Eb2 as [ND2 Hv].
  assert (Hin : ∀ k, k ∈ order ↔ k ∈ X).
  { intros k. by rewrite <- Ho, elem_of_list_to_set. }
  destruct (dump_nodes s order) as (sl&Es&Es1&Hsl).
  { intros k Hk. exact (proj1 (elem_of_dom _ _) (Hd k (proj1 (Hin k) Hk))). }
  destruct (dump_vars_file s vorder ND2 Hv) as (vl&Ev&Ev1&Hvl).
  rewrite (bind_ok _ _ _ _ _ Es), (bind_ok _ _ _ _ _ Ev). intros [= <- <-].
  cbn [pf_roots pf_vars pf_succ]. split_and!; try done.
  - split.
    + by rewrite Es1.
    + exact Hsl.
    + intros k t Hk Hk1. rewrite Es1, !Hin. apply (Hc k t); [|done|by apply Hsl].
      apply Hin. rewrite <- Es1. apply elem_of_list_fmap. by exists (k, t).
  - intros u Hu. rewrite Es1. apply Hin. by apply Hroots.
  - intros n. by rewrite Hin.
Qed.

(** ** Loading: the variable loop of [_load_pickle] with [levels=True] *)
Lemma add_var_ret v i r j r' : add_var v (Some i) r = (Ok j, r') → j = i.
Proof.
  unfold add_var. cbn [bind get]. destruct (decide (is_Some (vars r !! v))) as [[l Hl]|Hn].
  - unfold check_var. cbn [bind get]. rewrite Hl.
    destruct (decide (i = l)) as [->|?]; [|by intros [=]]. unfold ret. by intros [= <- <-].
  - unfold next_free_level. unfold bind at 1 2. cbn [get].
    destruct (lvl2var r !! i); [by intros [=]|]. cbn [ret bind modify get].
    unfold init_terminal, modify, bind, ret. by intros [= <- _].
Qed.

Lemma add_var_idem v i r : vars r !! v = Some i → add_var v (Some i) r = (Ok i, r).
Proof.
  intros H. unfold add_var. cbn [bind get].
  rewrite decide_True by (by eexists). unfold check_var. cbn [bind get]. rewrite H.
  by rewrite decide_True.
Qed.

Lemma forM_add_var_idem (vl : list (nat * nat)) r :
  (∀ v i, (v, i) ∈ vl → vars r !! v = Some i) →
  forM vl (fun '(v, l) => add_var v (Some l) ;;; ret tt) r = (Ok tt, r).
Proof.
  induction vl as [|[v i] vl IH]; intros H; [done|]. cbn [forM].
  rewrite (bind_ok _ _ _ tt _ (bind_ok _ _ _ _ _ (add_var_idem v i r (H v i (elem_of_list_here _ _))))).
  apply IH. intros v' i' Hin. apply H. by apply elem_of_list_further.
Qed.

(** the loop of [_load_pickle] is the loop of [BDD(levels)] plus the
    construction of [level_map], which is the identity *)
Lemma pickle_var_loop n (vl : list (nat * nat)) : ∀ r r' (lm0 : gmap nat nat),
  (∀ v i, (v, i) ∈ vl → i < n) →
  forM vl (fun '(v, l) => add_var v (Some l) ;;; ret tt) r = (Ok tt, r') →
  ∃ lm, foldM (fun (lm : gmap nat nat) '(v, i) =>
            assert (bool_decide (i < n)) ;;;
            j <- add_var v (Some i) ;;
            ret (<[i := j]> lm)) lm0 vl r = (Ok lm, r') ∧
    (∀ i, i ∈ vl.*2 → lm !! i = Some i) ∧
    (∀ i, i ∉ vl.*2 → lm !! i = lm0 !! i).
Proof.
  induction vl as [|[v i] vl IH]; intros r r' lm0 Hn H.
  { cbn in H. injection H as <-. exists lm0. split; [done|]. split; [|done].
    intros i Hi. by apply elem_of_nil in Hi. }
  cbn [forM] in H. cbn [foldM].
  destruct (add_var v (Some i) r) as [[j|e] r1] eqn:E.
  2:{ rewrite (bind_err _ _ _ _ _ (bind_err _ _ _ _ _ E)) in H. done. }
  rewrite (bind_ok _ _ _ tt _ (bind_ok _ _ _ _ _ E)) in H.
  pose proof (add_var_ret _ _ _ _ _ E) as ->.
  assert (Estep : (assert (bool_decide (i < n)) ;;;
                   j <- add_var v (Some i) ;; ret (<[i := j]> lm0)) r
                  = (Ok (<[i := i]> lm0), r1)).
  { rewrite bool_decide_eq_true_2 by (apply (Hn v); apply elem_of_list_here).
    cbn [assert]. rewrite (bind_ok _ _ r tt r) by done. by rewrite (bind_ok _ _ _ _ _ E). }
  rewrite (bind_ok _ _ _ _ _ Estep).
  destruct (IH r1 r' (<[i := i]> lm0)) as (lm&El&H1&H2); [|done|].
  { intros v' i' Hin. apply (Hn v'). by apply elem_of_list_further. }
  exists lm. split; [done|]. cbn [fmap list_fmap]. split.
  - intros i' Hi'. destruct (decide (i' ∈ vl.*2)) as [?|Hni]; [by apply H1|].
    apply elem_of_cons in Hi' as [->|?]; [|done]. cbn. rewrite H2 by done.
    by rewrite lookup_insert.
  - intros i' Hi'. apply not_elem_of_cons in Hi' as [Hne Hni]. cbn in Hne.
    rewrite H2 by done. by rewrite lookup_insert_ne.
Qed.

(** ** The file's node table *)
Definition cnt (sl : list (positive * triple)) (l : nat) : nat :=
  length (filter (fun p => l ≤ t_lvl p.2) sl).

Lemma cnt_le sl l : cnt sl l ≤ length sl.
Proof. apply filter_length. Qed.

Lemma cnt_mono sl l l' : l ≤ l' → cnt sl l' ≤ cnt sl l.
Proof.
  intros Hl. unfold cnt. induction sl as [|p sl IH]; [done|].
  rewrite !filter_cons. destruct (decide (l' ≤ t_lvl p.2)).
  - rewrite decide_True by lia. cbn. lia.
  - destruct (decide (l ≤ t_lvl p.2)); cbn; lia.
Qed.

Lemma cnt_lt sl k t l' : (k, t) ∈ sl → t_lvl t < l' → cnt sl l' < cnt sl (t_lvl t).
Proof.
  intros Hin Hl. unfold cnt. induction sl as [|p sl IH]; [by apply elem_of_nil in Hin|].
  rewrite !filter_cons. apply elem_of_cons in Hin as [<-|Hin].
  - cbn [snd]. rewrite decide_False by lia. rewrite decide_True by lia. cbn.
    pose proof (cnt_mono sl (t_lvl t) l' ltac:(lia)). unfold cnt in *. lia.
  - specialize (IH Hin). destruct (decide (l' ≤ t_lvl p.2)).
    + rewrite decide_True by lia. cbn. lia.
    + destruct (decide (t_lvl t ≤ t_lvl p.2)); cbn; lia.
Qed.

Lemma flip_abs u : u ≠ 0%Z → flip (Z.pos (absn u)) u = u.
Proof. intros. unfold flip, absn. case_decide; lia. Qed.

Lemma triple_eta t : t = Triple (t_lvl t) (t_lo t) (t_hi t).
Proof. by destruct t. Qed.

(** [find_or_add] on the components of a stored node finds that node and
    leaves the manager untouched (reordering disabled) *)
Lemma find_or_add_hit s n t :
  Inv s → last_len s = None → succ s !! n = Some t → n ≠ 1%positive →
  find_or_add (t_lvl t) (t_lo t) (t_hi t) s = (Ok (Z.pos n), s).
Proof.
  intros HI Hoff Ht Hn1. destruct (inv_node _ HI _ _ Ht Hn1) as (Hl&Hvl&Hhp&Hvh&_&_&Hne).
  unfold find_or_add.
  assert (Er : request_reordering s = (Ok tt, s)) by (unfold request_reordering; by rewrite Hoff).
  rewrite (bind_ok _ _ _ _ _ Er). cbn [bind get].
  rewrite decide_False by lia.
  rewrite (proj2 (mem_valid s _) Hvl), (proj2 (mem_valid s _) Hvh). cbn [negb].
  rewrite (decide_False (P := (t_hi t < 0)%Z)) by lia.
  rewrite !Z.mul_1_l. rewrite decide_False by done.
  rewrite <- triple_eta. apply (inv_pred _ HI) in Ht. rewrite Ht. done.
Qed.

Section same.
Context (s : st) (HI : Inv s) (Hoff : last_len s = None).
Context (sl : list (positive * triple)) (Hnf : nodes_file s sl).
Context (lm : gmap nat nat) (Hlm : ∀ i, i < nvars s → lm !! i = Some i).

Lemma fsucc_lookup k t :
  (list_to_map sl : gmap positive triple) !! k = Some t ↔ (k, t) ∈ sl.
Proof. symmetry. apply elem_of_list_to_map. apply Hnf. Qed.

Lemma file_node k : k ∈ sl.*1 → ∃ t, (k, t) ∈ sl ∧ succ s !! k = Some t.
Proof.
  intros Hk. apply elem_of_list_fmap in Hk as ([k' t]&->&Hin). exists t.
  split; [done|]. by apply (nf_sub _ _ Hnf).
Qed.

Definition um_same (umap : gmap positive Z) : Prop :=
  ∀ k x, umap !! k = Some x → x = Z.pos k.

Lemma load_rec_same fuel : ∀ u umap,
  u ≠ 0%Z → (absn u = 1%positive ∨ absn u ∈ sl.*1) → um_same umap →
  cnt sl (lvl_of s u) < fuel →
  ∃ umap', load_rec fuel u (list_to_map sl) umap lm s = (Ok (u, umap'), s) ∧
    um_same umap' ∧ (∀ k, is_Some (umap !! k) → is_Some (umap' !! k)) ∧
    (absn u ≠ 1%positive → is_Some (umap' !! absn u)).
Proof.
  induction fuel as [|f IH]; intros u umap Hu0 Hin Hum Hf; [lia|].
  cbn [load_rec]. rewrite decide_False by done.
  destruct (decide (absn u = 1%positive)) as [E1|Hn1].
  { exists umap. by split_and!. }
  destruct Hin as [?|Hin]; [done|].
  destruct (file_node _ Hin) as (t&Hint&Ht).
  assert (Hlvl : lvl_of s u = t_lvl t) by (unfold lvl_of; by rewrite Ht).
  destruct (inv_node _ HI _ _ Ht Hn1) as (Hl&Hvl&Hhp&Hvh&Hll&Hlh&Hne).
  destruct (nf_closed _ _ Hnf _ _ Hint Hn1) as [Hcl Hch].
  assert (Hmiss : ∀ umap0, um_same umap0 →
     (∀ k, is_Some (umap !! k) → is_Some (umap0 !! k)) → umap0 = umap →
     ∃ umap', (t <- of_opt EKey ((list_to_map sl : gmap positive triple) !! absn u) ;;
       j <- of_opt EKey (lm !! t_lvl t) ;;
       pc <- load_rec f (t_lo t) (list_to_map sl) umap lm ;; let '(p, umap) := pc in
       qc <- load_rec f (t_hi t) (list_to_map sl) umap lm ;; let '(q, umap) := qc in
       r <- find_or_add j p q ;;
       assert (bool_decide (0 < r)%Z) ;;;
       ret (flip r u, <[absn u := r]> umap)) s = (Ok (u, umap'), s) ∧
     um_same umap' ∧ (∀ k, is_Some (umap !! k) → is_Some (umap' !! k)) ∧
     (absn u ≠ 1%positive → is_Some (umap' !! absn u))).
  { intros _ _ _ _.
    rewrite (proj2 (fsucc_lookup _ _) Hint). cbn [of_opt].
    rewrite (bind_ok _ _ s t s) by done.
    rewrite (Hlm _ Hl). cbn [of_opt]. rewrite (bind_ok _ _ s (t_lvl t) s) by done.
    destruct (IH (t_lo t) umap (proj1 Hvl) (or_intror Hcl) Hum) as (um1&E1&Hum1&Hd1&_).
    { rewrite Hlvl in Hf. pose proof (cnt_lt sl _ t (lvl_of s (t_lo t)) Hint Hll). lia. }
    rewrite (bind_ok _ _ _ _ _ E1).
    destruct (IH (t_hi t) um1 (proj1 Hvh) (or_intror Hch) Hum1) as (um2&E2&Hum2&Hd2&_).
    { rewrite Hlvl in Hf. pose proof (cnt_lt sl _ t (lvl_of s (t_hi t)) Hint Hlh). lia. }
    rewrite (bind_ok _ _ _ _ _ E2).
    rewrite (bind_ok _ _ _ _ _ (find_or_add_hit s _ t HI Hoff Ht Hn1)).
    rewrite bool_decide_eq_true_2 by lia. cbn [assert].
    rewrite (bind_ok _ _ s tt s) by done. rewrite flip_abs by done.
    eexists. split; [reflexivity|]. split_and!.
    - intros k x. rewrite lookup_insert_Some. intros [[<- <-]|[_ Hk]]; [done|by apply Hum2].
    - intros k Hk. destruct (decide (absn u = k)) as [<-|?].
      + rewrite lookup_insert. by eexists.
      + rewrite lookup_insert_ne by done. by apply Hd2, Hd1.
    - intros _. rewrite lookup_insert. by eexists. }
  destruct (decide (0 < u)%Z) as [Hpos|Hneg]; [|by apply (Hmiss umap)].
  destruct (umap !! absn u) as [r|] eqn:Er; [|by apply (Hmiss umap)].
  pose proof (Hum _ _ Er) as ->.
  rewrite bool_decide_eq_true_2 by lia. cbn [assert].
  rewrite (bind_ok _ _ s tt s) by done. rewrite flip_abs by done.
  exists umap. split_and!; try done.
Qed.

End same.

Lemma mapM_ok {A B} (f : A → MS B) (g : A → B) (l : list A) s :
  (∀ x, x ∈ l → f x s = (Ok (g x), s)) → mapM f l s = (Ok (g <$> l), s).
Proof.
  induction l as [|x l IH]; intros H; [done|]. cbn [mapM].
  rewrite (bind_ok _ _ _ _ _ (H x (elem_of_list_here _ _))).
  rewrite (bind_ok _ _ _ _ _ (IH (fun y Hy => H y (elem_of_list_further _ _ _ Hy)))).
  done.
Qed.

(** the identity level map covers every level of the receiver *)
Lemma lm_identity s vl (lm : gmap nat nat) :
  Inv s → vars_file s vl → (∀ i, i ∈ vl.*2 → lm !! i = Some i) →
  ∀ i, i < nvars s → lm !! i = Some i.
Proof.
  intros HI [_ Hm] H i Hi. apply H. apply (inv_lvls _ HI) in Hi as [v Hv].
  apply (inv_vars _ HI) in Hv. apply elem_of_list_fmap. exists (v, i).
  split; [done|]. by apply Hm.
Qed.

Lemma vfile_lt s vl v i : Inv s → vars_file s vl → (v, i) ∈ vl → i < length vl.
Proof.
  intros HI Hvl Hin. rewrite (vfile_length s vl Hvl). destruct Hvl as [_ Hm].
  apply Hm in Hin. apply (inv_vars _ HI) in Hin. apply (inv_lvls _ HI). by eexists.
Qed.

Definition node_step (n : nat) (fsucc : gmap positive triple) (lm : gmap nat nat)
  : gmap positive Z → positive * triple → MS (gmap positive Z) :=
  fun umap '(u, _) =>
    if decide (is_Some (umap !! u)) then ret umap else
    r <- load_rec n (Z.pos u) fsucc umap lm ;; ret (snd r).

Lemma node_loop_same s sl lm :
  Inv s → last_len s = None → nodes_file s sl →
  (∀ i, i < nvars s → lm !! i = Some i) →
  ∀ (l : list (positive * triple)) umap,
    (∀ k t, (k, t) ∈ l → k ∈ sl.*1) → um_same umap → is_Some (umap !! 1%positive) →
    ∃ umap', foldM (node_step (S (length sl)) (list_to_map sl) lm) umap l s = (Ok umap', s) ∧
      um_same umap' ∧ (∀ k, is_Some (umap !! k) → is_Some (umap' !! k)) ∧
      (∀ k t, (k, t) ∈ l → is_Some (umap' !! k)).
Proof.
  intros HI Hoff Hnf Hlm. induction l as [|[k t] l IH]; intros umap Hl Hum H1.
  { exists umap. split_and!; try done. intros ?? H. by apply elem_of_nil in H. }
  cbn [foldM].
  assert (∃ um1, node_step (S (length sl)) (list_to_map sl) lm umap (k, t) s = (Ok um1, s) ∧
            um_same um1 ∧ (∀ k', is_Some (umap !! k') → is_Some (um1 !! k')) ∧
            is_Some (um1 !! k)) as (um1&E1&Hum1&Hd1&Hk1).
  { unfold node_step. destruct (decide (is_Some (umap !! k))) as [Hs|Hns].
    { exists umap. by split_and!. }
    destruct (load_rec_same s HI Hoff sl Hnf lm Hlm (S (length sl)) (Z.pos k) umap)
      as (um1&E&Hum1&Hd1&Hk1); try done.
    - right. rewrite absn_pos. apply (Hl k t). apply elem_of_list_here.
    - pose proof (cnt_le sl (lvl_of s (Z.pos k))). lia.
    - exists um1. rewrite (bind_ok _ _ _ _ _ E). split_and!; try done.
      rewrite absn_pos in Hk1. apply Hk1. intros ->. done. }
  rewrite (bind_ok _ _ _ _ _ E1).
  destruct (IH um1) as (um2&E2&Hum2&Hd2&Hk2); [|done|by apply Hd1|].
  { intros k' t' Hin. apply (Hl k' t'). by apply elem_of_list_further. }
  exists um2. split_and!; try done.
  - intros k' Hk'. by apply Hd2, Hd1.
  - intros k' t' Hin. apply elem_of_cons in Hin as [[= -> ->]|Hin]; [by apply Hd2|by eapply Hk2].
Qed.

(** ** 5. Loading a dump back into the manager that wrote it *)
Theorem pickle_roundtrip_same s roots order vorder pf sd :
  Inv s → last_len s = None → Forall (valid s) (roots_values roots) →
  dump_pickle roots order vorder s = (Ok pf, sd) →
  sd = s ∧ load_pickle pf true s = (Ok roots, s).
Proof.
  intros HI Hoff Hr Hd.
  destruct (dump_pickle_inv s roots order vorder pf sd HI Hr Hd)
    as (->&Eroots&Hvl&Hnf&_&_&Hrin&_).
  split; [done|]. unfold load_pickle, load_pickle_nodes.
  destruct (pickle_var_loop (length (pf_vars pf)) (pf_vars pf) s s ∅) as (lm&Elm&Hlm&_).
  { intros v i. by apply (vfile_lt s). }
  { apply forM_add_var_idem. intros v i Hin. by apply Hvl. }
  pose proof (lm_identity s _ lm HI Hvl Hlm) as Hid.
  destruct (node_loop_same s (pf_succ pf) lm HI Hoff Hnf Hid (pf_succ pf) {[1%positive := 1%Z]})
    as (umap&Eum&Hum&Hd1&Hk).
  { intros k t Hin. apply elem_of_list_fmap. by exists (k, t). }
  { intros k x Hx. apply lookup_singleton_Some in Hx as [<- <-]. done. }
  { rewrite lookup_singleton. by eexists. }
  assert (Enodes : (lm <- foldM (fun (lm : gmap nat nat) '(v, i) =>
            assert (bool_decide (i < length (pf_vars pf))) ;;;
            j <- add_var v (Some i) ;;
            ret (<[i := j]> lm)) ∅ (pf_vars pf) ;;
          foldM (fun umap '(u, _) =>
            if decide (is_Some (umap !! u)) then ret umap else
            r <- load_rec (S (length (pf_succ pf))) (Z.pos u) (list_to_map (pf_succ pf)) umap lm ;;
            ret (snd r)) ({[1%positive := 1%Z]} : gmap positive Z) (pf_succ pf)) s
          = (Ok umap, s)).
  { rewrite (bind_ok _ _ _ _ _ Elm). exact Eum. }
  rewrite (bind_ok _ _ _ _ _ Enodes).
  assert (Hnode : ∀ u, u ∈ roots_values roots →
     (if decide (u = 0%Z) then raise EKey else
      v <- of_opt EKey (umap !! absn u) ;; ret (flip v u)) s = (Ok u, s)).
  { intros u Hu. assert (Hv : valid s u) by (by eapply Forall_forall in Hr).
    rewrite decide_False by apply Hv.
    assert (is_Some (umap !! absn u)) as [x Hx].
    { apply Hrin in Hu. apply elem_of_list_fmap in Hu as ([k t]&Ek&Hin). cbn in Ek.
      rewrite Ek. by eapply Hk. }
    rewrite Hx. cbn [of_opt]. rewrite (bind_ok _ _ s x s) by done.
    rewrite (Hum _ _ Hx). unfold ret. f_equal. f_equal. apply flip_abs, Hv. }
  rewrite Eroots. destruct roots as [|l|d]; [done| |].
  - rewrite (bind_ok _ _ _ _ _ (mapM_ok _ id l s Hnode)). by rewrite list_fmap_id.
  - erewrite (bind_ok (mapM _ d)); [|apply (mapM_ok _ id)].
    + by rewrite list_fmap_id.
    + intros [k u] Hin. rewrite (bind_ok _ _ s u s); [done|]. apply Hnode.
      cbn. apply elem_of_list_fmap. by exists (k, u).
Qed.

(** ** Loading into another manager with the same variable order *)
Lemma valid_flip s x u : valid s x → valid s (flip x u).
Proof. intros. unfold flip. case_decide; [by apply valid_neg|done]. Qed.
Lemma lvl_flip s x u : lvl_of s (flip x u) = lvl_of s x.
Proof. unfold flip. case_decide; [by rewrite lvl_neg|done]. Qed.

Section load.
Context (s : st) (HI : Inv s).
Context (sl : list (positive * triple)) (Hnf : nodes_file s sl).
Context (lm : gmap nat nat) (Hlm : ∀ i, i < nvars s → lm !! i = Some i).

(** receivers: consistent, same variable order as [s], reordering disabled *)
Definition recv (r : st) : Prop :=
  Inv r ∧ vars r = vars s ∧ lvl2var r = lvl2var s ∧ last_len r = None.

Lemma recv_nvars r : recv r → nvars r = nvars s.
Proof. intros (_&E&_). unfold nvars. by rewrite E. Qed.

Lemma recv_step r r' : recv r → Inv r' → extends r r' → frame r r' → recv r'.
Proof.
  intros (_&E1&E2&E3) HI' (_&Ev&El) (Ef&_). split_and!; [done|congruence..].
Qed.

(** every file node already loaded is mapped to a positive reference of the
    receiver denoting the same function of the levels *)
Definition um_ok (r : st) (umap : gmap positive Z) : Prop :=
  ∀ k x, umap !! k = Some x →
    (0 < x)%Z ∧ valid r x ∧ valid s (Z.pos k) ∧
    lvl_of s (Z.pos k) ≤ lvl_of r x ∧ ∀ a, D r x a = D s (Z.pos k) a.

Lemma um_ok_extends r r' umap : Inv r → extends r r' → um_ok r umap → um_ok r' umap.
Proof.
  intros HIr He Hum k x Hx. destruct (Hum k x Hx) as (?&Hv&?&?&HD).
  split_and!; try done.
  - by apply (valid_extends r r').
  - by rewrite (lvl_extends r r').
  - intros a. by rewrite (D_extends r r').
Qed.

Lemma load_rec_spec fuel : ∀ u umap r,
  recv r → valid s u → (absn u = 1%positive ∨ absn u ∈ sl.*1) → um_ok r umap →
  cnt sl (lvl_of s u) < fuel →
  ∃ p umap' r', load_rec fuel u (list_to_map sl) umap lm r = (Ok (p, umap'), r') ∧
    recv r' ∧ extends r r' ∧ frame r r' ∧ um_ok r' umap' ∧
    (∀ k, is_Some (umap !! k) → is_Some (umap' !! k)) ∧
    (absn u ≠ 1%positive → is_Some (umap' !! absn u)) ∧
    valid r' p ∧ lvl_of s u ≤ lvl_of r' p ∧ ∀ a, D r' p a = D s u a.
Proof.
  induction fuel as [|f IH]; intros u umap r Hrecv Hv Hin Hum Hf; [lia|].
  pose proof Hrecv as (HIr&Evars&El2v&Hoff).
  cbn [load_rec]. rewrite decide_False by apply Hv.
  destruct (decide (absn u = 1%positive)) as [E1|Hn1].
  { exists u, umap, r. split; [done|]. split; [done|]. split; [reflexivity|].
    split; [reflexivity|]. split; [done|]. split; [done|]. split; [done|].
    assert (Hvr : valid r u).
    { split; [apply Hv|]. rewrite E1, (inv_term _ HIr). by eexists. }
    split; [done|]. split.
    - rewrite (lvl_term s HI u E1), (lvl_term r HIr u E1). by rewrite (recv_nvars r).
    - intros a. by rewrite (D_term r HIr u a E1), (D_term s HI u a E1). }
  destruct Hin as [?|Hin]; [done|].
  destruct (file_node s sl Hnf _ Hin) as (t&Hint&Ht).
  assert (Hlvl : lvl_of s u = t_lvl t) by (unfold lvl_of; by rewrite Ht).
  destruct (inv_node _ HI _ _ Ht Hn1) as (Hl&Hvl&Hhp&Hvh&Hll&Hlh&Hne).
  destruct (nf_closed _ _ Hnf _ _ Hint Hn1) as [Hcl Hch].
  assert (Hmiss : ∀ umap0, umap0 = umap →
     ∃ p umap' r',
     (t <- of_opt EKey ((list_to_map sl : gmap positive triple) !! absn u) ;;
       j <- of_opt EKey (lm !! t_lvl t) ;;
       pc <- load_rec f (t_lo t) (list_to_map sl) umap lm ;; let '(p, umap) := pc in
       qc <- load_rec f (t_hi t) (list_to_map sl) umap lm ;; let '(q, umap) := qc in
       r <- find_or_add j p q ;;
       assert (bool_decide (0 < r)%Z) ;;;
       ret (flip r u, <[absn u := r]> umap)) r = (Ok (p, umap'), r') ∧
     recv r' ∧ extends r r' ∧ frame r r' ∧ um_ok r' umap' ∧
     (∀ k, is_Some (umap !! k) → is_Some (umap' !! k)) ∧
     (absn u ≠ 1%positive → is_Some (umap' !! absn u)) ∧
     valid r' p ∧ lvl_of s u ≤ lvl_of r' p ∧ ∀ a, D r' p a = D s u a).
  { intros _ _.
    rewrite (proj2 (fsucc_lookup s sl Hnf _ _) Hint). cbn [of_opt].
    rewrite (bind_ok _ _ r t r) by done.
    rewrite (Hlm _ Hl). cbn [of_opt]. rewrite (bind_ok _ _ r (t_lvl t) r) by done.
    destruct (IH (t_lo t) umap r Hrecv Hvl (or_intror Hcl) Hum)
      as (p&um1&r1&E1&Hrecv1&He1&Hf1&Hum1&Hd1&_&Hpv&Hpl&HpD).
    { rewrite Hlvl in Hf. pose proof (cnt_lt sl _ t (lvl_of s (t_lo t)) Hint Hll). lia. }
    rewrite (bind_ok _ _ _ _ _ E1).
    destruct (IH (t_hi t) um1 r1 Hrecv1 Hvh (or_intror Hch) Hum1)
      as (q&um2&r2&E2&Hrecv2&He2&Hf2&Hum2&Hd2&_&Hqv&Hql&HqD).
    { rewrite Hlvl in Hf. pose proof (cnt_lt sl _ t (lvl_of s (t_hi t)) Hint Hlh). lia. }
    rewrite (bind_ok _ _ _ _ _ E2).
    pose proof Hrecv1 as (HI1&_). pose proof Hrecv2 as (HI2&_&_&Hoff2).
    assert (Hpv2 : valid r2 p) by (by apply (valid_extends r1 r2)).
    assert (Hpl2 : t_lvl t < lvl_of r2 p) by (rewrite (lvl_extends r1 r2) by done; lia).
    assert (Hql2 : t_lvl t < lvl_of r2 q) by lia.
    destruct (find_or_add (t_lvl t) p q r2) as [rx r3] eqn:Ex.
    pose proof Ex as Ex'.
    apply find_or_add_spec in Ex' as (HI3&He3&Hf3&Hx); [|done..].
    destruct rx as [x|e]; [|destruct Hx as (_&[? Hll']&_); congruence].
    destruct Hx as (Hxv&Hxl&HxD).
    rewrite (bind_ok _ _ _ _ _ Ex).
    assert (HDx : ∀ a, D r3 x a = D s (Z.pos (absn u)) a).
    { intros a. rewrite HxD, HqD, (D_extends r1 r2 p) by done. rewrite HpD.
      assert (Hvp : valid s (Z.pos (absn u))).
      { split; [done|]. rewrite absn_pos. by eexists. }
      rewrite (D_step s HI (Z.pos (absn u)) a t Hvp) by (by rewrite ?absn_pos).
      rewrite bool_decide_eq_false_2 by lia. by rewrite xorb_false_l. }
    assert (Hxpos : (0 < x)%Z).
    { pose proof (D_all_true r3 HI3 x Hxv) as Hat. rewrite HDx in Hat.
      assert (Hvp : valid s (Z.pos (absn u))).
      { split; [done|]. rewrite absn_pos. by eexists. }
      rewrite (D_all_true s HI _ Hvp) in Hat.
      rewrite bool_decide_eq_true_2 in Hat by lia. symmetry in Hat.
      by apply bool_decide_eq_true in Hat. }
    rewrite bool_decide_eq_true_2 by done. cbn [assert].
    rewrite (bind_ok _ _ r3 tt r3) by done.
    assert (He13 : extends r r3) by (do 2 (etrans; [eassumption|]); done).
    assert (Hf13 : frame r r3) by (do 2 (etrans; [eassumption|]); done).
    eexists _, _, r3. split; [reflexivity|]. split; [by apply (recv_step r)|].
    split; [done|]. split; [done|]. split_and!.
    - intros k y. rewrite lookup_insert_Some. intros [[<- <-]|[_ Hk]].
      + split; [done|]. split; [done|].
        split; [split; [done|]; rewrite absn_pos; by eexists|].
        split; [|done]. change (lvl_of s (Z.pos (absn u))) with (lvl_of s u). lia.
      + by apply (um_ok_extends r2 r3 um2).
    - intros k Hk. destruct (decide (absn u = k)) as [<-|?].
      + rewrite lookup_insert. by eexists.
      + rewrite lookup_insert_ne by done. by apply Hd2, Hd1.
    - intros _. rewrite lookup_insert. by eexists.
    - by apply valid_flip.
    - rewrite lvl_flip. lia.
    - intros a. rewrite (D_flip r3 HI3 x u a Hxv), HDx. symmetry. by apply D_abs. }
  destruct (decide (0 < u)%Z) as [Hpos|Hneg]; [|by apply (Hmiss umap)].
  destruct (umap !! absn u) as [x|] eqn:Ex; [|by apply (Hmiss umap)].
  destruct (Hum _ _ Ex) as (Hxp&Hxv&_&Hxl&HxD).
  rewrite bool_decide_eq_true_2 by done. cbn [assert].
  rewrite (bind_ok _ _ r tt r) by done.
  assert (Eu : Z.pos (absn u) = u) by (unfold absn; lia).
  assert (Efl : flip x u = x) by (unfold flip; by rewrite decide_False by lia).
  rewrite Efl. rewrite Eu in *.
  exists x, umap, r. split; [done|]. split; [done|]. split; [reflexivity|].
  split; [reflexivity|]. split_and!; try done.
Qed.

Lemma node_loop_spec :
  ∀ (l : list (positive * triple)) umap r,
    (∀ k t, (k, t) ∈ l → k ∈ sl.*1) → recv r → um_ok r umap →
    is_Some (umap !! 1%positive) →
    ∃ umap' r', foldM (node_step (S (length sl)) (list_to_map sl) lm) umap l r
                = (Ok umap', r') ∧
      recv r' ∧ extends r r' ∧ frame r r' ∧ um_ok r' umap' ∧
      (∀ k, is_Some (umap !! k) → is_Some (umap' !! k)) ∧
      (∀ k t, (k, t) ∈ l → is_Some (umap' !! k)).
Proof.
  induction l as [|[k t] l IH]; intros umap r Hl Hrecv Hum H1.
  { exists umap, r. split; [done|]. split; [done|]. split; [reflexivity|].
    split; [reflexivity|]. split_and!; try done. intros ?? H. by apply elem_of_nil in H. }
  cbn [foldM].
  assert (∃ um1 r1, node_step (S (length sl)) (list_to_map sl) lm umap (k, t) r = (Ok um1, r1) ∧
            recv r1 ∧ extends r r1 ∧ frame r r1 ∧ um_ok r1 um1 ∧
            (∀ k', is_Some (umap !! k') → is_Some (um1 !! k')) ∧
            is_Some (um1 !! k)) as (um1&r1&E1&Hrecv1&He1&Hf1&Hum1&Hd1&Hk1).
  { unfold node_step. destruct (decide (is_Some (umap !! k))) as [Hs|Hns].
    { exists umap, r. split; [done|]. split; [done|]. split; [reflexivity|].
      split; [reflexivity|]. by split_and!. }
    assert (Hk : k ∈ sl.*1) by (apply (Hl k t); apply elem_of_list_here).
    destruct (file_node s sl Hnf _ Hk) as (t'&_&Ht').
    destruct (load_rec_spec (S (length sl)) (Z.pos k) umap r Hrecv)
      as (p&um1&r1&E&Hrecv1&He1&Hf1&Hum1&Hd1&Hk1&_); try done.
    - right. by rewrite absn_pos.
    - pose proof (cnt_le sl (lvl_of s (Z.pos k))). lia.
    - exists um1, r1. rewrite (bind_ok _ _ _ _ _ E). split_and!; try done.
      rewrite absn_pos in Hk1. apply Hk1. intros ->. done. }
  rewrite (bind_ok _ _ _ _ _ E1).
  destruct (IH um1 r1) as (um2&r2&E2&Hrecv2&He2&Hf2&Hum2&Hd2&Hk2); [|done|done|by apply Hd1|].
  { intros k' t' Hin. apply (Hl k' t'). by apply elem_of_list_further. }
  exists um2, r2. split; [done|]. split; [done|].
  split; [by etrans|]. split; [by etrans|]. split_and!; try done.
  - intros k' Hk'. by apply Hd2, Hd1.
  - intros k' t' Hin. apply elem_of_cons in Hin as [[= -> ->]|Hin]; [by apply Hd2|by eapply Hk2].
Qed.

End load.

(** same container shape, related references position by position *)
Inductive roots_rel (P : Z → Z → Prop) : rootsC → rootsC → Prop :=
  | rr_none : roots_rel P RNone RNone
  | rr_list l l' : Forall2 P l l' → roots_rel P (RList l) (RList l')
  | rr_dict (d d' : list (nat * Z)) :
      Forall2 (fun x y => x.1 = y.1 ∧ P x.2 y.2) d d' →
      roots_rel P (RDict d) (RDict d').

Lemma mapM_rel {A B} (f : A → MS B) (P : A → B → Prop) (l : list A) s :
  (∀ x, x ∈ l → ∃ y, f x s = (Ok y, s) ∧ P x y) →
  ∃ l', mapM f l s = (Ok l', s) ∧ Forall2 P l l'.
Proof.
  induction l as [|x l IH]; intros H.
  { exists []. by split. }
  destruct (H x (elem_of_list_here _ _)) as (y&Ey&Py).
  destruct IH as (l'&El&Hl). { intros z Hz. apply H. by apply elem_of_list_further. }
  exists (y :: l'). cbn [mapM].
  rewrite (bind_ok _ _ _ _ _ Ey), (bind_ok _ _ _ _ _ El). split; [done|].
  by constructor.
Qed.

(** the references returned by a load denote, by variable names, what the
    dumped ones denoted in [s] *)
Definition same_fun (s r : st) (u u' : Z) : Prop :=
  valid r u' ∧ ∀ ρ, denv r u' ρ = denv s u ρ.

(** everything after the variable loop *)
Lemma load_pickle_from s pf roots r0 r :
  Inv s → Forall (valid s) (roots_values roots) → pf_roots pf = roots →
  vars_file s (pf_vars pf) → nodes_file s (pf_succ pf) →
  (∀ u, u ∈ roots_values roots → absn u ∈ (pf_succ pf).*1) →
  recv s r →
  forM (pf_vars pf) (fun '(v, l) => add_var v (Some l) ;;; ret tt) r0 = (Ok tt, r) →
  ∃ roots' r', load_pickle pf true r0 = (Ok roots', r') ∧
    recv s r' ∧ extends r r' ∧ frame r r' ∧ roots_rel (same_fun s r') roots roots'.
Proof.
  intros HI Hr Eroots Hvl Hnf Hrin Hrecv Hvars.
  unfold load_pickle, load_pickle_nodes.
  destruct (pickle_var_loop (length (pf_vars pf)) (pf_vars pf) r0 r ∅) as (lm&Elm&Hlm&_);
    [|done|].
  { intros v i. by apply (vfile_lt s). }
  pose proof (lm_identity s _ lm HI Hvl Hlm) as Hid.
  destruct (node_loop_spec s HI (pf_succ pf) Hnf lm Hid (pf_succ pf) {[1%positive := 1%Z]} r)
    as (umap&r'&Eum&Hrecv'&He&Hf&Hum&Hd1&Hk); [|done| | |].
  { intros k t Hin. apply elem_of_list_fmap. by exists (k, t). }
  { pose proof Hrecv as (HIr&_). intros k x Hx.
    apply lookup_singleton_Some in Hx as [<- <-].
    split; [done|]. split; [by apply valid_1|]. split; [by apply valid_1|].
    split.
    - rewrite (lvl_term s HI 1), (lvl_term r HIr 1) by done. by rewrite (recv_nvars s r).
    - intros a. by rewrite (D_1 r HIr), (D_1 s HI). }
  { rewrite lookup_singleton. by eexists. }
  assert (Enodes : (lm <- foldM (fun (lm : gmap nat nat) '(v, i) =>
            assert (bool_decide (i < length (pf_vars pf))) ;;;
            j <- add_var v (Some i) ;;
            ret (<[i := j]> lm)) ∅ (pf_vars pf) ;;
          foldM (fun umap '(u, _) =>
            if decide (is_Some (umap !! u)) then ret umap else
            r <- load_rec (S (length (pf_succ pf))) (Z.pos u) (list_to_map (pf_succ pf)) umap lm ;;
            ret (snd r)) ({[1%positive := 1%Z]} : gmap positive Z) (pf_succ pf)) r0
          = (Ok umap, r')).
  { rewrite (bind_ok _ _ _ _ _ Elm). exact Eum. }
  rewrite (bind_ok _ _ _ _ _ Enodes).
  pose proof Hrecv' as (HIr'&_&El2v&_).
  assert (Hnode : ∀ u, u ∈ roots_values roots → ∃ u',
     (if decide (u = 0%Z) then raise EKey else
      v <- of_opt EKey (umap !! absn u) ;; ret (flip v u)) r' = (Ok u', r') ∧
     same_fun s r' u u').
  { intros u Hu. assert (Hv : valid s u) by (by eapply Forall_forall in Hr).
    rewrite decide_False by apply Hv.
    assert (is_Some (umap !! absn u)) as [x Hx].
    { apply Hrin in Hu. apply elem_of_list_fmap in Hu as ([k t]&Ek&Hin). cbn in Ek.
      rewrite Ek. by eapply Hk. }
    rewrite Hx. cbn [of_opt]. rewrite (bind_ok _ _ r' x r') by done.
    destruct (Hum _ _ Hx) as (_&Hxv&_&_&HxD).
    exists (flip x u). split; [done|]. split; [by apply valid_flip|].
    intros ρ. unfold denv. rewrite El2v.
    rewrite (D_flip r' HIr' x u _ Hxv), HxD. symmetry. by apply D_abs. }
  exists (match roots with
          | RNone => RNone
          | RList l => RList ((fun u => flip (default 0%Z (umap !! absn u)) u) <$> l)
          | RDict d => RDict ((fun p => (p.1, flip (default 0%Z (umap !! absn p.2)) p.2)) <$> d)
          end), r'.
  assert (Hnode' : ∀ u, u ∈ roots_values roots →
     (if decide (u = 0%Z) then raise EKey else
      v <- of_opt EKey (umap !! absn u) ;; ret (flip v u)) r'
     = (Ok (flip (default 0%Z (umap !! absn u)) u), r') ∧
     same_fun s r' u (flip (default 0%Z (umap !! absn u)) u)).
  { intros u Hu. destruct (Hnode u Hu) as (u'&E&Hs).
    assert (u' = flip (default 0%Z (umap !! absn u)) u) as <-; [|done].
    revert E. rewrite decide_False by (eapply Forall_forall in Hr; [apply Hr|done]).
    destruct (umap !! absn u) as [x|]; cbn [of_opt default].
    - rewrite (bind_ok _ _ r' x r') by done. unfold ret. by intros [= <-].
    - by intros [=]. }
  rewrite Eroots. split_and!; try done.
  - destruct roots as [|l|d]; [done| |].
    + rewrite (bind_ok _ _ _ _ _ (mapM_ok _ _ l r' (fun u Hu => proj1 (Hnode' u Hu)))). done.
    + erewrite (bind_ok (mapM _ d)); [reflexivity|].
      apply (mapM_ok _ (fun p => (p.1, flip (default 0%Z (umap !! absn p.2)) p.2))).
      intros [k u] Hin. cbn [fst snd].
      rewrite (bind_ok _ _ r' (flip (default 0%Z (umap !! absn u)) u) r'); [done|].
      apply Hnode'. cbn. apply elem_of_list_fmap. by exists (k, u).
  - destruct roots as [|l|d]; constructor.
    + apply Forall2_fmap_r, Forall_Forall2_diag, Forall_forall.
      intros u Hu. by apply Hnode'.
    + apply Forall2_fmap_r, Forall_Forall2_diag, Forall_forall.
      intros [k u] Hin. split; [done|]. apply Hnode'. cbn.
      apply elem_of_list_fmap. by exists (k, u).
Qed.

(** ** 4. Loading a dump into a fresh manager *)
Theorem pickle_roundtrip_fresh s roots order vorder pf sd :
  Inv s → Forall (valid s) (roots_values roots) →
  dump_pickle roots order vorder s = (Ok pf, sd) →
  sd = s ∧
  ∃ roots' s1, load_pickle pf true init = (Ok roots', s1) ∧
    Inv s1 ∧ vars s1 = vars s ∧ lvl2var s1 = lvl2var s ∧
    roots_rel (same_fun s s1) roots roots'.
Proof.
  intros HI Hr Hd.
  destruct (dump_pickle_inv s roots order vorder pf sd HI Hr Hd)
    as (->&Eroots&Hvl&Hnf&_&_&Hrin&_).
  split; [done|].
  set (r := vstate (vars s) (lvl2var s) (nvars s)).
  assert (Hrecv : recv s r).
  { split_and!; try done. apply Inv_vstate; [apply (inv_vars _ HI)|apply (inv_lvls _ HI)]. }
  assert (Hvars : forM (pf_vars pf) (fun '(v, l) => add_var v (Some l) ;;; ret tt) init
                  = (Ok tt, r)).
  { pose proof (init_levels_file s HI _ Hvl) as E. unfold init_levels in E.
    rewrite (valid_ordering_file s HI _ Hvl) in E. cbn [assert] in E.
    by rewrite (bind_ok _ _ init tt init) in E. }
  destruct (load_pickle_from s pf roots init r HI Hr Eroots Hvl Hnf Hrin Hrecv Hvars)
    as (roots'&s1&E&(HI1&Ev&El&_)&_&_&Hrel).
  exists roots', s1. by split_and!.
Qed.

(** ** Loading into any consistent manager with the same variable order
    (reordering disabled); the manager only grows *)
Theorem pickle_roundtrip_into s roots order vorder pf sd r :
  Inv s → Forall (valid s) (roots_values roots) →
  dump_pickle roots order vorder s = (Ok pf, sd) →
  Inv r → vars r = vars s → lvl2var r = lvl2var s → last_len r = None →
  sd = s ∧
  ∃ roots' r', load_pickle pf true r = (Ok roots', r') ∧
    Inv r' ∧ extends r r' ∧ frame r r' ∧
    roots_rel (same_fun s r') roots roots'.
Proof.
  intros HI Hr Hd HIr Ev El Hoff.
  destruct (dump_pickle_inv s roots order vorder pf sd HI Hr Hd)
    as (->&Eroots&Hvl&Hnf&_&_&Hrin&_).
  split; [done|].
  assert (Hrecv : recv s r) by (by split_and!).
  assert (Hvars : forM (pf_vars pf) (fun '(v, l) => add_var v (Some l) ;;; ret tt) r
                  = (Ok tt, r)).
  { apply forM_add_var_idem. intros v i Hin. rewrite Ev. by apply Hvl. }
  destruct (load_pickle_from s pf roots r r HI Hr Eroots Hvl Hnf Hrin Hrecv Hvars)
    as (roots'&r'&E&(HI1&_)&He&Hf&Hrel).
  exists roots', r'. by split_and!.
Qed.
