(** * Pickle: dump/load round-trips (C12): [_dump_manager]/[_load_manager],
      [_dump_bdd]/[load] *)
From DD Require Export Views.
From DD Require Import Vars.

(** ** Declaring variables with explicit levels in a manager that has only
    the terminal node.  In the middle of such a loop the levels have gaps
    (the manager does not satisfy [Inv]): the states are described
    explicitly. *)
Definition vstate (vm lm : gmap nat nat) (k : nat) : st :=
  St {[1%positive := tterm k]} {[tterm k := 1%positive]} {[1%positive := 1]}
     2%positive ∅ vm lm None false [] [] None None.

Lemma st_ext (a b : st) :
  succ a = succ b → pred a = pred b → refc a = refc b → min_free a = min_free b →
  ite_tab a = ite_tab b → vars a = vars b → lvl2var a = lvl2var b →
  last_len a = last_len b → rctx a = rctx b → roots a = roots b → tape a = tape b →
  trig a = trig b → max_nodes a = max_nodes b → a = b.
Proof. destruct a, b. cbn. by intros -> -> -> -> -> -> -> -> -> -> -> -> ->. Qed.

Lemma init_vstate : init = vstate ∅ ∅ 0.
Proof.
  unfold init, init_terminal, modify. cbn [snd].
  apply st_ext; try reflexivity; cbn -[tterm singletonM insert delete lookup].
  rewrite lookup_empty. cbn [default]. by rewrite delete_empty.
Qed.

Lemma init_terminal_vstate vm lm k k' :
  init_terminal k' (vstate vm lm k) = (Ok tt, vstate vm lm k').
Proof.
  unfold init_terminal, modify. f_equal.
  apply st_ext; try reflexivity; cbn -[tterm singletonM insert delete lookup].
  - apply insert_singleton.
  - rewrite lookup_singleton. cbn [default]. by rewrite delete_singleton.
Qed.

Lemma nfl_vstate vm lm k i : lm !! i = None →
  next_free_level (Some i) (vstate vm lm k) = (Ok i, vstate vm lm k).
Proof.
  intros Hi. unfold next_free_level. cbn [bind get].
  change (lvl2var (vstate vm lm k)) with lm. by rewrite Hi.
Qed.

Lemma add_var_vstate vm lm v i :
  vm !! v = None → lm !! i = None →
  add_var v (Some i) (vstate vm lm (size vm))
  = (Ok i, vstate (<[v := i]> vm) (<[i := v]> lm) (size (<[v := i]> vm))).
Proof.
  intros Hv Hi. unfold add_var. cbn [bind get].
  change (vars (vstate vm lm (size vm))) with vm. rewrite Hv.
  rewrite decide_False by (by intros [? ?]).
  rewrite (bind_ok _ _ _ _ _ (nfl_vstate vm lm _ i Hi)). cbn [bind modify get].
  change (vstate vm lm (size vm) <| vars ::= <[v:=i]> |> <| lvl2var ::= <[i:=v]> |>)
    with (vstate (<[v:=i]> vm) (<[i:=v]> lm) (size vm)).
  rewrite (bind_ok _ _ _ _ _ (init_terminal_vstate _ _ _ _)). reflexivity.
Qed.

(** the variable loop of [BDD(levels)] *)
Lemma var_loop (l : list (nat * nat)) : ∀ vm lm,
  NoDup l.*1 → NoDup l.*2 →
  (∀ v i, (v, i) ∈ l → vm !! v = None ∧ lm !! i = None) →
  ∃ vm' lm',
    forM l (fun '(v, l) => add_var v (Some l) ;;; ret tt) (vstate vm lm (size vm))
    = (Ok tt, vstate vm' lm' (size vm')) ∧
    (∀ v i, vm' !! v = Some i ↔ vm !! v = Some i ∨ (v, i) ∈ l) ∧
    (∀ i v, lm' !! i = Some v ↔ lm !! i = Some v ∨ (v, i) ∈ l).
Proof.
  induction l as [|[v i] l IH]; intros vm lm N1 N2 Hf.
  { exists vm, lm. split; [done|]. split; intros; split; try tauto;
      intros [?|H]; try done; by apply elem_of_nil in H. }
  cbn [fmap list_fmap] in N1, N2. cbn in N1, N2.
  apply NoDup_cons in N1 as [Nv N1], N2 as [Ni N2].
  destruct (Hf v i (elem_of_list_here _ _)) as [Hv Hi].
  cbn [forM]. rewrite (bind_ok _ _ _ tt _ (bind_ok _ _ _ _ _ (add_var_vstate vm lm v i Hv Hi))).
  destruct (IH (<[v := i]> vm) (<[i := v]> lm) N1 N2) as (vm'&lm'&E&H1&H2).
  { intros v' i' Hin. destruct (Hf v' i' (elem_of_list_further _ _ _ Hin)) as [? ?].
    rewrite !lookup_insert_ne; [done|..].
    - intros <-. apply Ni. apply elem_of_list_fmap. by exists (v', i).
    - intros <-. apply Nv. apply elem_of_list_fmap. by exists (v, i'). }
  exists vm', lm'. split; [done|]. split.
  - intros x j. rewrite H1, lookup_insert_Some, elem_of_cons. split.
    + intros [[[Ev Ei]|[? ?]]|?]; [right; left; congruence|by left|by right; right].
    + intros [Hx|[Hx|?]]; [|left; left; split; congruence|by right].
      left; right. split; [|done]. intros Ev. congruence.
  - intros j x. rewrite H2, lookup_insert_Some, elem_of_cons. split.
    + intros [[[Ev Ei]|[? ?]]|?]; [right; left; congruence|by left|by right; right].
    + intros [Hx|[Hx|?]]; [|left; left; split; congruence|by right].
      left; right. split; [|done]. intros Ev. congruence.
Qed.

(** the state reached is a consistent manager when the levels are [0..n-1] *)
Lemma Inv_vstate vm lm :
  (∀ v l, vm !! v = Some l ↔ lm !! l = Some v) →
  (∀ l, l < size vm ↔ is_Some (lm !! l)) →
  Inv (vstate vm lm (size vm)).
Proof.
  intros Hb Hl. set (k := size vm).
  assert (Es : succ (vstate vm lm k) = {[1%positive := tterm k]}) by done.
  assert (Ep : pred (vstate vm lm k) = {[tterm k := 1%positive]}) by done.
  assert (Er : refc (vstate vm lm k) = {[1%positive := 1]}) by done.
  split.
  - by rewrite Es, lookup_singleton.
  - intros n t Hn Hn1. rewrite Es in Hn. apply lookup_singleton_Some in Hn as [<- _]. done.
  - intros n t. rewrite Es, Ep, !lookup_singleton_Some. split; intros [<- <-]; done.
  - change (min_free (vstate vm lm k)) with 2%positive. rewrite Es. split; [done|].
    intros j Hj. assert (j = 1%positive) as -> by lia. rewrite lookup_singleton. by eexists.
  - by rewrite Es, Er, !dom_singleton_L.
  - intros g u v w Hi. change (ite_tab (vstate vm lm k)) with (∅ : gmap (Z * Z * Z) Z) in Hi.
    by rewrite lookup_empty in Hi.
  - exact Hb.
  - exact Hl.
Qed.

(** ** What [_dump_bdd] / [_dump_manager] write for the variables *)
Lemma level_of_var_ok s v l : vars s !! v = Some l → level_of_var v s = (Ok l, s).
Proof. intros H. unfold level_of_var. cbn [bind get]. by rewrite H. Qed.

Lemma dump_vars s (vorder : list nat) :
  (∀ v, v ∈ vorder → is_Some (vars s !! v)) →
  ∃ vl, mapM (fun v => l <- level_of_var v ;; ret (v, l)) vorder s = (Ok vl, s) ∧
    vl.*1 = vorder ∧ ∀ v l, (v, l) ∈ vl → vars s !! v = Some l.
Proof.
  induction vorder as [|v vo IH]; intros Hin.
  { exists []. split; [done|]. split; [done|]. intros ?? H. by apply elem_of_nil in H. }
  destruct (Hin v (elem_of_list_here _ _)) as [l Hl].
  destruct IH as (vl&E&E1&Hvl). { intros x Hx. apply Hin. by apply elem_of_list_further. }
  exists ((v, l) :: vl). cbn [mapM].
  assert (El : (l <- level_of_var v ;; ret (v, l)) s = (Ok (v, l), s)).
  { by rewrite (bind_ok _ _ _ _ _ (level_of_var_ok s v l Hl)). }
  rewrite (bind_ok _ _ _ _ _ El), (bind_ok _ _ _ _ _ E). split; [done|].
  split; [cbn; by rewrite E1|].
  intros x j Hx. apply elem_of_cons in Hx as [[= -> ->]|Hx]; [done|by apply Hvl].
Qed.

(** a correct dump of the variable order of a consistent manager *)
Definition vars_file (s : st) (vl : list (nat * nat)) : Prop :=
  NoDup vl.*1 ∧ ∀ v l, (v, l) ∈ vl ↔ vars s !! v = Some l.

Lemma dump_vars_file s (vorder : list nat) :
  NoDup vorder → (list_to_set vorder : gset nat) = dom (vars s) →
  ∃ vl, mapM (fun v => l <- level_of_var v ;; ret (v, l)) vorder s = (Ok vl, s) ∧
    vl.*1 = vorder ∧ vars_file s vl.
Proof.
  intros ND Hd.
  assert (Hin : ∀ v, v ∈ vorder ↔ is_Some (vars s !! v)).
  { intros v. rewrite <- elem_of_dom, <- Hd. by rewrite elem_of_list_to_set. }
  destruct (dump_vars s vorder) as (vl&E&E1&Hvl); [intros v; apply Hin|].
  exists vl. split; [done|]. split; [done|]. split; [by rewrite E1|].
  intros v l. split; [apply Hvl|]. intros Hl.
  assert (v ∈ vl.*1) as Hv by (rewrite E1; apply Hin; by eexists).
  apply elem_of_list_fmap in Hv as ([v' l']&->&Hv). cbn in Hl.
  apply Hvl in Hv as Hl'. by simplify_eq.
Qed.

Lemma NoDup_snd_inj {A B} (l : list (A * B)) :
  NoDup l.*1 → (∀ a1 a2 b, (a1, b) ∈ l → (a2, b) ∈ l → a1 = a2) → NoDup l.*2.
Proof.
  induction l as [|[a b] l IH]; intros ND Hinj; [constructor|].
  cbn in *. apply NoDup_cons in ND as [Na ND]. apply NoDup_cons. split.
  - intros Hb. apply elem_of_list_fmap in Hb as ([a' b']&Eb&Hin). cbn in Eb. subst b'.
    assert (a = a') as <-.
    { apply (Hinj a a' b); [apply elem_of_list_here|by apply elem_of_list_further]. }
    apply Na. apply elem_of_list_fmap. by exists (a, b).
  - apply IH; [done|]. intros a1 a2 b0 H1 H2.
    apply (Hinj a1 a2 b0); by apply elem_of_list_further.
Qed.

Section vfile.
Context (s : st) (HI : Inv s) (vl : list (nat * nat)) (Hvl : vars_file s vl).

Lemma vfile_NoDup2 : NoDup vl.*2.
Proof.
  destruct Hvl as [ND Hm]. apply NoDup_snd_inj; [done|].
  intros v1 v2 l H1 H2. apply Hm in H1, H2. by apply (vars_inj s v1 v2 l).
Qed.

Lemma vfile_length : length vl = nvars s.
Proof.
  destruct Hvl as [ND Hm]. unfold nvars.
  rewrite <- (fmap_length fst), <- (size_list_to_set (C := gset nat)) by done.
  rewrite <- (size_dom (D := gset nat)). f_equal. apply stdpp.sets.set_eq. intros v.
  rewrite elem_of_list_to_set, elem_of_dom, elem_of_list_fmap. split.
  - intros ([v' l]&->&Hin). apply Hm in Hin. by eexists.
  - intros [l Hl]. exists (v, l). split; [done|]. by apply Hm.
Qed.
End vfile.

Section vfile2.
Context (s : st) (HI : Inv s) (vl : list (nat * nat)) (Hvl : vars_file s vl).

Lemma valid_ordering_file : valid_ordering vl = true.
Proof.
  unfold valid_ordering. apply bool_decide_eq_true. rewrite (vfile_length s vl Hvl).
  apply stdpp.sets.set_eq. intros l.
  rewrite !elem_of_list_to_set, elem_of_seq, elem_of_list_fmap.
  destruct Hvl as [_ Hm]. split.
  - intros ([v l']&->&Hin). cbn. apply Hm in Hin. apply (inv_vars _ HI) in Hin.
    split; [lia|]. cbn. apply (inv_lvls _ HI). by eexists.
  - intros [_ Hl]. cbn in Hl. apply (inv_lvls _ HI) in Hl as [v Hv].
    exists (v, l). split; [done|]. apply Hm. by apply (inv_vars _ HI).
Qed.

(** [BDD(levels)] on the file's variables rebuilds the order of [s] *)
Lemma init_levels_file :
  init_levels vl init = (Ok tt, vstate (vars s) (lvl2var s) (nvars s)).
Proof.
  unfold init_levels. rewrite valid_ordering_file. cbn [assert].
  rewrite (bind_ok _ _ init tt init) by done.
  rewrite init_vstate. change 0 with (size (∅ : gmap nat nat)).
  destruct (var_loop vl ∅ ∅) as (vm'&lm'&E&H1&H2);
    [apply Hvl|by apply (vfile_NoDup2 s)|by intros; rewrite !lookup_empty|].
  rewrite E.
  assert (vm' = vars s) as ->.
  { apply map_eq. intros v. apply option_eq. intros l. rewrite H1, lookup_empty.
    destruct Hvl as [_ Hm]. rewrite Hm. naive_solver. }
  assert (lm' = lvl2var s) as ->.
  { apply map_eq. intros l. apply option_eq. intros v. rewrite H2, lookup_empty.
    destruct Hvl as [_ Hm]. rewrite Hm, (inv_vars _ HI). naive_solver. }
  done.
Qed.
End vfile2.

(** ** 6. Whole-manager pickle *)
Theorem manager_roundtrip s vorder mf sd s0 :
  Inv s → dump_manager vorder s = (Ok mf, sd) →
  sd = s ∧
  ∃ s1, load_manager mf s0 = (Ok tt, s1) ∧
    succ s1 = succ s ∧ pred s1 = pred s ∧ refc s1 = refc s ∧
    min_free s1 = min_free s ∧ vars s1 = vars s ∧ lvl2var s1 = lvl2var s ∧
    roots s1 = roots s ∧ ite_tab s1 = ∅ ∧
    last_len s1 = None ∧ rctx s1 = false ∧ trig s1 = None ∧
    max_nodes s1 = max_nodes s ∧
    Inv s1 ∧ ∀ u ρ, denv s1 u ρ = denv s u ρ.
Proof.
  intros HI. unfold dump_manager. cbn [bind get].
  destruct (bool_decide _) eqn:Eb; cbn [negb]; [|by intros [=]].
  apply bool_decide_eq_true in Eb as [ND Hd].
  destruct (dump_vars_file s vorder ND Hd) as (vl&E&_&Hvl).
  rewrite (bind_ok _ _ _ _ _ E). intros [= <- <-]. split; [done|].
  unfold load_manager. cbn [bind modify mf_vars].
  rewrite (bind_ok _ _ _ _ _ (init_levels_file s HI vl Hvl)).
  cbn [bind modify]. eexists. split; [reflexivity|].
  cbn [mf_roots mf_pred mf_succ mf_ref mf_min_free mf_max_nodes].
  split_and!; try reflexivity.
  - eapply (Inv_same (clr s)); [|by apply Inv_W]. by repeat split.
  - intros u ρ. unfold denv. by apply D_same.
Qed.

(** ** What [_dump_bdd] writes for the nodes *)
Record nodes_file (s : st) (sl : list (positive * triple)) : Prop := {
  nf_nodup : NoDup sl.*1;
  nf_sub : ∀ k t, (k, t) ∈ sl → succ s !! k = Some t;
  nf_closed : ∀ k t, (k, t) ∈ sl → k ≠ 1%positive →
     absn (t_lo t) ∈ sl.*1 ∧ absn (t_hi t) ∈ sl.*1;
}.

Lemma dump_nodes s (order : list positive) :
  (∀ k, k ∈ order → is_Some (succ s !! k)) →
  ∃ sl, mapM (fun k => t <- getsucc k ;; ret (k, t)) order s = (Ok sl, s) ∧
    sl.*1 = order ∧ ∀ k t, (k, t) ∈ sl → succ s !! k = Some t.
Proof.
  induction order as [|k o IH]; intros Hin.
  { exists []. split; [done|]. split; [done|]. intros ?? H. by apply elem_of_nil in H. }
  destruct (Hin k (elem_of_list_here _ _)) as [t Ht].
  destruct IH as (sl&E&E1&Hsl). { intros x Hx. apply Hin. by apply elem_of_list_further. }
  exists ((k, t) :: sl). cbn [mapM].
  assert (El : (t <- getsucc k ;; ret (k, t)) s = (Ok (k, t), s)).
  { by rewrite (bind_ok _ _ _ _ _ (getsucc_ok s k t Ht)). }
  rewrite (bind_ok _ _ _ _ _ El), (bind_ok _ _ _ _ _ E). split; [done|].
  split; [cbn; by rewrite E1|].
  intros x j Hx. apply elem_of_cons in Hx as [[= -> ->]|Hx]; [done|by apply Hsl].
Qed.

Lemma dump_pickle_inv s roots order vorder pf sd :
  Inv s → Forall (valid s) (roots_values roots) →
  dump_pickle roots order vorder s = (Ok pf, sd) →
  sd = s ∧ pf_roots pf = roots ∧ vars_file s (pf_vars pf) ∧
  nodes_file s (pf_succ pf) ∧ (pf_succ pf).*1 = order ∧ (pf_vars pf).*1 = vorder ∧
  (∀ u, u ∈ roots_values roots → absn u ∈ (pf_succ pf).*1) ∧
  (∀ n, n ∈ order ↔ match roots with
                     | RNone => n ∈ dom (succ s)
                     | _ => reach (succ s) (rootsR (roots_values roots)) n
                     end).
Proof.
  intros HI Hr. unfold dump_pickle. cbn [bind get].
  assert (∃ X : gset positive,
            (match roots with
             | RNone => ret (dom (succ s))
             | _ => descendants (roots_values roots)
             end) s = (Ok X, s) ∧
            (∀ n, n ∈ X ↔ match roots with
                           | RNone => n ∈ dom (succ s)
                           | _ => reach (succ s) (rootsR (roots_values roots)) n
                           end) ∧
            (∀ n, n ∈ X → n ∈ dom (succ s)) ∧
            (∀ n t, n ∈ X → n ≠ 1%positive → succ s !! n = Some t →
               absn (t_lo t) ∈ X ∧ absn (t_hi t) ∈ X) ∧
            (∀ u, u ∈ roots_values roots → absn u ∈ X)) as (X&EX&HX&Hd&Hc&Hroots).
  { assert (Hdesc : ∃ X, descendants (roots_values roots) s = (Ok X, s) ∧
              (∀ n, n ∈ X ↔ reach (succ s) (rootsR (roots_values roots)) n) ∧
              (∀ n, n ∈ X → n ∈ dom (succ s)) ∧
              (∀ n t, n ∈ X → n ≠ 1%positive → succ s !! n = Some t →
                 absn (t_lo t) ∈ X ∧ absn (t_hi t) ∈ X) ∧
              (∀ u, u ∈ roots_values roots → absn u ∈ X)).
    { destruct (descendants_exact s HI _ Hr) as (X&E&HX). exists X.
      destruct (reach_set_closed s HI _ X HX) as [Hd Hc]. split_and!; try done.
      intros u Hu. apply HX. apply reach_root; [by exists u|].
      apply (valid_dom s). by eapply Forall_forall in Hr. }
    destruct roots as [|l|d]; [|exact Hdesc..].
    exists (dom (succ s)). split_and!; try done.
    - intros n t Hn Hn1 Ht.
      destruct (inv_node _ HI _ _ Ht Hn1) as (_&[_ ?]&_&[_ ?]&_).
      split; by apply elem_of_dom.
    - intros u Hu. by apply elem_of_nil in Hu. }
  rewrite (bind_ok _ _ _ _ _ EX).
  destruct (bool_decide (NoDup order ∧ _)) eqn:Eb1; cbn [negb]; [|by intros [=]].
  destruct (bool_decide (NoDup vorder ∧ _)) eqn:Eb2; cbn [negb]; [|by intros [=]].
  apply bool_decide_eq_true in Eb1 as [ND1 Ho], Eb2 as [ND2 Hv].
  assert (Hin : ∀ k, k ∈ order ↔ k ∈ X).
  { intros k. by rewrite <- Ho, elem_of_list_to_set. }
  destruct (dump_nodes s order) as (sl&Es&Es1&Hsl).
  { intros k Hk. exact (proj1 (elem_of_dom _ _) (Hd k (proj1 (Hin k) Hk))). }
  destruct (dump_vars_file s vorder ND2 Hv) as (vl&Ev&Ev1&Hvl).
  rewrite (bind_ok _ _ _ _ _ Es), (bind_ok _ _ _ _ _ Ev). intros [= <- <-].
  cbn [pf_roots pf_vars pf_succ]. split_and!; try done.
  - split.
    + by rewrite Es1.
    + exact Hsl.
    + intros k t Hk Hk1. rewrite Es1, !Hin. apply (Hc k t); [|done|by apply Hsl].
      apply Hin. rewrite <- Es1. apply elem_of_list_fmap. by exists (k, t).
  - intros u Hu. rewrite Es1. apply Hin. by apply Hroots.
  - intros n. by rewrite Hin.
Qed.

(** ** Loading: the variable loop of [_load_pickle] with [levels=True] *)
Lemma add_var_ret v i r j r' : add_var v (Some i) r = (Ok j, r') → j = i.
Proof.
  unfold add_var. cbn [bind get]. destruct (decide (is_Some (vars r !! v))) as [[l Hl]|Hn].
  - unfold check_var. cbn [bind get]. rewrite Hl.
    destruct (decide (i = l)) as [->|?]; [|by intros [=]]. unfold ret. by intros [= <- <-].
  - unfold next_free_level. unfold bind at 1 2. cbn [get].
    destruct (lvl2var r !! i); [by intros [=]|]. cbn [ret bind modify get].
    unfold init_terminal, modify, bind, ret. by intros [= <- _].
Qed.

Lemma add_var_idem v i r : vars r !! v = Some i → add_var v (Some i) r = (Ok i, r).
Proof.
  intros H. unfold add_var. cbn [bind get].
  rewrite decide_True by (by eexists). unfold check_var. cbn [bind get]. rewrite H.
  by rewrite decide_True.
Qed.

Lemma forM_add_var_idem (vl : list (nat * nat)) r :
  (∀ v i, (v, i) ∈ vl → vars r !! v = Some i) →
  forM vl (fun '(v, l) => add_var v (Some l) ;;; ret tt) r = (Ok tt, r).
Proof.
  induction vl as [|[v i] vl IH]; intros H; [done|]. cbn [forM].
  rewrite (bind_ok _ _ _ tt _ (bind_ok _ _ _ _ _ (add_var_idem v i r (H v i (elem_of_list_here _ _))))).
  apply IH. intros v' i' Hin. apply H. by apply elem_of_list_further.
Qed.

(** the loop of [_load_pickle] is the loop of [BDD(levels)] plus the
    construction of [level_map], which is the identity *)
Lemma pickle_var_loop n (vl : list (nat * nat)) : ∀ r r' (lm0 : gmap nat nat),
  (∀ v i, (v, i) ∈ vl → i < n) →
  forM vl (fun '(v, l) => add_var v (Some l) ;;; ret tt) r = (Ok tt, r') →
  ∃ lm, foldM (fun (lm : gmap nat nat) '(v, i) =>
            assert (bool_decide (i < n)) ;;;
            j <- add_var v (Some i) ;;
            ret (<[i := j]> lm)) lm0 vl r = (Ok lm, r') ∧
    (∀ i, i ∈ vl.*2 → lm !! i = Some i) ∧
    (∀ i, i ∉ vl.*2 → lm !! i = lm0 !! i).
Proof.
  induction vl as [|[v i] vl IH]; intros r r' lm0 Hn H.
  { cbn in H. injection H as <-. exists lm0. split; [done|]. split; [|done].
    intros i Hi. by apply elem_of_nil in Hi. }
  cbn [forM] in H. cbn [foldM].
  destruct (add_var v (Some i) r) as [[j|e] r1] eqn:E.
  2:{ rewrite (bind_err _ _ _ _ _ (bind_err _ _ _ _ _ E)) in H. done. }
  rewrite (bind_ok _ _ _ tt _ (bind_ok _ _ _ _ _ E)) in H.
  pose proof (add_var_ret _ _ _ _ _ E) as ->.
  assert (Estep : (assert (bool_decide (i < n)) ;;;
                   j <- add_var v (Some i) ;; ret (<[i := j]> lm0)) r
                  = (Ok (<[i := i]> lm0), r1)).
  { rewrite bool_decide_eq_true_2 by (apply (Hn v); apply elem_of_list_here).
    cbn [assert]. rewrite (bind_ok _ _ r tt r) by done. by rewrite (bind_ok _ _ _ _ _ E). }
  rewrite (bind_ok _ _ _ _ _ Estep).
  destruct (IH r1 r' (<[i := i]> lm0)) as (lm&El&H1&H2); [|done|].
  { intros v' i' Hin. apply (Hn v'). by apply elem_of_list_further. }
  exists lm. split; [done|]. cbn [fmap list_fmap]. split.
  - intros i' Hi'. destruct (decide (i' ∈ vl.*2)) as [?|Hni]; [by apply H1|].
    apply elem_of_cons in Hi' as [->|?]; [|done]. cbn. rewrite H2 by done.
    by rewrite lookup_insert.
  - intros i' Hi'. apply not_elem_of_cons in Hi' as [Hne Hni]. cbn in Hne.
    rewrite H2 by done. by rewrite lookup_insert_ne.
Qed.

(** ** The file's node table *)
Definition cnt (sl : list (positive * triple)) (l : nat) : nat :=
  length (filter (fun p => l ≤ t_lvl p.2) sl).

Lemma cnt_le sl l : cnt sl l ≤ length sl.
Proof. apply filter_length. Qed.

Lemma cnt_mono sl l l' : l ≤ l' → cnt sl l' ≤ cnt sl l.
Proof.
  intros Hl. unfold cnt. induction sl as [|p sl IH]; [done|].
  rewrite !filter_cons. destruct (decide (l' ≤ t_lvl p.2)).
  - rewrite decide_True by lia. cbn. lia.
  - destruct (decide (l ≤ t_lvl p.2)); cbn; lia.
Qed.

Lemma cnt_lt sl k t l' : (k, t) ∈ sl → t_lvl t < l' → cnt sl l' < cnt sl (t_lvl t).
Proof.
  intros Hin Hl. unfold cnt. induction sl as [|p sl IH]; [by apply elem_of_nil in Hin|].
  rewrite !filter_cons. apply elem_of_cons in Hin as [<-|Hin].
  - cbn [snd]. rewrite decide_False by lia. rewrite decide_True by lia. cbn.
    pose proof (cnt_mono sl (t_lvl t) l' ltac:(lia)). unfold cnt in *. lia.
  - specialize (IH Hin). destruct (decide (l' ≤ t_lvl p.2)).
    + rewrite decide_True by lia. cbn. lia.
    + destruct (decide (t_lvl t ≤ t_lvl p.2)); cbn; lia.
Qed.

Lemma flip_abs u : u ≠ 0%Z → flip (Z.pos (absn u)) u = u.
Proof. intros. unfold flip, absn. case_decide; lia. Qed.

Lemma triple_eta t : t = Triple (t_lvl t) (t_lo t) (t_hi t).
Proof. by destruct t. Qed.

Lemma fsucc_lookup s sl k t : nodes_file s sl →
  (list_to_map sl : gmap positive triple) !! k = Some t ↔ (k, t) ∈ sl.
Proof. intros Hnf. symmetry. apply elem_of_list_to_map. apply Hnf. Qed.

Lemma file_node s sl k : nodes_file s sl →
  k ∈ sl.*1 → ∃ t, (k, t) ∈ sl ∧ succ s !! k = Some t.
Proof.
  intros Hnf Hk. apply elem_of_list_fmap in Hk as ([k' t]&->&Hin). exists t.
  split; [done|]. by apply (nf_sub _ _ Hnf).
Qed.

Lemma mapM_ok {A B} (f : A → MS B) (g : A → B) (l : list A) s :
  (∀ x, x ∈ l → f x s = (Ok (g x), s)) → mapM f l s = (Ok (g <$> l), s).
Proof.
  induction l as [|x l IH]; intros H; [done|]. cbn [mapM].
  rewrite (bind_ok _ _ _ _ _ (H x (elem_of_list_here _ _))).
  rewrite (bind_ok _ _ _ _ _ (IH (fun y Hy => H y (elem_of_list_further _ _ _ Hy)))).
  done.
Qed.

(** the identity level map covers every level of the receiver *)
Lemma lm_identity s vl (lm : gmap nat nat) :
  Inv s → vars_file s vl → (∀ i, i ∈ vl.*2 → lm !! i = Some i) →
  ∀ i, i < nvars s → lm !! i = Some i.
Proof.
  intros HI [_ Hm] H i Hi. apply H. apply (inv_lvls _ HI) in Hi as [v Hv].
  apply (inv_vars _ HI) in Hv. apply elem_of_list_fmap. exists (v, i).
  split; [done|]. by apply Hm.
Qed.

Lemma vfile_lt s vl v i : Inv s → vars_file s vl → (v, i) ∈ vl → i < length vl.
Proof.
  intros HI Hvl Hin. rewrite (vfile_length s vl Hvl). destruct Hvl as [_ Hm].
  apply Hm in Hin. apply (inv_vars _ HI) in Hin. apply (inv_lvls _ HI). by eexists.
Qed.

Definition node_step (n : nat) (fsucc : gmap positive triple) (lm : gmap nat nat)
  : gmap positive Z → positive * triple → MS (gmap positive Z) :=
  fun umap '(u, _) =>
    if decide (is_Some (umap !! u)) then ret umap else
    r <- load_rec n (Z.pos u) fsucc umap lm ;; ret (snd r).

Lemma valid_flip s x u : valid s x → valid s (flip x u).
Proof. intros. unfold flip. case_decide; [by apply valid_neg|done]. Qed.
Lemma lvl_flip s x u : lvl_of s (flip x u) = lvl_of s x.
Proof. unfold flip. case_decide; [by rewrite lvl_neg|done]. Qed.

(** ** Reordering requests are disabled around the node loop ([guarded]):
    the loop runs with [last_len = None] whatever the setting of the
    receiver, and the setting is restored afterwards *)
Lemma set_last_len_id (s : st) : s <| last_len := last_len s |> = s.
Proof. by destruct s. Qed.

Lemma guarded_ok {A} (m : MS A) s a s1 :
  m (s <| last_len := None |>) = (Ok a, s1) → last_len s1 = None →
  guarded m s = (Ok a, s1 <| last_len := last_len s |>).
Proof.
  intros E H1. unfold guarded. cbn [bind get].
  destruct (last_len s) as [ll|] eqn:Ell.
  - cbn [bind modify].
    assert (Hc : catch m (s <| last_len := None |>) = (Ok (Ok a), s1))
      by (unfold catch; by rewrite E).
    rewrite (bind_ok _ _ _ _ _ Hc). reflexivity.
  - assert (Es : s <| last_len := None |> = s) by (rewrite <- Ell; apply set_last_len_id).
    assert (Es1 : s1 <| last_len := None |> = s1) by (rewrite <- H1; apply set_last_len_id).
    transitivity (m (s <| last_len := None |>)); [by rewrite Es|].
    rewrite E. f_equal. symmetry. exact Es1.
Qed.

Lemma Inv_set_ll s x : Inv (s <| last_len := x |>) ↔ Inv s.
Proof. split; apply Inv_same; by repeat split. Qed.
Lemma denv_set_ll s x u ρ : denv (s <| last_len := x |>) u ρ = denv s u ρ.
Proof. unfold denv. by apply D_same. Qed.

(** ** Receivers of a load *)

(** receivers: consistent, the variable order of [s], reordering disabled,
    no bound on the number of nodes *)
Definition recv (s r : st) : Prop :=
  Inv r ∧ vars r = vars s ∧ lvl2var r = lvl2var s ∧ last_len r = None ∧
  max_nodes r = None.

Lemma recv_nvars s r : recv s r → nvars r = nvars s.
Proof. intros (_&E&_). unfold nvars. by rewrite E. Qed.

Lemma recv_step s r r' : recv s r → Inv r' → extends r r' → frame r r' → recv s r'.
Proof.
  intros (_&E1&E2&E3&E4) HI' (_&Ev&El) (Ef&_&_&_&Em). split_and!; [done|congruence..].
Qed.

(** a loaded table in a receiver with the SAME variable order: every file
    node is mapped to a positive reference denoting the same function of the
    levels (used by the JSON loader, which builds the nodes with
    [find_or_add] directly) *)
Definition um_ok (s r : st) (umap : gmap positive Z) : Prop :=
  ∀ k x, umap !! k = Some x →
    (0 < x)%Z ∧ valid r x ∧ valid s (Z.pos k) ∧
    lvl_of s (Z.pos k) ≤ lvl_of r x ∧ ∀ a, D r x a = D s (Z.pos k) a.

Lemma um_ok_extends s r r' umap : Inv r → extends r r' → um_ok s r umap → um_ok s r' umap.
Proof.
  intros HIr He Hum k x Hx. destruct (Hum k x Hx) as (?&Hv&?&?&HD).
  split_and!; try done.
  - by apply (valid_extends r r').
  - by rewrite (lvl_extends r r').
  - intros a. by rewrite (D_extends r r').
Qed.

(** the references returned by a load denote, by variable NAMES, what the
    dumped ones denoted in [s] *)
Definition same_fun (s r : st) (u u' : Z) : Prop :=
  valid r u' ∧ ∀ ρ, denv r u' ρ = denv s u ρ.

Lemma same_fun_extends s r r' u x :
  Inv r → extends r r' → same_fun s r u x → same_fun s r' u x.
Proof.
  intros HIr He [Hv HD]. split; [by apply (valid_extends r r')|].
  intros ρ. rewrite <- HD. unfold denv. pose proof He as (_&_&El). rewrite <- El.
  by apply D_extends.
Qed.

Lemma same_fun_set_ll s r o u x : same_fun s (r <| last_len := o |>) u x ↔ same_fun s r u x.
Proof.
  unfold same_fun. split; intros [Hv HD]; (split; [exact Hv|]); intros ρ;
    [rewrite <- (denv_set_ll r o)|rewrite denv_set_ll]; apply HD.
Qed.

Lemma same_fun_flip s r u x :
  Inv s → Inv r → valid s u → same_fun s r (Z.pos (absn u)) x → same_fun s r u (flip x u).
Proof.
  intros HI HIr Hu [Hv HD]. split; [by apply valid_flip|]. intros ρ.
  specialize (HD ρ). unfold denv in *. rewrite (D_flip r HIr x u _ Hv), HD.
  symmetry. by apply D_abs.
Qed.

Lemma same_fun_term s r u :
  Inv s → Inv r → u ≠ 0%Z → absn u = 1%positive → same_fun s r u u.
Proof.
  intros HI HIr Hu E1. split.
  - split; [done|]. rewrite E1, (inv_term _ HIr). by eexists.
  - intros ρ. unfold denv. by rewrite (D_term r HIr u _ E1), (D_term s HI u _ E1).
Qed.

(** ** The node loop.  [s]: the manager that wrote the file; the receiver has
    the variable order of [r0] — ANY order: [lm] sends the level of a variable
    in [s] to the level of the variable of the same NAME in [r0]. *)
Section load.
Context (s : st) (HI : Inv s).
Context (sl : list (positive * triple)) (Hnf : nodes_file s sl).
Context (r0 : st) (lm : gmap nat nat).
Context (Hlm : ∀ i v, lvl2var s !! i = Some v →
                 ∃ j, lm !! i = Some j ∧ lvl2var r0 !! j = Some v).

(** every file node already loaded is mapped to a reference of the receiver
    denoting the same function of the variable names *)
Definition um_fn (r : st) (umap : gmap positive Z) : Prop :=
  ∀ k x, umap !! k = Some x → valid s (Z.pos k) ∧ same_fun s r (Z.pos k) x.

Lemma um_fn_extends r r' umap : Inv r → extends r r' → um_fn r umap → um_fn r' umap.
Proof.
  intros HIr He Hum k x Hx. destruct (Hum k x Hx) as (?&?).
  split; [done|]. by apply (same_fun_extends s r r').
Qed.

Lemma load_rec_spec fuel : ∀ u umap r,
  recv r0 r → valid s u → (absn u = 1%positive ∨ absn u ∈ sl.*1) → um_fn r umap →
  cnt sl (lvl_of s u) < fuel →
  ∃ p umap' r', load_rec fuel u (list_to_map sl) umap lm r = (Ok (p, umap'), r') ∧
    recv r0 r' ∧ extends r r' ∧ frame r r' ∧ um_fn r' umap' ∧
    (∀ k, is_Some (umap !! k) → is_Some (umap' !! k)) ∧
    (absn u ≠ 1%positive → is_Some (umap' !! absn u)) ∧
    same_fun s r' u p.
Proof.
  induction fuel as [|f IH]; intros u umap r Hrecv Hv Hin Hum Hf; [lia|].
  pose proof Hrecv as (HIr&Evars&El2v&Hoff&Hmx).
  cbn [load_rec]. rewrite decide_False by apply Hv.
  destruct (decide (absn u = 1%positive)) as [E1|Hn1].
  { exists u, umap, r. split; [done|]. split; [done|]. split; [reflexivity|].
    split; [reflexivity|]. split; [done|]. split; [done|]. split; [done|].
    apply same_fun_term; [done|done|apply Hv|done]. }
  destruct Hin as [?|Hin]; [done|].
  destruct (file_node s sl _ Hnf Hin) as (t&Hint&Ht).
  assert (Hlvl : lvl_of s u = t_lvl t) by (unfold lvl_of; by rewrite Ht).
  destruct (inv_node _ HI _ _ Ht Hn1) as (Hl&Hvl&Hhp&Hvh&Hll&Hlh&Hne).
  destruct (nf_closed _ _ Hnf _ _ Hint Hn1) as [Hcl Hch].
  destruct (proj1 (inv_lvls _ HI _) Hl) as [x Hx].
  destruct (Hlm _ _ Hx) as (j&Hj&Hjx).
  assert (Hmiss : ∀ umap0, umap0 = umap →
     ∃ p umap' r',
     (t <- of_opt EKey ((list_to_map sl : gmap positive triple) !! absn u) ;;
       j <- of_opt EKey (lm !! t_lvl t) ;;
       pc <- load_rec f (t_lo t) (list_to_map sl) umap lm ;; let '(p, umap) := pc in
       qc <- load_rec f (t_hi t) (list_to_map sl) umap lm ;; let '(q, umap) := qc in
       g <- find_or_add j (-1) 1 ;;
       r <- ite g q p ;;
       ret (flip r u, <[absn u := r]> umap)) r = (Ok (p, umap'), r') ∧
     recv r0 r' ∧ extends r r' ∧ frame r r' ∧ um_fn r' umap' ∧
     (∀ k, is_Some (umap !! k) → is_Some (umap' !! k)) ∧
     (absn u ≠ 1%positive → is_Some (umap' !! absn u)) ∧
     same_fun s r' u p).
  { intros _ _.
    rewrite (proj2 (fsucc_lookup s sl _ _ Hnf) Hint). cbn [of_opt].
    rewrite (bind_ok _ _ r t r) by done.
    rewrite Hj. cbn [of_opt]. rewrite (bind_ok _ _ r j r) by done.
    destruct (IH (t_lo t) umap r Hrecv Hvl (or_intror Hcl) Hum)
      as (p&um1&r1&E1&Hrecv1&He1&Hf1&Hum1&Hd1&_&Hp).
    { rewrite Hlvl in Hf. pose proof (cnt_lt sl _ t (lvl_of s (t_lo t)) Hint Hll). lia. }
    rewrite (bind_ok _ _ _ _ _ E1).
    destruct (IH (t_hi t) um1 r1 Hrecv1 Hvh (or_intror Hch) Hum1)
      as (q&um2&r2&E2&Hrecv2&He2&Hf2&Hum2&Hd2&_&Hq).
    { rewrite Hlvl in Hf. pose proof (cnt_lt sl _ t (lvl_of s (t_hi t)) Hint Hlh). lia. }
    rewrite (bind_ok _ _ _ _ _ E2).
    pose proof Hrecv1 as (HI1&_). pose proof Hrecv2 as (HI2&Ev2&El2&Hoff2&Hmx2).
    assert (Hp2 : same_fun s r2 (t_lo t) p) by (by apply (same_fun_extends s r1 r2)).
    assert (Hj2 : j < nvars r2).
    { apply (inv_lvls _ HI2). rewrite El2. by eexists. }
    (* the variable at level [j] of the receiver *)
    destruct (find_or_add j (-1) 1 r2) as [rg r3] eqn:Eg.
    pose proof Eg as Eg'.
    apply find_or_add_spec in Eg' as (HI3&He3&Hf3&Hg);
      [|done|by apply valid_m1|by apply valid_1|by rewrite (lvl_term r2 HI2)..].
    destruct rg as [g|e]; [|by destruct (benign_never r2 e Hoff2 Hmx2 (proj1 Hg))].
    destruct Hg as (Hgv&_&HgD).
    rewrite (bind_ok _ _ _ _ _ Eg).
    assert (Hrecv3 : recv r0 r3) by (by apply (recv_step r0 r2 r3)).
    pose proof Hrecv3 as (_&_&_&Hoff3&Hmx3).
    assert (Hq3 : valid r3 q) by (apply (valid_extends r2 r3); [done|apply Hq]).
    assert (Hp3 : valid r3 p) by (apply (valid_extends r2 r3); [done|apply Hp2]).
    (* [ite] on it *)
    destruct (ite g q p r3) as [rw r4] eqn:Ew.
    destruct (ite_spec_off r3 g q p rw r4 HI3 Hgv Hq3 Hp3 Hoff3 Hmx3 Ew)
      as (w&->&HI4&He4&Hf4&Hwv&HwD).
    rewrite (bind_ok _ _ _ _ _ Ew).
    assert (Hrecv4 : recv r0 r4) by (by apply (recv_step r0 r3 r4)).
    assert (Hvp : valid s (Z.pos (absn u))).
    { split; [done|]. rewrite absn_pos. by eexists. }
    assert (Hw : same_fun s r4 (Z.pos (absn u)) w).
    { split; [done|]. intros ρ. pose proof Hrecv4 as (_&_&El4&_).
      destruct Hq as [Hqv HqD], Hp2 as [Hpv HpD].
      specialize (HqD ρ). specialize (HpD ρ). unfold denv in *.
      rewrite El4. rewrite El2 in HqD, HpD.
      rewrite HwD, HgD, (D_1 r2 HI2), (D_m1 r2 HI2).
      rewrite (D_extends r2 r3 q), (D_extends r2 r3 p) by done.
      rewrite HqD, HpD.
      rewrite (D_step s HI (Z.pos (absn u)) _ t Hvp) by (by rewrite ?absn_pos).
      rewrite bool_decide_eq_false_2 by lia. rewrite xorb_false_l.
      cbv beta. rewrite Hjx, Hx. by destruct (ρ x). }
    assert (He24 : extends r2 r4) by (by etrans).
    assert (He14 : extends r r4) by (etrans; [exact He1|]; etrans; [exact He2|]; done).
    assert (Hf14 : frame r r4)
      by (etrans; [exact Hf1|]; etrans; [exact Hf2|]; etrans; [exact Hf3|]; done).
    eexists _, _, r4. split; [reflexivity|]. split; [done|].
    split; [done|]. split; [done|]. split_and!.
    - intros k y. rewrite lookup_insert_Some. intros [[<- <-]|[_ Hk]]; [done|].
      by apply (um_fn_extends r2 r4 um2).
    - intros k Hk. destruct (decide (absn u = k)) as [<-|?].
      + rewrite lookup_insert. by eexists.
      + rewrite lookup_insert_ne by done. by apply Hd2, Hd1.
    - intros _. rewrite lookup_insert. by eexists.
    - by apply same_fun_flip. }
  destruct (decide (0 < u)%Z) as [Hpos|Hneg]; [|by apply (Hmiss umap)].
  destruct (umap !! absn u) as [y|] eqn:Ey; [|by apply (Hmiss umap)].
  destruct (Hum _ _ Ey) as (_&Hy).
  assert (Eu : Z.pos (absn u) = u) by (unfold absn; lia).
  assert (Efl : flip y u = y) by (unfold flip; by rewrite decide_False by lia).
  rewrite Efl. rewrite Eu in *.
  exists y, umap, r. split; [done|]. split; [done|]. split; [reflexivity|].
  split; [reflexivity|]. split_and!; try done.
Qed.

Lemma node_loop_spec :
  ∀ (l : list (positive * triple)) umap r,
    (∀ k t, (k, t) ∈ l → k ∈ sl.*1) → recv r0 r → um_fn r umap →
    is_Some (umap !! 1%positive) →
    ∃ umap' r', foldM (node_step (S (length sl)) (list_to_map sl) lm) umap l r
                = (Ok umap', r') ∧
      recv r0 r' ∧ extends r r' ∧ frame r r' ∧ um_fn r' umap' ∧
      (∀ k, is_Some (umap !! k) → is_Some (umap' !! k)) ∧
      (∀ k t, (k, t) ∈ l → is_Some (umap' !! k)).
Proof.
  induction l as [|[k t] l IH]; intros umap r Hl Hrecv Hum H1.
  { exists umap, r. split; [done|]. split; [done|]. split; [reflexivity|].
    split; [reflexivity|]. split_and!; try done. intros ?? H. by apply elem_of_nil in H. }
  cbn [foldM].
  assert (∃ um1 r1, node_step (S (length sl)) (list_to_map sl) lm umap (k, t) r = (Ok um1, r1) ∧
            recv r0 r1 ∧ extends r r1 ∧ frame r r1 ∧ um_fn r1 um1 ∧
            (∀ k', is_Some (umap !! k') → is_Some (um1 !! k')) ∧
            is_Some (um1 !! k)) as (um1&r1&E1&Hrecv1&He1&Hf1&Hum1&Hd1&Hk1).
  { unfold node_step. destruct (decide (is_Some (umap !! k))) as [Hs|Hns].
    { exists umap, r. split; [done|]. split; [done|]. split; [reflexivity|].
      split; [reflexivity|]. by split_and!. }
    assert (Hk : k ∈ sl.*1) by (apply (Hl k t); apply elem_of_list_here).
    destruct (file_node s sl _ Hnf Hk) as (t'&_&Ht').
    destruct (load_rec_spec (S (length sl)) (Z.pos k) umap r Hrecv)
      as (p&um1&r1&E&Hrecv1&He1&Hf1&Hum1&Hd1&Hk1&_); try done.
    - right. by rewrite absn_pos.
    - pose proof (cnt_le sl (lvl_of s (Z.pos k))). lia.
    - exists um1, r1. rewrite (bind_ok _ _ _ _ _ E). split_and!; try done.
      rewrite absn_pos in Hk1. apply Hk1. intros ->. done. }
  rewrite (bind_ok _ _ _ _ _ E1).
  destruct (IH um1 r1) as (um2&r2&E2&Hrecv2&He2&Hf2&Hum2&Hd2&Hk2); [|done|done|by apply Hd1|].
  { intros k' t' Hin. apply (Hl k' t'). by apply elem_of_list_further. }
  exists um2, r2. split; [done|]. split; [done|].
  split; [by etrans|]. split; [by etrans|]. split_and!; try done.
  - intros k' Hk'. by apply Hd2, Hd1.
  - intros k' t' Hin. apply elem_of_cons in Hin as [[= -> ->]|Hin]; [by apply Hd2|by eapply Hk2].
Qed.

End load.

(** same container shape, related references position by position *)
Inductive roots_rel (P : Z → Z → Prop) : rootsC → rootsC → Prop :=
  | rr_none : roots_rel P RNone RNone
  | rr_list l l' : Forall2 P l l' → roots_rel P (RList l) (RList l')
  | rr_dict (d d' : list (nat * Z)) :
      Forall2 (fun x y => x.1 = y.1 ∧ P x.2 y.2) d d' →
      roots_rel P (RDict d) (RDict d').

Lemma mapM_rel {A B} (f : A → MS B) (P : A → B → Prop) (l : list A) s :
  (∀ x, x ∈ l → ∃ y, f x s = (Ok y, s) ∧ P x y) →
  ∃ l', mapM f l s = (Ok l', s) ∧ Forall2 P l l'.
Proof.
  induction l as [|x l IH]; intros H.
  { exists []. by split. }
  destruct (H x (elem_of_list_here _ _)) as (y&Ey&Py).
  destruct IH as (l'&El&Hl). { intros z Hz. apply H. by apply elem_of_list_further. }
  exists (y :: l'). cbn [mapM].
  rewrite (bind_ok _ _ _ _ _ Ey), (bind_ok _ _ _ _ _ El). split; [done|].
  by constructor.
Qed.

(** related to the dumped references themselves: equal *)
Lemma Forall2_eq_in {A} (P : A → A → Prop) (l l' : list A) :
  (∀ u u', u ∈ l → P u u' → u' = u) → Forall2 P l l' → l' = l.
Proof.
  intros HP Hl. induction Hl as [|u u' l l' Hu Hl IH]; [done|]. f_equal.
  - apply HP; [apply elem_of_list_here|done].
  - apply IH. intros v v' Hv. apply HP. by apply elem_of_list_further.
Qed.

Lemma roots_rel_eq (P : Z → Z → Prop) roots roots' :
  (∀ u u', u ∈ roots_values roots → P u u' → u' = u) →
  roots_rel P roots roots' → roots' = roots.
Proof.
  intros HP Hrel. revert HP. destruct Hrel as [|l l' Hl|d d' Hd]; cbn [roots_values]; intros HP.
  - done.
  - f_equal. by apply (Forall2_eq_in P).
  - f_equal. apply (Forall2_eq_in (fun x y => x.1 = y.1 ∧ P x.2 y.2)); [|done].
    intros [k u] [k' u'] Hin [Hk Hu]. cbn in Hk, Hu. subst k'. f_equal.
    apply HP; [|done]. apply elem_of_list_fmap. by exists (k, u).
Qed.

(** everything after the variable loop, whatever the loop did: [r00] is the
    receiver before it, [r] after it, [lm] the level map it built; [r] may
    have dynamic reordering enabled *)
Lemma load_pickle_from s pf roots (levels : bool) r00 r lm :
  Inv s → Forall (valid s) (roots_values roots) → pf_roots pf = roots →
  nodes_file s (pf_succ pf) →
  (∀ u, u ∈ roots_values roots → absn u ∈ (pf_succ pf).*1) →
  Inv r → max_nodes r = None →
  foldM (fun (lm : gmap nat nat) '(v, i) =>
            assert (bool_decide (i < length (pf_vars pf))) ;;;
            j <- add_var v (if levels then Some i else None) ;;
            ret (<[i := j]> lm)) ∅ (pf_vars pf) r00 = (Ok lm, r) →
  (∀ i v, lvl2var s !! i = Some v → ∃ j, lm !! i = Some j ∧ lvl2var r !! j = Some v) →
  ∃ roots' r', load_pickle pf levels r00 = (Ok roots', r') ∧
    Inv r' ∧ extends r r' ∧ frame r r' ∧ roots_rel (same_fun s r') roots roots'.
Proof.
  intros HI Hr Eroots Hnf Hrin HIr Hmx Elm Hlm.
  unfold load_pickle.
  set (rN := r <| last_len := None |>).
  assert (HIN : Inv rN) by (by apply Inv_set_ll).
  assert (HrecvN : recv rN rN) by (by split_and!).
  destruct (node_loop_spec s HI (pf_succ pf) Hnf rN lm Hlm (pf_succ pf) {[1%positive := 1%Z]} rN)
    as (umap&r1&Eum&Hrecv1&He&Hf&Hum&Hd1&Hk); [|done| | |].
  { intros k t Hin. apply elem_of_list_fmap. by exists (k, t). }
  { intros k x Hx. apply lookup_singleton_Some in Hx as [<- <-].
    split; [by apply valid_1|]. by apply same_fun_term. }
  { rewrite lookup_singleton. by eexists. }
  pose proof Hrecv1 as (HI1&_&_&Hoff1&_).
  set (r' := r1 <| last_len := last_len r |>).
  assert (Enodes : load_pickle_nodes pf levels r00 = (Ok umap, r')).
  { unfold load_pickle_nodes. rewrite (bind_ok _ _ _ _ _ Elm).
    exact (guarded_ok _ r umap r1 Eum Hoff1). }
  rewrite (bind_ok _ _ _ _ _ Enodes).
  assert (HIr' : Inv r') by (by apply Inv_set_ll).
  assert (Hum' : ∀ k x, umap !! k = Some x → same_fun s r' (Z.pos k) x).
  { intros k x Hx. apply same_fun_set_ll. by apply (Hum k x). }
  assert (Hnode : ∀ u, u ∈ roots_values roots → ∃ u',
     (if decide (u = 0%Z) then raise EKey else
      v <- of_opt EKey (umap !! absn u) ;; ret (flip v u)) r' = (Ok u', r') ∧
     same_fun s r' u u').
  { intros u Hu. assert (Hv : valid s u) by (by eapply Forall_forall in Hr).
    rewrite decide_False by apply Hv.
    assert (is_Some (umap !! absn u)) as [x Hx].
    { apply Hrin in Hu. apply elem_of_list_fmap in Hu as ([k t]&Ek&Hin). cbn in Ek.
      rewrite Ek. by eapply Hk. }
    rewrite Hx. cbn [of_opt]. rewrite (bind_ok _ _ r' x r') by done.
    exists (flip x u). split; [done|]. apply same_fun_flip; try done. by apply Hum'. }
  exists (match roots with
          | RNone => RNone
          | RList l => RList ((fun u => flip (default 0%Z (umap !! absn u)) u) <$> l)
          | RDict d => RDict ((fun p => (p.1, flip (default 0%Z (umap !! absn p.2)) p.2)) <$> d)
          end), r'.
  assert (Hnode' : ∀ u, u ∈ roots_values roots →
     (if decide (u = 0%Z) then raise EKey else
      v <- of_opt EKey (umap !! absn u) ;; ret (flip v u)) r'
     = (Ok (flip (default 0%Z (umap !! absn u)) u), r') ∧
     same_fun s r' u (flip (default 0%Z (umap !! absn u)) u)).
  { intros u Hu. destruct (Hnode u Hu) as (u'&E&Hs).
    assert (u' = flip (default 0%Z (umap !! absn u)) u) as <-; [|done].
    revert E. rewrite decide_False by (eapply Forall_forall in Hr; [apply Hr|done]).
    destruct (umap !! absn u) as [x|]; cbn [of_opt default].
    - rewrite (bind_ok _ _ r' x r') by done. unfold ret. by intros [= <-].
    - by intros [=]. }
  rewrite Eroots. split_and!.
  - destruct roots as [|l|d]; [done| |].
    + rewrite (bind_ok _ _ _ _ _ (mapM_ok _ _ l r' (fun u Hu => proj1 (Hnode' u Hu)))). done.
    + erewrite (bind_ok (mapM _ d)); [reflexivity|].
      apply (mapM_ok _ (fun p => (p.1, flip (default 0%Z (umap !! absn p.2)) p.2))).
      intros [k u] Hin. cbn [fst snd].
      rewrite (bind_ok _ _ r' (flip (default 0%Z (umap !! absn u)) u) r'); [done|].
      apply Hnode'. cbn. apply elem_of_list_fmap. by exists (k, u).
  - done.
  - exact He.
  - destruct Hf as (_&?&?&?&?). by split_and!.
  - destruct roots as [|l|d]; constructor.
    + apply Forall2_fmap_r, Forall_Forall2_diag, Forall_forall.
      intros u Hu. by apply Hnode'.
    + apply Forall2_fmap_r, Forall_Forall2_diag, Forall_forall.
      intros [k u] Hin. split; [done|]. apply Hnode'. cbn.
      apply elem_of_list_fmap. by exists (k, u).
Qed.

(** the level map of a load with [levels=True] into a manager with the
    variable order of the source *)
Lemma lm_true s vl (lm : gmap nat nat) r :
  Inv s → vars_file s vl → (∀ i, i ∈ vl.*2 → lm !! i = Some i) →
  lvl2var r = lvl2var s →
  ∀ i v, lvl2var s !! i = Some v → ∃ j, lm !! i = Some j ∧ lvl2var r !! j = Some v.
Proof.
  intros HI Hvl Hlm El i v Hv. exists i. split; [|by rewrite El].
  apply (lm_identity s vl lm HI Hvl Hlm). apply (inv_lvls _ HI). by eexists.
Qed.

(** ** 4. Loading a dump into a fresh manager *)
Theorem pickle_roundtrip_fresh s roots order vorder pf sd :
  Inv s → Forall (valid s) (roots_values roots) →
  dump_pickle roots order vorder s = (Ok pf, sd) →
  sd = s ∧
  ∃ roots' s1, load_pickle pf true init = (Ok roots', s1) ∧
    Inv s1 ∧ vars s1 = vars s ∧ lvl2var s1 = lvl2var s ∧
    roots_rel (same_fun s s1) roots roots'.
Proof.
  intros HI Hr Hd.
  destruct (dump_pickle_inv s roots order vorder pf sd HI Hr Hd)
    as (->&Eroots&Hvl&Hnf&_&_&Hrin&_).
  split; [done|].
  set (r := vstate (vars s) (lvl2var s) (nvars s)).
  assert (HIr : Inv r).
  { apply Inv_vstate; [apply (inv_vars _ HI)|apply (inv_lvls _ HI)]. }
  assert (Hvars : forM (pf_vars pf) (fun '(v, l) => add_var v (Some l) ;;; ret tt) init
                  = (Ok tt, r)).
  { pose proof (init_levels_file s HI _ Hvl) as E. unfold init_levels in E.
    rewrite (valid_ordering_file s HI _ Hvl) in E. cbn [assert] in E.
    by rewrite (bind_ok _ _ init tt init) in E. }
  destruct (pickle_var_loop (length (pf_vars pf)) (pf_vars pf) init r ∅) as (lm&Elm&Hlm&_);
    [|done|].
  { intros v i. by apply (vfile_lt s). }
  destruct (load_pickle_from s pf roots true init r lm HI Hr Eroots Hnf Hrin HIr eq_refl Elm)
    as (roots'&s1&E&HI1&(_&Ev&El)&_&Hrel).
  { by apply (lm_true s (pf_vars pf)). }
  exists roots', s1. by split_and!.
Qed.

(** ** Loading into any consistent manager with the same variable order
    (dynamic reordering enabled or not); the manager only grows *)
Theorem pickle_roundtrip_into s roots order vorder pf sd r :
  Inv s → Forall (valid s) (roots_values roots) →
  dump_pickle roots order vorder s = (Ok pf, sd) →
  Inv r → max_nodes r = None → vars r = vars s → lvl2var r = lvl2var s →
  sd = s ∧
  ∃ roots' r', load_pickle pf true r = (Ok roots', r') ∧
    Inv r' ∧ extends r r' ∧ frame r r' ∧ last_len r' = last_len r ∧
    roots_rel (same_fun s r') roots roots'.
Proof.
  intros HI Hr Hd HIr Hmx Ev El.
  destruct (dump_pickle_inv s roots order vorder pf sd HI Hr Hd)
    as (->&Eroots&Hvl&Hnf&_&_&Hrin&_).
  split; [done|].
  assert (Hvars : forM (pf_vars pf) (fun '(v, l) => add_var v (Some l) ;;; ret tt) r
                  = (Ok tt, r)).
  { apply forM_add_var_idem. intros v i Hin. rewrite Ev. by apply Hvl. }
  destruct (pickle_var_loop (length (pf_vars pf)) (pf_vars pf) r r ∅) as (lm&Elm&Hlm&_);
    [|done|].
  { intros v i. by apply (vfile_lt s). }
  destruct (load_pickle_from s pf roots true r r lm HI Hr Eroots Hnf Hrin HIr Hmx Elm)
    as (roots'&r'&E&HI1&He&Hf&Hrel).
  { by apply (lm_true s (pf_vars pf)). }
  exists roots', r'. split_and!; try done. apply Hf.
Qed.

(** ** 5. Loading a dump back into the manager that wrote it: exactly the
    dumped references come back (canonicity); the manager only grows (the
    loader creates the variable nodes and fills the computed table) *)
Theorem pickle_roundtrip_same s roots order vorder pf sd :
  Inv s → max_nodes s = None → Forall (valid s) (roots_values roots) →
  dump_pickle roots order vorder s = (Ok pf, sd) →
  sd = s ∧
  ∃ s', load_pickle pf true s = (Ok roots, s') ∧
    Inv s' ∧ extends s s' ∧ frame s s' ∧ last_len s' = last_len s.
Proof.
  intros HI Hmx Hr Hd.
  destruct (pickle_roundtrip_into s roots order vorder pf sd s HI Hr Hd HI Hmx eq_refl eq_refl)
    as (->&roots'&s'&E&HI'&He&Hf&Hll&Hrel).
  split; [done|]. exists s'. split_and!; try done.
  rewrite E. f_equal. f_equal.
  apply (roots_rel_eq (same_fun s s')); [|done].
  intros u u' Hu [Hv' HD]. assert (Hv : valid s u) by (by eapply Forall_forall in Hr).
  apply (canonical_names s' HI'); [done|by apply (valid_extends s s')|].
  intros ρ. rewrite HD. symmetry.
  apply (same_fun_extends s s s' u u HI He). by split.
Qed.

(** ** Loading with [levels=False]: the receiver keeps ITS variable order.
    The variable loop declares the names the receiver does not know (below
    the others) and reads the levels of those it knows. *)
Lemma var_loop_false n (vl : list (nat * nat)) : ∀ r (lm0 : gmap nat nat),
  Inv r → NoDup vl.*2 → (∀ v i, (v, i) ∈ vl → i < n) →
  ∃ lm r', foldM (fun (lm : gmap nat nat) '(v, i) =>
            assert (bool_decide (i < n)) ;;;
            j <- add_var v None ;;
            ret (<[i := j]> lm)) lm0 vl r = (Ok lm, r') ∧
    Inv r' ∧ frame r r' ∧ vars r ⊆ vars r' ∧
    (∀ v i, (v, i) ∈ vl → ∃ j, vars r' !! v = Some j ∧ lm !! i = Some j) ∧
    (∀ i, i ∉ vl.*2 → lm !! i = lm0 !! i) ∧
    (∀ u, valid r u → valid r' u ∧ ∀ ρ, denv r' u ρ = denv r u ρ) ∧
    ((∀ v, v ∈ vl.*1 → is_Some (vars r !! v)) → r' = r) ∧
    dom (vars r') = dom (vars r) ∪ list_to_set vl.*1 ∧
    ((∀ v, v ∈ vl.*1 → vars r !! v = None) → NoDup vl.*1 →
     ∀ k v, vl.*1 !! k = Some v → vars r' !! v = Some (nvars r + k)).
Proof.
  induction vl as [|[v i] vl IH]; intros r lm0 HIr ND Hn.
  { exists lm0, r. split; [done|]. split; [done|]. split; [reflexivity|].
    split; [done|]. split_and!; try done.
    - intros ?? H. by apply elem_of_nil in H.
    - cbn. by rewrite union_empty_r_L. }
  cbn [fmap list_fmap] in ND. cbn in ND. apply NoDup_cons in ND as [Ni ND].
  cbn [foldM].
  assert (∃ j r1, add_var v None r = (Ok j, r1) ∧ Inv r1 ∧ frame r r1 ∧
            vars r ⊆ vars r1 ∧ vars r1 !! v = Some j ∧
            (∀ u, valid r u → valid r1 u ∧ ∀ ρ, denv r1 u ρ = denv r u ρ) ∧
            (is_Some (vars r !! v) → r1 = r) ∧
            dom (vars r1) = dom (vars r) ∪ {[v]} ∧
            (vars r !! v = None → j = nvars r ∧ nvars r1 = S (nvars r) ∧
                                  vars r1 = <[v := nvars r]> (vars r)))
    as (j&r1&Ej&HI1&Hf1&Hs1&Hj&Hk1&Hid1&Hdom1&Hnew1).
  { destruct (vars r !! v) as [l|] eqn:Hv.
    - exists l, r. split; [apply (add_var_existing r v l None Hv); by left|].
      split; [done|]. split; [reflexivity|]. split_and!; try done.
      assert (v ∈ dom (vars r)) by (apply elem_of_dom; by eexists). set_solver.
    - destruct (add_var v None r) as [rj r1] eqn:Ej.
      destruct (add_var_new r v None rj r1 HIr Hv (or_introl eq_refl) Ej)
        as (->&HI1&En1&Ev1&_&_&Hf1&_&Hk1).
      exists (nvars r), r1. split; [done|]. split; [done|]. split; [done|]. split_and!.
      + rewrite Ev1. by apply insert_subseteq.
      + rewrite Ev1. by rewrite lookup_insert.
      + intros u Hu. destruct (Hk1 u Hu) as (?&_&?). by split.
      + by intros [? ?].
      + rewrite Ev1, dom_insert_L. set_solver.
      + done. }
  assert (Estep : (assert (bool_decide (i < n)) ;;;
                   j <- add_var v None ;; ret (<[i := j]> lm0)) r
                  = (Ok (<[i := j]> lm0), r1)).
  { rewrite bool_decide_eq_true_2 by (apply (Hn v); apply elem_of_list_here).
    cbn [assert]. rewrite (bind_ok _ _ r tt r) by done. by rewrite (bind_ok _ _ _ _ _ Ej). }
  rewrite (bind_ok _ _ _ _ _ Estep).
  destruct (IH r1 (<[i := j]> lm0) HI1 ND)
    as (lm&r'&El&HI'&Hf'&Hs'&Hlm&Hout&Hk'&Hid'&Hdom'&Hnew').
  { intros v' i' Hin. apply (Hn v'). by apply elem_of_list_further. }
  exists lm, r'. split; [done|]. split; [done|]. split; [by etrans|].
  split; [by etrans|]. split_and!.
  - intros v' i' Hin. apply elem_of_cons in Hin as [[= -> ->]|Hin]; [|by apply Hlm].
    exists j. split; [by apply (lookup_weaken _ _ _ _ Hj Hs')|].
    rewrite Hout by done. by rewrite lookup_insert.
  - intros i' Hi'. cbn [fmap list_fmap] in Hi'. cbn in Hi'.
    apply not_elem_of_cons in Hi' as [Hne Hni].
    rewrite Hout by done. by rewrite lookup_insert_ne.
  - intros u Hu. destruct (Hk1 u Hu) as [Hu1 HD1]. destruct (Hk' u Hu1) as [Hu' HD'].
    split; [done|]. intros ρ. by rewrite HD', HD1.
  - intros Hall. cbn [fmap list_fmap] in Hall. cbn in Hall.
    assert (r1 = r) as -> by (apply Hid1, Hall, elem_of_list_here).
    apply Hid'. intros v' Hv'. apply Hall. by apply elem_of_list_further.
  - rewrite Hdom', Hdom1. cbn [fmap list_fmap]. cbn. set_solver.
  - cbn [fmap list_fmap]. cbn. intros Hnone ND1. apply NoDup_cons in ND1 as [Nv ND1].
    destruct (Hnew1 (Hnone v (elem_of_list_here _ _))) as (->&En1&Ev1).
    intros [|k] v' Hk; cbn in Hk.
    + injection Hk as <-. rewrite Nat.add_0_r. by apply (lookup_weaken _ _ _ _ Hj Hs').
    + assert (Hnone1 : ∀ x, x ∈ vl.*1 → vars r1 !! x = None).
      { intros x Hx. rewrite Ev1, lookup_insert_ne; [apply Hnone; by apply elem_of_list_further|].
        by intros <-. }
      rewrite (Hnew' Hnone1 ND1 k v' Hk). f_equal. lia.
Qed.

(** ** Loading with [levels=False] into ANY consistent manager, whatever
    variables it declares and in whatever order, dynamic reordering enabled
    or not: the load succeeds; the variables of the receiver keep their
    levels, its references their meaning; the variables it does not know are
    declared below the others (in the iteration order of the file when it
    knows none of them); the roots denote the same functions of the variable
    names.  When the receiver declares every variable of the file it only
    grows. *)
Theorem pickle_roundtrip_any s roots order vorder pf sd r :
  Inv s → Forall (valid s) (roots_values roots) →
  dump_pickle roots order vorder s = (Ok pf, sd) →
  Inv r → max_nodes r = None →
  sd = s ∧
  ∃ roots' r', load_pickle pf false r = (Ok roots', r') ∧
    Inv r' ∧ frame r r' ∧ last_len r' = last_len r ∧
    vars r ⊆ vars r' ∧ dom (vars r') = dom (vars r) ∪ dom (vars s) ∧
    (∀ u, valid r u → valid r' u ∧ ∀ ρ, denv r' u ρ = denv r u ρ) ∧
    roots_rel (same_fun s r') roots roots' ∧
    (dom (vars s) ⊆ dom (vars r) → extends r r') ∧
    (dom (vars s) ## dom (vars r) →
     ∀ k v, vorder !! k = Some v → vars r' !! v = Some (nvars r + k)).
Proof.
  intros HI Hr Hd HIr Hmx.
  destruct (dump_pickle_inv s roots order vorder pf sd HI Hr Hd)
    as (->&Eroots&Hvl&Hnf&_&Evo&Hrin&_).
  split; [done|].
  destruct (var_loop_false (length (pf_vars pf)) (pf_vars pf) r ∅ HIr)
    as (lm&r1&Elm&HI1&Hf1&Hs1&Hlm&_&Hk1&Hid1&Hdom1&Hnew1).
  { by apply (vfile_NoDup2 s). }
  { intros v i. by apply (vfile_lt s). }
  destruct (load_pickle_from s pf roots false r r1 lm HI Hr Eroots Hnf Hrin HI1
              (eq_trans (frame_max_nodes _ _ Hf1) Hmx) Elm)
    as (roots'&r'&E&HI'&He&Hf&Hrel).
  { intros i v Hv. apply (inv_vars _ HI) in Hv.
    destruct (Hlm v i) as (j&Hj&Hlj); [by apply Hvl|].
    exists j. split; [done|]. by apply (inv_vars _ HI1). }
  assert (Hin : ∀ v, v ∈ (pf_vars pf).*1 ↔ v ∈ dom (vars s)).
  { intros v. rewrite elem_of_dom, elem_of_list_fmap. split.
    - intros ([v' i]&->&Hin). exists i. by apply Hvl.
    - intros [i Hi]. exists (v, i). split; [done|]. by apply Hvl. }
  assert (Ev1 : vars r' = vars r1) by (by destruct He as (_&->&_)).
  exists roots', r'. split; [done|]. split; [done|]. split; [by etrans|].
  split; [rewrite (proj1 Hf); apply Hf1|]. split_and!.
  - by rewrite Ev1.
  - rewrite Ev1, Hdom1. apply stdpp.sets.set_eq. intros v.
    rewrite !elem_of_union, elem_of_list_to_set. by rewrite Hin.
  - intros u Hu. destruct (Hk1 u Hu) as [Hu1 HD1]. split; [by apply (valid_extends r1 r')|].
    intros ρ. rewrite <- HD1.
    apply (same_fun_extends r1 r1 r' u u HI1 He). by split.
  - done.
  - intros Hdom. assert (r1 = r) as <-; [|done]. apply Hid1.
    intros v Hv. apply elem_of_dom, Hdom. by apply Hin.
  - intros Hdisj k v Hk. rewrite Ev1. rewrite <- Evo in Hk. apply Hnew1; [|apply Hvl|done].
    intros v' Hv'. apply Hin in Hv'. apply not_elem_of_dom. intros ?. by apply (Hdisj v').
Qed.

(** ** Loading with [levels=False] into a consistent manager that declares
    every variable of the file, in ANY order (and possibly others) *)
Theorem pickle_roundtrip_other_order s roots order vorder pf sd r :
  Inv s → Forall (valid s) (roots_values roots) →
  dump_pickle roots order vorder s = (Ok pf, sd) →
  Inv r → max_nodes r = None → dom (vars s) ⊆ dom (vars r) →
  sd = s ∧
  ∃ roots' r', load_pickle pf false r = (Ok roots', r') ∧
    Inv r' ∧ extends r r' ∧ frame r r' ∧
    vars r' = vars r ∧ lvl2var r' = lvl2var r ∧ last_len r' = last_len r ∧
    roots_rel (same_fun s r') roots roots'.
Proof.
  intros HI Hr Hd HIr Hmx Hdom.
  destruct (pickle_roundtrip_any s roots order vorder pf sd r HI Hr Hd HIr Hmx)
    as (->&roots'&r'&E&HI'&Hf&Hll&_&_&_&Hrel&He&_).
  split; [done|]. exists roots', r'. specialize (He Hdom).
  pose proof He as (_&Ev&El). by split_and!.
Qed.

(** ** Loading with [levels=False] into a fresh manager ([BDD()]): the
    variables are declared in the iteration order [vorder] of the file,
    whatever their levels in the source *)
Theorem pickle_roundtrip_fresh_names s roots order vorder pf sd :
  Inv s → Forall (valid s) (roots_values roots) →
  dump_pickle roots order vorder s = (Ok pf, sd) →
  sd = s ∧
  ∃ roots' s1, load_pickle pf false init = (Ok roots', s1) ∧
    Inv s1 ∧ dom (vars s1) = dom (vars s) ∧
    (∀ k v, vorder !! k = Some v → vars s1 !! v = Some k) ∧
    roots_rel (same_fun s s1) roots roots'.
Proof.
  intros HI Hr Hd.
  destruct (pickle_roundtrip_any s roots order vorder pf sd init HI Hr Hd Inv_init eq_refl)
    as (->&roots'&s1&E&HI1&_&_&_&Hdom&_&Hrel&_&Hnew).
  split; [done|]. exists roots', s1. split_and!; try done.
  - rewrite Hdom. change (vars init) with (∅ : gmap nat nat).
    by rewrite dom_empty_L, union_empty_l_L.
  - intros k v Hk. rewrite (Hnew ltac:(change (vars init) with (∅ : gmap nat nat); set_solver) k v Hk).
    done.
Qed.
