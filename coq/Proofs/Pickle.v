(** * Pickle: dump/load round-trips (C12): [_dump_manager]/[_load_manager],
      [_dump_bdd]/[load] *)
From DD Require Export GC Subst Driver2.

(** ** Declaring variables with explicit levels in a manager that has only
    the terminal node.  In the middle of such a loop the levels have gaps
    (the manager does not satisfy [Inv]): the states are described
    explicitly. *)
Definition vstate (vm lm : gmap nat nat) (k : nat) : st :=
  St {[1%positive := tterm k]} {[tterm k := 1%positive]} {[1%positive := 1]}
     2%positive ∅ vm lm None false [] [] None.

Lemma init_vstate : init = vstate ∅ ∅ 0.
Proof.
  unfold init, init_terminal, modify, empty_st, vstate. cbn [snd]. unfold set.
  cbn [succ pred refc min_free ite_tab vars lvl2var last_len rctx roots tape trig].
  rewrite lookup_empty. cbn [default]. rewrite delete_empty. reflexivity.
Qed.

Lemma add_var_vstate vm lm v i :
  vm !! v = None → lm !! i = None →
  add_var v (Some i) (vstate vm lm (size vm))
  = (Ok i, vstate (<[v := i]> vm) (<[i := v]> lm) (size (<[v := i]> vm))).
Proof.
  intros Hv Hi. unfold add_var. cbn [bind get].
  change (vars (vstate vm lm (size vm))) with vm. rewrite Hv.
  rewrite decide_False by (by intros [? ?]).
  assert (E1 : next_free_level (Some i) (vstate vm lm (size vm))
               = (Ok i, vstate vm lm (size vm))).
  { unfold next_free_level. cbn [bind get].
    change (lvl2var (vstate vm lm (size vm))) with lm. by rewrite Hi. }
  rewrite (bind_ok _ _ _ _ _ E1). cbn [bind modify get].
  unfold init_terminal, modify, ret, vstate, set, nvars, bind.
  cbn [succ pred refc min_free ite_tab vars lvl2var last_len rctx roots tape trig].
  rewrite !lookup_singleton. cbn [default].
  rewrite delete_singleton, insert_singleton. reflexivity.
Qed.

(** the variable loop of [BDD(levels)] *)
Lemma var_loop (l : list (nat * nat)) : ∀ vm lm,
  NoDup l.*1 → NoDup l.*2 →
  (∀ v i, (v, i) ∈ l → vm !! v = None ∧ lm !! i = None) →
  ∃ vm' lm',
    forM l (fun '(v, l) => add_var v (Some l) ;;; ret tt) (vstate vm lm (size vm))
    = (Ok tt, vstate vm' lm' (size vm')) ∧
    (∀ v i, vm' !! v = Some i ↔ vm !! v = Some i ∨ (v, i) ∈ l) ∧
    (∀ i v, lm' !! i = Some v ↔ lm !! i = Some v ∨ (v, i) ∈ l).
Proof.
  induction l as [|[v i] l IH]; intros vm lm N1 N2 Hf.
  { exists vm, lm. split; [done|]. split; intros; split; try tauto;
      intros [?|H]; try done; by apply elem_of_nil in H. }
  cbn [fmap list_fmap] in N1, N2. cbn in N1, N2.
  apply NoDup_cons in N1 as [Nv N1], N2 as [Ni N2].
  destruct (Hf v i (elem_of_list_here _ _)) as [Hv Hi].
  cbn [forM]. rewrite (bind_ok _ _ _ tt _ (bind_ok _ _ _ _ _ (add_var_vstate vm lm v i Hv Hi))).
  destruct (IH (<[v := i]> vm) (<[i := v]> lm) N1 N2) as (vm'&lm'&E&H1&H2).
  { intros v' i' Hin. destruct (Hf v' i' (elem_of_list_further _ _ _ Hin)) as [? ?].
    rewrite !lookup_insert_ne; [done|..].
    - intros ->. apply Ni. apply elem_of_list_fmap. by exists (v', i').
    - intros ->. apply Nv. apply elem_of_list_fmap. by exists (v, i'). }
  exists vm', lm'. split; [done|]. split.
  - intros x j. rewrite H1, lookup_insert_Some, elem_of_cons. split.
    + intros [[[-> ->]|[? ?]]|?]; auto.
    + intros [?|[[= -> ->]|?]]; auto.
      destruct (decide (v = x)) as [->|?]; [congruence|auto].
  - intros j x. rewrite H2, lookup_insert_Some, elem_of_cons. split.
    + intros [[[-> ->]|[? ?]]|?]; auto.
    + intros [?|[[= -> ->]|?]]; auto.
      destruct (decide (i = j)) as [->|?]; [congruence|auto].
Qed.

(** the state reached is a consistent manager when the levels are [0..n-1] *)
Lemma Inv_vstate vm lm :
  (∀ v l, vm !! v = Some l ↔ lm !! l = Some v) →
  (∀ l, l < size vm ↔ is_Some (lm !! l)) →
  Inv (vstate vm lm (size vm)).
Proof.
  intros Hb Hl. split; cbn.
  - by rewrite lookup_singleton.
  - intros n t Hn Hn1. apply lookup_singleton_Some in Hn as [<- _]. done.
  - intros n t. rewrite !lookup_singleton_Some. naive_solver.
  - split; [done|]. intros k Hk. assert (k = 1%positive) as -> by lia.
    rewrite lookup_singleton. by eexists.
  - by rewrite !dom_singleton_L.
  - intros g u v w Hi. by rewrite lookup_empty in Hi.
  - done.
  - done.
Qed.

(** ** What [_dump_bdd] / [_dump_manager] write for the variables *)
Lemma dump_vars s (vorder : list nat) :
  (∀ v, v ∈ vorder → is_Some (vars s !! v)) →
  ∃ vl, mapM (fun v => l <- level_of_var v ;; ret (v, l)) vorder s = (Ok vl, s) ∧
    vl.*1 = vorder ∧ ∀ v l, (v, l) ∈ vl → vars s !! v = Some l.
Proof.
  induction vorder as [|v vo IH]; intros Hin.
  { exists []. split; [done|]. split; [done|]. intros ?? H. by apply elem_of_nil in H. }
  destruct (Hin v (elem_of_list_here _ _)) as [l Hl].
  destruct IH as (vl&E&E1&Hvl). { intros x Hx. apply Hin. by apply elem_of_list_further. }
  exists ((v, l) :: vl). cbn [mapM].
  assert (El : (l <- level_of_var v ;; ret (v, l)) s = (Ok (v, l), s)).
  { unfold level_of_var. cbn [bind get]. by rewrite Hl. }
  rewrite (bind_ok _ _ _ _ _ El), (bind_ok _ _ _ _ _ E). split; [done|].
  split; [cbn; by rewrite E1|].
  intros x j Hx. apply elem_of_cons in Hx as [[= -> ->]|Hx]; [done|by apply Hvl].
Qed.

(** a correct dump of the variable order of a consistent manager *)
Definition vars_file (s : st) (vl : list (nat * nat)) : Prop :=
  NoDup vl.*1 ∧ ∀ v l, (v, l) ∈ vl ↔ vars s !! v = Some l.

Lemma dump_vars_file s (vorder : list nat) :
  NoDup vorder → (list_to_set vorder : gset nat) = dom (vars s) →
  ∃ vl, mapM (fun v => l <- level_of_var v ;; ret (v, l)) vorder s = (Ok vl, s) ∧
    vl.*1 = vorder ∧ vars_file s vl.
Proof.
  intros ND Hd.
  assert (Hin : ∀ v, v ∈ vorder ↔ is_Some (vars s !! v)).
  { intros v. rewrite <- elem_of_dom, <- Hd. by rewrite elem_of_list_to_set. }
  destruct (dump_vars s vorder) as (vl&E&E1&Hvl); [intros v; apply Hin|].
  exists vl. split; [done|]. split; [done|]. split; [by rewrite E1|].
  intros v l. split; [apply Hvl|]. intros Hl.
  assert (v ∈ vl.*1) as Hv by (rewrite E1; apply Hin; by eexists).
  apply elem_of_list_fmap in Hv as ([v' l']&->&Hv). cbn in Hl.
  apply Hvl in Hv as Hl'. by simplify_eq.
Qed.

Lemma NoDup_snd_inj {A B} (l : list (A * B)) :
  NoDup l.*1 → (∀ a1 a2 b, (a1, b) ∈ l → (a2, b) ∈ l → a1 = a2) → NoDup l.*2.
Proof.
  induction l as [|[a b] l IH]; intros ND Hinj; [constructor|].
  cbn in *. apply NoDup_cons in ND as [Na ND]. apply NoDup_cons. split.
  - intros Hb. apply elem_of_list_fmap in Hb as ([a' b']&Eb&Hin). cbn in Eb. subst b'.
    assert (a = a') as <-.
    { apply (Hinj a a' b); [apply elem_of_list_here|by apply elem_of_list_further]. }
    apply Na. apply elem_of_list_fmap. by exists (a, b).
  - apply IH; [done|]. intros a1 a2 b0 H1 H2.
    apply (Hinj a1 a2 b0); by apply elem_of_list_further.
Qed.

Section vfile.
Context (s : st) (HI : Inv s) (vl : list (nat * nat)) (Hvl : vars_file s vl).

Lemma vfile_NoDup2 : NoDup vl.*2.
Proof.
  destruct Hvl as [ND Hm]. apply NoDup_snd_inj; [done|].
  intros v1 v2 l H1 H2. apply Hm in H1, H2. by apply (vars_inj s v1 v2 l).
Qed.

Lemma vfile_length : length vl = nvars s.
Proof.
  destruct Hvl as [ND Hm]. unfold nvars.
  rewrite <- (fmap_length fst), <- (size_list_to_set (C := gset nat)) by done.
  rewrite <- (size_dom (D := gset nat)). f_equal. apply stdpp.sets.set_eq. intros v.
  rewrite elem_of_list_to_set, elem_of_dom, elem_of_list_fmap. split.
  - intros ([v' l]&->&Hin). apply Hm in Hin. by eexists.
  - intros [l Hl]. exists (v, l). split; [done|]. by apply Hm.
Qed.
End vfile.
