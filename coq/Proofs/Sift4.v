(** * Sift4: [reorder_to_pairs] makes every requested pair adjacent *)
From DD Require Export Sift3.

Definition adj (s : st) (x y : nat) : Prop :=
  ∃ lx ly, vars s !! x = Some lx ∧ vars s !! y = Some ly ∧ (lx = ly + 1 ∨ ly = lx + 1).

Definition pair_body (al : levels_t) (p : nat * nat) : MS levels_t :=
  let '(x, y) := p in
  jx <- level_of_var x ;;
  jy <- level_of_var y ;;
  assert (bool_decide (jx ≠ jy)) ;;;
  let k := if decide (jx < jy) then jy - jx else jx - jy in
  if decide (k = 1) then ret al else
  let '(jx, jy) := if decide (jy < jx) then (jy, jx) else (jx, jy) in
  r <- shift jx (jy - 1) al ;; ret (snd r).

Lemma reorder_to_pairs_eq pairs :
  reorder_to_pairs pairs = (al <- levels_ ;; _ <- foldM pair_body al pairs ;; ret tt).
Proof. reflexivity. Qed.

Lemma level_of_var_ok s v l : vars s !! v = Some l → level_of_var v s = (Ok l, s).
Proof. intros E. unfold level_of_var. cbn [bind get]. by rewrite E. Qed.

Lemma vars_inj s v v' l : Inv s → vars s !! v = Some l → vars s !! v' = Some l → v = v'.
Proof. intros HI H1 H2. apply (inv_vars _ HI) in H1, H2. congruence. Qed.

(** moving the upper variable of a pair next to the lower one keeps earlier
    adjacent pairs adjacent *)
Lemma mv_adj a b l l' : a + 1 < b → l ≠ a → l ≠ b → l' ≠ a → l' ≠ b →
  (l = l' + 1 ∨ l' = l + 1) →
  mv a (b - 1) l = mv a (b - 1) l' + 1 ∨ mv a (b - 1) l' = mv a (b - 1) l + 1.
Proof. intros. unfold mv. repeat case_decide; lia. Qed.

Lemma pair_body_spec L s al x y r s' :
  Gd L s → levels_ok s al → x ≠ y →
  is_Some (vars s !! x) → is_Some (vars s !! y) →
  pair_body al (x, y) s = (r, s') →
  r = Err EOracle ∨ r = Err ERuntime ∨
  ∃ al', r = Ok al' ∧ Stp L s s' ∧ levels_ok s' al' ∧ adj s' x y ∧
    dom (vars s') = dom (vars s) ∧
    (∀ a b, a ≠ x → a ≠ y → b ≠ x → b ≠ y → adj s a b → adj s' a b).
Proof.
  intros HG Hal Hxy [jx Hx] [jy Hy]. pose proof HG as (HI&_).
  assert (Hne : jx ≠ jy) by (intros ->; by apply Hxy, (vars_inj s x y jy)).
  assert (Hjx : jx < nvars s) by (apply (inv_lvls _ HI); exists x; by apply (inv_vars _ HI)).
  assert (Hjy : jy < nvars s) by (apply (inv_lvls _ HI); exists y; by apply (inv_vars _ HI)).
  unfold pair_body.
  rewrite (bind_ok _ _ _ _ _ (level_of_var_ok s x jx Hx)).
  rewrite (bind_ok _ _ _ _ _ (level_of_var_ok s y jy Hy)).
  unfold assert. rewrite bool_decide_eq_true_2 by done. cbn [bind ret].
  destruct (decide ((if decide (jx < jy) then jy - jx else jx - jy) = 1)) as [Hk|Hk].
  { intros [= <- <-]. right. right. exists al. split_and!; try done.
    - by apply Stp_refl.
    - exists jx, jy. split_and!; try done. revert Hk. case_decide; lia. }
  (* the general case, with the pair ordered by level *)
  assert (Hgen : ∀ a b va vb, a + 1 < b → b < nvars s →
            vars s !! va = Some a → vars s !! vb = Some b →
            (va = x ∧ vb = y ∨ va = y ∧ vb = x) →
            bind (shift a (b - 1) al) (fun r0 => ret (snd r0)) s = (r, s') →
            r = Err EOracle ∨ r = Err ERuntime ∨
            ∃ al', r = Ok al' ∧ Stp L s s' ∧ levels_ok s' al' ∧ adj s' x y ∧
              dom (vars s') = dom (vars s) ∧
              (∀ a b, a ≠ x → a ≠ y → b ≠ x → b ≠ y → adj s a b → adj s' a b)).
  { intros a b va vb Hab Hb Hva Hvb Hor.
    destruct (shift a (b - 1) al s) as [r1 s1] eqn:Esh.
    destruct (shift_spec L s a (b - 1) al r1 s1 HG Hal ltac:(lia) ltac:(lia) Esh)
      as [->|[->|(sz&al1&->&HS1&Hal1&Hp1&_)]].
    { rewrite (bind_err _ _ _ _ _ Esh). intros [= <- <-]. by left. }
    { rewrite (bind_err _ _ _ _ _ Esh). intros [= <- <-]. by right; left. }
    rewrite (bind_ok _ _ _ _ _ Esh). cbn [snd]. intros [= <- <-]. right. right.
    exists al1. pose proof HS1 as (_&Hn1&_). split_and!; try done.
    - pose proof (Hp1 va a Hva) as Ea. pose proof (Hp1 vb b Hvb) as Eb.
      assert (mv a (b - 1) a = b - 1) as Ea' by (unfold mv; repeat case_decide; lia).
      assert (mv a (b - 1) b = b) as Eb' by (unfold mv; repeat case_decide; lia).
      rewrite Ea' in Ea. rewrite Eb' in Eb.
      destruct Hor as [[-> ->]|[-> ->]]; eexists _, _; split_and!; try done; lia.
    - by rewrite (vperm_fmap _ s s1 Hp1 Hn1), dom_fmap_L.
    - intros c d Hc1 Hc2 Hd1 Hd2 (lc&ld&Hlc&Hld&Hcd).
      exists (mv a (b - 1) lc), (mv a (b - 1) ld). split; [by apply Hp1|]. split; [by apply Hp1|].
      apply mv_adj; try done.
      + intros ->. pose proof (vars_inj s c va a HI Hlc Hva). destruct Hor as [[? ?]|[? ?]]; congruence.
      + intros ->. pose proof (vars_inj s c vb b HI Hlc Hvb). destruct Hor as [[? ?]|[? ?]]; congruence.
      + intros ->. pose proof (vars_inj s d va a HI Hld Hva). destruct Hor as [[? ?]|[? ?]]; congruence.
      + intros ->. pose proof (vars_inj s d vb b HI Hld Hvb). destruct Hor as [[? ?]|[? ?]]; congruence. }
  destruct (decide (jy < jx)) as [Hlt|Hlt].
  - apply (Hgen jy jx y x); try done; [|by right]. revert Hk. case_decide; lia.
  - apply (Hgen jx jy x y); try done; [|by left]. revert Hk. case_decide; lia.
Qed.

Theorem reorder_to_pairs_correct pairs s L r s' :
  Gd L s →
  NoDup (pairs.*1 ++ pairs.*2) →
  (∀ v, v ∈ pairs.*1 ++ pairs.*2 → is_Some (vars s !! v)) →
  reorder_to_pairs pairs s = (r, s') →
  r = Err EOracle ∨ r = Err ERuntime ∨
  (r = Ok tt ∧ Stp L s s' ∧ dom (vars s') = dom (vars s) ∧ rr s' = rr s ∧
   ∀ x y, (x, y) ∈ pairs → adj s' x y).
Proof.
  intros HG Hnd Hdecl Hrun.
  pose proof (pres_reorder_to_pairs pairs s r s' Hrun) as Hrr.
  revert Hrun. rewrite reorder_to_pairs_eq.
  pose proof HG as (HI&_).
  destruct (levels_spec s HI) as (al&Hlev&Hal). rewrite (bind_ok _ _ _ _ _ Hlev).
  (* the loop *)
  assert (Hloop : ∀ todo done s1 al1 r1 s2,
            NoDup ((done ++ todo).*1 ++ (done ++ todo).*2) →
            Stp L s s1 → levels_ok s1 al1 → dom (vars s1) = dom (vars s) →
            (∀ v, v ∈ (done ++ todo).*1 ++ (done ++ todo).*2 → is_Some (vars s !! v)) →
            (∀ x y, (x, y) ∈ done → adj s1 x y) →
            foldM pair_body al1 todo s1 = (r1, s2) →
            r1 = Err EOracle ∨ r1 = Err ERuntime ∨
            ∃ al2, r1 = Ok al2 ∧ Stp L s s2 ∧ dom (vars s2) = dom (vars s) ∧
                   ∀ x y, (x, y) ∈ done ++ todo → adj s2 x y).
  { induction todo as [|[x y] todo IH]; intros dn s1 al1 r1 s2 Hnd1 HS1 Hal1 Hd1 Hdc Hadj.
    - cbn [foldM]. intros [= <- <-]. right. right. exists al1. rewrite app_nil_r. done.
    - cbn [foldM]. destruct (pair_body al1 (x, y) s1) as [rb sb] eqn:Eb.
      assert (Hin : ∀ v, v ∈ (dn ++ (x, y) :: todo).*1 ++ (dn ++ (x, y) :: todo).*2 →
                is_Some (vars s1 !! v)).
      { intros v Hv. apply elem_of_dom. rewrite Hd1. apply elem_of_dom. by apply Hdc. }
      pose proof Hnd1 as Hnd0. pose proof Hdc as Hdc0.
      rewrite !fmap_app, !fmap_cons in Hnd1, Hin. cbn [fst snd] in Hnd1, Hin.
      assert (Hxy : x ≠ y ∧ ∀ a b, (a, b) ∈ dn → a ≠ x ∧ a ≠ y ∧ b ≠ x ∧ b ≠ y).
      { apply NoDup_app in Hnd1 as (N1&N2&N3).
        apply NoDup_app in N1 as (_&N1&_). apply NoDup_app in N3 as (_&N3&_).
        split.
        - intros ->. apply (N2 y); rewrite !elem_of_app, !elem_of_cons; tauto.
        - intros a b Hab.
          assert (a ∈ dn.*1) as Ha by (apply elem_of_list_fmap; by exists (a, b)).
          assert (b ∈ dn.*2) as Hb by (apply elem_of_list_fmap; by exists (a, b)).
          split_and!; intros ->.
          + apply (N1 x Ha). left.
          + apply (N2 y); rewrite !elem_of_app, !elem_of_cons; tauto.
          + apply (N2 x); rewrite !elem_of_app, !elem_of_cons; tauto.
          + apply (N3 y Hb). left. }
      destruct Hxy as [Hxy Hdn].
      destruct (pair_body_spec L s1 al1 x y rb sb (proj1 HS1) Hal1 Hxy) as [->|[->|(alb&->&HSb&Halb&Hab&Hdb&Hk)]];
        [apply Hin; rewrite !elem_of_app, !elem_of_cons; tauto
        |apply Hin; rewrite !elem_of_app, !elem_of_cons; tauto|exact Eb| | |].
      { rewrite (bind_err _ _ _ _ _ Eb). intros [= <- <-]. by left. }
      { rewrite (bind_err _ _ _ _ _ Eb). intros [= <- <-]. by right; left. }
      rewrite (bind_ok _ _ _ _ _ Eb). intros Hrun.
      destruct (IH (dn ++ [(x, y)]) sb alb r1 s2) as [->|[->|(al2&->&HS2&Hd2&Hadj2)]]; try done.
      + by rewrite <- app_assoc.
      + by apply (Stp_trans L s s1 sb).
      + congruence.
      + by rewrite <- app_assoc.
      + intros a b Hab'. apply elem_of_app in Hab' as [Hab'|Hab'].
        * destruct (Hdn a b Hab') as (?&?&?&?). apply Hk; try done. by apply Hadj.
        * apply elem_of_list_singleton in Hab'. by injection Hab' as -> ->.
      + by left.
      + by right; left.
      + right. right. exists al2. split_and!; try done. intros a b Hab'. apply Hadj2.
        by rewrite <- app_assoc. }
  destruct (foldM pair_body al pairs s) as [r1 s1] eqn:Efold.
  destruct (Hloop pairs [] s al r1 s1 Hnd (Stp_refl L s HG) Hal eq_refl Hdecl) as [->|[->|(al2&->&HS2&Hd2&Hadj2)]];
    [|exact Efold| | |].
  - intros x y H. by apply elem_of_nil in H.
  - rewrite (bind_err _ _ _ _ _ Efold). intros [= <- <-]. by left.
  - rewrite (bind_err _ _ _ _ _ Efold). intros [= <- <-]. by right; left.
  - rewrite (bind_ok _ _ _ _ _ Efold). intros [= <- <-]. right. right. split_and!; try done.
Qed.
