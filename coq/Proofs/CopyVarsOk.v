(** * [copy_vars]: when it returns, names and levels are reproduced *)
From DD Require Import CopyVars Sem.

(** a successful [add_var] with an explicit level: the name has that level
    afterwards, no other name changes (no invariant needed: in the middle of
    the loop the target may have gaps in its levels) *)
Lemma add_var_explicit_ok v l s x s' :
  add_var v (Some l) s = (Ok x, s') →
  x = l ∧ vars s' = <[v := l]> (vars s).
Proof.
  unfold add_var, check_var, next_free_level, init_terminal, bind, get, ret, raise, modify.
  destruct (decide (is_Some (vars s !! v))) as [[vl Hv]|Hn].
  - rewrite Hv. destruct (decide (l = vl)) as [->|Hne]; intros E; [|discriminate].
    injection E as <- <-. split; [done|]. by rewrite insert_id.
  - destruct (lvl2var s !! l) eqn:El; [discriminate|].
    intros E. injection E as <- <-. split; [done|]. reflexivity.
Qed.

(** a refused [add_var] leaves the target as it was *)
Lemma add_var_explicit_err v l s e s' :
  add_var v (Some l) s = (Err e, s') → s' = s.
Proof.
  unfold add_var, check_var, next_free_level, init_terminal, bind, get, ret, raise, modify.
  destruct (decide (is_Some (vars s !! v))) as [[vl Hv]|Hn].
  - rewrite Hv. destruct (decide (l = vl)); intros E; [discriminate|]. by injection E as _ <-.
  - destruct (lvl2var s !! l) eqn:El.
    + intros E. by injection E as _ <-.
    + discriminate.
Qed.

Lemma copy_vars_cons v l src s :
  copy_vars ((v, l) :: src) s =
  match add_var v (Some l) s with
  | (Ok _, s1) => copy_vars src s1
  | (Err e, s1) => (Err e, s1)
  end.
Proof.
  unfold copy_vars. cbn [forM]. unfold bind at 1 2.
  destruct (add_var v (Some l) s) as [[x|e] s1]; reflexivity.
Qed.

(** [copy_vars] returned: every name of the source has the source's level in
    the target; names that the source does not have are untouched *)
Theorem copy_vars_ok src : ∀ s s',
  NoDup src.*1 →
  copy_vars src s = (Ok tt, s') →
  (∀ v l, (v, l) ∈ src → vars s' !! v = Some l) ∧
  (∀ v, v ∉ src.*1 → vars s' !! v = vars s !! v).
Proof.
  induction src as [|[v l] src IH]; intros s s' Hnd Hrun.
  - unfold copy_vars in Hrun. cbn [forM ret] in Hrun. injection Hrun as <-.
    split; [intros ?? []%elem_of_nil|done].
  - rewrite copy_vars_cons in Hrun.
    destruct (add_var v (Some l) s) as [[x|e] s1] eqn:Ea; [|discriminate].
    apply add_var_explicit_ok in Ea as [-> Ev].
    cbn [fmap list_fmap fst] in Hnd. apply NoDup_cons in Hnd as [Hnot Hnd].
    destruct (IH s1 s' Hnd Hrun) as [H1 H2]. split.
    + intros v' l' [E|Hin]%elem_of_cons.
      * injection E as -> ->. rewrite (H2 v Hnot), Ev. by rewrite lookup_insert.
      * by apply H1.
    + intros v' Hv'. cbn [fmap list_fmap fst] in Hv'. apply not_elem_of_cons in Hv' as [Hne Hv'].
      rewrite (H2 v' Hv'), Ev. by rewrite lookup_insert_ne.
Qed.

(** [copy_vars] refused: the target holds the declarations made before the
    refused one, and the refused pair conflicts with the target as it was then:
    the name is declared at another level, or the level is taken *)
Theorem copy_vars_refused src : ∀ s e s',
  copy_vars src s = (Err e, s') →
  ∃ pre v l post s1, src = pre ++ (v, l) :: post ∧
    copy_vars pre s = (Ok tt, s1) ∧ s' = s1 ∧
    add_var v (Some l) s1 = (Err e, s1).
Proof.
  induction src as [|[v l] src IH]; intros s e s' Hrun.
  - unfold copy_vars in Hrun. cbn [forM ret] in Hrun. discriminate.
  - rewrite copy_vars_cons in Hrun.
    destruct (add_var v (Some l) s) as [[x|e1] s1] eqn:Ea.
    + destruct (IH s1 e s' Hrun) as (pre&v'&l'&post&s2&->&Hp&->&Hr).
      exists ((v, l) :: pre), v', l', post, s2. split; [done|]. split; [|done].
      rewrite copy_vars_cons, Ea. exact Hp.
    + injection Hrun as <- <-. pose proof (add_var_explicit_err _ _ _ _ _ Ea) as ->.
      exists [], v, l, src, s. split; [done|]. split; [reflexivity|]. split; [done|exact Ea].
Qed.
