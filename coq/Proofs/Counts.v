(** * Counts: reference counts are exact (in-degree + external references) *)
From DD Require Export Ite.

(** number of stored edges (low or high, either sign) pointing to node [n] *)
Definition edges_to (t : triple) (n : positive) : nat :=
  (if decide (t_lo t ≠ 0%Z ∧ absn (t_lo t) = n) then 1 else 0) +
  (if decide (t_hi t ≠ 0%Z ∧ absn (t_hi t) = n) then 1 else 0).
Definition indeg (m : gmap positive triple) (n : positive) : nat :=
  map_fold (fun _ t acc => edges_to t n + acc) 0 m.
(** reference counts are exact w.r.t. a ledger [L] of external references *)
Definition Counts (s : st) (L : positive → nat) : Prop :=
  (∀ n, n ∈ dom (succ s) → refc s !! n = Some (indeg (succ s) n + L n)) ∧
  (∀ n, n ∉ dom (succ s) → L n = 0).

(** ** In-degree *)
Lemma indeg_empty n : indeg ∅ n = 0.
Proof. unfold indeg. by rewrite map_fold_empty. Qed.

Lemma indeg_insert_fresh m u t n : m !! u = None →
  indeg (<[u := t]> m) n = edges_to t n + indeg m n.
Proof.
  intros H. unfold indeg. rewrite map_fold_insert_L; [done| |done].
  intros; lia.
Qed.

Lemma indeg_delete m u t n : m !! u = Some t →
  indeg m n = edges_to t n + indeg (delete u m) n.
Proof.
  intros H. rewrite <- (insert_delete m u t) at 1 by done.
  apply indeg_insert_fresh. apply lookup_delete.
Qed.

Lemma indeg_update m u t t' n : m !! u = Some t →
  indeg (<[u := t']> m) n + edges_to t n = edges_to t' n + indeg m n.
Proof.
  intros H. rewrite <- (insert_delete_insert m u t').
  rewrite indeg_insert_fresh by apply lookup_delete.
  rewrite (indeg_delete m u t n H). lia.
Qed.

(** every stored edge is counted *)
Lemma indeg_ge m k t n : m !! k = Some t → edges_to t n ≤ indeg m n.
Proof. intros H. rewrite (indeg_delete m k t n H). lia. Qed.

Lemma indeg_zero m n :
  (∀ k t, m !! k = Some t → edges_to t n = 0) → indeg m n = 0.
Proof.
  induction m as [|i x m Hi IH] using map_ind; intros H.
  - apply indeg_empty.
  - rewrite indeg_insert_fresh by done.
    rewrite (H i x) by apply lookup_insert. rewrite IH; [done|].
    intros k t Hk. apply (H k). rewrite lookup_insert_ne; [done|]. congruence.
Qed.

(** a positive in-degree is witnessed by a parent (constructively) *)
Lemma indeg_pos m n : 0 < indeg m n →
  ∃ k t, m !! k = Some t ∧ 0 < edges_to t n.
Proof.
  induction m as [|i x m Hi IH] using map_ind.
  - rewrite indeg_empty. lia.
  - rewrite indeg_insert_fresh by done. intros H.
    destruct (decide (0 < edges_to x n)) as [Hx|Hx].
    + exists i, x. by rewrite lookup_insert.
    + destruct IH as (k&t&Hk&Ht); [lia|]. exists k, t. split; [|done].
      rewrite lookup_insert_ne; [done|]. congruence.
Qed.

Lemma edges_to_cases t n :
  0 < edges_to t n →
  (t_lo t ≠ 0%Z ∧ absn (t_lo t) = n) ∨ (t_hi t ≠ 0%Z ∧ absn (t_hi t) = n).
Proof. unfold edges_to. repeat case_decide; try lia; auto. Qed.
Lemma edges_to_lo t : t_lo t ≠ 0%Z → 0 < edges_to t (absn (t_lo t)).
Proof. intros. unfold edges_to. rewrite decide_True by done. lia. Qed.
Lemma edges_to_hi t : t_hi t ≠ 0%Z → 0 < edges_to t (absn (t_hi t)).
Proof. intros. unfold edges_to. rewrite (decide_True (P := _ ∧ absn (t_hi t) = _)) by done. lia. Qed.

(** edges of a well-formed manager only point to stored nodes *)
Lemma Inv_edges_dom s k t n : Inv s → succ s !! k = Some t → 0 < edges_to t n →
  n ∈ dom (succ s) ∧ k ≠ 1%positive.
Proof.
  intros HI Hk He.
  assert (k ≠ 1%positive) as Hk1.
  { intros ->. rewrite (inv_term _ HI) in Hk. simplify_eq.
    unfold edges_to, tterm in He. cbn in He. repeat case_decide; try lia; naive_solver. }
  split; [|done].
  destruct (inv_node _ HI _ _ Hk Hk1) as (_&[_ Hl]&_&[_ Hh]&_).
  apply elem_of_dom.
  by destruct (edges_to_cases _ _ He) as [[_ <-]|[_ <-]].
Qed.

Lemma indeg_outside s n : Inv s → n ∉ dom (succ s) → indeg (succ s) n = 0.
Proof.
  intros HI Hn. apply indeg_zero. intros k t Hk.
  destruct (decide (0 < edges_to t n)) as [He|]; [|lia].
  by destruct (Inv_edges_dom s k t n HI Hk He).
Qed.

(** ** [Counts] only depends on [succ] and [refc] *)
Lemma Counts_same s s' L : succ s' = succ s → refc s' = refc s →
  Counts s L → Counts s' L.
Proof. intros E1 E2. unfold Counts. by rewrite E1, E2. Qed.

(** the ledger is only compared pointwise *)
Lemma Counts_ext s L L' : (∀ n, L n = L' n) → Counts s L → Counts s L'.
Proof.
  intros E [H1 H2]. split; intros n Hn; rewrite <- E; auto.
Qed.

Lemma Counts_ref s L n : Counts s L → n ∈ dom (succ s) → is_Some (refc s !! n).
Proof. intros [H _] Hn. rewrite (H n Hn). by eexists. Qed.

Lemma lookup_alter_if {A} (f : A → A) (m : gmap positive A) k n :
  alter f k m !! n = (if decide (k = n) then f else id) <$> m !! n.
Proof.
  case_decide as E.
  - subst. apply lookup_alter.
  - rewrite lookup_alter_ne by done. by destruct (m !! n).
Qed.

(** ** [incref] / [decref] *)
Lemma incref_run s u : u ≠ 0%Z → is_Some (refc s !! absn u) →
  incref u s = (Ok tt, bump u s).
Proof.
  intros Hu [n Hn]. unfold incref, bind, getref.
  rewrite decide_False by done. by rewrite Hn.
Qed.

Definition unbump (u : Z) (s : st) : st := s <| refc ::= alter Nat.pred (absn u) |>.

Lemma decref_run s u : u ≠ 0%Z → is_Some (refc s !! absn u) →
  decref u s = (Ok tt, unbump u s).
Proof.
  intros Hu [n Hn]. unfold decref, bind, getref.
  rewrite decide_False by done. by rewrite Hn.
Qed.

Definition ledger_inc (L : positive → nat) (k : positive) : positive → nat :=
  fun n => if decide (n = k) then S (L n) else L n.
Definition ledger_dec (L : positive → nat) (k : positive) : positive → nat :=
  fun n => if decide (n = k) then Nat.pred (L n) else L n.

Lemma Counts_bump s L u : valid s u → Counts s L →
  Counts (bump u s) (ledger_inc L (absn u)).
Proof.
  intros [_ Hu] [H1 H2]. apply elem_of_dom in Hu. split.
  - intros n Hn. cbn in *. rewrite lookup_alter_if, (H1 n Hn). unfold ledger_inc.
    destruct (decide (absn u = n)), (decide (n = absn u)); try congruence; cbn; f_equal; lia.
  - intros n Hn. cbn in Hn. unfold ledger_inc. rewrite decide_False; [by apply H2|].
    intros ->. done.
Qed.

Theorem incref_counts s L u r s' :
  valid s u → Counts s L → incref u s = (r, s') →
  r = Ok tt ∧ s' = bump u s ∧ Counts s' (ledger_inc L (absn u)).
Proof.
  intros Hv HC. rewrite incref_run; [|apply Hv|].
  - intros [= <- <-]. split_and!; try done. by apply Counts_bump.
  - apply (Counts_ref s L); [done|]. apply elem_of_dom, Hv.
Qed.

(** [decref] of an externally referenced node: the ledger entry decreases *)
Lemma Counts_unbump s L u : valid s u → Counts s L → 0 < L (absn u) →
  Counts (unbump u s) (ledger_dec L (absn u)).
Proof.
  intros [_ Hu] [H1 H2] HL. apply elem_of_dom in Hu. split.
  - intros n Hn. cbn in *. rewrite lookup_alter_if, (H1 n Hn). unfold ledger_dec.
    destruct (decide (absn u = n)), (decide (n = absn u)); try congruence; cbn; f_equal.
    subst. lia.
  - intros n Hn. cbn in Hn. unfold ledger_dec. rewrite decide_False; [by apply H2|].
    intros ->. done.
Qed.

Theorem decref_counts s L u r s' :
  valid s u → Counts s L → 0 < L (absn u) → decref u s = (r, s') →
  r = Ok tt ∧ s' = unbump u s ∧ Counts s' (ledger_dec L (absn u)).
Proof.
  intros Hv HC HL. rewrite decref_run; [|apply Hv|].
  - intros [= <- <-]. split_and!; try done. by apply Counts_unbump.
  - apply (Counts_ref s L); [done|]. apply elem_of_dom, Hv.
Qed.

(** [decref] without an external reference.  The call still succeeds
    (Python only warns).  If the count is already zero it floors and
    nothing changes; otherwise the count drops below the in-degree and
    no ledger at all can explain the counters any more. *)
Theorem decref_counts_zero s L u r s' :
  valid s u → Counts s L → L (absn u) = 0 → decref u s = (r, s') →
  r = Ok tt ∧ s' = unbump u s ∧
  (indeg (succ s) (absn u) = 0 → Counts s' L) ∧
  (0 < indeg (succ s) (absn u) → ∀ L', ¬ Counts s' L').
Proof.
  intros Hv HC HL.
  assert (Hd : absn u ∈ dom (succ s)) by apply elem_of_dom, Hv.
  rewrite decref_run; [|apply Hv|by apply (Counts_ref s L)].
  intros [= <- <-]. split_and!; try done.
  - intros H0. destruct HC as [H1 H2]. split; [|done].
    intros n Hn. cbn in *. rewrite lookup_alter_if, (H1 n Hn).
    destruct (decide (absn u = n)) as [<-|]; [|done]. cbn. f_equal. lia.
  - intros Hpos L' [H1' _]. destruct HC as [H1 _].
    specialize (H1' _ Hd). cbn in H1'.
    rewrite lookup_alter, (H1 _ Hd) in H1'. cbn in H1'. injection H1' as H1'. lia.
Qed.

(** ** [find_or_add] keeps the counts exact, with the same ledger *)
Lemma request_reordering_tables s r s' :
  request_reordering s = (r, s') → succ s' = succ s ∧ refc s' = refc s.
Proof.
  unfold request_reordering. intros H.
  destruct (last_len s) as [l|] eqn:Hl.
  - by destruct (trig s) as [[|[|k]]|] eqn:Ht; try case_decide; simplify_eq.
  - by simplify_eq.
Qed.

Lemma Counts_add_node s L i v w :
  Inv s → Counts s L → valid s v → valid s w → succ s !! min_free s = None →
  Counts (bump w (bump v (add_node s (min_free s) (Triple i v w)))) L.
Proof.
  intros HI [H1 H2] Hv Hw Hfree.
  set (u := min_free s) in *. set (t := Triple i v w).
  assert (Hvu : absn v ≠ u) by (intros E; destruct Hv as [_ [? Hx]]; congruence).
  assert (Hwu : absn w ≠ u) by (intros E; destruct Hw as [_ [? Hx]]; congruence).
  assert (Hud : u ∉ dom (succ s)) by (by apply not_elem_of_dom).
  split.
  - intros n Hn. cbn in Hn |- *. rewrite indeg_insert_fresh by done.
    rewrite !lookup_alter_if.
    destruct (decide (n = u)) as [->|Hnu].
    + rewrite lookup_insert. rewrite !decide_False by done. cbn. f_equal.
      rewrite (indeg_outside s u HI Hud), (H2 u Hud).
      unfold edges_to, t. cbn. rewrite !decide_False; [done|naive_solver..].
    + rewrite lookup_insert_ne by done.
      rewrite dom_insert_L in Hn. assert (n ∈ dom (succ s)) as Hn' by set_solver.
      rewrite (H1 n Hn'). unfold edges_to, t. cbn [t_lo t_hi].
      destruct Hv as [Hv0 _], Hw as [Hw0 _].
      destruct (decide (absn v = n)), (decide (absn w = n));
        repeat case_decide; try naive_solver; cbn; f_equal; lia.
  - intros n Hn. cbn in Hn. apply H2. rewrite dom_insert_L in Hn. set_solver.
Qed.

Theorem find_or_add_counts s L i v w r s' :
  Inv s → Counts s L → find_or_add i v w s = (r, s') → Counts s' L.
Proof.
  intros HI HC. unfold find_or_add. unfold bind at 1.
  destruct (request_reordering s) as [[[]|e] s1] eqn:Hrr.
  2:{ intros [= <- <-]. apply request_reordering_tables in Hrr as [E1 E2].
      by apply (Counts_same s). }
  pose proof Hrr as Hrr'. apply request_reordering_spec in Hrr' as (Hsame&_&_).
  apply request_reordering_tables in Hrr as [E1 E2].
  assert (HI1 : Inv s1) by (by eapply Inv_same).
  assert (HC1 : Counts s1 L) by (by apply (Counts_same s)).
  clear HI HC Hsame E1 E2.
  cbn [bind get].
  case_decide; [by intros [= <- <-]|].
  destruct (mem v s1) eqn:Hmv; cbn [negb]; [|by intros [= <- <-]].
  destruct (mem w s1) eqn:Hmw; cbn [negb]; [|by intros [= <- <-]].
  apply mem_valid in Hmv, Hmw.
  set (σ := if decide (w < 0)%Z then (-1)%Z else 1%Z).
  assert (Hvv : valid s1 (σ * v)%Z).
  { subst σ. case_decide; [replace (-1 * v)%Z with (- v)%Z by lia; by apply valid_neg|].
    by rewrite Z.mul_1_l. }
  assert (Hwv : valid s1 (σ * w)%Z).
  { subst σ. case_decide; [replace (-1 * w)%Z with (- w)%Z by lia; by apply valid_neg|].
    by rewrite Z.mul_1_l. }
  set (v' := (σ * v)%Z) in *. set (w' := (σ * w)%Z) in *.
  case_decide; [by intros [= <- <-]|].
  destruct (pred s1 !! Triple i v' w') as [u|] eqn:Hp; [by intros [= <- <-]|].
  unfold assert.
  case_bool_decide; cbn [bind ret raise]; [|by intros [= <- <-]].
  case_bool_decide as Hfree; cbn [bind ret raise modify]; [|by intros [= <- <-]].
  destruct (fits _ _); cbn [ensure bind ret raise modify]; [|by intros [= <- <-]].
  set (s2 := s1 <| pred ::= _ |> <| succ := _ |> <| refc ::= _ |> <| min_free := _ |>).
  change s2 with (add_node s1 (min_free s1) (Triple i v' w')). clear s2.
  set (s2 := add_node s1 (min_free s1) (Triple i v' w')).
  assert (Hrd : ∀ x s0, refc s0 = <[min_free s1 := 0]> (refc s1) ∨
                        dom (refc s0) = dom (<[min_free s1 := 0]> (refc s1)) →
                        valid s1 x → is_Some (refc s0 !! absn x)).
  { intros x s0 Hs0 [_ Hx]. apply elem_of_dom.
    assert (dom (refc s0) = dom (<[min_free s1 := 0]> (refc s1))) as -> by (by destruct Hs0 as [->|]).
    rewrite dom_insert_L, (inv_ref _ HI1). apply elem_of_dom in Hx. set_solver. }
  unfold bind at 1. rewrite (incref_run s2 v') by (first [apply Hvv | apply Hrd; [by left|done]]).
  unfold bind at 1. rewrite (incref_run (bump v' s2) w');
    [|apply Hwv|apply Hrd; [right; cbn; apply dom_alter_L|done]].
  unfold ret. intros [= <- <-].
  by apply Counts_add_node.
Qed.

(** ** [_ite] keeps the counts exact, with the same ledger *)
Theorem ite_rec_counts fuel : ∀ s L g u v r s',
  Inv s → Counts s L → valid s g → valid s u → valid s v →
  nvars s - minlvl3 s g u v < fuel →
  ite_rec fuel g u v s = (r, s') → Counts s' L.
Proof.
  induction fuel as [|f IH]; intros s L g u v r s' HI HC Hg Hu Hv Hfuel; [lia|].
  cbn [ite_rec].
  destruct (decide (g = 1%Z)) as [->|Hgn1]; [by intros [= <- <-]|].
  destruct (decide (g = (-1)%Z)) as [->|Hgnm1]; [by intros [= <- <-]|].
  cbn [bind get].
  destruct (ite_tab s !! (g, u, v)) as [w|] eqn:Hc; [by intros [= <- <-]|].
  rewrite (bind_ok _ _ _ _ _ (level_of_ok s g Hg)).
  rewrite (bind_ok _ _ _ _ _ (level_of_ok s u Hu)).
  rewrite (bind_ok _ _ _ _ _ (level_of_ok s v Hv)).
  fold (minlvl3 s g u v). set (z := minlvl3 s g u v) in *.
  destruct (min3_le (lvl_of s g) (lvl_of s u) (lvl_of s v)) as (Hzg&Hzu&Hzv).
  fold (minlvl3 s g u v) in Hzg, Hzu, Hzv. fold z in Hzg, Hzu, Hzv.
  assert (Hzn : z < nvars s).
  { destruct (node_cases s HI g Hg) as [[E _]|(t&?&?&?&Hl&?&_)]; [|lia].
    destruct (absn_1 g E (proj1 Hg)); done. }
  destruct (top_cofactor_ok s g z HI Hg Hzg) as (g0&g1&Eg&Hg0&Hg1&Lg0&Lg1&_&_&Dg).
  destruct (top_cofactor_ok s u z HI Hu Hzu) as (u0&u1&Eu&Hu0&Hu1&Lu0&Lu1&_&_&Du).
  destruct (top_cofactor_ok s v z HI Hv Hzv) as (v0&v1&Ev&Hv0&Hv1&Lv0&Lv1&_&_&Dv).
  rewrite (bind_ok _ _ _ _ _ Eg), (bind_ok _ _ _ _ _ Eu), (bind_ok _ _ _ _ _ Ev).
  destruct (min3_above z (nvars s) _ _ _ Lg0 Lu0 Lv0 (lvl_le s HI g0 Hg0)
              (lvl_le s HI u0 Hu0) (lvl_le s HI v0 Hv0) Hzn) as [Hm0 Hm0'].
  destruct (min3_above z (nvars s) _ _ _ Lg1 Lu1 Lv1 (lvl_le s HI g1 Hg1)
              (lvl_le s HI u1 Hu1) (lvl_le s HI v1 Hv1) Hzn) as [Hm1 Hm1'].
  fold (minlvl3 s g0 u0 v0) in Hm0, Hm0'. fold (minlvl3 s g1 u1 v1) in Hm1, Hm1'.
  clear Lg0 Lu0 Lv0 Lg1 Lu1 Lv1 Hzg Hzu Hzv Dg Du Dv.
  (* first recursive call *)
  destruct (ite_rec f g0 u0 v0 s) as [rp s1] eqn:Ep.
  assert (HC1 : Counts s1 L) by (apply (IH _ _ _ _ _ _ _ HI HC Hg0 Hu0 Hv0 ltac:(lia) Ep)).
  pose proof Ep as Ep'.
  apply ite_rec_spec in Ep' as (HI1&He1&Hf1&Hp); [|done|done|done|done|lia].
  destruct rp as [p|e]; cycle 1.
  { rewrite (bind_err _ _ _ _ _ Ep). by intros [= <- <-]. }
  rewrite (bind_ok _ _ _ _ _ Ep).
  destruct Hp as (Hpv&Hpl&_).
  (* second recursive call *)
  destruct (ite_rec f g1 u1 v1 s1) as [rq s2] eqn:Eq.
  assert (Hnv1 : nvars s1 = nvars s) by (by apply extends_nvars).
  assert (Em1 : minlvl3 s1 g1 u1 v1 = minlvl3 s g1 u1 v1).
  { unfold minlvl3. by rewrite !(lvl_extends s s1). }
  assert (Hg1' : valid s1 g1) by (by apply (valid_extends s s1)).
  assert (Hu1' : valid s1 u1) by (by apply (valid_extends s s1)).
  assert (Hv1' : valid s1 v1) by (by apply (valid_extends s s1)).
  assert (Hfuel1 : nvars s1 - minlvl3 s1 g1 u1 v1 < f) by (rewrite Hnv1, Em1; lia).
  assert (HC2 : Counts s2 L) by (apply (IH _ _ _ _ _ _ _ HI1 HC1 Hg1' Hu1' Hv1' Hfuel1 Eq)).
  pose proof Eq as Eq'.
  apply ite_rec_spec in Eq' as (HI2&He2&Hf2&Hq); [|done..].
  destruct rq as [q|e]; cycle 1.
  { rewrite (bind_err _ _ _ _ _ Eq). by intros [= <- <-]. }
  rewrite (bind_ok _ _ _ _ _ Eq).
  (* the node *)
  destruct (find_or_add z p q s2) as [rw s3] eqn:Ew.
  assert (HC3 : Counts s3 L) by (by apply (find_or_add_counts s2 L z p q rw s3)).
  destruct rw as [w|e]; cycle 1.
  { rewrite (bind_err _ _ _ _ _ Ew). by intros [= <- <-]. }
  rewrite (bind_ok _ _ _ _ _ Ew).
  cbn [bind modify ret]. intros [= <- <-].
  by apply (Counts_same s3).
Qed.
