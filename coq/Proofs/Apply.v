(** * Apply: the operator table of [BDD.apply] computes the connectives *)
From DD Require Export Decor.
Local Open Scope string_scope.

(** Boolean reading of a template's operands *)
Fixpoint operand_sem (o : operand) (bu bv bw : bool) : bool :=
  match o with
  | OU => bu | OV => bv | OW => bw
  | ONeg o => negb (operand_sem o bu bv bw)
  | OTrue => true | OFalse => false
  end.

(** which operands a term mentions: (v, w) *)
Fixpoint operand_uses (o : operand) : bool * bool :=
  match o with
  | OV => (true, false) | OW => (false, true)
  | ONeg o => operand_uses o
  | _ => (false, false)
  end.

Definition avail (uses : bool * bool) (v w : option Z) : Prop :=
  (uses.1 = true → v ≠ None) ∧ (uses.2 = true → w ≠ None).

Definition ovalid (s : st) (o : option Z) : Prop :=
  match o with Some x => valid s x | None => True end.

Lemma eval_operand_spec s o u v w :
  Inv s → valid s u → ovalid s v → ovalid s w → avail (operand_uses o) v w →
  valid s (eval_operand o u (default 0%Z v) (default 0%Z w)) ∧
  ∀ a, D s (eval_operand o u (default 0%Z v) (default 0%Z w)) a =
       operand_sem o (D s u a) (D s (default 0%Z v) a) (D s (default 0%Z w) a).
Proof.
  intros HI Hu Hv Hw. induction o as [| | |o IH| |]; cbn; intros [Hav Haw].
  - done.
  - destruct v; [done|]. by destruct Hav.
  - destruct w; [done|]. by destruct Haw.
  - destruct (IH (conj Hav Haw)) as [Hval HD]. split; [by apply valid_neg|].
    intros a. by rewrite D_neg, HD.
  - split; [by apply valid_1|]. intros; by apply D_1.
  - split; [by apply valid_m1|]. intros; by apply D_m1.
Qed.

(** Boolean reading of a (non-quantifier) template *)
Definition template_sem (t : template) (bu bv bw : bool) : option bool :=
  match t with
  | TRet o => Some (operand_sem o bu bv bw)
  | TIte a b c => Some (if operand_sem a bu bv bw then operand_sem b bu bv bw
                        else operand_sem c bu bv bw)
  | TQuant _ _ _ => None
  end.

Definition por (a b : bool * bool) : bool * bool := (a.1 || b.1, a.2 || b.2).
Definition template_uses (t : template) : bool * bool :=
  match t with
  | TRet o => operand_uses o
  | TIte a b c => por (operand_uses a) (por (operand_uses b) (operand_uses c))
  | TQuant _ a b => por (operand_uses a) (operand_uses b)
  end.

Lemma avail_por_l x y v w : avail (por x y) v w → avail x v w.
Proof. unfold avail, por. cbn. intros [H1 H2]. split; intros E; [apply H1|apply H2]; by rewrite E. Qed.
Lemma avail_por_r x y v w : avail (por x y) v w → avail y v w.
Proof.
  unfold avail, por. cbn. intros [H1 H2].
  split; intros E; [apply H1|apply H2]; rewrite E; apply orb_true_r.
Qed.

(** [apply] for the propositional rows of the table, reordering disabled *)
Theorem apply_with_spec tbl op u v w s t r s' :
  Inv s → last_len s = None → max_nodes s = None →
  valid s u → ovalid s v → ovalid s w →
  arity_ok op v w = true →
  find_template tbl op = Some t → avail (template_uses t) v w →
  (∀ fa a b, t ≠ TQuant fa a b) →
  apply_with tbl op u v w s = (r, s') →
  ∃ x, r = Ok x ∧ Inv s' ∧ extends s s' ∧ frame s s' ∧ valid s' x ∧
    ∀ a, Some (D s' x a) =
         template_sem t (D s u a) (D s (default 0%Z v) a) (D s (default 0%Z w) a).
Proof.
  intros HI Hoff Hmx Hu Hv Hw Har Hft Hav Hnq. unfold apply_with, ensure.
  rewrite Har. rewrite (bind_ok _ _ s tt s) by done. cbn [bind get].
  rewrite (proj2 (mem_valid s u) Hu). rewrite (bind_ok _ _ s tt s) by done.
  assert (Hmv : match v with Some v => mem v s | None => true end = true).
  { destruct v; [|done]. by apply mem_valid. }
  assert (Hmw : match w with Some w => mem w s | None => true end = true).
  { destruct w; [|done]. by apply mem_valid. }
  rewrite Hmv, Hmw. rewrite !(bind_ok _ _ s tt s) by done. rewrite Hft.
  destruct t as [o|a b c|fa a b]; [| |by destruct (Hnq fa a b)].
  - intros [= <- <-].
    destruct (eval_operand_spec s o u v w HI Hu Hv Hw Hav) as [Hval HD].
    eexists. split_and!; try done. intros x. cbn. by rewrite HD.
  - cbn in Hav.
    destruct (eval_operand_spec s a u v w HI Hu Hv Hw (avail_por_l _ _ _ _ Hav)) as [Va Da].
    destruct (eval_operand_spec s b u v w HI Hu Hv Hw
                (avail_por_l _ _ _ _ (avail_por_r _ _ _ _ Hav))) as [Vb Db].
    destruct (eval_operand_spec s c u v w HI Hu Hv Hw
                (avail_por_r _ _ _ _ (avail_por_r _ _ _ _ Hav))) as [Vc Dc].
    intros Hrun. apply ite_spec_off in Hrun as (x&->&?&?&?&?&HD); try done.
    exists x. split_and!; try done. intros e. cbn. by rewrite HD, Da, Db, Dc.
Qed.

(** ** The documented meaning of every operator symbol (property C01),
    written independently of the code's table *)
Definition conn_sem (op : string) : option (bool → bool → bool → bool) :=
  if bool_decide (op ∈ ["not"; "~"; "!"]) then Some (fun a _ _ : bool => negb a)
  else if bool_decide (op ∈ ["and"; "/\"; "&"; "&&"]) then Some (fun a b _ : bool => a && b)
  else if bool_decide (op ∈ ["or"; "\/"; "|"; "||"]) then Some (fun a b _ : bool => a || b)
  else if bool_decide (op ∈ ["xor"; "#"; "^"]) then Some (fun a b _ : bool => xorb a b)
  else if bool_decide (op ∈ ["implies"; "=>"; "->"]) then Some (fun a b _ : bool => implb a b)
  else if bool_decide (op ∈ ["equiv"; "<=>"; "<->"]) then Some (fun a b _ : bool => eqb a b)
  else if bool_decide (op ∈ ["diff"; "-"]) then Some (fun a b _ : bool => a && negb b)
  else if bool_decide (op = "ite") then Some (fun a b c : bool => if a then b else c)
  else None.

Definition bools3 : list (bool * bool * bool) :=
  b1 ← [true; false]; b2 ← [true; false]; b3 ← [true; false]; [(b1, b2, b3)].

Lemma bools3_all b1 b2 b3 : (b1, b2, b3) ∈ bools3.
Proof. destruct b1, b2, b3; unfold bools3; cbn; set_solver. Qed.

(** the arity class fixes which operands are present *)
Definition class_uses_ok (tbl : list (list string * template))
    (unary binary ternary : list string) (op : string) : bool :=
  match find_template tbl op with
  | None => false
  | Some t =>
      let '(uv, uw) := template_uses t in
      (if bool_decide (op ∈ unary) then negb uv && negb uw
       else if bool_decide (op ∈ binary) then negb uw
       else bool_decide (op ∈ ternary))
      && match conn_sem op with
         | None => false
         | Some f =>
             forallb (fun '(b1, b2, b3) =>
               bool_decide (template_sem t b1 b2 b3 = Some (f b1 b2 b3))) bools3
         end
  end.
