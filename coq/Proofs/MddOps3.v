(** * MddOps3: [bdd_to_mdd] with dynamic reordering ENABLED on the BDD manager.

    [bdd_to_mdd] calls the public [reorder(bdd, order)] (guarded since the
    repair of [BDD.swap]) and then, in its loop, the DECORATED
    [bdd.cofactor(u, d)].  With [last_len s = Some n] the decorator could
    reorder when [find_or_add] raises the request; here the cofactors are by
    all the bits of the zone of a node that heads the zone, so the recursion
    walks down to an existing node and never reaches [find_or_add]
    ([cofactor_rec_zone] does not depend on [last_len]).  Hence the run is
    the same for every threshold, and the theorems of [MddOps2] transfer. *)
From DD Require Export MddOps2.

(** ** changing the threshold *)
Definition setll (v : option nat) (s : st) : st := s <| last_len := v |>.

Lemma setll_id s : setll (last_len s) s = s.
Proof. by destruct s. Qed.
Lemma setll_setll v w s : setll v (setll w s) = setll v s.
Proof. by destruct s. Qed.

Lemma Inv_ll v s : Inv s ↔ Inv (setll v s).
Proof. split; apply Inv_same; by repeat split. Qed.
Lemma Counts_ll v s L : Counts s L ↔ Counts (setll v s) L.
Proof. done. Qed.
Lemma nozero_ll v s : nozero s ↔ nozero (setll v s).
Proof. done. Qed.
Lemma dvars_wf_ll dvars v s : dvars_wf dvars s ↔ dvars_wf dvars (setll v s).
Proof. split; by apply dvars_wf_vars. Qed.
Lemma b2m_wf_ll dvars v s : b2m_wf dvars s ↔ b2m_wf dvars (setll v s).
Proof. split; intros []; by split. Qed.
Lemma b2m_order_ok_ll order v s : b2m_order_ok order s ↔ b2m_order_ok order (setll v s).
Proof. done. Qed.
Lemma keepsH_ll2 L s s' v w : keepsH L s s' ↔ keepsH L (setll v s) (setll w s').
Proof.
  split; intros Hk u Hu; destruct (Hk u Hu) as (V&V1&HD); split_and!; try done; intros ρ.
  - unfold setll. by rewrite !denv_ll.
  - pose proof (HD ρ) as E. unfold setll in E. by rewrite !denv_ll in E.
Qed.

(** ** computations that run the same for every threshold *)
Definition stabr {A} (m : MS A) (s : st) (r : res A) : Prop :=
  ∀ v, m (setll v s) = (r, setll v s).
Definition stabl {A} (m : MS A) (s : st) : Prop := ∃ r, stabr m s r.

Lemma stabr_run {A} (m : MS A) s r : stabr m s r → m s = (r, s).
Proof. intros H. specialize (H (last_len s)). by rewrite setll_id in H. Qed.

Lemma stabl_ret {A} (a : A) s : stabl (ret a) s.
Proof. by exists (Ok a). Qed.
Lemma stabl_raise {A} e s : stabl (raise e : MS A) s.
Proof. by exists (Err e). Qed.
Lemma stabl_of_opt {A} e (o : option A) s : stabl (of_opt e o) s.
Proof. destruct o; [apply stabl_ret|apply stabl_raise]. Qed.
Lemma stabl_bind {A B} (m : MS A) (f : A → MS B) s :
  stabl m s → (∀ a, stabl (f a) s) → stabl (bind m f) s.
Proof.
  intros [[a|e] Hm] Hf.
  - destruct (Hf a) as [r Hr]. exists r. intros v. by rewrite (bind_ok _ _ _ _ _ (Hm v)).
  - exists (Err e). intros v. by rewrite (bind_err _ _ _ _ _ (Hm v)).
Qed.
Lemma stabl_mapM {A B} (f : A → MS B) l s : (∀ x, x ∈ l → stabl (f x) s) → stabl (mapM f l) s.
Proof.
  induction l as [|x l IH]; intros H; cbn [mapM]; [apply stabl_ret|].
  apply stabl_bind; [apply H; left|]. intros b.
  apply stabl_bind; [apply IH; intros; apply H; by right|]. intros bs. apply stabl_ret.
Qed.
Lemma stabl_foldM {A B} (f : B → A → MS B) l s :
  (∀ b x, x ∈ l → stabl (f b x) s) → ∀ b, stabl (foldM f b l) s.
Proof.
  induction l as [|x l IH]; intros H b; cbn [foldM]; [apply stabl_ret|].
  apply stabl_bind; [apply H; left|]. intros b'. apply IH. intros; apply H; by right.
Qed.
Lemma stabl_getsucc u s : stabl (getsucc u) s.
Proof.
  unfold getsucc. destruct (succ s !! u) as [t|] eqn:E.
  - exists (Ok t). intros v. change (succ (setll v s)) with (succ s). by rewrite E.
  - exists (Err EKey). intros v. change (succ (setll v s)) with (succ s). by rewrite E.
Qed.
Lemma stabl_ref u s : stabl (ref u) s.
Proof.
  unfold ref. case_decide; [apply stabl_raise|]. unfold getref.
  destruct (refc s !! absn u) as [t|] eqn:E.
  - exists (Ok t). intros v. change (refc (setll v s)) with (refc s). by rewrite E.
  - exists (Err EKey). intros v. change (refc (setll v s)) with (refc s). by rewrite E.
Qed.
Lemma stabl_var_at_level l s : stabl (var_at_level l) s.
Proof.
  unfold var_at_level. destruct (stabl_of_opt EValue (lvl2var s !! l) s) as [r Hr].
  exists r. intros v. cbn [bind get]. exact (Hr v).
Qed.

(** ** the key mapping by name reads the variable order only *)
Definition tr {A} (m : MS A) (s s' : st) : Prop :=
  m s = ((m s).1, s) ∧ m s' = ((m s).1, s').
Lemma tr_ret {A} (a : A) s s' : tr (ret a) s s'.
Proof. done. Qed.
Lemma tr_bind {A B} (m : MS A) (f : A → MS B) s s' :
  tr m s s' → (∀ a, tr (f a) s s') → tr (bind m f) s s'.
Proof.
  intros [H1 H2] Hf. unfold tr, bind. rewrite H2.
  destruct (m s) as [[a|e] s1]; cbn [fst] in *; injection H1 as ->; [apply Hf|done].
Qed.
Lemma tr_mapM {A B} (f : A → MS B) l s s' : (∀ x, tr (f x) s s') → tr (mapM f l) s s'.
Proof.
  intros H. induction l as [|x l IH]; cbn [mapM]; [apply tr_ret|].
  apply tr_bind; [apply H|]. intros b. apply tr_bind; [apply IH|]. intros bs. apply tr_ret.
Qed.
Lemma tr_map_key first k s s' : vars s' = vars s → tr (map_key true first k) s s'.
Proof. intros E. unfold tr, map_key. cbn [bind get]. rewrite E. by destruct (vars s !! k). Qed.
Lemma mtld_vars {A} (kv : list (nat * A)) s s' lv : vars s' = vars s →
  map_to_level_dict true kv s = (Ok lv, s) → map_to_level_dict true kv s' = (Ok lv, s').
Proof.
  intros E H. assert (Ht : tr (map_to_level_dict true kv) s s').
  { unfold map_to_level_dict. destruct kv as [|[k a] rest]; [apply tr_ret|].
    apply tr_bind; [apply tr_ret|]. intros _.
    apply tr_bind; [by apply tr_map_key|]. intros l.
    apply tr_bind; [|intros; apply tr_ret]. apply tr_mapM. intros [k' a'].
    apply tr_bind; [by apply tr_map_key|]. intros; apply tr_ret. }
  destruct Ht as [_ ->]. by rewrite H.
Qed.

(** ** the walk through a zone is a function *)
Lemma zpath_fun s lv u x y : zpath s lv u x → zpath s lv u y → x = y.
Proof.
  intros Hx. revert y. induction Hx as [u Hu Hn|u t val x Hu Ht Hn1 Hval Hz IH]; intros y Hy.
  - inversion Hy as [|u' t' val' x' Hu' Ht' Hn' Hval' Hz']; [done|]. subst.
    exfalso. unfold lvl_of in Hn. rewrite Ht' in Hn. congruence.
  - inversion Hy as [u' Hu' Hn'|u' t' val' x' Hu' Ht' Hn' Hval' Hz']; subst.
    + exfalso. unfold lvl_of in Hn'. rewrite Ht in Hn'. congruence.
    + rewrite Ht in Ht'. injection Ht' as <-. rewrite Hval in Hval'. injection Hval' as <-.
      f_equal. by apply IH.
Qed.

(** [cofactor_zone] for any threshold: the first attempt of the decorator
    returns, so nothing reads the threshold *)
Lemma cofactor_zone_any s u d lv : Inv s → valid s u →
  map_to_level_dict true d (s <| rctx := true |>) = (Ok lv, s <| rctx := true |>) →
  (∀ i n, lvl_of s u ≤ i → i ≤ n → is_Some (lv !! n) → is_Some (lv !! i)) →
  (∀ k, is_Some (lv !! k) → k < nvars s) →
  ∃ z, cofactor u true d s = (Ok z, s) ∧ zpath s lv u z.
Proof.
  intros HI Hu Hmap Hconv Hlt.
  set (s0 := s <| rctx := true |>) in *.
  assert (HI0 : Inv s0) by (by apply Inv_rctx).
  assert (Hu0 : valid s0 u) by done.
  destruct (cofactor_rec (S (S (nvars s0))) u (sorted_levels (dom lv)) lv ∅ s0)
    as [rr s2] eqn:Erec.
  pose proof Erec as Erec'.
  apply (cofactor_rec_zone s0 HI0 lv (lvl_of s u) Hconv Hlt) in Erec'
    as (->&z&c&->&Hz&_); [|done|done| | |done|lia].
  2:{ intros k Hk. apply elem_of_sorted_levels in Hk. by apply elem_of_dom. }
  2:{ intros k Hk _. apply elem_of_sorted_levels. by apply elem_of_dom. }
  exists z. split; [|by apply (zpath_same s s0)].
  unfold cofactor, cofactor_names, try_to_reorder. cbn [bind get modify].
  unfold bind at 1, catch at 1. fold s0.
  rewrite (bind_ok _ _ _ _ _ Hmap). cbn [bind get].
  rewrite (proj2 (mem_valid s0 u) Hu0). unfold ensure.
  rewrite (bind_ok _ _ s0 tt s0) by done.
  rewrite (bind_ok _ _ _ _ _ Erec). cbn [bind modify ret fst]. by rewrite rctx_roundtrip.
Qed.

Lemma cofactor_zone_stab s u d lv : Inv s → valid s u →
  map_to_level_dict true d (s <| rctx := true |>) = (Ok lv, s <| rctx := true |>) →
  (∀ i n, lvl_of s u ≤ i → i ≤ n → is_Some (lv !! n) → is_Some (lv !! i)) →
  (∀ k, is_Some (lv !! k) → k < nvars s) →
  ∃ z, stabr (cofactor u true d) s (Ok z) ∧ zpath s lv u z.
Proof.
  intros HI Hu Hmap Hconv Hlt.
  destruct (cofactor_zone_any s u d lv HI Hu Hmap Hconv Hlt) as (z&_&Hz).
  exists z. split; [|done]. intros v.
  destruct (cofactor_zone_any (setll v s) u d lv) as (z'&Ez'&Hz');
    [by apply Inv_ll|done| |exact Hconv|exact Hlt|].
  { by apply (mtld_vars d (s <| rctx := true |>)). }
  assert (z' = z) as ->; [|done].
  apply (zpath_fun s lv u); [|done]. by apply (zpath_same s (setll v s)).
Qed.

(** ** the conversion proper runs the same for every threshold *)
Section dyn.
Context (dvars : dvars_t) (s : st).
Context (HI : Inv s) (Hdw : dvars_wf dvars s) (Hwf : b2m_wf dvars s).
Context (K : gset positive).

(** the cofactors of a node by every value of its integer variable *)
Lemma zone_cofactors_stab u t bit var j bits :
  succ s !! u = Some t → u ≠ 1%positive → lvl2var s !! t_lvl t = Some bit →
  (var, (j, bits)) ∈ dvars → bit ∈ bits →
  ∀ ds, (∀ d, d ∈ ds → d.*1 = bits) →
  ∃ zs, stabr (mapM (fun d => cofactor (Z.pos u) true d) ds) s (Ok zs).
Proof.
  intros Hu Hu1 Hbit Hin Hbb.
  assert (Hvu : valid s (Z.pos u)) by (split; [done|]; rewrite absn_pos; by eexists).
  assert (Hlu : lvl_of s (Z.pos u) = t_lvl t) by (unfold lvl_of; by rewrite absn_pos, Hu).
  assert (Hilu : ilvl dvars s (t_lvl t) = j) by (by apply (ilvl_bit dvars s Hwf _ bit var j bits)).
  destruct (inv_node _ HI _ _ Hu Hu1) as (Hltu&_).
  induction ds as [|d ds IH]; intros Hds.
  { by exists []. }
  destruct (zone_dict dvars s HI Hdw Hwf var j bits d Hin (Hds d ltac:(left))) as (lv&Hlv&Hdom).
  destruct (cofactor_zone_stab s (Z.pos u) d lv HI Hvu Hlv) as (z&Ez&Hz).
  { intros i n Hi Hn [Hn1 Hn2]%Hdom. apply Hdom. split; [lia|]. rewrite Hlu in Hi.
    pose proof (bw_mono _ _ Hwf (t_lvl t) i Hi ltac:(lia)).
    pose proof (bw_mono _ _ Hwf i n Hn Hn1). lia. }
  { intros k Hk%Hdom. apply Hk. }
  destruct IH as (zs&Ezs); [intros; apply Hds; by right|].
  exists (z :: zs). intros v. cbn [mapM].
  by rewrite (bind_ok _ _ _ _ _ (Ez v)), (bind_ok _ _ _ _ _ (Ezs v)).
Qed.

Lemma step_stabl acc u : u ∈ dom (succ s) → u ≠ 1%positive →
  stabl (b2m_step dvars K acc u) s.
Proof.
  intros [t Hu]%elem_of_dom Hu1. destruct acc as [mdd umap]. unfold b2m_step.
  destruct (decide (u ∉ K)) as [Hnk|_]; [apply stabl_ret|].
  destruct (node_var dvars s HI Hdw Hwf u t Hu Hu1) as (bit&var&j&bits&Hbit&Hvar0&Hvar1&Hin&Hbb&Hil).
  destruct (zone_cofactors_stab u t bit var j bits Hu Hu1 Hbit Hin Hbb (enumerate_integer bits))
    as (zs&Ezs).
  { intros d [k Hk]%elem_of_list_lookup. by apply (enumerate_integer_fst bits k). }
  assert (Hrest : stabl (int_succ <- mapM (fun z : Z =>
                    x <- of_opt EKey (Mdd.assoc umap (absn z)) ;;
                    ret (if decide (0 < z)%Z then x else (- x)%Z)) zs ;;
      match m_find_or_add j int_succ mdd with
      | (Ok x, mdd') => ret (mdd', umap ++ [(u, x)])
      | (Err e, _) => raise e
      end) s).
  { apply stabl_bind.
    - apply stabl_mapM. intros z _. apply stabl_bind; [apply stabl_of_opt|]. intros; apply stabl_ret.
    - intros xs. destruct (m_find_or_add j xs mdd) as [[x|e] mdd']; [apply stabl_ret|apply stabl_raise]. }
  destruct Hrest as [r Hr]. exists r. intros v.
  rewrite (bind_ok _ _ _ _ _ (getsucc_ok (setll v s) u t Hu)).
  assert (Hvl : var_at_level (t_lvl t) (setll v s) = (Ok bit, setll v s)).
  { unfold var_at_level. cbn [bind get]. change (lvl2var (setll v s)) with (lvl2var s). by rewrite Hbit. }
  rewrite (bind_ok _ _ _ _ _ Hvl). rewrite Hvar0. rewrite (bind_ok _ _ (setll v s) var (setll v s)) by done.
  rewrite Hvar1. rewrite (bind_ok _ _ (setll v s) (j, bits) (setll v s)) by done.
  rewrite (bind_ok _ _ _ _ _ (Ezs v)). exact (Hr v).
Qed.

Lemma fold_stabl order : (∀ u, u ∈ order → u ∈ dom (succ s) ∧ u ≠ 1%positive) →
  ∀ acc, stabl (foldM (b2m_step dvars K) acc order) s.
Proof. intros H. apply stabl_foldM. intros acc u Hu. apply step_stabl; by apply H. Qed.
End dyn.

Lemma keep_stabl dvars b2s s : stabl (b2m_keep dvars b2s s) s.
Proof.
  unfold b2m_keep. apply stabl_foldM. intros keep [u t] _.
  apply stabl_bind; [apply stabl_ref|]. intros rc.
  case_decide; [apply stabl_ret|].
  apply stabl_bind; [apply stabl_var_at_level|]. intros bit.
  apply stabl_bind; [apply stabl_of_opt|]. intros var.
  apply stabl_bind; [apply stabl_of_opt|]. intros bits.
  apply stabl_bind; [apply stabl_of_opt|]. intros lsb.
  apply stabl_bind; [apply stabl_of_opt|]. intros min_level.
  destruct (List.map _ _); [apply stabl_raise|]. case_decide; apply stabl_ret.
Qed.

(** the conversion proper, for every threshold at once *)
Lemma tail_stabl dvars b2s s order :
  Inv s → dvars_wf dvars s → b2m_wf dvars s →
  stabl (bdd_to_mdd_tail dvars b2s order) s.
Proof.
  intros HI Hdw Hwf.
  destruct (keep_stabl dvars b2s s) as [rk Hk].
  assert (Hkeep : ∀ v, b2m_keep dvars b2s (setll v s) (setll v s) = (rk, setll v s)) by exact Hk.
  destruct rk as [K|e]; cycle 1.
  { exists (Err e). intros v. unfold bdd_to_mdd_tail. cbn [bind get].
    by rewrite (bind_err _ _ _ _ _ (Hkeep v)). }
  destruct (decide (b2m_order_ok order s)) as [Hord|Hord].
  - assert (Hoset : ∀ u, u ∈ order → u ∈ dom (succ s) ∧ u ≠ 1%positive).
    { destruct Hord as (_&Hset&_). intros u Hu.
      apply (elem_of_list_to_set (C := gset positive)) in Hu. rewrite Hset in Hu.
      apply elem_of_list_to_set, elem_of_list_filter in Hu as [? Hu]. by apply elem_of_elements in Hu. }
    destruct (fold_stabl dvars s HI Hdw Hwf K order Hoset (b2m_mdd0 dvars, [(1%positive, 1%Z)]))
      as [rf Hf].
    exists (match rf with Ok r => Ok r | Err e => Err e end). intros v.
    unfold bdd_to_mdd_tail. cbn [bind get].
    rewrite (bind_ok _ _ _ _ _ (Hkeep v)).
    rewrite bool_decide_eq_true_2 by exact Hord. cbn [negb].
    destruct rf as [r|e]; [by rewrite (bind_ok _ _ _ _ _ (Hf v))|by rewrite (bind_err _ _ _ _ _ (Hf v))].
  - exists (Err EOracle). intros v. unfold bdd_to_mdd_tail. cbn [bind get].
    rewrite (bind_ok _ _ _ _ _ (Hkeep v)).
    by rewrite bool_decide_eq_false_2 by exact Hord.
Qed.

(** ** (b) Totality of the conversion proper, for any threshold *)
Theorem keep_total_dyn dvars s L :
  Inv s → Counts s L → nozero s → 0 < L 1%positive →
  dvars_wf dvars s → vars s = list_to_map (b2m_b2s dvars) → b2m_wf dvars s →
  ∃ K : gset positive,
    b2m_keep dvars (b2m_b2s dvars) s s = (Ok K, s) ∧
    ∀ u t, succ s !! u = Some t →
      (0 < L u → u ∈ K) ∧
      (∀ w tw, succ s !! w = Some tw → w ≠ 1%positive →
         (absn (t_lo tw) = u ∨ absn (t_hi tw) = u) →
         ilvl dvars s (t_lvl tw) < ilvl dvars s (t_lvl t) → u ∈ K).
Proof.
  intros HI HC Hnz HL1 Hdw Hv Hwf.
  destruct (keep_total dvars (setll None s) L) as (K&EK&HK); try done;
    [by apply Inv_ll|by apply dvars_wf_ll|by apply b2m_wf_ll|].
  exists K. split; [|exact HK].
  destruct (keep_stabl dvars (b2m_b2s dvars) s) as [rk Hk].
  pose proof (Hk None) as E.
  change (b2m_keep dvars (b2m_b2s dvars) (setll None s)) with (b2m_keep dvars (b2m_b2s dvars) s) in EK.
  rewrite EK in E. injection E as <-. by apply stabr_run.
Qed.

Theorem bdd_to_mdd_tail_total_dyn dvars s L order :
  Inv s → Counts s L → nozero s → 0 < L 1%positive →
  dvars_wf dvars s → vars s = list_to_map (b2m_b2s dvars) → b2m_wf dvars s →
  b2m_order_ok order s →
  ∃ mdd umap, bdd_to_mdd_tail dvars (b2m_b2s dvars) order s = (Ok (mdd, umap), s) ∧
    MInv mdd ∧ mextends (b2m_mdd0 dvars) mdd ∧
    (∀ u x, (u, x) ∈ umap →
       valid s (Z.pos u) ∧ mvalid mdd x ∧ nilvl dvars s u ≤ mlvl_of mdd x ∧
       ∀ I, minrange (b2m_mdd0 dvars) I →
            MD mdd x I = D s (Z.pos u) (bits_of dvars s I)) ∧
    ∀ u, 0 < L u → u ∈ umap.*1.
Proof.
  intros HI HC Hnz HL1 Hdw Hv Hwf Hord.
  destruct (bdd_to_mdd_tail_total dvars (setll None s) L order) as (mdd&umap&Etail&HB&Hheld);
    try done; [by apply Inv_ll|by apply dvars_wf_ll|by apply b2m_wf_ll|].
  destruct (tail_stabl dvars (b2m_b2s dvars) s order HI Hdw Hwf) as [r0 Hr].
  pose proof (Hr None) as E. rewrite Etail in E. injection E as <-.
  exists mdd, umap. split; [by apply stabr_run|].
  split; [apply HB|]. split; [apply HB|]. split; [|done].
  intros u x Hin. destruct (b_umap _ _ _ _ _ HB u x Hin) as (Hvu&Hvx&Hl&HD).
  split_and!; try done. intros I Hr'. rewrite (HD I Hr'). by apply D_same.
Qed.

(** ** (a) The link, for any threshold *)

(** the reordering to the target order, from a collected manager with
    requests disabled *)
Lemma b2m_reorder_link dvars s1 L :
  Inv s1 → Counts s1 L → last_len s1 = None → max_nodes s1 = None → tape s1 = [] → nozero s1 →
  (∀ u, u ∈ roots s1 → held L u) → dvars_wf dvars s1 →
  ∃ s2, reorder (Some (list_to_map (b2m_b2s dvars))) s1 = (Ok tt, s2) ∧
    Inv s2 ∧ Counts s2 L ∧ last_len s2 = None ∧ tape s2 = [] ∧ nozero s2 ∧
    keepsH L s1 s2 ∧ vars s2 = list_to_map (b2m_b2s dvars) ∧
    dvars_wf dvars s2 ∧ b2m_wf dvars s2.
Proof.
  intros HI1 HC1 Hoff1 Hmx1 Ht1 Hnz1 Hroots1 Hdw1.
  set (order := list_to_map (b2m_b2s dvars) : gmap nat nat).
  pose proof (target_nodup dvars s1 Hdw1) as Hnd.
  assert (Hord : ∀ b k, order !! b = Some k ↔ b2m_target dvars !! k = Some b).
  { intros b k. by apply imap_index_lookup. }
  destruct (reorder (Some order) s1) as [r s2] eqn:Er.
  destruct (nt_reorder (Some order) s1 r s2 Ht1 Er) as [Ht2 Hne].
  destruct (nft_reorder (Some order) s1 r s2 Hmx1 Er) as [_ Hnr].
  pose proof Er as Er0. cbn [reorder] in Er.
  destruct (sort_to_order_correct order s1 L r s2 ltac:(by split_and!))
    as [?|[?|(->&HStp&Ev2&_)]]; [| | | |exact Er|done|done|].
  - apply stdpp.sets.set_eq. intros b. unfold order. rewrite dom_list_to_map_L, elem_of_list_to_set.
    rewrite b2s_fst, (target_elem dvars s1 Hdw1), (dw_decl _ _ Hdw1), elem_of_dom. done.
  - intros v v' l Hv Hv'. apply Hord in Hv, Hv'. congruence.
  - intros v l Hv. apply Hord in Hv. rewrite <- (target_length dvars s1 Hdw1).
    by eapply lookup_lt_Some.
  - done.
  - destruct HStp as ((HI2&HC2&Hoff2)&Hnv2&HK2&Hnz2).
    exists s2. split; [done|].
    assert (Hdw2 : dvars_wf dvars s2).
    { apply (dvars_wf_vars dvars s1); [|done]. rewrite Ev2.
      apply stdpp.sets.set_eq. intros b. unfold order. rewrite dom_list_to_map_L, elem_of_list_to_set.
      rewrite b2s_fst, (target_elem dvars s1 Hdw1), (dw_decl _ _ Hdw1), elem_of_dom. done. }
    split_and!; try done.
    + by apply Hnz2.
    + by apply b2m_wf_target.
Qed.

(** the public [reorder] = the inner one with requests disabled, the
    threshold restored afterwards *)
Lemma reorder_pub_run o s s2 :
  reorder o (setll None s) = (Ok tt, s2) → last_len s2 = None →
  reorder_pub o s = (Ok tt, setll (last_len s) s2).
Proof.
  intros H Hoff2. unfold reorder_pub, guarded. cbn [bind get].
  destruct (last_len s) as [ll|] eqn:Ell.
  - cbn [bind modify]. fold (setll None s).
    assert (Hc : catch (reorder o) (setll None s) = (Ok (Ok tt), s2)) by (unfold catch; by rewrite H).
    by rewrite (bind_ok _ _ _ _ _ Hc).
  - assert (setll None s = s) as E by (rewrite <- Ell; apply setll_id).
    assert (setll None s2 = s2) as E2 by (rewrite <- Hoff2; apply setll_id).
    rewrite E in H. by rewrite H, E2.
Qed.

Theorem b2m_prefix_link_dyn dvars s L :
  Inv s → Counts s L → max_nodes s = None → tape s = [] →
  (∀ u, u ∈ roots s → held L u) → dvars_wf dvars s →
  ∃ s1 s2, collect_garbage None s = (Ok tt, s1) ∧
    reorder_pub (Some (list_to_map (b2m_b2s dvars))) s1 = (Ok tt, s2) ∧
    Inv s2 ∧ Counts s2 L ∧ last_len s2 = last_len s ∧ tape s2 = [] ∧ nozero s2 ∧
    keepsH L s s2 ∧ vars s2 = list_to_map (b2m_b2s dvars) ∧
    dvars_wf dvars s2 ∧ b2m_wf dvars s2.
Proof.
  intros HI HC Hmx Ht Hroots Hdw.
  destruct (collect_garbage None s) as [rg s1] eqn:Eg.
  pose proof (gc_nozero s L rg s1 HI HC Eg) as Hnz1.
  destruct (nt_collect_garbage None s rg s1 Ht Eg) as [Ht1 _].
  pose proof Eg as Eg'.
  apply (gc_safe None s L) in Eg' as (->&HI1&HC1&_&Ev1&El1&Hfr1&_&_); [|done|done|done].
  assert (HK1 : keepsH L s s1).
  { intros u Hh. pose proof (held_valid L s u HI HC Hh) as Hvu.
    destruct Hh as [Hu0 Hh].
    destruct (gc_preserves_den None s L (Ok tt) s1 u HI HC I Eg Hu0) as (Hv1&_&HD).
    { destruct Hh as [|Hh]; [by left|right]. apply reach_root; [done|].
      apply elem_of_dom, Hvu. }
    split_and!; try done. intros ρ. unfold denv. by rewrite El1, HD. }
  assert (Hdw1 : dvars_wf dvars s1) by (apply (dvars_wf_vars dvars s); [by rewrite Ev1|done]).
  assert (Ell1 : last_len s1 = last_len s) by (by destruct Hfr1 as (E&_)).
  assert (Hmx1 : max_nodes s1 = None) by (by rewrite (frame_max_nodes _ _ Hfr1)).
  assert (Hroots1 : ∀ u, u ∈ roots s1 → held L u).
  { destruct Hfr1 as (_&_&E&_). rewrite E. done. }
  destruct (b2m_reorder_link dvars (setll None s1) L)
    as (s2&Er&HI2&HC2&Hoff2&Ht2&Hnz2&HK2&Hv2&Hdw2&Hwf2); try done;
    [by apply Inv_ll|by apply dvars_wf_ll|].
  exists s1, (setll (last_len s1) s2). split; [done|].
  split; [by apply reorder_pub_run|].
  split_and!.
  - by apply Inv_ll.
  - exact HC2.
  - exact Ell1.
  - exact Ht2.
  - exact Hnz2.
  - intros u Hh. destruct (HK1 u Hh) as (?&?&HD1).
    destruct (HK2 u Hh) as (_&?&HD2).
    split_and!; try done. intros ρ. unfold setll. rewrite denv_ll, HD2.
    unfold setll. by rewrite denv_ll, HD1.
  - exact Hv2.
  - by apply dvars_wf_ll.
  - by apply b2m_wf_ll.
Qed.

(** ** The full theorem, for any threshold: dynamic reordering enabled or
    disabled on the BDD manager; the threshold is unchanged *)
Theorem bdd_to_mdd_correct_dyn dvars order s L r s' :
  Inv s → Counts s L → max_nodes s = None → tape s = [] →
  (∀ u, u ∈ roots s → held L u) → 0 < L 1%positive → dvars_wf dvars s →
  bdd_to_mdd dvars order s = (r, s') →
  ∃ s1 s2, collect_garbage None s = (Ok tt, s1) ∧
    reorder_pub (Some (list_to_map (b2m_b2s dvars))) s1 = (Ok tt, s2) ∧ s' = s2 ∧
    Inv s' ∧ Counts s' L ∧ last_len s' = last_len s ∧ tape s' = [] ∧ keepsH L s s' ∧
    ((¬ b2m_order_ok order s2 ∧ r = Err EOracle) ∨
     (b2m_order_ok order s2 ∧
      ∃ mdd umap, r = Ok (mdd, umap) ∧ MInv mdd ∧ mextends (b2m_mdd0 dvars) mdd ∧
        ∀ u, 0 < L u → ∃ x, (u, x) ∈ umap ∧ mvalid mdd x ∧
          ∀ I, minrange mdd I → MD mdd x I = denv s (Z.pos u) (bitval dvars I))).
Proof.
  intros HI HC Hmx Ht Hroots HL1 Hdw Hrun.
  destruct (b2m_prefix_link_dyn dvars s L HI HC Hmx Ht Hroots Hdw)
    as (s1&s2&Eg&Er&HI2&HC2&Hll2&Ht2&Hnz2&HK2&Hv2&Hdw2&Hwf2).
  exists s1, s2. split; [done|]. split; [done|].
  rewrite bdd_to_mdd_unfold in Hrun. cbv zeta in Hrun.
  assert (Hbits : mapM (fun j => of_opt EKey (bits_at dvars j)) (seq 0 (length dvars)) s
                  = (Ok (omap (bits_at dvars) (seq 0 (length dvars))), s)).
  { apply mapM_of_opt. intros j Hj%elem_of_seq.
    destruct (dw_level_ex dvars s Hdw j ltac:(lia)) as (v&bits&Hin).
    rewrite (proj2 (bits_at_Some dvars s Hdw j bits) (ex_intro _ v Hin)). by eexists. }
  rewrite (bind_ok _ _ _ _ _ Hbits) in Hrun.
  change (imap (fun k b => (b, k)) (concat (omap (bits_at dvars) (seq 0 (length dvars)))))
    with (b2m_b2s dvars) in Hrun.
  rewrite (bind_ok _ _ _ _ _ Eg), (bind_ok _ _ _ _ _ Er) in Hrun.
  destruct (decide (b2m_order_ok order s2)) as [Hord|Hord].
  - destruct (bdd_to_mdd_tail_total_dyn dvars s2 L order HI2 HC2 Hnz2 HL1 Hdw2 Hv2 Hwf2 Hord)
      as (mdd&umap&Etail&HM&HMe&Humap&Hheld).
    rewrite Etail in Hrun. injection Hrun as <- <-.
    split; [done|]. split_and!; try done. right. split; [done|].
    exists mdd, umap. split; [done|]. split; [done|]. split; [done|].
    intros u Hu. pose proof (Hheld u Hu) as ([u' x]&->&Hin)%elem_of_list_fmap. cbn.
    exists x. split; [done|].
    destruct (Humap _ _ Hin) as (Hvu&Hvx&_&HD). split; [done|].
    intros I Hr. rewrite HD.
    + rewrite D_bits_of_denv. destruct (HK2 (Z.pos u')) as (_&_&Hden); [|by apply Hden].
      split; [done|]. right. by rewrite absn_pos.
    + intros v l n Hvl. apply (Hr v l n). destruct HMe as [_ <-]. done.
  - unfold bdd_to_mdd_tail in Hrun. cbn [bind get] in Hrun.
    destruct (keep_total_dyn dvars s2 L HI2 HC2 Hnz2 HL1 Hdw2 Hv2 Hwf2) as (K&EK&_).
    rewrite (bind_ok _ _ _ _ _ EK) in Hrun.
    rewrite bool_decide_eq_false_2 in Hrun by exact Hord. cbn [negb] in Hrun.
    injection Hrun as <- <-. split; [done|]. split_and!; try done. by left.
Qed.

(** with requests disabled the public [reorder] is the inner one: the
    theorem of [MddOps2] is the instance [last_len s = None] *)
Corollary bdd_to_mdd_correct_of_dyn dvars order s L r s' :
  Inv s → Counts s L → last_len s = None → max_nodes s = None → tape s = [] →
  (∀ u, u ∈ roots s → held L u) → 0 < L 1%positive → dvars_wf dvars s →
  bdd_to_mdd dvars order s = (r, s') →
  ∃ s1 s2, collect_garbage None s = (Ok tt, s1) ∧
    reorder (Some (list_to_map (b2m_b2s dvars))) s1 = (Ok tt, s2) ∧ s' = s2 ∧
    Inv s' ∧ Counts s' L ∧ last_len s' = None ∧ tape s' = [] ∧ keepsH L s s' ∧
    ((¬ b2m_order_ok order s2 ∧ r = Err EOracle) ∨
     (b2m_order_ok order s2 ∧
      ∃ mdd umap, r = Ok (mdd, umap) ∧ MInv mdd ∧ mextends (b2m_mdd0 dvars) mdd ∧
        ∀ u, 0 < L u → ∃ x, (u, x) ∈ umap ∧ mvalid mdd x ∧
          ∀ I, minrange mdd I → MD mdd x I = denv s (Z.pos u) (bitval dvars I))).
Proof.
  intros HI HC Hoff Hmx Ht Hroots HL1 Hdw Hrun.
  destruct (bdd_to_mdd_correct_dyn dvars order s L r s' HI HC Hmx Ht Hroots HL1 Hdw Hrun)
    as (s1&s2&Eg&Er&->&HI2&HC2&Hll&Ht2&HK&Hres).
  exists s1, s2. split; [done|].
  assert (Hoff1 : last_len s1 = None).
  { pose proof Eg as Eg'.
    apply (gc_safe None s L) in Eg' as (_&_&_&_&_&_&(E&_)&_&_); [|done|done|done]. by rewrite E. }
  rewrite reorder_pub_off in Er by done.
  split_and!; try done. by rewrite Hll.
Qed.
