(** * The wrapper shapes of [dd.autoref.BDD], regenerated from dd/autoref.py
      ([Generated/PyAutoref.v]), against the shapes the model [Model/Autoref.v]
      implements: which parameters are checked for membership, which method
      of the wrapped manager is called, and whether the integer result is
      wrapped into a new [Function]. *)
From DD Require Export Autoref.
From DD Require Export Generated.PyAutoref.
Local Open Scope string_scope.

(** row (method, (checked parameters, wrapped-manager method, result wrapped)):
    - [a_var], [a_cube], [a_true], [a_false]: no check, wrapped;
    - [a_quantify], [a_let], [a_support], [a_count]: [u] checked;
    - [a_ite]: [g], [u], [v] checked; [a_apply]: [u], then "w without v",
      then [v] and [w] when given;
    - [a_find_or_add]: no membership check (the wrapped manager checks);
    - [copy]: [u] checked, the result is wrapped by the OTHER manager;
    - plain values ([count], [support], [pick_iter], [to_expr]) are returned
      as they are; [incref]/[decref]/[collect_garbage] are passed through. *)
Definition model_autoref_table : list (string * (list string * string * bool)) :=
  [("var", ([], "var", true)); ("quantify", (["u"], "quantify", true));
   ("ite", (["g"; "u"; "v"], "ite", true)); ("find_or_add", ([], "find_or_add", true));
   ("count", (["u"], "count", false)); ("support", (["u"], "support", false));
   ("pick_iter", (["u"], "pick_iter", false)); ("add_expr", ([], "add_expr", true));
   ("to_expr", (["u"], "to_expr", false)); ("cube", ([], "cube", true));
   ("_add_int", ([], "_add_int", true)); ("copy", (["u"], "copy", true));
   ("incref", ([], "incref", false)); ("decref", ([], "decref", false));
   ("collect_garbage", ([], "collect_garbage", false));
   ("true", ([], "true", true)); ("false", ([], "false", true));
   ("apply", (["u"; "!w-without-v"; "?v"; "?w"], "apply", true));
   ("let", (["u"], "let", true))].

Lemma autoref_table : py_autoref_table = model_autoref_table.
Proof. reflexivity. Qed.

Lemma function_lifecycle : py_function_lifecycle_ok = true.
Proof. reflexivity. Qed.

(** the model's methods have exactly these shapes *)
Lemma model_shapes :
  (∀ v, a_var v = (r <- lift (var v) ;; wrap r)) ∧
  (∀ hu q fa, a_quantify hu q fa =
     (u <- node_of hu ;; check_in u ;;; r <- lift (quantify u true q fa) ;; wrap r)) ∧
  (∀ hg hu hv, a_ite hg hu hv =
     (g <- node_of hg ;; check_in g ;;; u <- node_of hu ;; check_in u ;;;
      v <- node_of hv ;; check_in v ;;; r <- lift (ite g u v) ;; wrap r)) ∧
  (∀ v hlo hhi, a_find_or_add v hlo hhi =
     (l <- lift (level_of_var v) ;; lo <- node_of hlo ;; hi <- node_of hhi ;;
      r <- lift (find_or_add l lo hi) ;; wrap r)) ∧
  (∀ d, a_cube d = (r <- lift (cube d) ;; wrap r)) ∧
  (∀ hu n, a_count hu n = (u <- node_of hu ;; check_in u ;;; lift (count u n))) ∧
  (∀ hu, a_support hu = (u <- node_of hu ;; check_in u ;;; lift (support u))) ∧
  a_true = wrap 1 ∧ a_false = wrap (-1).
Proof. repeat split. Qed.
