(** * DddmpLoad: [dd.dddmp.load] rebuilds, in a new manager, the functions
      described by the node list of a text-mode DDDMP file (property C16) *)
From DD Require Export Dddmp Ite.

(** ** Association lists *)
Lemma alist_get_cons {K A} `{EqDecision K} (k' : K) (a' : A) l k :
  alist_get ((k', a') :: l) k = if decide (k' = k) then Some a' else alist_get l k.
Proof.
  unfold alist_get. cbn. destruct (decide (k' = k)) as [E|E].
  - by rewrite decide_True by (by apply bool_decide_pack).
  - rewrite decide_False by (by intros ?%bool_decide_unpack).
    by destruct (list_find _ l) as [[? [? ?]]|].
Qed.
Lemma alist_get_nil {K A} `{EqDecision K} (k : K) : alist_get ([] : list (K * A)) k = None.
Proof. done. Qed.

Lemma alist_get_elem {K A} `{EqDecision K} (l : list (K * A)) k a :
  alist_get l k = Some a → (k, a) ∈ l.
Proof.
  induction l as [|[k' a'] l IH]; [done|]. rewrite alist_get_cons.
  case_decide as E; [intros [= <-]; subst; left|intros ?; right; auto].
Qed.
Lemma alist_get_None {K A} `{EqDecision K} (l : list (K * A)) k :
  alist_get l k = None ↔ k ∉ l.*1.
Proof.
  induction l as [|[k' a'] l IH]; [rewrite alist_get_nil; set_solver|].
  rewrite alist_get_cons. cbn. rewrite not_elem_of_cons.
  case_decide as E; [subst; naive_solver|]. rewrite IH. naive_solver.
Qed.
Lemma alist_get_nodup {K A} `{EqDecision K} (l : list (K * A)) k a :
  NoDup (l.*1) → (k, a) ∈ l → alist_get l k = Some a.
Proof.
  induction l as [|[k' a'] l IH]; intros Hnd Hin; [by apply elem_of_nil in Hin|].
  cbn in Hnd. apply NoDup_cons in Hnd as [Hk' Hnd]. rewrite alist_get_cons.
  apply elem_of_cons in Hin as [[= -> ->]|Hin]; [by rewrite decide_True|].
  rewrite decide_False; [by apply IH|]. intros ->. apply Hk'.
  apply elem_of_list_fmap. by exists (k, a).
Qed.
Lemma alist_get_is_Some {K A} `{EqDecision K} (l : list (K * A)) k :
  is_Some (alist_get l k) ↔ k ∈ l.*1.
Proof.
  rewrite <- not_eq_None_Some, alist_get_None. split; [|tauto].
  intros H. destruct (decide (k ∈ l.*1)); tauto.
Qed.

(** ** Meaning of the file: walk [then]/[else] by the file's level of each
    node; complement on negative references ([else] edges and roots); the
    terminal is the node whose [else] entry is 0.  [a] assigns a Boolean to
    every FILE level. *)
Definition ftbl := list (positive * (nat * Z * Z)).   (* id -> (level, else, then) *)

Fixpoint fden (fuel : nat) (tbl : ftbl) (u : Z) (a : nat → bool) : bool :=
  match fuel with
  | O => false
  | S f =>
      let b := match alist_get tbl (absn u) with
               | None => false
               | Some (k, lo, hi) =>
                   if decide (lo = 0%Z) then true
                   else if a k then fden f tbl hi a else fden f tbl lo a
               end in
      if decide (u < 0)%Z then negb b else b
  end.

(** ** The rebuild loops of [load], named *)
Definition dddmp_node_step (o2n : list (nat * nat)) (j : nat) :
    gmap Z Z → positive * (nat * Z * Z) → MS (gmap Z Z) :=
  fun (umap : gmap Z Z) '(u, (k, lo, hi)) =>
        if decide (lo = 0%Z) then
          assert (bool_decide (hi = 0%Z)) ;;; ret umap
        else
          i <- of_opt EKey (alist_get o2n k) ;;
          if negb (bool_decide (i = j)) then ret umap else
          p <- of_opt EKey (umap !! Z.abs lo) ;;
          q <- of_opt EKey (umap !! hi) ;;
          let p := if decide (lo < 0)%Z then (- p)%Z else p in
          r <- find_or_add i p q ;;
          ret (<[Z.pos u := r]> umap).

Definition dddmp_map_root (umap : gmap Z Z) (u : Z) : MS Z :=
  r <- of_opt EKey (umap !! Z.abs u) ;;
  ret (if decide (u < 0)%Z then (- r)%Z else r).

Definition dddmp_rebuild (tbl : ftbl) (o2n : list (nat * nat)) (n : nat) (rootids : list Z)
  : MS unit :=
  umap <- foldM (fun (umap : gmap Z Z) j => foldM (dddmp_node_step o2n j) umap tbl)
    ({[ (-1)%Z := (-1)%Z; 1%Z := 1%Z ]} : gmap Z Z) (reverse (seq 0 n)) ;;
  rs <- mapM (dddmp_map_root umap) rootids ;;
  modify (fun s => s <| roots := remove_dups rs |>).

(** the header part of [load]: levels, table, compaction of the levels *)
Definition dddmp_new_levels (levels : list (nat * nat)) : list (nat * nat) :=
  let perm : list (nat * nat) := dict_of ((fun '(v, k) => (k, v)) <$> levels) in
  let sorted := merge_sort le (perm.*1) in
  dict_of (omap (fun '(i, k) => (fun v => (v, i)) <$> alist_get perm k)
                (imap (fun i k => (i, k)) sorted)).

Definition dddmp_old2new (levels new_levels : list (nat * nat)) : MS (list (nat * nat)) :=
  mapM (fun '(v, k) => n <- of_opt EKey (alist_get new_levels v) ;; ret (k, n)) levels.

Lemma dddmp_load_unfold h nodes :
  dddmp_load h nodes =
  (assert (header_ok h) ;;;
   i2p <- info2permid h ;;
   levels <- file_levels h ;;
   tbl <- parse_body h i2p nodes ;;
   let new_levels := dddmp_new_levels levels in
   old2new <- dddmp_old2new levels new_levels ;;
   modify (fun _ => init) ;;;
   init_levels new_levels ;;;
   dddmp_rebuild tbl (dict_of old2new) (length new_levels) (dh_roots h)).
Proof. reflexivity. Qed.

(** ** Well-formedness of the table w.r.t. the level compaction [o2n] and
    the number [n] of (compacted) levels *)
Definition o2nf (o2n : list (nat * nat)) (k : nat) : nat := default 0 (alist_get o2n k).

Section rebuild.
Context (tbl : ftbl) (o2n : list (nat * nat)) (n : nat).

(** compacted level of a file node ([n] for the terminal) *)
Definition nlvl (u : positive) : nat :=
  match alist_get tbl u with
  | Some (k, lo, _) => if decide (lo = 0%Z) then n else o2nf o2n k
  | None => 0
  end.

Definition fvalid (c : Z) : Prop := c ≠ 0%Z ∧ is_Some (alist_get tbl (absn c)).
Definition child_ok (c : Z) (i : nat) : Prop := fvalid c ∧ i < nlvl (absn c).

Record wf_tbl : Prop := {
  wf_nodup : NoDup (tbl.*1);
  wf_term : ∃ kT, alist_get tbl 1%positive = Some (kT, 0%Z, 0%Z);
  wf_term_only : ∀ u k lo hi, (u, (k, lo, hi)) ∈ tbl → lo = 0%Z →
     u = 1%positive ∧ hi = 0%Z;
  wf_node : ∀ u k lo hi, (u, (k, lo, hi)) ∈ tbl → lo ≠ 0%Z →
     (0 < hi)%Z ∧ ∃ i, alist_get o2n k = Some i ∧ i < n ∧ child_ok lo i ∧ child_ok hi i;
}.

Context (Hwf : wf_tbl).

Lemma fnode_cases u : fvalid u →
  (absn u = 1%positive ∧ nlvl (absn u) = n ∧ ∃ kT, alist_get tbl (absn u) = Some (kT, 0%Z, 0%Z)) ∨
  (∃ k lo hi i, alist_get tbl (absn u) = Some (k, lo, hi) ∧ lo ≠ 0%Z ∧ (0 < hi)%Z ∧
     alist_get o2n k = Some i ∧ nlvl (absn u) = i ∧ i < n ∧ child_ok lo i ∧ child_ok hi i).
Proof.
  intros [Hu0 [[[k lo] hi] He]]. pose proof (alist_get_elem _ _ _ He) as Hin.
  destruct (decide (lo = 0%Z)) as [->|Hlo].
  - left. destruct (wf_term_only Hwf _ _ _ _ Hin eq_refl) as [E ->].
    split; [done|]. split; [|by eexists]. unfold nlvl. rewrite He. by rewrite decide_True.
  - right. destruct (wf_node Hwf _ _ _ _ Hin Hlo) as (Hhi&i&Hi&Hin'&Hcl&Hch).
    exists k, lo, hi, i. split_and!; try done.
    unfold nlvl, o2nf. rewrite He, decide_False by done. by rewrite Hi.
Qed.

Lemma fden_step f u a k lo hi : alist_get tbl (absn u) = Some (k, lo, hi) → lo ≠ 0%Z →
  fden (S f) tbl u a = xorb (bool_decide (u < 0)%Z)
     (if a k then fden f tbl hi a else fden f tbl lo a).
Proof.
  intros He Hlo. cbn [fden]. rewrite He. rewrite (decide_False (P := lo = 0%Z)) by done.
  case_decide; case_bool_decide; try lia; by destruct (if a k then _ else _).
Qed.
Lemma fden_term f u a kT : alist_get tbl (absn u) = Some (kT, 0%Z, 0%Z) →
  fden (S f) tbl u a = negb (bool_decide (u < 0)%Z).
Proof.
  intros He. cbn [fden]. rewrite He. rewrite (decide_True (P := 0%Z = 0%Z)) by done.
  case_decide; case_bool_decide; try lia; done.
Qed.

Lemma fden_fuel f1 f2 u a : fvalid u →
  S (n - nlvl (absn u)) ≤ f1 → S (n - nlvl (absn u)) ≤ f2 →
  fden f1 tbl u a = fden f2 tbl u a.
Proof.
  revert f2 u. induction f1 as [|f1 IH]; intros f2 u Hv H1 H2; [lia|].
  destruct f2 as [|f2]; [lia|].
  destruct (fnode_cases u Hv) as [(_&_&kT&He)|(k&lo&hi&i&He&Hlo&Hhi&Hi&Hl&Hin&[Hvl Hll]&[Hvh Hlh])].
  - by rewrite !(fden_term _ _ _ _ He).
  - rewrite !(fden_step _ _ _ _ _ _ He Hlo). f_equal.
    destruct (a k); apply IH; try done; lia.
Qed.

Lemma fden_neg f u a : u ≠ 0%Z → 0 < f → fden f tbl (- u) a = negb (fden f tbl u a).
Proof.
  intros Hu Hf. destruct f as [|f]; [lia|]. cbn [fden]. rewrite absn_neg.
  destruct (match alist_get tbl (absn u) with Some _ => _ | None => _ end);
    repeat case_decide; try lia; done.
Qed.

(** ** The loop invariant: every file node whose compacted level is [≥ j]
    is in [umap] with the right denotation *)
Definition fassign (a : nat → bool) : nat → bool := fun k => a (o2nf o2n k).

Record LInv (j : nat) (s : st) (umap : gmap Z Z) : Prop := {
  li_inv : Inv s;
  li_off : last_len s = None;
  li_nv : nvars s = n;
  li_sound : ∀ u x, umap !! Z.pos u = Some x →
     is_Some (alist_get tbl u) ∧ valid s x ∧ nlvl u ≤ lvl_of s x ∧
     ∀ a fuel, n < fuel → D s x a = fden fuel tbl (Z.pos u) (fassign a);
  li_complete : ∀ u, is_Some (alist_get tbl u) → j ≤ nlvl u → is_Some (umap !! Z.pos u);
}.

Lemma Zabs_pos (c : Z) : c ≠ 0%Z → Z.abs c = Z.pos (absn c).
Proof. intros. unfold absn. lia. Qed.

(** what [umap] gives for a child reference *)
Lemma child_lookup j s umap c i : LInv j s umap → child_ok c i → j ≤ S i →
  ∃ x, umap !! Z.pos (absn c) = Some x ∧ valid s x ∧ i < lvl_of s x ∧
    ∀ a fuel, n < fuel → D s x a = fden fuel tbl (Z.pos (absn c)) (fassign a).
Proof.
  intros HL [[Hc0 Hc] Hlt] Hj.
  destruct (li_complete _ _ _ HL _ Hc ltac:(lia)) as [x Hx]. exists x. split; [done|].
  destruct (li_sound _ _ _ HL _ _ Hx) as (_&?&?&?). split_and!; try done. lia.
Qed.

Lemma LInv_extends j s s' umap : LInv j s umap → Inv s' → extends s s' →
  last_len s' = None → LInv j s' umap.
Proof.
  intros HL HI' He Hoff. pose proof (li_inv _ _ _ HL) as HI. split; try done.
  - rewrite (extends_nvars s s') by done. apply HL.
  - intros u x Hx. destruct (li_sound _ _ _ HL _ _ Hx) as (?&?&?&HD).
    split_and!; [done|by apply (valid_extends s s')|by rewrite (lvl_extends s s')|].
    intros a fuel Hf. rewrite (D_extends s s') by done. by apply HD.
  - apply HL.
Qed.

(** one node of the table, at target level [j] *)
Lemma node_step_spec j s umap e r s' : LInv (S j) s umap → j < n → e ∈ tbl →
  dddmp_node_step o2n j umap e s = (r, s') →
  ∃ umap', r = Ok umap' ∧ LInv (S j) s' umap' ∧ extends s s' ∧
    (∀ z, is_Some (umap !! z) → is_Some (umap' !! z)) ∧
    (nlvl e.1 = j → is_Some (umap' !! Z.pos e.1)).
Proof.
  intros HL Hj Hin. destruct e as [u [[k lo] hi]]. cbn [fst].
  pose proof (li_inv _ _ _ HL) as HI.
  pose proof (alist_get_nodup _ _ _ (wf_nodup Hwf) Hin) as He.
  unfold dddmp_node_step.
  destruct (decide (lo = 0%Z)) as [->|Hlo].
  { destruct (wf_term_only Hwf _ _ _ _ Hin eq_refl) as [-> ->].
    cbn. intros [= <- <-]. exists umap. split_and!; try done.
    intros E. unfold nlvl in E. rewrite He in E. rewrite decide_True in E by done. lia. }
  destruct (wf_node Hwf _ _ _ _ Hin Hlo) as (Hhi&i&Hi&Hin'&Hcl&Hch).
  assert (Hnl : nlvl u = i).
  { unfold nlvl, o2nf. rewrite He, decide_False by done. by rewrite Hi. }
  rewrite Hi. cbn [of_opt]. rewrite (bind_ok _ _ s i s) by done.
  case_bool_decide as Eij; cbn [negb]; cycle 1.
  { intros [= <- <-]. exists umap. split_and!; try done. intros E. congruence. }
  symmetry in Eij. destruct Eij.
  destruct (child_lookup (S j) s umap lo j HL Hcl ltac:(lia)) as (p0&Hp0&Hvp0&Hlp0&HDp0).
  destruct (child_lookup (S j) s umap hi j HL Hch ltac:(lia)) as (q&Hq&Hvq&Hlq&HDq).
  rewrite (Zabs_pos lo Hlo), Hp0. cbn [of_opt]. rewrite (bind_ok _ _ s p0 s) by done.
  assert (hi = Z.pos (absn hi)) as Ehi by (unfold absn; lia).
  rewrite Ehi at 1. rewrite Hq. cbn [of_opt]. rewrite (bind_ok _ _ s q s) by done.
  set (p := if decide (lo < 0)%Z then (- p0)%Z else p0).
  assert (Hp : valid s p ∧ j < lvl_of s p ∧
               ∀ a fuel, n < fuel → D s p a = fden fuel tbl lo (fassign a)).
  { subst p. destruct (decide (lo < 0)%Z) as [Hneg|Hpos].
    - split_and!; [by apply valid_neg|by rewrite lvl_neg|].
      intros a fuel Hf. rewrite D_neg, (HDp0 a fuel Hf) by done.
      replace lo with (- Z.pos (absn lo))%Z at 2 by (unfold absn; lia).
      rewrite fden_neg by first [done|lia]. done.
    - split_and!; try done. intros a fuel Hf. rewrite (HDp0 a fuel Hf).
      by replace (Z.pos (absn lo)) with lo by (unfold absn; lia). }
  destruct Hp as (Hvp&Hlp&HDp).
  destruct (find_or_add j p q s) as [rr s1] eqn:Efa.
  pose proof Efa as Efa'. apply find_or_add_spec in Efa' as (HI1&He1&Hf1&Hr); try done.
  destruct rr as [x|e]; cycle 1.
  { exfalso. destruct Hr as (_&[? Hs]&_). rewrite (li_off _ _ _ HL) in Hs. done. }
  rewrite (bind_ok _ _ _ _ _ Efa). cbn [ret]. intros [= <- <-].
  destruct Hr as (Hvx&Hlx&HDx).
  assert (Hoff1 : last_len s1 = None).
  { destruct Hf1 as (E&_). rewrite E. apply HL. }
  pose proof (LInv_extends _ _ _ _ HL HI1 He1 Hoff1) as HL1.
  exists (<[Z.pos u := x]> umap). split; [done|]. split_and!; try done.
  - split; try apply HL1.
    + intros u' x' Hx'. destruct (decide (u' = u)) as [->|Hne].
      * rewrite lookup_insert in Hx'. injection Hx' as <-.
        split_and!; [by eexists|done|lia|].
        intros a fuel Hf. rewrite HDx. destruct fuel as [|fuel]; [lia|].
        rewrite (fden_step fuel (Z.pos u) (fassign a) k lo hi He Hlo).
        rewrite bool_decide_eq_false_2 by lia. rewrite xorb_false_l.
        assert (fassign a k = a j) as -> by (unfold fassign, o2nf; by rewrite Hi).
        rewrite (HDp a (S fuel) Hf), (HDq a (S fuel) Hf). rewrite <- Ehi.
        destruct Hcl as [Hvl Hll], Hch as [Hvh Hlh].
        destruct (a j); apply fden_fuel; try done; lia.
      * rewrite lookup_insert_ne in Hx' by congruence. by apply (li_sound _ _ _ HL1).
    + intros u' Hu' Hl'. destruct (decide (u' = u)) as [->|Hne].
      * rewrite lookup_insert. by eexists.
      * rewrite lookup_insert_ne by congruence. by apply (li_complete _ _ _ HL1).
  - intros z Hz. destruct (decide (z = Z.pos u)) as [->|Hne].
    + rewrite lookup_insert. by eexists.
    + by rewrite lookup_insert_ne.
  - intros _. rewrite lookup_insert. by eexists.
Qed.

(** the pass over the table (in file order) for ONE target level *)
Lemma dddmp_level_step j : ∀ l s umap r s', LInv (S j) s umap → j < n →
  (∀ e, e ∈ l → e ∈ tbl) →
  foldM (dddmp_node_step o2n j) umap l s = (r, s') →
  ∃ umap', r = Ok umap' ∧ LInv (S j) s' umap' ∧ extends s s' ∧
    (∀ z, is_Some (umap !! z) → is_Some (umap' !! z)) ∧
    (∀ e, e ∈ l → nlvl e.1 = j → is_Some (umap' !! Z.pos e.1)).
Proof.
  induction l as [|e l IH]; intros s umap r s' HL Hj Hl.
  - cbn. intros [= <- <-]. exists umap. split_and!; try done.
    intros e He. by apply elem_of_nil in He.
  - cbn [foldM].
    destruct (dddmp_node_step o2n j umap e s) as [r1 s1] eqn:E1.
    pose proof E1 as E1'.
    apply node_step_spec in E1' as (umap1&->&HL1&He1&Hmono1&Hnew1); [|done|done|apply Hl; left].
    rewrite (bind_ok _ _ _ _ _ E1). intros Hrun.
    apply IH in Hrun as (umap'&->&HL'&He'&Hmono'&Hnew'); [|done|done|intros; apply Hl; by right].
    exists umap'. split_and!; try done.
    + by etrans.
    + intros z Hz. by apply Hmono', Hmono1.
    + intros e' He'' Hlv. apply elem_of_cons in He'' as [->|He''].
      * by apply Hmono', Hnew1.
      * by apply Hnew'.
Qed.

Lemma LInv_level_done j s umap : LInv (S j) s umap →
  (∀ e, e ∈ tbl → nlvl e.1 = j → is_Some (umap !! Z.pos e.1)) → LInv j s umap.
Proof.
  intros HL Hnew. split; try apply HL.
  intros u [e He] Hl. destruct (decide (nlvl u = j)) as [E|E].
  - apply (Hnew (u, e)); [|done]. by apply alist_get_elem.
  - apply (li_complete _ _ _ HL); [by eexists|lia].
Qed.

(** all the levels, from the deepest up *)
Lemma dddmp_levels_spec : ∀ m s umap r s', m ≤ n → LInv m s umap →
  foldM (fun (umap : gmap Z Z) j => foldM (dddmp_node_step o2n j) umap tbl)
        umap (reverse (seq 0 m)) s = (r, s') →
  ∃ umap', r = Ok umap' ∧ LInv 0 s' umap' ∧ extends s s'.
Proof.
  induction m as [|m IH]; intros s umap r s' Hm HL.
  - cbn. intros [= <- <-]. by exists umap.
  - rewrite seq_S, reverse_app. cbn [reverse rev_append app plus foldM].
    change (rev_append [] [m]) with [m]. cbn [app foldM].
    destruct (foldM (dddmp_node_step o2n m) umap tbl s) as [r1 s1] eqn:E1.
    pose proof E1 as E1'.
    apply dddmp_level_step in E1' as (umap1&->&HL1&He1&_&Hnew1); [|done|lia|done].
    rewrite (bind_ok _ _ _ _ _ E1). intros Hrun.
    apply IH in Hrun as (umap'&->&HL'&He'); [|lia|by apply LInv_level_done].
    exists umap'. split_and!; try done. by etrans.
Qed.

Lemma LInv_start s : Inv s → last_len s = None → nvars s = n →
  LInv n s ({[ (-1)%Z := (-1)%Z; 1%Z := 1%Z ]} : gmap Z Z).
Proof.
  intros HI Hoff Hnv. destruct (wf_term Hwf) as [kT HT]. split; try done.
  - intros u x Hx. destruct (decide (u = 1%positive)) as [->|Hne]; cycle 1.
    { rewrite lookup_insert_ne, lookup_singleton_ne in Hx by congruence. done. }
    rewrite lookup_insert_ne, lookup_singleton in Hx by done. injection Hx as <-.
    split_and!; [by eexists|by apply valid_1| |].
    + rewrite (lvl_term s HI 1) by done. unfold nlvl. rewrite HT, decide_True by done. lia.
    + intros a fuel Hf. rewrite D_1 by done. destruct fuel as [|fuel]; [lia|].
      by rewrite (fden_term fuel 1 _ kT HT).
  - intros u Hu Hl.
    assert (fvalid (Z.pos u)) as Hfv by (split; [done|by rewrite absn_pos]).
    destruct (fnode_cases _ Hfv) as [(E&_)|(k&lo&hi&i&_&_&_&_&Hnl&Hin&_)].
    + rewrite absn_pos in E. subst u. rewrite lookup_insert_ne, lookup_singleton by done.
      by eexists.
    + rewrite absn_pos in Hnl. lia.
Qed.

(** the roots *)
Lemma dddmp_roots_spec s umap : LInv 0 s umap → ∀ rootids,
  (∀ u, u ∈ rootids → fvalid u) →
  ∃ rs, mapM (dddmp_map_root umap) rootids s = (Ok rs, s) ∧
    Forall2 (fun u x => valid s x ∧
       ∀ a fuel, n < fuel → D s x a = fden fuel tbl u (fassign a)) rootids rs.
Proof.
  intros HL. pose proof (li_inv _ _ _ HL) as HI.
  induction rootids as [|u l IH]; intros Hl.
  - exists []. split; [done|constructor].
  - destruct (Hl u ltac:(left)) as [Hu0 Hu].
    destruct (li_complete _ _ _ HL _ Hu ltac:(lia)) as [x Hx].
    destruct (li_sound _ _ _ HL _ _ Hx) as (_&Hvx&_&HDx).
    destruct IH as (rs&Ers&Hrs); [intros; apply Hl; by right|].
    exists ((if decide (u < 0)%Z then (- x)%Z else x) :: rs). split.
    + cbn [mapM].
      assert (Hroot : dddmp_map_root umap u s =
                (Ok (if decide (u < 0)%Z then (- x)%Z else x), s)).
      { unfold dddmp_map_root. rewrite (Zabs_pos u Hu0), Hx. done. }
      rewrite (bind_ok _ _ _ _ _ Hroot), (bind_ok _ _ _ _ _ Ers). done.
    + constructor; [|done]. destruct (decide (u < 0)%Z) as [Hneg|Hpos].
      * split; [by apply valid_neg|]. intros a fuel Hf.
        rewrite D_neg, (HDx a fuel Hf) by done.
        replace u with (- Z.pos (absn u))%Z at 2 by (unfold absn; lia).
        rewrite fden_neg by first [done|lia]. done.
      * split; [done|]. intros a fuel Hf. rewrite (HDx a fuel Hf).
        by replace (Z.pos (absn u)) with u by (unfold absn; lia).
Qed.

(** ** The rebuild: correct for every well-formed table *)
Theorem dddmp_rebuild_correct rootids s0 r s' :
  Inv s0 → last_len s0 = None → nvars s0 = n →
  (∀ u, u ∈ rootids → fvalid u) →
  dddmp_rebuild tbl o2n n rootids s0 = (r, s') →
  r = Ok tt ∧ Inv s' ∧ extends s0 s' ∧
  ∃ rs, roots s' = remove_dups rs ∧
    Forall2 (fun u x => valid s' x ∧
       ∀ a fuel, n < fuel → D s' x a = fden fuel tbl u (fassign a)) rootids rs.
Proof.
  intros HI Hoff Hnv Hroots. unfold dddmp_rebuild.
  destruct (foldM (fun (umap : gmap Z Z) j => foldM (dddmp_node_step o2n j) umap tbl)
              ({[ (-1)%Z := (-1)%Z; 1%Z := 1%Z ]} : gmap Z Z) (reverse (seq 0 n)) s0)
    as [r1 s1] eqn:E1.
  pose proof E1 as E1'.
  apply dddmp_levels_spec in E1' as (umap&->&HL&He); [|done|by apply LInv_start].
  rewrite (bind_ok _ _ _ _ _ E1).
  destruct (dddmp_roots_spec s1 umap HL rootids Hroots) as (rs&Ers&Hrs).
  rewrite (bind_ok _ _ _ _ _ Ers). cbn [modify]. intros [= <- <-].
  pose proof (li_inv _ _ _ HL) as HI1.
  split; [done|]. split; [|split].
  - eapply Inv_same; [|exact HI1]. by repeat split.
  - done.
  - exists rs. split; [done|].
    eapply Forall2_impl; [exact Hrs|]. intros u x [Hv HD]. split; [exact Hv|].
    intros a fuel Hf. rewrite <- (HD a fuel Hf). by apply D_same.
Qed.

End rebuild.
