(** * DddmpLoad: [dd.dddmp.load] rebuilds, in a new manager, the functions
      described by the node list of a text-mode DDDMP file (property C16) *)
From DD Require Export Dddmp Cofactor.

(** ** Association lists *)
Lemma alist_get_cons {K A} `{EqDecision K} (k' : K) (a' : A) l k :
  alist_get ((k', a') :: l) k = if decide (k' = k) then Some a' else alist_get l k.
Proof.
  unfold alist_get. cbn. destruct (decide (k' = k)) as [E|E].
  - by rewrite decide_True by (by apply bool_decide_pack).
  - rewrite decide_False by (by intros ?%bool_decide_unpack).
    by destruct (list_find _ l) as [[? [? ?]]|].
Qed.
Lemma alist_get_nil {K A} `{EqDecision K} (k : K) : alist_get ([] : list (K * A)) k = None.
Proof. done. Qed.

Lemma alist_get_elem {K A} `{EqDecision K} (l : list (K * A)) k a :
  alist_get l k = Some a → (k, a) ∈ l.
Proof.
  induction l as [|[k' a'] l IH]; [done|]. rewrite alist_get_cons.
  case_decide as E; [intros [= <-]; subst; left|intros ?; right; auto].
Qed.
Lemma alist_get_None {K A} `{EqDecision K} (l : list (K * A)) k :
  alist_get l k = None ↔ k ∉ l.*1.
Proof.
  induction l as [|[k' a'] l IH]; [rewrite alist_get_nil; set_solver|].
  rewrite alist_get_cons. cbn. rewrite not_elem_of_cons.
  case_decide as E; [subst; naive_solver|]. rewrite IH. naive_solver.
Qed.
Lemma alist_get_nodup {K A} `{EqDecision K} (l : list (K * A)) k a :
  NoDup (l.*1) → (k, a) ∈ l → alist_get l k = Some a.
Proof.
  induction l as [|[k' a'] l IH]; intros Hnd Hin; [by apply elem_of_nil in Hin|].
  cbn in Hnd. apply NoDup_cons in Hnd as [Hk' Hnd]. rewrite alist_get_cons.
  apply elem_of_cons in Hin as [[= -> ->]|Hin]; [by rewrite decide_True|].
  rewrite decide_False; [by apply IH|]. intros ->. apply Hk'.
  apply elem_of_list_fmap. by exists (k, a).
Qed.
Lemma alist_get_is_Some {K A} `{EqDecision K} (l : list (K * A)) k :
  is_Some (alist_get l k) ↔ k ∈ l.*1.
Proof.
  rewrite <- not_eq_None_Some, alist_get_None. split; [|tauto].
  intros H. destruct (decide (k ∈ l.*1)); tauto.
Qed.

(** ** Meaning of the file: walk [then]/[else] by the file's level of each
    node; complement on negative references ([else] edges and roots); the
    terminal is the node whose [else] entry is 0.  [a] assigns a Boolean to
    every FILE level. *)
Definition ftbl := list (positive * (nat * Z * Z)).   (* id -> (level, else, then) *)

Fixpoint fden (fuel : nat) (tbl : ftbl) (u : Z) (a : nat → bool) : bool :=
  match fuel with
  | O => false
  | S f =>
      let b := match alist_get tbl (absn u) with
               | None => false
               | Some (k, lo, hi) =>
                   if decide (lo = 0%Z) then true
                   else if a k then fden f tbl hi a else fden f tbl lo a
               end in
      if decide (u < 0)%Z then negb b else b
  end.

(** ** The rebuild loops of [load], named *)
Definition dddmp_node_step (o2n : list (nat * nat)) (j : nat) :
    gmap Z Z → positive * (nat * Z * Z) → MS (gmap Z Z) :=
  fun (umap : gmap Z Z) '(u, (k, lo, hi)) =>
        if decide (lo = 0%Z) then
          assert (bool_decide (hi = 0%Z)) ;;; ret umap
        else
          i <- of_opt EKey (alist_get o2n k) ;;
          if negb (bool_decide (i = j)) then ret umap else
          p <- of_opt EKey (umap !! Z.abs lo) ;;
          q <- of_opt EKey (umap !! hi) ;;
          let p := if decide (lo < 0)%Z then (- p)%Z else p in
          r <- find_or_add i p q ;;
          ret (<[Z.pos u := r]> umap).

Definition dddmp_map_root (umap : gmap Z Z) (u : Z) : MS Z :=
  r <- of_opt EKey (umap !! Z.abs u) ;;
  ret (if decide (u < 0)%Z then (- r)%Z else r).

Definition dddmp_rebuild (tbl : ftbl) (o2n : list (nat * nat)) (n : nat) (rootids : list Z)
  : MS unit :=
  umap <- foldM (fun (umap : gmap Z Z) j => foldM (dddmp_node_step o2n j) umap tbl)
    ({[ (-1)%Z := (-1)%Z; 1%Z := 1%Z ]} : gmap Z Z) (reverse (seq 0 n)) ;;
  rs <- mapM (dddmp_map_root umap) rootids ;;
  modify (fun s => s <| roots := remove_dups rs |>).

(** the header part of [load]: levels, table, compaction of the levels *)
Definition dddmp_new_levels (levels : list (nat * nat)) : list (nat * nat) :=
  let perm : list (nat * nat) := dict_of ((fun '(v, k) => (k, v)) <$> levels) in
  let sorted := merge_sort le (perm.*1) in
  dict_of (omap (fun '(i, k) => (fun v => (v, i)) <$> alist_get perm k)
                (imap (fun i k => (i, k)) sorted)).

Definition dddmp_old2new (levels new_levels : list (nat * nat)) : MS (list (nat * nat)) :=
  mapM (fun '(v, k) => n <- of_opt EKey (alist_get new_levels v) ;; ret (k, n)) levels.

Lemma dddmp_load_unfold h nodes :
  dddmp_load h nodes =
  (assert (header_ok h) ;;;
   i2p <- info2permid h ;;
   levels <- file_levels h ;;
   tbl <- parse_body h i2p nodes ;;
   let new_levels := dddmp_new_levels levels in
   old2new <- dddmp_old2new levels new_levels ;;
   modify (fun _ => init) ;;;
   init_levels new_levels ;;;
   dddmp_rebuild tbl (dict_of old2new) (length new_levels) (dh_roots h)).
Proof. reflexivity. Qed.

(** ** Well-formedness of the table w.r.t. the level compaction [o2n] and
    the number [n] of (compacted) levels *)
Definition o2nf (o2n : list (nat * nat)) (k : nat) : nat := default 0 (alist_get o2n k).

Section rebuild.
Context (tbl : ftbl) (o2n : list (nat * nat)) (n : nat).

(** compacted level of a file node ([n] for the terminal) *)
Definition nlvl (u : positive) : nat :=
  match alist_get tbl u with
  | Some (k, lo, _) => if decide (lo = 0%Z) then n else o2nf o2n k
  | None => 0
  end.

Definition fvalid (c : Z) : Prop := c ≠ 0%Z ∧ is_Some (alist_get tbl (absn c)).
Definition child_ok (c : Z) (i : nat) : Prop := fvalid c ∧ i < nlvl (absn c).

Record wf_tbl : Prop := {
  wf_nodup : NoDup (tbl.*1);
  wf_term : ∃ kT, alist_get tbl 1%positive = Some (kT, 0%Z, 0%Z);
  wf_term_only : ∀ u k lo hi, (u, (k, lo, hi)) ∈ tbl → lo = 0%Z →
     u = 1%positive ∧ hi = 0%Z;
  wf_node : ∀ u k lo hi, (u, (k, lo, hi)) ∈ tbl → lo ≠ 0%Z →
     (0 < hi)%Z ∧ ∃ i, alist_get o2n k = Some i ∧ i < n ∧ child_ok lo i ∧ child_ok hi i;
}.

Context (Hwf : wf_tbl).

Lemma fnode_cases u : fvalid u →
  (absn u = 1%positive ∧ nlvl (absn u) = n ∧ ∃ kT, alist_get tbl (absn u) = Some (kT, 0%Z, 0%Z)) ∨
  (∃ k lo hi i, alist_get tbl (absn u) = Some (k, lo, hi) ∧ lo ≠ 0%Z ∧ (0 < hi)%Z ∧
     alist_get o2n k = Some i ∧ nlvl (absn u) = i ∧ i < n ∧ child_ok lo i ∧ child_ok hi i).
Proof.
  intros [Hu0 [[[k lo] hi] He]]. pose proof (alist_get_elem _ _ _ He) as Hin.
  destruct (decide (lo = 0%Z)) as [->|Hlo].
  - left. destruct (wf_term_only Hwf _ _ _ _ Hin eq_refl) as [E ->].
    split; [done|]. split; [|by eexists]. unfold nlvl. rewrite He. by rewrite decide_True.
  - right. destruct (wf_node Hwf _ _ _ _ Hin Hlo) as (Hhi&i&Hi&Hin'&Hcl&Hch).
    exists k, lo, hi, i. split_and!; try done.
    unfold nlvl, o2nf. rewrite He, decide_False by done. by rewrite Hi.
Qed.

Lemma fden_step f u a k lo hi : alist_get tbl (absn u) = Some (k, lo, hi) → lo ≠ 0%Z →
  fden (S f) tbl u a = xorb (bool_decide (u < 0)%Z)
     (if a k then fden f tbl hi a else fden f tbl lo a).
Proof.
  intros He Hlo. cbn [fden]. rewrite He. rewrite (decide_False (P := lo = 0%Z)) by done.
  case_decide; case_bool_decide; try lia; by destruct (if a k then _ else _).
Qed.
Lemma fden_term f u a kT : alist_get tbl (absn u) = Some (kT, 0%Z, 0%Z) →
  fden (S f) tbl u a = negb (bool_decide (u < 0)%Z).
Proof.
  intros He. cbn [fden]. rewrite He. rewrite (decide_True (P := 0%Z = 0%Z)) by done.
  case_decide; case_bool_decide; try lia; done.
Qed.

Lemma fden_fuel f1 f2 u a : fvalid u →
  S (n - nlvl (absn u)) ≤ f1 → S (n - nlvl (absn u)) ≤ f2 →
  fden f1 tbl u a = fden f2 tbl u a.
Proof.
  revert f2 u. induction f1 as [|f1 IH]; intros f2 u Hv H1 H2; [lia|].
  destruct f2 as [|f2]; [lia|].
  destruct (fnode_cases u Hv) as [(_&_&kT&He)|(k&lo&hi&i&He&Hlo&Hhi&Hi&Hl&Hin&[Hvl Hll]&[Hvh Hlh])].
  - by rewrite !(fden_term _ _ _ _ He).
  - rewrite !(fden_step _ _ _ _ _ _ He Hlo). f_equal.
    destruct (a k); apply IH; try done; lia.
Qed.

Lemma fden_neg f u a : u ≠ 0%Z → 0 < f → fden f tbl (- u) a = negb (fden f tbl u a).
Proof.
  intros Hu Hf. destruct f as [|f]; [lia|]. cbn [fden]. rewrite absn_neg.
  destruct (match alist_get tbl (absn u) with Some _ => _ | None => _ end);
    repeat case_decide; try lia; done.
Qed.

(** ** The loop invariant: every file node whose compacted level is [≥ j]
    is in [umap] with the right denotation *)
Definition fassign (a : nat → bool) : nat → bool := fun k => a (o2nf o2n k).

Record LInv (j : nat) (s : st) (umap : gmap Z Z) : Prop := {
  li_inv : Inv s;
  li_off : last_len s = None;
  li_mx : max_nodes s = None;
  li_nv : nvars s = n;
  li_sound : ∀ u x, umap !! Z.pos u = Some x →
     is_Some (alist_get tbl u) ∧ valid s x ∧ nlvl u ≤ lvl_of s x ∧
     ∀ a fuel, n < fuel → D s x a = fden fuel tbl (Z.pos u) (fassign a);
  li_complete : ∀ u, is_Some (alist_get tbl u) → j ≤ nlvl u → is_Some (umap !! Z.pos u);
}.

Lemma Zabs_pos (c : Z) : c ≠ 0%Z → Z.abs c = Z.pos (absn c).
Proof. intros. unfold absn. lia. Qed.

(** what [umap] gives for a child reference *)
Lemma child_lookup j s umap c i : LInv j s umap → child_ok c i → j ≤ S i →
  ∃ x, umap !! Z.pos (absn c) = Some x ∧ valid s x ∧ i < lvl_of s x ∧
    ∀ a fuel, n < fuel → D s x a = fden fuel tbl (Z.pos (absn c)) (fassign a).
Proof.
  intros HL [[Hc0 Hc] Hlt] Hj.
  destruct (li_complete _ _ _ HL _ Hc ltac:(lia)) as [x Hx]. exists x. split; [done|].
  destruct (li_sound _ _ _ HL _ _ Hx) as (_&?&?&?). split_and!; try done. lia.
Qed.

Lemma LInv_extends j s s' umap : LInv j s umap → Inv s' → extends s s' →
  last_len s' = None → max_nodes s' = None → LInv j s' umap.
Proof.
  intros HL HI' He Hoff Hmx. pose proof (li_inv _ _ _ HL) as HI. split; try done.
  - rewrite (extends_nvars s s') by done. apply HL.
  - intros u x Hx. destruct (li_sound _ _ _ HL _ _ Hx) as (?&?&?&HD).
    split_and!; [done|by apply (valid_extends s s')|by rewrite (lvl_extends s s')|].
    intros a fuel Hf. rewrite (D_extends s s') by done. by apply HD.
  - apply HL.
Qed.

(** one node of the table, at target level [j] *)
Lemma node_step_spec j s umap e r s' : LInv (S j) s umap → j < n → e ∈ tbl →
  dddmp_node_step o2n j umap e s = (r, s') →
  ∃ umap', r = Ok umap' ∧ LInv (S j) s' umap' ∧ extends s s' ∧
    (∀ z, is_Some (umap !! z) → is_Some (umap' !! z)) ∧
    (nlvl e.1 = j → is_Some (umap' !! Z.pos e.1)).
Proof.
  intros HL Hj Hin. destruct e as [u [[k lo] hi]]. cbn [fst].
  pose proof (li_inv _ _ _ HL) as HI.
  pose proof (alist_get_nodup _ _ _ (wf_nodup Hwf) Hin) as He.
  unfold dddmp_node_step.
  destruct (decide (lo = 0%Z)) as [->|Hlo].
  { destruct (wf_term_only Hwf _ _ _ _ Hin eq_refl) as [-> ->].
    cbn. intros [= <- <-]. exists umap. split_and!; try done.
    intros E. unfold nlvl in E. rewrite He in E. rewrite decide_True in E by done. lia. }
  destruct (wf_node Hwf _ _ _ _ Hin Hlo) as (Hhi&i&Hi&Hin'&Hcl&Hch).
  assert (Hnl : nlvl u = i).
  { unfold nlvl, o2nf. rewrite He, decide_False by done. by rewrite Hi. }
  rewrite Hi. cbn [of_opt]. rewrite (bind_ok _ _ s i s) by done.
  case_bool_decide as Eij; cbn [negb]; cycle 1.
  { intros [= <- <-]. exists umap. split_and!; try done. intros E. congruence. }
  symmetry in Eij. destruct Eij.
  destruct (child_lookup (S j) s umap lo j HL Hcl ltac:(lia)) as (p0&Hp0&Hvp0&Hlp0&HDp0).
  destruct (child_lookup (S j) s umap hi j HL Hch ltac:(lia)) as (q&Hq&Hvq&Hlq&HDq).
  rewrite (Zabs_pos lo Hlo), Hp0. cbn [of_opt]. rewrite (bind_ok _ _ s p0 s) by done.
  assert (hi = Z.pos (absn hi)) as Ehi by (unfold absn; lia).
  rewrite Ehi at 1. rewrite Hq. cbn [of_opt]. rewrite (bind_ok _ _ s q s) by done.
  set (p := if decide (lo < 0)%Z then (- p0)%Z else p0).
  assert (Hp : valid s p ∧ j < lvl_of s p ∧
               ∀ a fuel, n < fuel → D s p a = fden fuel tbl lo (fassign a)).
  { subst p. destruct (decide (lo < 0)%Z) as [Hneg|Hpos].
    - split_and!; [by apply valid_neg|by rewrite lvl_neg|].
      intros a fuel Hf. rewrite D_neg, (HDp0 a fuel Hf) by done.
      replace lo with (- Z.pos (absn lo))%Z at 2 by (unfold absn; lia).
      rewrite fden_neg by first [done|lia]. done.
    - split_and!; try done. intros a fuel Hf. rewrite (HDp0 a fuel Hf).
      by replace (Z.pos (absn lo)) with lo by (unfold absn; lia). }
  destruct Hp as (Hvp&Hlp&HDp).
  destruct (find_or_add j p q s) as [rr s1] eqn:Efa.
  pose proof Efa as Efa'. apply find_or_add_spec in Efa' as (HI1&He1&Hf1&Hr); try done.
  destruct rr as [x|e]; cycle 1.
  { exfalso. exact (benign_never s e (li_off _ _ _ HL) (li_mx _ _ _ HL) (proj1 Hr)). }
  rewrite (bind_ok _ _ _ _ _ Efa). cbn [ret]. intros [= <- <-].
  destruct Hr as (Hvx&Hlx&HDx).
  assert (Hoff1 : last_len s1 = None).
  { destruct Hf1 as (E&_). rewrite E. apply HL. }
  assert (Hmx1 : max_nodes s1 = None).
  { rewrite (frame_max_nodes _ _ Hf1). apply HL. }
  pose proof (LInv_extends _ _ _ _ HL HI1 He1 Hoff1 Hmx1) as HL1.
  exists (<[Z.pos u := x]> umap). split; [done|]. split_and!; try done.
  - split; try apply HL1.
    + intros u' x' Hx'. destruct (decide (u' = u)) as [->|Hne].
      * rewrite lookup_insert in Hx'. injection Hx' as <-.
        split_and!; [by eexists|done|lia|].
        intros a fuel Hf. rewrite HDx. destruct fuel as [|fuel]; [lia|].
        rewrite (fden_step fuel (Z.pos u) (fassign a) k lo hi He Hlo).
        rewrite bool_decide_eq_false_2 by lia. rewrite xorb_false_l.
        assert (fassign a k = a j) as -> by (unfold fassign, o2nf; by rewrite Hi).
        rewrite (HDp a (S fuel) Hf), (HDq a (S fuel) Hf). rewrite <- Ehi.
        destruct Hcl as [Hvl Hll], Hch as [Hvh Hlh].
        destruct (a j); apply fden_fuel; try done; lia.
      * rewrite lookup_insert_ne in Hx' by congruence. by apply (li_sound _ _ _ HL1).
    + intros u' Hu' Hl'. destruct (decide (u' = u)) as [->|Hne].
      * rewrite lookup_insert. by eexists.
      * rewrite lookup_insert_ne by congruence. by apply (li_complete _ _ _ HL1).
  - intros z Hz. destruct (decide (z = Z.pos u)) as [->|Hne].
    + rewrite lookup_insert. by eexists.
    + by rewrite lookup_insert_ne.
  - intros _. rewrite lookup_insert. by eexists.
Qed.

(** the pass over the table (in file order) for ONE target level *)
Lemma dddmp_level_step j : ∀ l s umap r s', LInv (S j) s umap → j < n →
  (∀ e, e ∈ l → e ∈ tbl) →
  foldM (dddmp_node_step o2n j) umap l s = (r, s') →
  ∃ umap', r = Ok umap' ∧ LInv (S j) s' umap' ∧ extends s s' ∧
    (∀ z, is_Some (umap !! z) → is_Some (umap' !! z)) ∧
    (∀ e, e ∈ l → nlvl e.1 = j → is_Some (umap' !! Z.pos e.1)).
Proof.
  induction l as [|e l IH]; intros s umap r s' HL Hj Hl.
  - cbn. intros [= <- <-]. exists umap. split_and!; try done.
    intros e He. by apply elem_of_nil in He.
  - cbn [foldM].
    destruct (dddmp_node_step o2n j umap e s) as [r1 s1] eqn:E1.
    pose proof E1 as E1'.
    apply node_step_spec in E1' as (umap1&->&HL1&He1&Hmono1&Hnew1); [|done|done|apply Hl; left].
    rewrite (bind_ok _ _ _ _ _ E1). intros Hrun.
    apply IH in Hrun as (umap'&->&HL'&He'&Hmono'&Hnew'); [|done|done|intros; apply Hl; by right].
    exists umap'. split_and!; try done.
    + by etrans.
    + intros z Hz. by apply Hmono', Hmono1.
    + intros e' He'' Hlv. apply elem_of_cons in He'' as [->|He''].
      * by apply Hmono', Hnew1.
      * by apply Hnew'.
Qed.

Lemma LInv_level_done j s umap : LInv (S j) s umap →
  (∀ e, e ∈ tbl → nlvl e.1 = j → is_Some (umap !! Z.pos e.1)) → LInv j s umap.
Proof.
  intros HL Hnew. split; try apply HL.
  intros u [e He] Hl. destruct (decide (nlvl u = j)) as [E|E].
  - apply (Hnew (u, e)); [|done]. by apply alist_get_elem.
  - apply (li_complete _ _ _ HL); [by eexists|lia].
Qed.

(** all the levels, from the deepest up *)
Lemma dddmp_levels_spec : ∀ m s umap r s', m ≤ n → LInv m s umap →
  foldM (fun (umap : gmap Z Z) j => foldM (dddmp_node_step o2n j) umap tbl)
        umap (reverse (seq 0 m)) s = (r, s') →
  ∃ umap', r = Ok umap' ∧ LInv 0 s' umap' ∧ extends s s'.
Proof.
  induction m as [|m IH]; intros s umap r s' Hm HL.
  - cbn. intros [= <- <-]. by exists umap.
  - rewrite seq_S, reverse_app. cbn [reverse rev_append app plus foldM].
    change (rev_append [] [m]) with [m]. cbn [app foldM].
    destruct (foldM (dddmp_node_step o2n m) umap tbl s) as [r1 s1] eqn:E1.
    pose proof E1 as E1'.
    apply dddmp_level_step in E1' as (umap1&->&HL1&He1&_&Hnew1); [|done|lia|done].
    rewrite (bind_ok _ _ _ _ _ E1). intros Hrun.
    apply IH in Hrun as (umap'&->&HL'&He'); [|lia|by apply LInv_level_done].
    exists umap'. split_and!; try done. by etrans.
Qed.

Lemma LInv_start s : Inv s → last_len s = None → max_nodes s = None → nvars s = n →
  LInv n s ({[ (-1)%Z := (-1)%Z; 1%Z := 1%Z ]} : gmap Z Z).
Proof.
  intros HI Hoff Hmx Hnv. destruct (wf_term Hwf) as [kT HT]. split; try done.
  - intros u x Hx. destruct (decide (u = 1%positive)) as [->|Hne]; cycle 1.
    { rewrite lookup_insert_ne, lookup_singleton_ne in Hx by congruence. done. }
    rewrite lookup_insert_ne, lookup_singleton in Hx by done. injection Hx as <-.
    split_and!; [by eexists|by apply valid_1| |].
    + rewrite (lvl_term s HI 1) by done. unfold nlvl. rewrite HT, decide_True by done. lia.
    + intros a fuel Hf. rewrite D_1 by done. destruct fuel as [|fuel]; [lia|].
      by rewrite (fden_term fuel 1 _ kT HT).
  - intros u Hu Hl.
    assert (fvalid (Z.pos u)) as Hfv by (split; [done|by rewrite absn_pos]).
    destruct (fnode_cases _ Hfv) as [(E&_)|(k&lo&hi&i&_&_&_&_&Hnl&Hin&_)].
    + rewrite absn_pos in E. subst u. rewrite lookup_insert_ne, lookup_singleton by done.
      by eexists.
    + rewrite absn_pos in Hnl. lia.
Qed.

(** the roots *)
Lemma dddmp_roots_spec s umap : LInv 0 s umap → ∀ rootids,
  (∀ u, u ∈ rootids → fvalid u) →
  ∃ rs, mapM (dddmp_map_root umap) rootids s = (Ok rs, s) ∧
    Forall2 (fun u x => valid s x ∧
       ∀ a fuel, n < fuel → D s x a = fden fuel tbl u (fassign a)) rootids rs.
Proof.
  intros HL. pose proof (li_inv _ _ _ HL) as HI.
  induction rootids as [|u l IH]; intros Hl.
  - exists []. split; [done|constructor].
  - destruct (Hl u ltac:(left)) as [Hu0 Hu].
    destruct (li_complete _ _ _ HL _ Hu ltac:(lia)) as [x Hx].
    destruct (li_sound _ _ _ HL _ _ Hx) as (_&Hvx&_&HDx).
    destruct IH as (rs&Ers&Hrs); [intros; apply Hl; by right|].
    exists ((if decide (u < 0)%Z then (- x)%Z else x) :: rs). split.
    + cbn [mapM].
      assert (Hroot : dddmp_map_root umap u s =
                (Ok (if decide (u < 0)%Z then (- x)%Z else x), s)).
      { unfold dddmp_map_root. rewrite (Zabs_pos u Hu0), Hx. done. }
      rewrite (bind_ok _ _ _ _ _ Hroot), (bind_ok _ _ _ _ _ Ers). done.
    + constructor; [|done]. destruct (decide (u < 0)%Z) as [Hneg|Hpos].
      * split; [by apply valid_neg|]. intros a fuel Hf.
        rewrite D_neg, (HDx a fuel Hf) by done.
        replace u with (- Z.pos (absn u))%Z at 2 by (unfold absn; lia).
        rewrite fden_neg by first [done|lia]. done.
      * split; [done|]. intros a fuel Hf. rewrite (HDx a fuel Hf).
        by replace (Z.pos (absn u)) with u by (unfold absn; lia).
Qed.

(** ** The rebuild: correct for every well-formed table *)
Theorem dddmp_rebuild_correct rootids s0 r s' :
  Inv s0 → last_len s0 = None → max_nodes s0 = None → nvars s0 = n →
  (∀ u, u ∈ rootids → fvalid u) →
  dddmp_rebuild tbl o2n n rootids s0 = (r, s') →
  r = Ok tt ∧ Inv s' ∧ extends s0 s' ∧
  ∃ rs, roots s' = remove_dups rs ∧
    Forall2 (fun u x => valid s' x ∧
       ∀ a fuel, n < fuel → D s' x a = fden fuel tbl u (fassign a)) rootids rs.
Proof.
  intros HI Hoff Hmx Hnv Hroots. unfold dddmp_rebuild.
  destruct (foldM (fun (umap : gmap Z Z) j => foldM (dddmp_node_step o2n j) umap tbl)
              ({[ (-1)%Z := (-1)%Z; 1%Z := 1%Z ]} : gmap Z Z) (reverse (seq 0 n)) s0)
    as [r1 s1] eqn:E1.
  pose proof E1 as E1'.
  apply dddmp_levels_spec in E1' as (umap&->&HL&He); [|done|by apply LInv_start].
  rewrite (bind_ok _ _ _ _ _ E1).
  destruct (dddmp_roots_spec s1 umap HL rootids Hroots) as (rs&Ers&Hrs).
  rewrite (bind_ok _ _ _ _ _ Ers). cbn [modify]. intros [= <- <-].
  pose proof (li_inv _ _ _ HL) as HI1.
  split; [done|]. split; [|split].
  - eapply Inv_same; [|exact HI1]. by repeat split.
  - done.
  - exists rs. split; [done|].
    eapply Forall2_impl; [exact Hrs|]. intros u x [Hv HD]. split; [exact Hv|].
    intros a fuel Hf. rewrite <- (HD a fuel Hf). by apply D_same.
Qed.

End rebuild.

(** ** Construction [BDD(levels)] (restated here so that this file only
    depends on the core development) *)
Lemma dl_init_fields :
  succ init = {[1%positive := tterm 0]} ∧ pred init = {[tterm 0 := 1%positive]} ∧
  refc init = {[1%positive := 1]} ∧ min_free init = 2%positive ∧ ite_tab init = ∅ ∧
  vars init = ∅ ∧ lvl2var init = ∅ ∧ last_len init = None ∧ rctx init = false.
Proof.
  unfold init, init_terminal. cbn. rewrite delete_empty, lookup_empty. by split_and!.
Qed.

Definition dl_fresh (s : st) : Prop :=
  succ s = {[1%positive := tterm (nvars s)]} ∧
  pred s = {[tterm (nvars s) := 1%positive]} ∧
  refc s = {[1%positive := 1]} ∧ min_free s = 2%positive ∧ ite_tab s = ∅ ∧
  (∀ v l, vars s !! v = Some l ↔ lvl2var s !! l = Some v) ∧
  size (lvl2var s) = nvars s.

Lemma dl_fresh_init : dl_fresh init.
Proof.
  destruct dl_init_fields as (?&?&?&?&?&Ev&El&_). unfold dl_fresh.
  change (nvars init) with 0. rewrite Ev, El.
  split_and!; try done.
Qed.

Lemma dl_fresh_Inv s : dl_fresh s → (∀ l, l < nvars s ↔ is_Some (lvl2var s !! l)) → Inv s.
Proof.
  intros (Es&Ep&Er&Em&Ei&Hb&_) Hl. split.
  - by rewrite Es, lookup_singleton.
  - intros n t Hn Hn1. rewrite Es in Hn. apply lookup_singleton_Some in Hn as [<- _]. done.
  - intros n t. rewrite Es, Ep, !lookup_singleton_Some. naive_solver.
  - rewrite Em, Es. split; [done|]. intros k Hk.
    assert (k = 1%positive) as -> by lia. rewrite lookup_singleton. by eexists.
  - by rewrite Er, Es, !dom_singleton_L.
  - intros g u v w Hi. by rewrite Ei, lookup_empty in Hi.
  - done.
  - done.
Qed.

Lemma dl_fresh_add_var s v l :
  dl_fresh s → vars s !! v = None → lvl2var s !! l = None →
  ∃ s', add_var v (Some l) s = (Ok l, s') ∧ dl_fresh s' ∧ frame s s' ∧
        vars s' = <[v := l]> (vars s) ∧ lvl2var s' = <[l := v]> (lvl2var s).
Proof.
  intros (Es&Ep&Er&Em&Ei&Hb&Hsz) Hv Hl.
  unfold add_var. cbn [bind get]. rewrite decide_False by (rewrite Hv; by intros [? ?]).
  unfold next_free_level. rewrite bind_assoc. cbn [bind get]. rewrite Hl.
  cbn [bind ret modify get init_terminal]. eexists. split; [reflexivity|].
  assert (Hn2 : size (<[v := l]> (vars s)) = S (nvars s))
    by (by rewrite map_size_insert_None).
  split; [|split; [by repeat split|done]].
  unfold dl_fresh, nvars. cbn. rewrite Hn2, Es, Ep, Er. fold (nvars s).
  split; [apply insert_singleton|]. split.
  { rewrite lookup_singleton. cbn [default]. by rewrite delete_singleton, insert_empty. }
  split; [by rewrite lookup_singleton|].
  split; [done|split; [done|split]].
  - intros v' l'.
    destruct (decide (v' = v)) as [->|Hv']; destruct (decide (l' = l)) as [->|Hl'].
    + by rewrite !lookup_insert.
    + rewrite lookup_insert, lookup_insert_ne by done. split; [congruence|].
      intros Hx. apply Hb in Hx. congruence.
    + rewrite lookup_insert_ne, lookup_insert by done. split; [|congruence].
      intros Hx. apply Hb in Hx. congruence.
    + rewrite !lookup_insert_ne by done. apply Hb.
  - rewrite map_size_insert_None by done. by rewrite Hsz.
Qed.

Lemma dl_init_levels_forM (levels : list (nat * nat)) : ∀ s,
  dl_fresh s → NoDup (levels.*1) → NoDup (levels.*2) →
  (∀ v, v ∈ levels.*1 → vars s !! v = None) →
  (∀ l, l ∈ levels.*2 → lvl2var s !! l = None) →
  ∃ s', forM levels (fun '(v, l) => add_var v (Some l) ;;; ret tt) s = (Ok tt, s') ∧
        dl_fresh s' ∧ frame s s' ∧
        vars s' = list_to_map levels ∪ vars s ∧
        dom (lvl2var s') = list_to_set (levels.*2) ∪ dom (lvl2var s).
Proof.
  induction levels as [|[v l] levels IH]; intros s Hf Hn1 Hn2 Hv Hl.
  { exists s. cbn. split; [done|split; [done|split; [reflexivity|]]].
    split; [by rewrite (left_id_L ∅ (∪))|set_solver]. }
  cbn [fmap list_fmap fst snd] in Hn1, Hn2, Hv, Hl.
  apply NoDup_cons in Hn1 as [Hv1 Hn1]. apply NoDup_cons in Hn2 as [Hl1 Hn2].
  destruct (dl_fresh_add_var s v l Hf) as (s1&Ea&Hf1&Hfr1&Ev1&El1);
    [apply Hv; by left|apply Hl; by left|].
  destruct (IH s1 Hf1 Hn1 Hn2) as (s'&Er&Hf'&Hfr'&Ev'&El').
  { intros v' Hv'. rewrite Ev1, lookup_insert_ne; [apply Hv; by right|]. by intros ->. }
  { intros l' Hl'. rewrite El1, lookup_insert_ne; [apply Hl; by right|]. by intros ->. }
  exists s'. cbn [forM]. rewrite bind_assoc, (bind_ok _ _ _ _ _ Ea). cbn [bind ret].
  split; [done|split; [done|split; [by etrans|split]]].
  - rewrite Ev', Ev1. cbn [list_to_map foldr]. cbn.
    rewrite <- insert_union_r; [by rewrite insert_union_l|].
    apply not_elem_of_list_to_map_1. done.
  - rewrite El', El1, dom_insert_L. cbn [fmap list_fmap snd list_to_set foldr]. cbn. set_solver.
Qed.

Lemma dl_init_levels (levels : list (nat * nat)) :
  NoDup (levels.*1) → NoDup (levels.*2) → levels.*2 ≡ₚ seq 0 (length levels) →
  ∃ s', init_levels levels init = (Ok tt, s') ∧ Inv s' ∧ last_len s' = None ∧
        max_nodes s' = None ∧ vars s' = list_to_map levels ∧ nvars s' = length levels.
Proof.
  intros Hn1 Hn2 Hperm. unfold init_levels.
  assert (Hvo : valid_ordering levels = true).
  { unfold valid_ordering. apply bool_decide_eq_true. by rewrite Hperm. }
  rewrite Hvo. cbn [assert bind ret].
  destruct (dl_init_levels_forM levels init dl_fresh_init Hn1 Hn2) as (s1&Er&Hf&Hfr&Ev&El).
  { intros v _. apply lookup_empty. }
  { intros l _. apply lookup_empty. }
  exists s1. split; [done|].
  change (vars init) with (∅ : gmap nat nat) in Ev. rewrite (right_id_L ∅ (∪)) in Ev.
  change (lvl2var init) with (∅ : gmap nat nat) in El.
  rewrite dom_empty_L, (right_id_L ∅ (∪)) in El. rewrite Hperm in El.
  assert (Hnv : nvars s1 = length levels).
  { destruct Hf as (_&_&_&_&_&_&Hsz). rewrite <- Hsz, <- size_dom, El.
    rewrite size_list_to_set by apply NoDup_seq. by rewrite seq_length. }
  assert (HI : Inv s1).
  { apply dl_fresh_Inv; [done|]. intros l. rewrite Hnv, <- elem_of_dom, El.
    rewrite elem_of_list_to_set, elem_of_seq. lia. }
  pose proof (frame_max_nodes _ _ Hfr) as Emx. destruct Hfr as (E1&_). split_and!; done.
Qed.

(** ** Python dicts built from pairs with distinct keys *)
Lemma dict_of_nodup {K A} `{EqDecision K} (l : list (K * A)) : NoDup (l.*1) → dict_of l = l.
Proof.
  unfold dict_of.
  match goal with |- _ → foldl ?f [] l = l =>
    enough (∀ acc, NoDup ((acc ++ l).*1) → foldl f acc l = acc ++ l) as Hgen
  end.
  { intros Hnd. by apply (Hgen []). }
  induction l as [|[k a] l IH]; intros acc Hnd; cbn [foldl].
  - by rewrite app_nil_r.
  - rewrite bool_decide_eq_false_2.
    + rewrite IH; [by rewrite <- app_assoc|]. by rewrite <- app_assoc.
    + intros Hin. rewrite fmap_app in Hnd. apply NoDup_app in Hnd as (_&Hd&_).
      apply (Hd k Hin). cbn. left.
Qed.

Lemma omap_all_Some {A B} (g : A → option B) (h : A → B) (l : list A) :
  (∀ x, x ∈ l → g x = Some (h x)) → omap g l = h <$> l.
Proof.
  induction l as [|x l IH]; intros H; [done|]. cbn.
  rewrite (H x) by left. cbn. f_equal. apply IH. intros; apply H; by right.
Qed.

(** in a sorted list without duplicates, positions and values are ordered alike *)
Lemma sorted_lookup_lt (l : list nat) i i' k k' :
  StronglySorted le l → NoDup l → i < i' → l !! i = Some k → l !! i' = Some k' → k < k'.
Proof.
  intros Hs. revert i i'. induction Hs as [|x l Hs IH Hall]; intros i i' Hnd Hlt Hi Hi'; [done|].
  apply NoDup_cons in Hnd as [Hx Hnd].
  destruct i' as [|i']; [lia|]. cbn in Hi'.
  destruct i as [|i]; cbn in Hi.
  - injection Hi as <-. pose proof (elem_of_list_lookup_2 _ _ _ Hi') as Hin.
    rewrite Forall_forall in Hall. pose proof (Hall _ Hin).
    assert (x ≠ k') by (intros ->; done). lia.
  - apply (IH i i'); try done. lia.
Qed.

Section compaction.
Context (L : list (nat * nat)).          (* variable -> file level *)
Context (HL1 : NoDup (L.*1)) (HL2 : NoDup (L.*2)).

Definition cperm : list (nat * nat) := (fun '(v, k) => (k, v)) <$> L.
Definition csrt : list nat := merge_sort le (L.*2).
Definition cvar (k : nat) : nat := default 0 (alist_get cperm k).
Definition cNL : list (nat * nat) := imap (fun i k => (cvar k, i)) csrt.

Lemma cperm_fst : cperm.*1 = L.*2.
Proof. unfold cperm. rewrite <- list_fmap_compose. apply list_fmap_ext. by intros ? [? ?]. Qed.
Lemma cperm_dict : dict_of cperm = cperm.
Proof. apply dict_of_nodup. by rewrite cperm_fst. Qed.
Lemma cperm_get v k : (v, k) ∈ L → alist_get cperm k = Some v.
Proof.
  intros Hin. apply alist_get_nodup; [by rewrite cperm_fst|].
  unfold cperm. apply elem_of_list_fmap. by exists (v, k).
Qed.
Lemma cvar_of v k : (v, k) ∈ L → cvar k = v.
Proof. intros H. unfold cvar. by rewrite (cperm_get v k H). Qed.

Lemma csrt_perm : csrt ≡ₚ L.*2.
Proof. apply merge_sort_Permutation. Qed.
Lemma csrt_nodup : NoDup csrt.
Proof. by rewrite csrt_perm. Qed.
Lemma csrt_sorted : StronglySorted le csrt.
Proof. apply (StronglySorted_merge_sort le). Qed.
Lemma csrt_length : length csrt = length L.
Proof. rewrite csrt_perm. by rewrite fmap_length. Qed.
Lemma csrt_elem k : k ∈ csrt ↔ ∃ v, (v, k) ∈ L.
Proof.
  rewrite csrt_perm, elem_of_list_fmap. split.
  - intros ([v k']&->&?). by exists v.
  - intros [v ?]. by exists (v, k).
Qed.

Lemma cNL_lookup i : cNL !! i = (fun k => (cvar k, i)) <$> csrt !! i.
Proof. unfold cNL. apply list_lookup_imap. Qed.
Lemma cNL_elem v i : (v, i) ∈ cNL ↔ ∃ k, csrt !! i = Some k ∧ (v, k) ∈ L.
Proof.
  split.
  - intros [j Hj]%elem_of_list_lookup. rewrite cNL_lookup in Hj.
    destruct (csrt !! j) as [k|] eqn:Hk; [|done]. injection Hj as <- <-.
    exists k. split; [done|].
    apply elem_of_list_lookup_2, csrt_elem in Hk as [v Hv]. by rewrite (cvar_of v k Hv).
  - intros (k&Hk&Hv). apply elem_of_list_lookup. exists i.
    rewrite cNL_lookup, Hk. cbn. by rewrite (cvar_of v k Hv).
Qed.
Lemma cNL_length : length cNL = length L.
Proof. unfold cNL. by rewrite imap_length, csrt_length. Qed.
Lemma cNL_snd : cNL.*2 = seq 0 (length L).
Proof.
  apply list_eq. intros i. rewrite list_lookup_fmap, cNL_lookup.
  destruct (csrt !! i) as [k|] eqn:Hk; cbn.
  - symmetry. apply lookup_seq. split; [done|]. rewrite <- csrt_length. by eapply lookup_lt_Some.
  - symmetry. apply lookup_ge_None_2. rewrite seq_length, <- csrt_length. by apply lookup_ge_None.
Qed.
Lemma cNL_fst_nodup : NoDup (cNL.*1).
Proof.
  assert (cNL.*1 = cvar <$> csrt) as ->.
  { apply list_eq. intros i. rewrite !list_lookup_fmap, cNL_lookup. by destruct (csrt !! i). }
  apply NoDup_fmap_2_strong; [|apply csrt_nodup].
  intros k k' [v Hk]%csrt_elem [v' Hk']%csrt_elem E.
  rewrite (cvar_of v k Hk), (cvar_of v' k' Hk') in E. subst v'.
  apply elem_of_list_lookup in Hk as [i Hi], Hk' as [i' Hi'].
  assert (i = i'); [|congruence].
  apply (NoDup_lookup (L.*1) i i' v); [done|by rewrite list_lookup_fmap, Hi|by rewrite list_lookup_fmap, Hi'].
Qed.
Lemma new_levels_eq : dddmp_new_levels L = cNL.
Proof.
  unfold dddmp_new_levels. cbv zeta. fold cperm. rewrite cperm_dict, cperm_fst. fold csrt.
  rewrite (omap_all_Some _ (fun '(i, k) => (cvar k, i))).
  - pose proof cNL_fst_nodup as Hnd.
    assert (E : (fun '(i, k) => (cvar k, i)) <$> imap (fun i k => (i, k)) csrt = cNL).
    { unfold cNL. apply list_eq. intros i. rewrite list_lookup_fmap, !list_lookup_imap.
      by destruct (csrt !! i). }
    rewrite E. by apply dict_of_nodup.
  - intros [i k] Hin. apply elem_of_lookup_imap in Hin as (i'&k'&[= -> ->]&Hk).
    apply elem_of_list_lookup_2, csrt_elem in Hk as [v Hv].
    rewrite (cperm_get v k' Hv). cbn. by rewrite (cvar_of v k' Hv).
Qed.


Definition o2n_step : nat * nat → MS (nat * nat) :=
  fun '(v, k) => n <- of_opt EKey (alist_get cNL v) ;; ret (k, n).

Lemma old2new_run_aux s : ∀ l, (∀ x, x ∈ l → x ∈ L) →
  ∃ O, mapM o2n_step l s = (Ok O, s) ∧
       Forall2 (fun x y => y.1 = x.2 ∧ csrt !! y.2 = Some x.2) l O.
Proof.
  induction l as [|[v k] l IH]; intros Hl.
  - exists []. split; [done|constructor].
  - destruct IH as (O&EO&HO); [intros; apply Hl; by right|].
    assert (Hin : (v, k) ∈ L) by (apply Hl; left).
    assert (k ∈ csrt) as [i Hi]%elem_of_list_lookup by (apply csrt_elem; by exists v).
    assert (alist_get cNL v = Some i) as Hget.
    { apply alist_get_nodup; [apply cNL_fst_nodup|]. apply cNL_elem. by exists k. }
    exists ((k, i) :: O). split.
    + cbn [mapM].
      assert (Hstep : o2n_step (v, k) s = (Ok (k, i), s)).
      { unfold o2n_step. by rewrite Hget. }
      rewrite (bind_ok _ _ _ _ _ Hstep), (bind_ok _ _ _ _ _ EO). done.
    + by constructor.
Qed.

Lemma old2new_run s :
  ∃ O, dddmp_old2new L cNL s = (Ok O, s) ∧ dict_of O = O ∧
    (∀ k i, alist_get O k = Some i → csrt !! i = Some k) ∧
    (∀ v k, (v, k) ∈ L → is_Some (alist_get O k)).
Proof.
  destruct (old2new_run_aux s L (fun x H => H)) as (O&EO&HO).
  exists O. split; [exact EO|].
  assert (Hfst : O.*1 = L.*2).
  { clear -HO. induction HO as [|x y l O' [E _] _ IH]; [done|]. rewrite !fmap_cons. by rewrite E, IH. }
  split_and!.
  - apply dict_of_nodup. by rewrite Hfst.
  - intros k i Hget. apply alist_get_elem in Hget.
    apply elem_of_list_lookup in Hget as [j Hj].
    destruct (Forall2_lookup_r _ _ _ _ _ HO Hj) as ([v k']&_&E&Hs). cbn in E, Hs. by subst.
  - intros v k Hin. apply alist_get_is_Some. rewrite Hfst.
    apply elem_of_list_fmap. by exists (v, k).
Qed.

End compaction.

(** ** Well-formedness of the file, in terms of FILE levels *)
Definition fchild (tbl : ftbl) (c : Z) (k : nat) : Prop :=
  c ≠ 0%Z ∧ ∃ k' lo' hi', alist_get tbl (absn c) = Some (k', lo', hi') ∧
                          (lo' = 0%Z ∨ k < k').

Record wf_file (tbl : ftbl) (L : list (nat * nat)) : Prop := {
  wff_nodup : NoDup (tbl.*1);
  wff_term : ∃ kT, alist_get tbl 1%positive = Some (kT, 0%Z, 0%Z);
  wff_term_only : ∀ u k lo hi, (u, (k, lo, hi)) ∈ tbl → lo = 0%Z →
     u = 1%positive ∧ hi = 0%Z;
  wff_node : ∀ u k lo hi, (u, (k, lo, hi)) ∈ tbl → lo ≠ 0%Z →
     (0 < hi)%Z ∧ k ∈ L.*2 ∧ fchild tbl lo k ∧ fchild tbl hi k;
}.

Lemma wf_file_tbl tbl L O :
  NoDup (L.*1) → NoDup (L.*2) → wf_file tbl L →
  (∀ k i, alist_get O k = Some i → csrt L !! i = Some k) →
  (∀ v k, (v, k) ∈ L → is_Some (alist_get O k)) →
  wf_tbl tbl O (length L).
Proof.
  intros HL1 HL2 Hwf HO1 HO2.
  assert (Hlvl : ∀ k, k ∈ L.*2 → ∃ i, alist_get O k = Some i ∧ csrt L !! i = Some k ∧
                                   i < length L).
  { intros k ([v k']&->&Hin)%elem_of_list_fmap. destruct (HO2 v k' Hin) as [i Hi].
    exists i. split; [done|]. split; [by apply HO1|].
    rewrite <- (csrt_length L). eapply lookup_lt_Some. by apply HO1. }
  split; [apply Hwf|apply Hwf|apply Hwf|].
  intros u k lo hi Hin Hlo.
  destruct (wff_node _ _ Hwf _ _ _ _ Hin Hlo) as (Hhi&Hk&Hcl&Hch).
  split; [done|]. destruct (Hlvl k Hk) as (i&Hi&Hsi&Hin').
  exists i. split; [done|split; [done|]].
  assert (Hchild : ∀ c, fchild tbl c k → child_ok tbl O (length L) c i).
  { intros c (Hc0&k'&lo'&hi'&Hc&Hor). split; [split; [done|by eexists]|].
    unfold nlvl. rewrite Hc. destruct (decide (lo' = 0%Z)) as [|Hlo']; [done|].
    destruct Hor as [|Hkk']; [done|].
    destruct (wff_node _ _ Hwf _ _ _ _ (alist_get_elem _ _ _ Hc) Hlo') as (_&Hk'&_).
    destruct (Hlvl k' Hk') as (i'&Hi'&Hsi'&_). unfold o2nf. rewrite Hi'. cbn.
    destruct (lt_eq_lt_dec i i') as [[?| ->]|Hgt]; [done| |].
    - rewrite Hsi in Hsi'. injection Hsi' as ->. lia.
    - pose proof (sorted_lookup_lt _ _ _ _ _ (csrt_sorted L) (csrt_nodup L HL2) Hgt Hsi' Hsi). lia. }
  split; by apply Hchild.
Qed.

Lemma fden_ext f tbl : ∀ u a b,
  (∀ u k lo hi, alist_get tbl u = Some (k, lo, hi) → lo ≠ 0%Z → a k = b k) →
  fden f tbl u a = fden f tbl u b.
Proof.
  induction f as [|f IH]; intros u a b Hab; [done|]. cbn [fden].
  destruct (alist_get tbl (absn u)) as [[[k lo] hi]|] eqn:He; [|done].
  destruct (decide (lo = 0%Z)) as [|Hlo]; [done|].
  rewrite (Hab _ _ _ _ He Hlo), (IH hi a b Hab), (IH lo a b Hab). done.
Qed.

(** ** [dd.dddmp.load] *)
Theorem dddmp_load_correct h nodes i2p L tbl :
  header_ok h = true →
  info2permid h empty_st = (Ok i2p, empty_st) →
  file_levels h empty_st = (Ok L, empty_st) →
  parse_body h i2p nodes empty_st = (Ok tbl, empty_st) →
  NoDup (L.*1) → NoDup (L.*2) → wf_file tbl L →
  (∀ u, u ∈ dh_roots h → u ≠ 0%Z ∧ is_Some (alist_get tbl (absn u))) →
  ∃ s, dddmp_load h nodes empty_st = (Ok tt, s) ∧ Inv s ∧
    (∀ v i, vars s !! v = Some i ↔
            ∃ k, merge_sort le (L.*2) !! i = Some k ∧ (v, k) ∈ L) ∧
    ∃ rs, roots s = remove_dups rs ∧
      Forall2 (fun u x => valid s x ∧ ∀ ρ fuel, length L < fuel →
         denv s x ρ = fden fuel tbl u
           (fun k => match alist_get (cperm L) k with Some v => ρ v | None => false end))
        (dh_roots h) rs.
Proof.
  intros Hok Hi2p Hlev Hbody HL1 HL2 Hwf Hroots.
  rewrite dddmp_load_unfold. rewrite Hok. cbn [assert]. rewrite (bind_ok _ _ empty_st tt empty_st) by done.
  rewrite (bind_ok _ _ _ _ _ Hi2p), (bind_ok _ _ _ _ _ Hlev), (bind_ok _ _ _ _ _ Hbody).
  cbv zeta. rewrite (new_levels_eq L HL1 HL2).
  destruct (old2new_run L HL1 HL2 empty_st) as (O&EO&HOd&HO1&HO2).
  rewrite (bind_ok _ _ _ _ _ EO). cbn [bind modify]. rewrite HOd.
  destruct (dl_init_levels (cNL L)) as (s0&E0&HI0&Hoff0&Hmx0&Hv0&Hnv0).
  { apply (cNL_fst_nodup L HL1 HL2). }
  { rewrite (cNL_snd L). apply NoDup_seq. }
  { rewrite (cNL_snd L), (cNL_length L). done. }
  rewrite (bind_ok _ _ _ _ _ E0). rewrite (cNL_length L) in Hnv0 |- *.
  pose proof (wf_file_tbl tbl L O HL1 HL2 Hwf HO1 HO2) as Hwt.
  destruct (dddmp_rebuild tbl O (length L) (dh_roots h) s0) as [r s] eqn:Er.
  pose proof Er as Er'.
  apply (dddmp_rebuild_correct tbl O (length L) Hwt) in Er' as (->&HI&He&rs&Hrs&HF); try done.
  exists s. split; [done|]. split; [done|].
  assert (Hvars : ∀ v i, vars s !! v = Some i ↔
            ∃ k, merge_sort le (L.*2) !! i = Some k ∧ (v, k) ∈ L).
  { intros v i. destruct He as (_&<-&_). rewrite Hv0.
    rewrite <- (elem_of_list_to_map (M := gmap nat)) by apply (cNL_fst_nodup L HL1 HL2).
    apply (cNL_elem L HL2). }
  split; [done|]. exists rs. split; [done|].
  eapply Forall2_impl; [exact HF|]. intros u x [Hvx HD]. split; [done|].
  intros ρ fuel Hf. unfold denv. rewrite (HD _ fuel Hf). apply fden_ext.
  intros u' k lo hi Hu' Hlo.
  destruct (wff_node _ _ Hwf _ _ _ _ (alist_get_elem _ _ _ Hu') Hlo) as (_&Hk&_).
  apply elem_of_list_fmap in Hk as ([v k']&->&Hin). cbn [snd].
  rewrite (cperm_get L HL2 v k' Hin).
  destruct (HO2 v k' Hin) as [i Hi]. pose proof (HO1 _ _ Hi) as Hsi.
  assert (vars s !! v = Some i) as Hvi by (apply Hvars; by exists k').
  apply (inv_vars _ HI) in Hvi.
  unfold fassign, o2nf. rewrite Hi. cbn. by rewrite Hvi.
Qed.

(** ** A checker for the hypotheses (used to show that they are satisfiable
    on concrete files) *)
Definition fchild_b (tbl : ftbl) (c : Z) (k : nat) : bool :=
  bool_decide (c ≠ 0%Z) &&
  match alist_get tbl (absn c) with
  | Some (k', lo', _) => bool_decide (lo' = 0%Z) || bool_decide (k < k')
  | None => false
  end.
Definition wf_file_b (tbl : ftbl) (L : list (nat * nat)) : bool :=
  bool_decide (NoDup (tbl.*1)) &&
  match alist_get tbl 1%positive with
  | Some (_, lo, hi) => bool_decide (lo = 0%Z ∧ hi = 0%Z)
  | None => false
  end &&
  forallb (fun '(u, (k, lo, hi)) =>
    if decide (lo = 0%Z) then bool_decide (u = 1%positive ∧ hi = 0%Z)
    else bool_decide (0 < hi)%Z && bool_decide (k ∈ L.*2) &&
         fchild_b tbl lo k && fchild_b tbl hi k) tbl.

Lemma fchild_b_sound tbl c k : fchild_b tbl c k = true → fchild tbl c k.
Proof.
  unfold fchild_b. intros [Hc H]%andb_true_iff. apply bool_decide_eq_true in Hc.
  split; [done|]. destruct (alist_get tbl (absn c)) as [[[k' lo'] hi']|]; [|done].
  exists k', lo', hi'. split; [done|].
  apply orb_true_iff in H as [H|H]; apply bool_decide_eq_true in H; auto.
Qed.

Lemma wf_file_b_sound tbl L : wf_file_b tbl L = true → wf_file tbl L.
Proof.
  unfold wf_file_b. intros [[Hnd Ht]%andb_true_iff Hall]%andb_true_iff.
  apply bool_decide_eq_true in Hnd. rewrite forallb_forall in Hall.
  split.
  - done.
  - destruct (alist_get tbl 1%positive) as [[[kT lo] hi]|]; [|done].
    apply bool_decide_eq_true in Ht as [-> ->]. by exists kT.
  - intros u k lo hi Hin%elem_of_list_In Hlo. specialize (Hall _ Hin). cbn in Hall.
    rewrite decide_True in Hall by done. by apply bool_decide_eq_true in Hall.
  - intros u k lo hi Hin%elem_of_list_In Hlo. specialize (Hall _ Hin). cbn in Hall.
    rewrite decide_False in Hall by done.
    apply andb_true_iff in Hall as [[[H1 H2]%andb_true_iff H3]%andb_true_iff H4].
    apply bool_decide_eq_true in H1, H2.
    split_and!; try done; by apply fchild_b_sound.
Qed.
