(** * Dynamic: the [_try_to_reorder] decorator when the reordering request
      fires (C09).

    The correctness of sifting itself ([reorder None = apply_sifting]) rests on
    the adjacent-level swap and is proved elsewhere; here it is an explicit
    premise [sifting_ok'] of the theorems (a definition over the model, not an
    axiom).  Everything else -- the case analysis of the decorator, the
    aborted first attempt whose partial work stays in the manager, the second
    attempt with requests switched off, the re-enabling of requests -- is
    proved for an arbitrary wrapped operation that meets a specification
    stated by variable NAME ([op_spec]), and then instantiated. *)
From DD Require Export GC Quantify.

(** ** Nodes that the user holds: the terminal and the nodes with an
    external reference in the ledger [L] *)
Definition heldn (L : positive → nat) : positive → Prop :=
  fun n => n = 1%positive ∨ 0 < L n.

(** nodes reachable from a held node (NOT preserved by sifting: a swap may
    replace an inner node that nobody holds, see [sifting_ok_reach_false]) *)
Definition ref_by (L : positive → nat) (s : st) (n : positive) : Prop :=
  n = 1%positive ∨ reach (succ s) (fun k => 0 < L k) n.

(** [s'] has the same declared variables, and every reference into the node
    set [K] is still a reference, with the same function BY NAME *)
Definition keeps (K : positive → Prop) (s s' : st) : Prop :=
  dom (vars s') = dom (vars s) ∧
  ∀ u, u ≠ 0%Z → K (absn u) → valid s u →
       valid s' u ∧ ∀ ρ, denv s' u ρ = denv s u ρ.

(** ** What the decorator needs from sifting.
    Started on an [Inv] manager with exact counts and requests switched off,
    sifting either hits the iteration-order oracle error of the model (a tape
    that is not a permutation; no Python counterpart), or succeeds, keeps
    [Inv] and the counts with the same ledger, keeps every HELD node (same
    number) with the same function by variable name, leaves requests
    switched off and the context flag untouched.  Nothing is claimed for
    nodes that are not held themselves, even when reachable from a held
    node: a swap may free such a node and build its replacement under
    another number. *)
Definition sifting_ok' : Prop := ∀ s L r s',
  Inv s → Counts s L → last_len s = None →
  reorder None s = (r, s') →
  r = Err EOracle ∨
  ((r = Ok tt ∨ (r = Err ERuntime ∧ is_Some (max_nodes s))) ∧
   Inv s' ∧ Counts s' L ∧ last_len s' = None ∧ rctx s' = rctx s ∧
   max_nodes s' = max_nodes s ∧ keeps (heldn L) s s').

(** the same with "reachable from a held node" in place of "held": FALSE of
    the model ([sifting_ok_reach_false] at the end of this file) *)
Definition sifting_ok_reach : Prop := ∀ s L r s',
  Inv s → Counts s L → last_len s = None →
  reorder None s = (r, s') →
  r = Err EOracle ∨
  ((r = Ok tt ∨ (r = Err ERuntime ∧ is_Some (max_nodes s))) ∧
   Inv s' ∧ Counts s' L ∧ last_len s' = None ∧ rctx s' = rctx s ∧
   max_nodes s' = max_nodes s ∧ keeps (ref_by L s) s s').

(** ** Specification of a wrapped operation, by name *)
Record op_spec {A} (func : MS A) (K : positive → Prop)
    (Pre : st → Prop) (Post : st → A → st → Prop) : Prop := {
  (* inside a context, or with requests off: the operation only adds nodes,
     keeps the counts of every ledger, and either meets [Post] or stops with
     the reordering signal (possible only when requests are on) *)
  spec_run : ∀ s r s', Inv s → Pre s → no_reorder s → func s = (r, s') →
    Inv s' ∧ extends s s' ∧ frame s s' ∧ (∀ L, Counts s L → Counts s' L) ∧
    match r with
    | Ok a => Post s a s'
    | Err e => benign s e
    end;
  (* [Pre] and [Post] speak about functions by name, so they survive a
     reordering that keeps the nodes of [K] *)
  pre_stable : ∀ s s', Inv s → Inv s' → keeps K s s' → Pre s → Pre s';
  post_stable : ∀ s0 s a s', Inv s0 → Inv s → keeps K s0 s → Pre s0 →
    Post s a s' → Post s0 a s';
  post_same : ∀ s a s' s'', same_tables s' s'' → Post s a s' → Post s a s'';
}.

(** the two readings of [spec_run] *)
Lemma spec_off {A} (func : MS A) K Pre Post : op_spec func K Pre Post →
  ∀ s r s', Inv s → Pre s → last_len s = None → max_nodes s = None → func s = (r, s') →
  ∃ a, r = Ok a ∧ Inv s' ∧ extends s s' ∧ frame s s' ∧
       (∀ L, Counts s L → Counts s' L) ∧ Post s a s'.
Proof.
  intros H s r s' HI HP Hoff Hmx Hrun.
  destruct (spec_run _ _ _ _ H s r s' HI HP (or_intror Hoff) Hrun) as (?&?&?&?&Hr).
  destruct r as [a|e]; [by exists a|].
  by destruct (benign_never s e Hoff Hmx).
Qed.

Lemma spec_on {A} (func : MS A) K Pre Post : op_spec func K Pre Post →
  ∀ s r s', Inv s → Pre s → rctx s = true → func s = (r, s') →
  Inv s' ∧ extends s s' ∧ frame s s' ∧ (∀ L, Counts s L → Counts s' L) ∧
  match r with
  | Ok a => Post s a s'
  | Err e => benign s e
  end.
Proof. intros H s r s' HI HP Hc. apply (spec_run _ _ _ _ H); try done. by left. Qed.

(** the record spelled out *)
Lemma op_spec_unfold {A} (func : MS A) K Pre Post :
  op_spec func K Pre Post ↔
  (∀ s r s', Inv s → Pre s → no_reorder s → func s = (r, s') →
    Inv s' ∧ extends s s' ∧ frame s s' ∧ (∀ L, Counts s L → Counts s' L) ∧
    match r with
    | Ok a => Post s a s'
    | Err e => benign s e
    end) ∧
  (∀ s s', Inv s → Inv s' → keeps K s s' → Pre s → Pre s') ∧
  (∀ s0 s a s', Inv s0 → Inv s → keeps K s0 s → Pre s0 → Post s a s' → Post s0 a s') ∧
  (∀ s a s' s'', same_tables s' s'' → Post s a s' → Post s a s'').
Proof.
  split.
  - intros []. by split_and!.
  - intros (?&?&?&?). by split.
Qed.

(** ** Small facts *)
Lemma reach_mono (m m' : gmap positive triple) R n :
  m ⊆ m' → reach m R n → reach m' R n.
Proof.
  intros Hsub. induction 1 as [n HR Hn|p t _ IH Hp Hl|p t _ IH Hp Hh].
  - apply reach_root; [done|]. by apply (subseteq_dom _ _ Hsub).
  - apply (reach_lo _ _ p t); [done| |done]. by apply (lookup_weaken _ _ _ _ Hp).
  - apply (reach_hi _ _ p t); [done| |done]. by apply (lookup_weaken _ _ _ _ Hp).
Qed.

Lemma ref_by_extends L s s' n : extends s s' → ref_by L s n → ref_by L s' n.
Proof.
  intros (Hsub&_) [->|H]; [by left|right]. by apply (reach_mono (succ s)).
Qed.

Lemma ref_by_valid L s u : Inv s → u ≠ 0%Z → ref_by L s (absn u) → valid s u.
Proof.
  intros HI Hu [E|H]; (split; [done|]).
  - rewrite E, (inv_term _ HI). by eexists.
  - apply elem_of_dom. by apply (reach_dom s (fun k => 0 < L k)).
Qed.

Lemma heldn_ref_by L s n : Inv s → Counts s L → heldn L n → ref_by L s n.
Proof.
  intros HI [_ HC] [->|Hn]; [by left|right]. apply reach_root; [done|].
  destruct (decide (n ∈ dom (succ s))) as [|Hd]; [done|]. rewrite (HC n Hd) in Hn. lia.
Qed.

Lemma heldn_valid L s u : Inv s → Counts s L → u ≠ 0%Z → heldn L (absn u) → valid s u.
Proof. intros HI HC Hu Hh. apply (ref_by_valid L); [done|done|]. by apply heldn_ref_by. Qed.

Lemma denv_grow s s' u ρ : extends s s' → Inv s → valid s u → denv s' u ρ = denv s u ρ.
Proof.
  intros He HI Hv. unfold denv. destruct He as (?&?&El). rewrite <- El.
  apply D_extends; try done.
Qed.

Lemma denv_same s s' u ρ :
  succ s' = succ s → vars s' = vars s → lvl2var s' = lvl2var s →
  denv s' u ρ = denv s u ρ.
Proof. intros E1 E2 E3. unfold denv. rewrite E3. by apply D_same. Qed.

Lemma keeps_extends K s s' : Inv s → extends s s' → keeps K s s'.
Proof.
  intros HI He. split.
  - destruct He as (_&E&_). by rewrite E.
  - intros u _ _ Hv. split; [by apply (valid_extends s s')|].
    intros ρ. by apply denv_grow.
Qed.

Lemma keeps_trans (K K' : positive → Prop) s1 s2 s3 :
  (∀ n, K n → K' n) → keeps K s1 s2 → keeps K' s2 s3 → keeps K s1 s3.
Proof.
  intros HK [E1 H1] [E2 H2]. split; [congruence|].
  intros u Hu Hk Hv. destruct (H1 u Hu Hk Hv) as [Hv2 HD1].
  destruct (H2 u Hu (HK _ Hk) Hv2) as [Hv3 HD2]. split; [done|].
  intros ρ. by rewrite HD2.
Qed.

Lemma keeps_same_r K s s' s'' : same_tables s' s'' → keeps K s s' → keeps K s s''.
Proof.
  intros (E1&_&_&_&_&E6&E7) [Ed H]. split; [by rewrite E6|].
  intros u Hu Hk Hv. destruct (H u Hu Hk Hv) as [Hv' HD]. split.
  - unfold valid. by rewrite E1.
  - intros ρ. rewrite <- HD. by apply denv_same.
Qed.

Lemma keeps_rctx K s b : keeps K s (s <| rctx := b |>).
Proof.
  split; [done|]. intros u _ _ Hv. split; [done|]. intros ρ. by apply denv_same.
Qed.

Lemma catch_run {A} (m : MS A) s r s' : m s = (r, s') → catch m s = (Ok r, s').
Proof. unfold catch. by intros ->. Qed.

(** ** The decorator *)
Theorem try_to_reorder_correct {A} (func : MS A) Pre Post s L r s' :
  sifting_ok' →
  op_spec func (heldn L) Pre Post →
  Inv s → Counts s L → Pre s → rctx s = false → max_nodes s = None →
  try_to_reorder func s = (r, s') →
  r = Err EOracle ∨
  ∃ a, r = Ok a ∧ Inv s' ∧ Counts s' L ∧ rctx s' = false ∧
       (last_len s = None → last_len s' = None) ∧
       (is_Some (last_len s) → is_Some (last_len s')) ∧
       keeps (heldn L) s s' ∧ Post s a s'.
Proof.
  intros Hsift Hop HI HC HP Hctx Hmx.
  set (K := heldn L) in *.
  unfold try_to_reorder. cbn [bind get modify]. unfold bind at 1, catch at 1.
  set (s0 := s <| rctx := true |>).
  assert (HI0 : Inv s0) by (by apply Inv_rctx).
  assert (HC0 : Counts s0 L) by (by apply (Counts_same s)).
  assert (Hk0 : keeps K s s0) by apply keeps_rctx.
  assert (HP0 : Pre s0) by (by apply (pre_stable _ _ _ _ Hop s s0)).
  destruct (func s0) as [r1 s1] eqn:E1.
  destruct (spec_on _ _ _ _ Hop s0 r1 s1 HI0 HP0 eq_refl E1) as (HI1&He1&Hf1&HCs1&Hr1).
  pose proof (HCs1 L HC0) as HC1.
  assert (He01 : extends s s1) by done.
  assert (Hll1 : last_len s1 = last_len s) by (by destruct Hf1 as (?&_)).
  assert (Hmx1 : max_nodes s1 = None) by (by rewrite (frame_max_nodes _ _ Hf1)).
  cbn [bind modify]. rewrite Hctx.
  destruct r1 as [a|e].
  { (* the request did not fire *)
    unfold ret. intros [= <- <-]. right. exists a.
    assert (Hsame : same_tables s1 (s1 <| rctx := false |>)) by (by repeat split).
    split; [done|split; [by apply (Inv_same s1)|split; [by apply (Counts_same s1)|]]].
    split; [done|split; [intros E; cbn; congruence|split; [intros E; cbn; congruence|]]].
    split.
    - apply (keeps_same_r K s s1); [done|]. by apply keeps_extends.
    - apply (post_same _ _ _ _ Hop s a s1); [done|].
      by apply (post_stable _ _ _ _ Hop s s0 a s1). }
  (* the request fired at nesting depth 0 *)
  apply (benign_unbounded s0 e Hmx) in Hr1.
  destruct Hr1 as [-> Hon]. change (last_len s0) with (last_len s) in Hon.
  rewrite decide_True by done. cbn [bind get modify].
  set (s2 := s1 <| rctx := false |> <| last_len := None |>).
  assert (Hsame2 : same_tables s1 s2) by (by repeat split).
  assert (HI2 : Inv s2) by (by apply (Inv_same s1)).
  assert (HC2 : Counts s2 L) by (by apply (Counts_same s1)).
  assert (He02 : extends s s2) by done.
  assert (Hk2 : keeps K s s2) by (by apply keeps_extends).
  destruct (reorder None s2) as [r3 s3] eqn:E3.
  destruct (Hsift s2 L r3 s3 HI2 HC2 eq_refl E3)
    as [->|([->|(_&[n Hn])]&HI3&HC3&Hll3&Hr3&Hmx3&Hk3)]; [|..|change (max_nodes s2) with (max_nodes s1) in Hn; congruence].
  { rewrite (bind_ok _ _ _ _ _ (catch_run _ _ _ _ E3)). cbn [bind modify raise].
    intros [= <- <-]. by left. }
  change (max_nodes s2) with (max_nodes s1) in Hmx3. rewrite Hmx1 in Hmx3.
  rewrite (bind_ok _ _ _ _ _ (catch_run _ _ _ _ E3)). cbn [bind ret get modify].
  unfold bind at 1, catch at 1.
  set (s3' := s3 <| rctx := true |>).
  assert (HI3' : Inv s3') by (by apply Inv_rctx).
  assert (HC3' : Counts s3' L) by (by apply (Counts_same s3)).
  assert (Hk3' : keeps K s s3').
  { apply (keeps_same_r K s s3); [by repeat split|].
    by apply (keeps_trans K K s s2 s3). }
  assert (HP3 : Pre s3') by (by apply (pre_stable _ _ _ _ Hop s s3')).
  destruct (func s3') as [r4 s4] eqn:E4.
  destruct (spec_on _ _ _ _ Hop s3' r4 s4 HI3' HP3 eq_refl E4) as (HI4&He4&Hf4&HCs4&Hr4).
  pose proof (HCs4 L HC3') as HC4.
  cbn [bind modify].
  destruct r4 as [a|e]; cycle 1.
  { (* requests are off: no signal in the second attempt *)
    by destruct (benign_never s3' e Hll3 Hmx3). }
  cbn [reraise bind ret modify]. unfold ret. intros [= <- <-]. right. exists a.
  set (sF := s4 <| rctx := rctx s3 |> <| last_len := _ |>).
  assert (HsameF : same_tables s4 sF) by (by repeat split).
  split; [done|split; [by apply (Inv_same s4)|split; [by apply (Counts_same s4)|]]].
  split; [cbn; by rewrite Hr3|].
  split; [intros E; destruct Hon as [l Hl]; congruence|].
  split; [intros _; by eexists|].
  split.
  - apply (keeps_same_r K s s4); [done|].
    apply (keeps_trans K K s s3' s4); [done|done|]. by apply keeps_extends.
  - apply (post_same _ _ _ _ Hop s a s4); [done|].
    by apply (post_stable _ _ _ _ Hop s s3' a s4).
Qed.

(** the internal signal never reaches the caller of a decorated operation *)
Corollary try_to_reorder_no_signal {A} (func : MS A) Pre Post s L r s' :
  sifting_ok' →
  op_spec func (heldn L) Pre Post →
  Inv s → Counts s L → Pre s → rctx s = false →
  try_to_reorder func s = (r, s') →
  r ≠ Err ENeedsReordering.
Proof.
  (* for EVERY value of [max_nodes]: with a bounded table the additional
     outcome is [Err ERuntime] (first attempt, sifting, or second attempt),
     never the signal *)
  intros Hsift Hop HI HC HP Hctx.
  set (K := heldn L) in *.
  unfold try_to_reorder. cbn [bind get modify]. unfold bind at 1, catch at 1.
  set (s0 := s <| rctx := true |>).
  assert (HI0 : Inv s0) by (by apply Inv_rctx).
  assert (HC0 : Counts s0 L) by (by apply (Counts_same s)).
  assert (Hk0 : keeps K s s0) by apply keeps_rctx.
  assert (HP0 : Pre s0) by (by apply (pre_stable _ _ _ _ Hop s s0)).
  destruct (func s0) as [r1 s1] eqn:E1.
  destruct (spec_on _ _ _ _ Hop s0 r1 s1 HI0 HP0 eq_refl E1) as (HI1&He1&Hf1&HCs1&Hr1).
  pose proof (HCs1 L HC0) as HC1.
  assert (He01 : extends s s1) by done.
  cbn [bind modify]. rewrite Hctx.
  destruct r1 as [a|e].
  { unfold ret. by intros [= <- <-]. }
  case_decide as Hd; cycle 1.
  { unfold raise. intros [= <- <-] [= ->]. by apply Hd. }
  destruct Hd as [-> _].
  cbn [bind get modify].
  set (s2 := s1 <| rctx := false |> <| last_len := None |>).
  assert (Hsame2 : same_tables s1 s2) by (by repeat split).
  assert (HI2 : Inv s2) by (by apply (Inv_same s1)).
  assert (HC2 : Counts s2 L) by (by apply (Counts_same s1)).
  assert (He02 : extends s s2) by done.
  assert (Hk2 : keeps K s s2) by (by apply keeps_extends).
  destruct (reorder None s2) as [r3 s3] eqn:E3.
  destruct (Hsift s2 L r3 s3 HI2 HC2 eq_refl E3)
    as [->|([->|(->&_)]&HI3&HC3&Hll3&Hr3&Hmx3&Hk3)].
  { rewrite (bind_ok _ _ _ _ _ (catch_run _ _ _ _ E3)). cbn [bind modify raise].
    by intros [= <- <-]. }
  2:{ rewrite (bind_ok _ _ _ _ _ (catch_run _ _ _ _ E3)). cbn [bind modify raise].
      by intros [= <- <-]. }
  rewrite (bind_ok _ _ _ _ _ (catch_run _ _ _ _ E3)). cbn [bind ret get modify].
  unfold bind at 1, catch at 1.
  set (s3' := s3 <| rctx := true |>).
  assert (HI3' : Inv s3') by (by apply Inv_rctx).
  assert (Hk3' : keeps K s s3').
  { apply (keeps_same_r K s s3); [by repeat split|].
    by apply (keeps_trans K K s s2 s3). }
  assert (HP3 : Pre s3') by (by apply (pre_stable _ _ _ _ Hop s s3')).
  destruct (func s3') as [r4 s4] eqn:E4.
  destruct (spec_on _ _ _ _ Hop s3' r4 s4 HI3' HP3 eq_refl E4) as (HI4&He4&Hf4&HCs4&Hr4).
  cbn [bind modify].
  destruct r4 as [a|e]; cycle 1.
  { (* requests are off in the second attempt: only [ERuntime] is possible *)
    destruct (benign_off s3' e Hll3 Hr4) as [-> _].
    cbn [reraise raise]. unfold raise. by intros [= <- <-]. }
  cbn [reraise bind ret modify]. unfold ret. by intros [= <- <-].
Qed.

(** ** Instance: [ite] *)
Definition ite_pre (g u v : Z) (s : st) : Prop := valid s g ∧ valid s u ∧ valid s v.
Definition ite_post (g u v : Z) (s : st) (w : Z) (s' : st) : Prop :=
  valid s' w ∧ ∀ ρ, denv s' w ρ = if denv s g ρ then denv s u ρ else denv s v ρ.

Lemma valid_same s s' u : succ s' = succ s → valid s u → valid s' u.
Proof. intros E. unfold valid. by rewrite E. Qed.

Lemma ite_op_spec (K : positive → Prop) g u v :
  K (absn g) → K (absn u) → K (absn v) →
  op_spec (ite_ g u v) K (ite_pre g u v) (ite_post g u v).
Proof.
  intros Kg Ku Kv. split.
  - intros s r s' HI (Hg&Hu&Hv) _ Hrun. unfold ite_ in Hrun. cbn [bind get] in Hrun.
    pose proof Hrun as Hrun'.
    apply ite_rec_spec in Hrun' as (HI'&He&Hf&Hr); [|done|done|done|done|lia].
    split; [done|split; [done|split; [done|split]]].
    + intros L HC. apply (ite_rec_counts (S (S (nvars s))) s L g u v r s'); try done. lia.
    + destruct r as [w|e]; [|done]. destruct Hr as (Hw&_&HD). split; [done|].
      intros ρ. unfold denv. destruct He as (_&_&El). rewrite <- El. apply HD.
  - intros s s' HI HI' [_ Hk] (Hg&Hu&Hv).
    split_and!; [apply (Hk g)|apply (Hk u)|apply (Hk v)]; try done; by destruct Hg, Hu, Hv.
  - intros s0 s w s' HI0 HI [_ Hk] (Hg&Hu&Hv) [Hw HD]. split; [done|].
    intros ρ. rewrite HD.
    destruct (Hk g (proj1 Hg) Kg Hg) as [_ ->].
    destruct (Hk u (proj1 Hu) Ku Hu) as [_ ->].
    destruct (Hk v (proj1 Hv) Kv Hv) as [_ ->]. done.
  - intros s w s' s'' (E1&_&_&_&_&E6&E7) [Hw HD]. split; [by apply (valid_same s')|].
    intros ρ. rewrite <- HD. by apply denv_same.
Qed.

(** C09 for [ite]: with dynamic reordering enabled (or not), whichever node
    creation the request fires at *)
Theorem ite_dynamic s L g u v r s' :
  sifting_ok' →
  Inv s → Counts s L → rctx s = false → max_nodes s = None →
  valid s g → valid s u → valid s v →
  heldn L (absn g) → heldn L (absn u) → heldn L (absn v) →
  ite g u v s = (r, s') →
  r = Err EOracle ∨
  ∃ w, r = Ok w ∧ Inv s' ∧ Counts s' L ∧ rctx s' = false ∧
       (last_len s = None → last_len s' = None) ∧
       (is_Some (last_len s) → is_Some (last_len s')) ∧
       keeps (heldn L) s s' ∧
       valid s' w ∧
       ∀ ρ, denv s' w ρ = if denv s g ρ then denv s u ρ else denv s v ρ.
Proof.
  intros Hs HI HC Hc Hmx Hg Hu Hv Kg Ku Kv Hrun. unfold ite in Hrun.
  destruct (try_to_reorder_correct (ite_ g u v) (ite_pre g u v) (ite_post g u v)
              s L r s' Hs (ite_op_spec _ g u v Kg Ku Kv) HI HC) as [?|(w&?&?&?&?&?&?&?&?&?)];
    try done; [by left|right]. by exists w.
Qed.

(** ** Instance: [var] *)
Definition var_body (name : nat) : MS Z :=
  s <- get ;;
  match vars s !! name with
  | None => raise EValue
  | Some j => find_or_add j (-1) 1
  end.
Definition var_pre (name : nat) (s : st) : Prop := is_Some (vars s !! name).
Definition var_post (name : nat) (_ : st) (w : Z) (s' : st) : Prop :=
  valid s' w ∧ ∀ ρ, denv s' w ρ = ρ name.

Lemma var_op_spec (K : positive → Prop) name :
  op_spec (var_body name) K (var_pre name) (var_post name).
Proof.
  split.
  - intros s r s' HI [j Hj] _ Hrun. unfold var_body in Hrun. cbn [bind get] in Hrun.
    rewrite Hj in Hrun.
    assert (Hl : lvl2var s !! j = Some name) by (by apply (inv_vars _ HI)).
    assert (Hjn : j < nvars s) by (apply (inv_lvls _ HI); by eexists).
    pose proof Hrun as Hrun'.
    apply find_or_add_spec in Hrun' as (HI'&He&Hf&Hr);
      [|done|by apply valid_m1|by apply valid_1
       |by rewrite (lvl_term s HI (-1))|by rewrite (lvl_term s HI 1)].
    split; [done|split; [done|split; [done|split]]].
    + intros L HC. by apply (find_or_add_counts s L j (-1) 1 r s').
    + destruct r as [w|e]; [|by destruct Hr as (?&_)].
      destruct Hr as (Hw&_&HD). split; [done|].
      intros ρ. unfold denv. rewrite HD, (D_1 s HI), (D_m1 s HI).
      destruct He as (_&_&El). rewrite <- El, Hl. by destruct (ρ name).
  - intros s s' _ _ [Ed _] Hn. unfold var_pre in *.
    apply elem_of_dom. rewrite Ed. by apply elem_of_dom.
  - intros s0 s w s' _ _ _ _ H. exact H.
  - intros s w s' s'' (E1&_&_&_&_&E6&E7) [Hw HD]. split; [by apply (valid_same s')|].
    intros ρ. rewrite <- HD. by apply denv_same.
Qed.

Theorem var_dynamic s L name r s' :
  sifting_ok' →
  Inv s → Counts s L → rctx s = false → max_nodes s = None →
  is_Some (vars s !! name) →
  var name s = (r, s') →
  r = Err EOracle ∨
  ∃ w, r = Ok w ∧ Inv s' ∧ Counts s' L ∧ rctx s' = false ∧
       (last_len s = None → last_len s' = None) ∧
       (is_Some (last_len s) → is_Some (last_len s')) ∧
       keeps (heldn L) s s' ∧
       valid s' w ∧ ∀ ρ, denv s' w ρ = ρ name.
Proof.
  intros Hs HI HC Hc Hmx Hn Hrun. change (var name) with (try_to_reorder (var_body name)) in Hrun.
  destruct (try_to_reorder_correct (var_body name) (var_pre name) (var_post name)
              s L r s' Hs (var_op_spec _ name) HI HC) as [?|(w&?&?&?&?&?&?&?&?&?)];
    try done; [by left|right]. by exists w.
Qed.

(** ** The property is FALSE for the undecorated entry points: the internal
    signal reaches the caller.  A manager built by public calls only, with
    dynamic reordering enabled and a low threshold. *)
Definition run_ops (l : list op) : world :=
  fold_left (fun w o => fst (step w 0 o)) l world_empty.

Example find_or_add_signal_escapes :
  let w := run_ops [ONew [(0, 0); (1, 1)]; OVar 1; OIncref 2;
                    OConfigure (Some true); OSetLastLen (Some 1)] in
  let s := world_get w 0 in
  rctx s = false ∧ last_len s = Some 1 ∧ mem 2 s = true ∧
  fst (find_or_add 0 (-1) 2 s) = Err ENeedsReordering ∧
  snd (step w 0 (OFindOrAdd 0 (-1) 2)) = Err ENeedsReordering.
Proof. by vm_compute. Qed.

Example image_signal_escapes :
  let w := run_ops [ONew [(0, 0); (1, 1)]; OVar 0; OIncref 2; OVar 1; OIncref 3;
                    OConfigure (Some true); OSetLastLen (Some 1)] in
  let s := world_get w 0 in
  rctx s = false ∧ last_len s = Some 1 ∧ mem 2 s = true ∧ mem 3 s = true ∧
  fst (image 2 3 true [] true [] false s) = Err ENeedsReordering ∧
  (* the public entry points run with requests disabled (repaired in dd): they
     succeed and restore the threshold *)
  match snd (step w 0 (OImage 2 3 true [] true [] false)) with Ok _ => true | Err _ => false end = true ∧
  match snd (step w 0 (OPreimage 2 3 true [] true [] false)) with Ok _ => true | Err _ => false end = true ∧
  last_len (world_get (fst (step w 0 (OImage 2 3 true [] true [] false))) 0) = Some 1.
Proof. by vm_compute. Qed.

(** ** Counts: the nested decorated [ite], and [_quantify] *)
Lemma ite_counts s L g u v r s' :
  Inv s → Counts s L → valid s g → valid s u → valid s v → no_reorder s →
  ite g u v s = (r, s') → Counts s' L.
Proof.
  intros HI HC Hg Hu Hv Hnr Hrun. unfold ite in Hrun.
  apply try_to_reorder_inert in Hrun as (r1&s1&Hrun&Hcase).
  unfold ite_ in Hrun. cbn [bind get] in Hrun.
  set (s0 := s <| rctx := true |>) in *.
  assert (HI0 : Inv s0) by (by apply Inv_rctx).
  assert (HC0 : Counts s0 L) by (by apply (Counts_same s)).
  assert (Hfu : nvars s0 - minlvl3 s0 g u v < S (S (nvars s0))) by lia.
  pose proof (ite_rec_spec _ s0 g u v r1 s1 HI0 Hg Hu Hv Hfu Hrun) as (HI1&He1&Hf1&Hr).
  pose proof (ite_rec_counts _ s0 L g u v r1 s1 HI0 HC0 Hg Hu Hv Hfu Hrun) as HC1.
  destruct Hcase as [[-> Hctx]|[-> ->]].
  - destruct Hr as [[_ [l Hl]]|[[=] _]]. destruct Hnr as [?|Hn]; [congruence|].
    change (last_len s0) with (last_len s) in Hl. congruence.
  - by apply (Counts_same s1).
Qed.

Theorem quantify_rec_counts fuel : ∀ s L u ord q fa cache r s',
  Inv s → Counts s L → valid s u → no_reorder s →
  ord_ok s u ord q → cache_ok s q fa cache →
  nvars s - lvl_of s u < fuel →
  quantify_rec fuel u ord q fa cache s = (r, s') → Counts s' L.
Proof.
  induction fuel as [|f IH]; intros s L u ord q fa cache r s' HI HC Hu Hnr Hord Hc Hfuel; [lia|].
  cbn [quantify_rec].
  destruct (node_cases s HI u Hu) as [[E El]|(t&Ht&Hn1&Hlo&Hl&Hln&Hvl&Hvh&Hhp&Hll&Hlh&Hne)].
  { rewrite decide_True by (split; [done|apply Hu]). by intros [= <- <-]. }
  rewrite decide_False by (intros [? ?]; done).
  destruct (cache !! u) as [x|] eqn:Hcu; [by intros [= <- <-]|].
  rewrite (bind_ok _ _ _ _ _ (getsuccZ_ok s u t (proj1 Hu) Ht)).
  unfold is_term, assert. rewrite bool_decide_eq_false_2 by done. cbn [negb].
  rewrite (bind_ok _ _ s tt s) by done.
  cbv zeta.
  set (i := t_lvl t) in *. set (v := flip (t_lo t) u). set (w := flip (t_hi t) u).
  assert (Hv : valid s v) by (by apply valid_flip).
  assert (Hw : valid s w) by (by apply valid_flip).
  assert (Hlv : i < lvl_of s v) by (unfold v; by rewrite lvl_flip).
  assert (Hlw : i < lvl_of s w) by (unfold w; by rewrite lvl_flip).
  clearbody v w. clear Hvl Hvh Hhp Hll Hlh Hne Hlo.
  destruct (skip_below i ord) as [|k ord'] eqn:Eo; [by intros [= <- <-]|].
  assert (Hord' : ∀ s0 x, lvl_of s0 x = lvl_of s x → i < lvl_of s x →
            ord_ok s0 x (k :: ord') q).
  { intros s0 x Ex Hx j Hjq Hj. rewrite <- Eo. apply elem_of_skip_below; [|lia].
    apply Hord; [done|lia]. }
  (* low cofactor *)
  destruct (quantify_rec f v (k :: ord') q fa cache s) as [rp s1] eqn:Ep.
  assert (HC1 : Counts s1 L).
  { apply (IH s L v (k :: ord') q fa cache rp s1); try done; [by apply Hord'|lia]. }
  pose proof Ep as Ep'.
  apply quantify_rec_spec in Ep' as (HI1&He1&Hf1&Hp); [|done|done|done|by apply Hord'|done|lia].
  destruct rp as [[p c1]|e]; cycle 1.
  { rewrite (bind_err _ _ _ _ _ Ep). by intros [= <- <-]. }
  rewrite (bind_ok _ _ _ _ _ Ep). destruct Hp as (Hpv&Hpl&Hc1&_).
  (* high cofactor *)
  assert (Hnv1 : nvars s1 = nvars s) by (by apply extends_nvars).
  assert (Hw1 : valid s1 w) by (by apply (valid_extends s s1)).
  assert (Elw1 : lvl_of s1 w = lvl_of s w) by (by apply lvl_extends).
  assert (Hnr1 : no_reorder s1) by (by apply (no_reorder_frame s s1)).
  destruct (quantify_rec f w (k :: ord') q fa c1 s1) as [rq s2] eqn:Eq.
  assert (HC2 : Counts s2 L).
  { apply (IH s1 L w (k :: ord') q fa c1 rq s2); try done; [by apply Hord'|rewrite Hnv1, Elw1; lia]. }
  pose proof Eq as Eq'.
  apply quantify_rec_spec in Eq' as (HI2&He2&Hf2&Hq);
    [|done|done|done|by apply Hord'|done|rewrite Hnv1, Elw1; lia].
  destruct rq as [[q' c2]|e]; cycle 1.
  { rewrite (bind_err _ _ _ _ _ Eq). by intros [= <- <-]. }
  rewrite (bind_ok _ _ _ _ _ Eq). destruct Hq as (Hqv&Hql&Hc2&_).
  assert (Hpv2 : valid s2 p) by (by apply (valid_extends s1 s2)).
  assert (Hnr2 : no_reorder s2) by (by apply (no_reorder_frame s1 s2)).
  set (m := if decide (i ∈ q)
            then if fa then ite p q' (-1) else ite p 1 q'
            else find_or_add i p q').
  destruct (m s2) as [rw s3] eqn:Ew.
  assert (HC3 : Counts s3 L).
  { subst m. destruct (decide (i ∈ q)) as [Hiq|Hiq]; [destruct fa|].
    - apply (ite_counts s2 L p q' (-1) rw s3); try done. by apply valid_m1.
    - apply (ite_counts s2 L p 1 q' rw s3); try done. by apply valid_1.
    - by apply (find_or_add_counts s2 L i p q' rw s3). }
  clearbody m.
  destruct rw as [x|e]; cycle 1.
  { rewrite (bind_err _ _ _ _ _ Ew). by intros [= <- <-]. }
  rewrite (bind_ok _ _ _ _ _ Ew). cbn [ret]. by intros [= <- <-].
Qed.

(** ** Abstraction by variable NAME (levels change under reordering) *)
Definition aof (s : st) (ρ : nat → bool) : nat → bool :=
  fun l => match lvl2var s !! l with Some v => ρ v | None => false end.
Definition agree_offv (Q : gset nat) (ρ ρ' : nat → bool) : Prop := ∀ x, x ∉ Q → ρ x = ρ' x.
Definition qsemv (s : st) (fa : bool) (Q : gset nat) (u : Z) (ρ : nat → bool) : Prop :=
  if fa then ∀ ρ', agree_offv Q ρ ρ' → denv s u ρ' = true
  else ∃ ρ', agree_offv Q ρ ρ' ∧ denv s u ρ' = true.
(** [q] is the set of levels of the names [Q] *)
Definition names_levels (s : st) (Q q : gset nat) : Prop :=
  ∀ l, l ∈ q ↔ ∃ x, x ∈ Q ∧ vars s !! x = Some l.

Lemma denv_aof s u ρ : denv s u ρ = D s u (aof s ρ).
Proof. done. Qed.

Section names.
Context (s : st) (HI : Inv s).

Lemma agree_names_levels Q q ρ ρ' : names_levels s Q q →
  agree_offv Q ρ ρ' → agree_off q (aof s ρ) (aof s ρ').
Proof.
  intros HQ Ha j Hj. unfold aof. destruct (lvl2var s !! j) as [x|] eqn:Hx; [|done].
  apply Ha. intros HxQ. apply Hj, HQ. exists x. split; [done|].
  by apply (inv_vars _ HI).
Qed.

Lemma agree_levels_names Q q ρ b : names_levels s Q q →
  agree_off q (aof s ρ) b →
  ∃ ρ', agree_offv Q ρ ρ' ∧ ∀ j, j < nvars s → aof s ρ' j = b j.
Proof.
  intros HQ Ha.
  exists (fun x => match vars s !! x with Some l => b l | None => ρ x end). split.
  - intros x Hx. destruct (vars s !! x) as [l|] eqn:Hl; [|done].
    assert (Hlx : lvl2var s !! l = Some x) by (by apply (inv_vars _ HI)).
    rewrite <- (Ha l).
    + unfold aof. by rewrite Hlx.
    + intros Hlq. apply HQ in Hlq as (x'&Hx'&Hl').
      apply (inv_vars _ HI) in Hl'. congruence.
  - intros j Hj. apply (inv_lvls _ HI) in Hj as [x Hx]. unfold aof. rewrite Hx.
    apply (inv_vars _ HI) in Hx. by rewrite Hx.
Qed.

Lemma qsem_names fa Q q u ρ : valid s u → names_levels s Q q →
  qsem s fa q u (aof s ρ) ↔ qsemv s fa Q u ρ.
Proof.
  intros Hu HQ. unfold qsem, qsemv. destruct fa.
  - split.
    + intros H ρ' Ha. rewrite denv_aof. apply H. by apply (agree_names_levels Q).
    + intros H b Hb. destruct (agree_levels_names Q q ρ b HQ Hb) as (ρ'&Ha&Hj).
      rewrite <- (H ρ' Ha), denv_aof. apply (D_indep_lt s HI); [done|].
      intros j Hjn. symmetry. by apply Hj.
  - split.
    + intros (b&Hb&HD). destruct (agree_levels_names Q q ρ b HQ Hb) as (ρ'&Ha&Hj).
      exists ρ'. split; [done|]. rewrite <- HD, denv_aof.
      apply (D_indep_lt s HI); [done|]. exact Hj.
    + intros (ρ'&Ha&HD). exists (aof s ρ'). split; [by apply (agree_names_levels Q)|done].
Qed.
End names.

Lemma qsemv_ext s s' fa Q u ρ :
  (∀ ρ', denv s' u ρ' = denv s u ρ') → qsemv s' fa Q u ρ ↔ qsemv s fa Q u ρ.
Proof.
  intros E. unfold qsemv. destruct fa.
  - split; intros H ρ' Ha; [rewrite <- E|rewrite E]; by apply H.
  - split; intros (ρ'&Ha&HD); exists ρ'; (split; [done|]); [by rewrite <- E|by rewrite E].
Qed.

(** ** Instance: [quantify] with the variables given by name *)
Definition quant_body (u : Z) (qvars : list nat) (fa : bool) : MS Z :=
  q <- map_to_level_set true qvars ;;
  s <- get ;;
  r <- quantify_rec (S (S (nvars s))) u (sorted_levels q) q fa ∅ ;;
  ret (fst r).
Definition quant_pre (u : Z) (qvars : list nat) (s : st) : Prop :=
  valid s u ∧ Forall (fun k => is_Some (vars s !! k)) qvars.
Definition quant_post (u : Z) (qvars : list nat) (fa : bool) (s : st) (x : Z) (s' : st) : Prop :=
  valid s' x ∧ ∀ ρ, denv s' x ρ = true ↔ qsemv s fa (list_to_set qvars) u ρ.

Lemma names_levels_list s (qvars : list nat) :
  Forall (fun k => is_Some (vars s !! k)) qvars →
  let ls := (fun k => default 0 (vars s !! k)) <$> qvars in
  Forall2 (fun k l => vars s !! k = Some l) qvars ls ∧
  names_levels s (list_to_set qvars) (list_to_set ls).
Proof.
  intros HF ls. split.
  - subst ls. induction HF as [|k ks [l Hl] _ IH]; [constructor|].
    cbn [fmap list_fmap]. constructor; [by rewrite Hl|done].
  - intros l. subst ls. rewrite elem_of_list_to_set, elem_of_list_fmap. split.
    + intros (k&->&Hk). exists k. rewrite elem_of_list_to_set. split; [done|].
      rewrite Forall_forall in HF. destruct (HF k Hk) as [l Hl]. by rewrite Hl.
    + intros (k&Hk&Hl). exists k. rewrite elem_of_list_to_set in Hk. by rewrite Hl.
Qed.

Lemma quant_op_spec (K : positive → Prop) u qvars fa :
  K (absn u) →
  op_spec (quant_body u qvars fa) K (quant_pre u qvars) (quant_post u qvars fa).
Proof.
  intros Ku. split.
  - intros s r s' HI [Hu HF] Hnr Hrun. unfold quant_body in Hrun.
    destruct (names_levels_list s qvars HF) as [HF2 HQ].
    set (ls := (fun k => default 0 (vars s !! k)) <$> qvars) in *.
    rewrite (bind_ok _ _ _ _ _ (map_to_level_set_names s qvars ls HF2)) in Hrun.
    cbn [bind get] in Hrun. set (q := list_to_set ls : gset nat) in *.
    destruct (quantify_rec (S (S (nvars s))) u (sorted_levels q) q fa ∅ s) as [rr s2] eqn:Er.
    pose proof (quantify_rec_spec (S (S (nvars s))) s u (sorted_levels q) q fa ∅ rr s2 HI Hu Hnr
                  (ord_ok_sorted_levels s u q) (cache_ok_empty s q fa) ltac:(lia) Er)
      as (HI2&He2&Hf2&Hr).
    assert (HCs : ∀ L, Counts s L → Counts s2 L).
    { intros L HC. apply (quantify_rec_counts (S (S (nvars s))) s L u (sorted_levels q) q fa ∅ rr s2);
        try first [done | apply ord_ok_sorted_levels | apply cache_ok_empty | lia]. }
    destruct rr as [[x c]|e]; cycle 1.
    { rewrite (bind_err _ _ _ _ _ Er) in Hrun. injection Hrun as <- <-.
      by split_and!. }
    rewrite (bind_ok _ _ _ _ _ Er) in Hrun. cbn [ret fst] in Hrun. injection Hrun as <- <-.
    destruct Hr as (Hxv&_&_&HxD).
    split; [done|split; [done|split; [done|split; [done|]]]]. split; [done|].
    intros ρ. rewrite denv_aof, HxD.
    replace (aof s2 ρ) with (aof s ρ)
      by (unfold aof; destruct He2 as (_&_&El); by rewrite El).
    by apply qsem_names.
  - intros s s' HI HI' [Ed Hk] [Hu HF]. split.
    + by apply (Hk u (proj1 Hu) Ku Hu).
    + eapply Forall_impl; [exact HF|]. intros k Hkk. cbn in *.
      apply elem_of_dom. rewrite Ed. by apply elem_of_dom.
  - intros s0 s x s' HI0 HI [_ Hk] [Hu _] [Hx HD]. split; [done|].
    intros ρ. rewrite HD. apply qsemv_ext. intros ρ'.
    by destruct (Hk u (proj1 Hu) Ku Hu) as [_ ->].
  - intros s x s' s'' (E1&_&_&_&_&E6&E7) [Hx HD]. split; [by apply (valid_same s')|].
    intros ρ. rewrite <- HD. by rewrite (denv_same s' s'').
Qed.

Theorem quantify_dynamic s L u qvars fa r s' :
  sifting_ok' →
  Inv s → Counts s L → rctx s = false → max_nodes s = None →
  valid s u → heldn L (absn u) →
  Forall (fun k => is_Some (vars s !! k)) qvars →
  quantify u true qvars fa s = (r, s') →
  r = Err EOracle ∨
  ∃ x, r = Ok x ∧ Inv s' ∧ Counts s' L ∧ rctx s' = false ∧
       (last_len s = None → last_len s' = None) ∧
       (is_Some (last_len s) → is_Some (last_len s')) ∧
       keeps (heldn L) s s' ∧
       valid s' x ∧
       ∀ ρ, denv s' x ρ = true ↔ qsemv s fa (list_to_set qvars) u ρ.
Proof.
  intros Hs HI HC Hc Hmx Hu Ku HF Hrun.
  change (quantify u true qvars fa) with (try_to_reorder (quant_body u qvars fa)) in Hrun.
  destruct (try_to_reorder_correct (quant_body u qvars fa) (quant_pre u qvars)
              (quant_post u qvars fa) s L r s' Hs (quant_op_spec _ u qvars fa Ku) HI HC)
    as [?|(x&?&?&?&?&?&?&?&?&?)]; try done; [by left|right]. by exists x.
Qed.

(** ** Running the model: the forced trigger fires inside [apply], sifting
    changes the variable order, and the result is the same function by name *)
Definition envs (n : nat) : list (nat → bool) :=
  foldr (fun v acc => acc ≫= fun ρ => [ρ; fun x => if decide (x = v) then true else ρ x])
        [fun _ => false] (seq 0 n).
(** truth table of a returned reference, by variable name *)
Definition table (n : nat) (s : st) (r : res value) : option (list bool) :=
  match r with
  | Ok (VZ u) => Some ((fun ρ => denv s u ρ) <$> envs n)
  | _ => None
  end.

Local Open Scope string_scope.
(** four variables v0..v3, all held; f = (v0 /\ v2) \/ (v1 /\ v3) = 10 held *)
Definition dyn_history : list op :=
  [ONew [(0, 0); (1, 1); (2, 2); (3, 3)];
   OVar 0; OIncref 2; OVar 1; OIncref 3; OVar 2; OIncref 4; OVar 3; OIncref 5;
   OApply "and" 2 (Some 4%Z) None; OIncref 6;
   OApply "and" 3 (Some 5%Z) None; OIncref 7;
   OApply "or" 6 (Some 7%Z) None; OIncref 10;
   OConfigure (Some true)].

Example apply_dynamic_example :
  let w0 := run_ops dyn_history in
  let w1 := fst (step w0 0 (OSetTrig (Some 1))) in
  let o := OApply "and" 10 (Some 3%Z) None in
  let '(wA, rA) := step w0 0 o in      (* the request does not fire *)
  let '(wB, rB) := step w1 0 o in      (* it fires at the first node creation *)
  let s := world_get w0 0 in let sA := world_get wA 0 in let sB := world_get wB 0 in
  (* a reordering really happened, requests are on again, no signal *)
  rA = Ok (VZ 12) ∧ rB = Ok (VZ 11) ∧
  map_to_list (vars sA) = map_to_list (vars s) ∧
  vars sB !! 2 = Some 0 ∧ vars s !! 2 = Some 2 ∧
  last_len s = Some 100 ∧ last_len sA = Some 100 ∧ last_len sB = Some 18 ∧
  rctx sB = false ∧ trig sB = None ∧
  (* same function by name *)
  table 4 sB rB = table 4 sA rA ∧
  (* the operands and the other held references keep number and meaning *)
  forallb (fun u => bool_decide (table 4 sB (Ok (VZ u)) = table 4 s (Ok (VZ u))))
          [2; 3; 4; 5; 6; 7; 10]%Z = true.
Proof. vm_compute. by split_and!. Qed.

(** ** Keys given as LEVELS.
    [quantify] (like [cofactor]) accepts levels instead of names
    ([_map_to_level]).  Before dd commit 827d7f0 the decorated method mapped
    the same integers a second time, under the new order, and another variable
    was quantified ([\E level 0. f] was [\E v0. f] without the request and
    [\E v2. f] with it).  Now the public method turns the levels into names
    before it calls the decorated worker: on the same scenario the result is
    [\E v0. f] whether the request fires or not (and not [\E v2. f], although
    the reordering really happens and v2 sits at level 0 afterwards). *)
Example quantify_levels_stable :
  let w0 := run_ops dyn_history in
  let w1 := fst (step w0 0 (OSetTrig (Some 1))) in
  let '(wA, rA) := step w0 0 (OQuantify 10 false [0] false) in
  let '(wB, rB) := step w1 0 (OQuantify 10 false [0] false) in
  let '(wC, rC) := step w1 0 (OQuantify 10 true [0] false) in
  let '(wD, rD) := step w0 0 (OQuantify 10 true [2] false) in
  let s := world_get w0 0 in let sB := world_get wB 0 in
  (* the request fired, the variables were reordered, requests are on again *)
  vars s !! 0 = Some 0 ∧ vars s !! 2 = Some 2 ∧ vars sB !! 2 = Some 0 ∧
  bool_decide (is_Some (last_len sB)) = true ∧ rctx sB = false ∧ trig sB = None ∧
  (* the same function as without the request, and as by name *)
  table 4 (world_get wB 0) rB = table 4 (world_get wA 0) rA ∧
  table 4 (world_get wC 0) rC = table 4 (world_get wA 0) rA ∧
  (* which is not the quantification of the variable at level 0 afterwards *)
  table 4 (world_get wB 0) rB ≠ table 4 (world_get wD 0) rD.
Proof. vm_compute. split_and!; done. Qed.

(** the same for [cofactor]: [f | level 1 = TRUE] is [f | v1 = TRUE], whether
    the request fires or not, although v0 sits at level 1 afterwards *)
Example cofactor_levels_stable :
  let w0 := run_ops dyn_history in
  let w1 := fst (step w0 0 (OSetTrig (Some 1))) in
  let '(wA, rA) := step w0 0 (OCofactor 10 false [(1, true)]) in
  let '(wB, rB) := step w1 0 (OCofactor 10 false [(1, true)]) in
  let '(wC, rC) := step w1 0 (OCofactor 10 true [(1, true)]) in
  let '(wD, rD) := step w0 0 (OCofactor 10 true [(0, true)]) in
  let s := world_get w0 0 in let sB := world_get wB 0 in
  lvl2var s !! 1 = Some 1 ∧ lvl2var sB !! 1 = Some 0 ∧
  bool_decide (is_Some (last_len sB)) = true ∧ rctx sB = false ∧ trig sB = None ∧
  table 4 (world_get wB 0) rB = table 4 (world_get wA 0) rA ∧
  table 4 (world_get wC 0) rC = table 4 (world_get wA 0) rA ∧
  table 4 (world_get wB 0) rB ≠ table 4 (world_get wD 0) rD.
Proof. vm_compute. split_and!; done. Qed.

(** ** Instance: [cofactor] with the values given by variable name *)
From DD Require Import Cofactor.

Theorem cofactor_rec_counts fuel : ∀ s L u ord values cache r s',
  Inv s → Counts s L → valid s u →
  Cofactor.ord_ok s u ord values → Cofactor.cache_ok s values cache →
  nvars s - lvl_of s u < fuel →
  cofactor_rec fuel u ord values cache s = (r, s') → Counts s' L.
Proof.
  induction fuel as [|f IH]; intros s L u ord values cache r s' HI HC Hu Hord Hc Hfuel; [lia|].
  cbn [cofactor_rec].
  destruct (decide (absn u = 1%positive ∧ u ≠ 0%Z)) as [[E1 _]|Hnt]; [by intros [= <- <-]|].
  destruct (cache !! u) as [x|] eqn:Hcu; [by intros [= <- <-]|].
  destruct (node_cases s HI u Hu) as [[E El]|(t&Ht&Hn1&Hlo&Hl&Hln&Hvl&Hvh&Hhp&Hll&Hlh&Hne)].
  { exfalso. apply Hnt. split; [done|apply Hu]. }
  rewrite (bind_ok _ _ _ _ _ (getsuccZ_ok s u t (proj1 Hu) Ht)).
  unfold is_term, assert. rewrite bool_decide_eq_false_2 by done. cbn [negb].
  rewrite (bind_ok _ _ s tt s) by done.
  rewrite <- Hl in Hll, Hlh.
  destruct (skip_below (t_lvl t) ord) as [|n ord'] eqn:Hsk; [by intros [= <- <-]|].
  assert (Hord' : ∀ s1 c, lvl_of s u ≤ lvl_of s1 c → Cofactor.ord_ok s1 c (n :: ord') values).
  { intros s1 c Hl1. rewrite <- Hsk, <- Hl. by apply (ord_ok_child s s1 u). }
  cbv iota. clear Hsk. set (ord1 := n :: ord') in *. clearbody ord1. clear n ord'.
  destruct (values !! t_lvl t) as [val|] eqn:Hval.
  - set (c := if val then t_hi t else t_lo t).
    assert (Hvc : valid s c) by (subst c; by destruct val).
    assert (Hlc : lvl_of s u < lvl_of s c) by (subst c; by destruct val).
    destruct (cofactor_rec f c ord1 values cache s) as [rp s1] eqn:Ep.
    assert (HC1 : Counts s1 L).
    { apply (IH s L c ord1 values cache rp s1); try done; [apply Hord'; lia|lia]. }
    destruct rp as [[x c1]|e].
    + rewrite (bind_ok _ _ _ _ _ Ep). by intros [= <- <-].
    + rewrite (bind_err _ _ _ _ _ Ep). by intros [= <- <-].
  - rewrite bind_assoc.
    destruct (cofactor_rec f (t_lo t) ord1 values cache s) as [rp s1] eqn:Ep.
    assert (HC1 : Counts s1 L).
    { apply (IH s L (t_lo t) ord1 values cache rp s1); try done; [apply Hord'; lia|lia]. }
    pose proof Ep as Ep'.
    apply cofactor_rec_aux in Ep' as (HI1&He1&Hf1&Hp); [|done|done|apply Hord'; lia|done|lia].
    destruct rp as [[p c1]|e]; cycle 1.
    { rewrite (bind_err _ _ _ _ _ Ep). by intros [= <- <-]. }
    rewrite (bind_ok _ _ _ _ _ Ep). cbv beta iota. rewrite bind_assoc.
    destruct Hp as (Hpv&Hpl&Hc1&_).
    assert (Hnv1 : nvars s1 = nvars s) by (by apply extends_nvars).
    destruct (cofactor_rec f (t_hi t) ord1 values c1 s1) as [rq s2] eqn:Eq.
    assert (Hvh1 : valid s1 (t_hi t)) by (by apply (valid_extends s s1)).
    assert (Hord1 : Cofactor.ord_ok s1 (t_hi t) ord1 values)
      by (apply Hord'; rewrite (lvl_extends s s1) by done; lia).
    assert (Hfu1 : nvars s1 - lvl_of s1 (t_hi t) < f)
      by (rewrite Hnv1, (lvl_extends s s1) by done; lia).
    assert (HC2 : Counts s2 L) by (by apply (IH s1 L (t_hi t) ord1 values c1 rq s2)).
    pose proof Eq as Eq'.
    apply cofactor_rec_aux in Eq' as (HI2&He2&Hf2&Hq); [|done..].
    destruct rq as [[q c2]|e]; cycle 1.
    { rewrite (bind_err _ _ _ _ _ Eq). by intros [= <- <-]. }
    rewrite (bind_ok _ _ _ _ _ Eq). cbv beta iota. rewrite bind_assoc.
    destruct (find_or_add (t_lvl t) p q s2) as [rw s3] eqn:Ew.
    assert (HC3 : Counts s3 L) by (by apply (find_or_add_counts s2 L (t_lvl t) p q rw s3)).
    destruct rw as [w|e].
    + rewrite (bind_ok _ _ _ _ _ Ew). cbn [bind ret]. by intros [= <- <-].
    + rewrite (bind_err _ _ _ _ _ Ew). by intros [= <- <-].
Qed.

(** assignment by name overridden by constants (names -> bool) *)
Definition overridev (nv : gmap nat bool) (ρ : nat → bool) : nat → bool :=
  fun x => match nv !! x with Some b => b | None => ρ x end.

Definition lev (s : st) (p : nat * bool) : nat * bool := (default 0 (vars s !! p.1), p.2).
Definition declared (s : st) (p : nat * bool) : Prop := is_Some (vars s !! p.1).

Lemma list_to_map_lev s (l : list (nat * bool)) x j :
  Inv s → Forall (declared s) l → vars s !! x = Some j →
  (list_to_map (lev s <$> l) : gmap nat bool) !! j = (list_to_map l : gmap nat bool) !! x.
Proof.
  intros HI HF Hx. induction HF as [|[k a] l [lk Hk] _ IH]; [done|].
  cbn [fst] in Hk.
  change (lev s <$> (k, a) :: l) with (lev s (k, a) :: (lev s <$> l)).
  assert (lev s (k, a) = (lk, a)) as -> by (unfold lev; cbn [fst snd]; by rewrite Hk).
  rewrite !list_to_map_cons.
  destruct (decide (k = x)) as [->|Hne].
  - assert (lk = j) by congruence. subst lk. by rewrite !lookup_insert.
  - rewrite !lookup_insert_ne; [done|done|].
    intros ->. apply Hne. apply (inv_vars _ HI) in Hk, Hx. congruence.
Qed.

Lemma mapM_lev s (rest : list (nat * bool)) : Forall (declared s) rest →
  mapM (fun '(k, a) => l <- map_key true false k ;; ret (l, a)) rest s
  = (Ok (lev s <$> rest), s).
Proof.
  induction 1 as [|[k a] rest [lk Hk] _ IH]; [done|]. cbn [mapM].
  cbn [fst] in Hk.
  rewrite (bind_ok _ _ s (lk, a) s).
  - rewrite (bind_ok _ _ _ _ _ IH). cbn [fmap list_fmap]. unfold lev at 2. cbn [fst snd].
    by rewrite Hk.
  - by rewrite (bind_ok _ _ _ _ _ (map_key_name s false k lk Hk)).
Qed.

Lemma map_to_level_dict_names s (kv : list (nat * bool)) :
  Inv s → Forall (declared s) kv →
  ∃ lv, map_to_level_dict true kv s = (Ok lv, s) ∧
    ∀ x l, vars s !! x = Some l →
      lv !! l = (list_to_map (reverse kv) : gmap nat bool) !! x.
Proof.
  intros HI HF. destruct kv as [|[k a] rest].
  { exists ∅. split; [done|]. intros x l _. by rewrite !lookup_empty. }
  exists (list_to_map (lev s <$> reverse ((k, a) :: rest))). split.
  - unfold map_to_level_dict. rewrite (bind_ok _ _ s tt s) by done.
    apply Forall_cons in HF as [[lk Hk] HF]. cbn [fst] in Hk.
    rewrite (bind_ok _ _ _ _ _ (map_key_name s true k lk Hk)).
    rewrite (bind_ok _ _ _ _ _ (mapM_lev s rest HF)). unfold ret. do 2 f_equal.
    rewrite fmap_reverse. cbn [fmap list_fmap]. unfold lev at 2. cbn [fst snd].
    by rewrite Hk.
  - intros x l Hx. apply list_to_map_lev; [done| |done]. by apply Forall_reverse.
Qed.

Definition cof_body (u : Z) (values : list (nat * bool)) : MS Z :=
  lv <- map_to_level_dict true values ;;
  s <- get ;;
  ensure EValue (mem u s) ;;;
  r <- cofactor_rec (S (S (nvars s))) u (sorted_levels (dom lv)) lv ∅ ;;
  ret (fst r).
Definition cof_pre (u : Z) (values : list (nat * bool)) (s : st) : Prop :=
  valid s u ∧ Forall (declared s) values.
Definition cof_post (u : Z) (values : list (nat * bool)) (s : st) (x : Z) (s' : st) : Prop :=
  valid s' x ∧ ∀ ρ, denv s' x ρ = denv s u (overridev (list_to_map (reverse values)) ρ).

Lemma cof_op_spec (K : positive → Prop) u values :
  K (absn u) →
  op_spec (cof_body u values) K (cof_pre u values) (cof_post u values).
Proof.
  intros Ku. split.
  - intros s r s' HI [Hu HF] Hnr Hrun. unfold cof_body in Hrun.
    destruct (map_to_level_dict_names s values HI HF) as (lv&Hmap&Hlv).
    rewrite (bind_ok _ _ _ _ _ Hmap) in Hrun. cbn [bind get] in Hrun.
    rewrite (proj2 (mem_valid s u) Hu) in Hrun. cbn [ensure bind ret] in Hrun.
    destruct (cofactor_rec (S (S (nvars s))) u (sorted_levels (dom lv)) lv ∅ s)
      as [rr s2] eqn:Er.
    assert (Hord : Cofactor.ord_ok s u (sorted_levels (dom lv)) lv).
    { intros k Hk _. apply elem_of_sorted_levels. by apply elem_of_dom. }
    assert (Hfu : nvars s - lvl_of s u < S (S (nvars s))) by lia.
    pose proof (cofactor_rec_aux _ s u _ lv ∅ rr s2 HI Hu Hord
                  (Cofactor.cache_ok_empty s lv) Hfu Er) as (HI2&He2&Hf2&Hr).
    assert (HCs : ∀ L, Counts s L → Counts s2 L).
    { intros L HC. apply (cofactor_rec_counts _ s L u _ lv ∅ rr s2 HI HC Hu Hord
                            (Cofactor.cache_ok_empty s lv) Hfu Er). }
    destruct rr as [[x c]|e]; cycle 1.
    { rewrite (bind_err _ _ _ _ _ Er) in Hrun. injection Hrun as <- <-.
      by split_and!. }
    rewrite (bind_ok _ _ _ _ _ Er) in Hrun. cbn [ret fst] in Hrun. injection Hrun as <- <-.
    destruct Hr as (Hxv&_&_&HxD).
    split; [done|split; [done|split; [done|split; [done|]]]]. split; [done|].
    intros ρ. rewrite !denv_aof, HxD.
    replace (aof s2 ρ) with (aof s ρ)
      by (unfold aof; destruct He2 as (_&_&El); by rewrite El).
    apply (D_indep_lt s HI); [done|]. intros j Hj.
    apply (inv_lvls _ HI) in Hj as [y Hy]. unfold override, aof, overridev. rewrite Hy.
    apply (inv_vars _ HI) in Hy. by rewrite (Hlv y j Hy).
  - intros s s' HI HI' [Ed Hk] [Hu HF]. split.
    + by apply (Hk u (proj1 Hu) Ku Hu).
    + eapply Forall_impl; [exact HF|]. intros p Hp. unfold declared in *.
      apply elem_of_dom. rewrite Ed. by apply elem_of_dom.
  - intros s0 s x s' HI0 HI [_ Hk] [Hu _] [Hx HD]. split; [done|].
    intros ρ. rewrite HD. by destruct (Hk u (proj1 Hu) Ku Hu) as [_ ->].
  - intros s x s' s'' (E1&_&_&_&_&E6&E7) [Hx HD]. split; [by apply (valid_same s')|].
    intros ρ. rewrite <- HD. by rewrite (denv_same s' s'').
Qed.

Theorem cofactor_dynamic s L u values r s' :
  sifting_ok' →
  Inv s → Counts s L → rctx s = false → max_nodes s = None →
  valid s u → heldn L (absn u) →
  Forall (fun p => is_Some (vars s !! p.1)) values →
  cofactor u true values s = (r, s') →
  r = Err EOracle ∨
  ∃ x, r = Ok x ∧ Inv s' ∧ Counts s' L ∧ rctx s' = false ∧
       (last_len s = None → last_len s' = None) ∧
       (is_Some (last_len s) → is_Some (last_len s')) ∧
       keeps (heldn L) s s' ∧
       valid s' x ∧
       ∀ ρ, denv s' x ρ = denv s u (overridev (list_to_map (reverse values)) ρ).
Proof.
  intros Hs HI HC Hc Hmx Hu Ku HF Hrun.
  change (cofactor u true values) with (try_to_reorder (cof_body u values)) in Hrun.
  destruct (try_to_reorder_correct (cof_body u values) (cof_pre u values)
              (cof_post u values) s L r s' Hs (cof_op_spec _ u values Ku) HI HC)
    as [?|(x&?&?&?&?&?&?&?&?&?)]; try done; [by left|right]. by exists x.
Qed.

(** ** [apply]: every propositional symbol of the vocabulary (not decorated
    itself; it reaches the decorated [ite]) *)
From DD Require Import C01proof.

Definition oref (L : positive → nat) (o : option Z) : Prop :=
  match o with Some x => heldn L (absn x) | None => True end.

Lemma eval_operand_ref L o u v w :
  heldn L (absn u) → oref L v → oref L w →
  heldn L (absn (eval_operand o u (default 0%Z v) (default 0%Z w))).
Proof.
  intros Ku Kv Kw. induction o as [| | |o IH| |]; cbn [eval_operand].
  - done.
  - destruct v; [done|by left].
  - destruct w; [done|by left].
  - by rewrite absn_neg.
  - by left.
  - by left.
Qed.

Theorem apply_with_dynamic tbl op u v w s L t r s' :
  sifting_ok' →
  Inv s → Counts s L → rctx s = false → max_nodes s = None →
  valid s u → ovalid s v → ovalid s w →
  heldn L (absn u) → oref L v → oref L w →
  arity_ok op v w = true →
  find_template tbl op = Some t → avail (template_uses t) v w →
  (∀ fa a b, t ≠ TQuant fa a b) →
  apply_with tbl op u v w s = (r, s') →
  r = Err EOracle ∨
  ∃ x, r = Ok x ∧ Inv s' ∧ Counts s' L ∧ rctx s' = false ∧
       (last_len s = None → last_len s' = None) ∧
       (is_Some (last_len s) → is_Some (last_len s')) ∧
       keeps (heldn L) s s' ∧
       valid s' x ∧
       ∀ ρ, Some (denv s' x ρ) =
            template_sem t (denv s u ρ) (denv s (default 0%Z v) ρ) (denv s (default 0%Z w) ρ).
Proof.
  intros Hs HI HC Hc Hmx Hu Hv Hw Ku Kv Kw Har Hft Hav Hnq. unfold apply_with, ensure.
  rewrite Har. rewrite (bind_ok _ _ s tt s) by done. cbn [bind get].
  rewrite (proj2 (mem_valid s u) Hu). rewrite (bind_ok _ _ s tt s) by done.
  assert (Hmv : match v with Some v => mem v s | None => true end = true).
  { destruct v; [|done]. by apply mem_valid. }
  assert (Hmw : match w with Some w => mem w s | None => true end = true).
  { destruct w; [|done]. by apply mem_valid. }
  rewrite Hmv, Hmw. rewrite !(bind_ok _ _ s tt s) by done. rewrite Hft.
  destruct t as [o|a b c|fa a b]; [| |by destruct (Hnq fa a b)].
  - intros [= <- <-]. right.
    destruct (eval_operand_spec s o u v w HI Hu Hv Hw Hav) as [Hval HD].
    eexists. do 6 (split; [done|]). split; [by apply keeps_extends|]. split; [done|].
    intros ρ. cbn [template_sem]. unfold denv. by rewrite HD.
  - cbn in Hav.
    destruct (eval_operand_spec s a u v w HI Hu Hv Hw (avail_por_l _ _ _ _ Hav)) as [Va Da].
    destruct (eval_operand_spec s b u v w HI Hu Hv Hw
                (avail_por_l _ _ _ _ (avail_por_r _ _ _ _ Hav))) as [Vb Db].
    destruct (eval_operand_spec s c u v w HI Hu Hv Hw
                (avail_por_r _ _ _ _ (avail_por_r _ _ _ _ Hav))) as [Vc Dc].
    intros Hrun.
    apply (ite_dynamic s L) in Hrun as [->|(x&->&?&?&?&?&?&?&?&HD)];
      try done; try (by apply eval_operand_ref); [by left|right].
    exists x. do 8 (split; [done|]).
    intros ρ. cbn [template_sem]. rewrite HD. unfold denv. by rewrite Da, Db, Dc.
Qed.

Theorem apply_dynamic s L op u v w r s' f :
  sifting_ok' →
  Inv s → Counts s L → rctx s = false → max_nodes s = None →
  op ∈ py_vocab → conn_sem op = Some f →
  valid s u → ovalid s v → ovalid s w → arity_ok op v w = true →
  heldn L (absn u) → oref L v → oref L w →
  apply op u v w s = (r, s') →
  r = Err EOracle ∨
  ∃ x, r = Ok x ∧ Inv s' ∧ Counts s' L ∧ rctx s' = false ∧
       (last_len s = None → last_len s' = None) ∧
       (is_Some (last_len s) → is_Some (last_len s')) ∧
       keeps (heldn L) s s' ∧
       valid s' x ∧
       ∀ ρ, denv s' x ρ = f (denv s u ρ) (odenv s v ρ) (odenv s w ρ).
Proof.
  intros Hs HI HC Hc Hmx Hop Hf Hu Hv Hw Har Ku Kv Kw Hrun.
  pose proof alias_table_ok as Htab. rewrite forallb_forall in Htab.
  apply elem_of_list_In in Hop. specialize (Htab op Hop). apply elem_of_list_In in Hop.
  apply orb_true_iff in Htab as [Hq|Hok].
  { exfalso. apply bool_decide_eq_true in Hq. unfold quantifier_ops in Hq.
    repeat (apply elem_of_cons in Hq as [->|Hq]; [by vm_compute in Hf|]).
    by apply elem_of_nil in Hq. }
  unfold class_uses_ok in Hok.
  destruct (find_template py_apply_table op) as [t|] eqn:Ht; [|done].
  destruct (template_uses t) as [uv uw] eqn:Hus.
  apply andb_true_iff in Hok as [Hcl Hsem]. rewrite Hf in Hsem.
  rewrite forallb_forall in Hsem.
  assert (Hsem' : ∀ b1 b2 b3, template_sem t b1 b2 b3 = Some (f b1 b2 b3)).
  { intros b1 b2 b3.
    pose proof (Hsem (b1, b2, b3) (proj1 (elem_of_list_In _ _) (bools3_all b1 b2 b3))) as H.
    by apply bool_decide_eq_true in H. }
  clear Hsem.
  destruct py_table_is_model_table as (Etab&Eu&Eb&Et).
  unfold apply in Hrun. rewrite <- Etab in Hrun.
  assert (Har' : arity_ok op v w = true) by done.
  unfold arity_ok in Har. rewrite <- Eu, <- Eb, <- Et in Har.
  assert (Hav : avail (template_uses t) v w).
  { rewrite Hus. unfold avail. cbn.
    destruct (bool_decide (op ∈ py_unary)).
    - apply andb_true_iff in Hcl as [?%negb_true_iff ?%negb_true_iff]. split; congruence.
    - destruct (bool_decide (op ∈ py_binary)).
      + apply negb_true_iff in Hcl. apply bool_decide_eq_true in Har as [? ?]. split; congruence.
      + rewrite Hcl in Har. apply bool_decide_eq_true in Har as [? ?]. by split. }
  assert (Hnq : ∀ fa a b, t ≠ TQuant fa a b).
  { intros fa a b ->. by specialize (Hsem' true true true). }
  destruct (apply_with_dynamic py_apply_table op u v w s L t r s'
              Hs HI HC Hc Hmx Hu Hv Hw Ku Kv Kw Har' Ht Hav Hnq Hrun)
    as [->|(x&->&?&?&?&?&?&?&?&HD)]; [by left|right].
  exists x. do 8 (split; [done|]).
  intros ρ. specialize (HD ρ). rewrite Hsem' in HD. injection HD as ->.
  destruct (bool_decide (op ∈ py_unary)) eqn:Hcu.
  + apply bool_decide_eq_true in Hcu. apply (conn_unary op f Hf Hcu).
  + destruct (bool_decide (op ∈ py_binary)) eqn:Hcb.
    * apply bool_decide_eq_true in Hcb, Har. destruct Har as [Hvn ->].
      destruct v as [v|]; [|done]. cbn [default odenv].
      apply (conn_binary op f Hf Hcb).
    * rewrite Hcl in Har. apply bool_decide_eq_true in Har as [? ?].
      destruct v as [v|], w as [w|]; done.
Qed.

(** ** The hypothesis "operands are held" is necessary.  The same history
    with f = 10 NOT held ([OIncref 10] omitted): the aborted first attempt
    is followed by sifting, whose initial collection frees node 10; the
    second attempt fails with [KeyError] (dynamic reordering stays enabled:
    the wrapper restores the threshold whatever the outcome of the retry,
    since the repair of dd's [_try_to_reorder]).  Without the trigger the call
    succeeds. *)
Example unheld_operand_lost :
  let hist := [ONew [(0, 0); (1, 1); (2, 2); (3, 3)];
     OVar 0; OIncref 2; OVar 1; OIncref 3; OVar 2; OIncref 4; OVar 3; OIncref 5;
     OApply "and" 2 (Some 4%Z) None; OIncref 6;
     OApply "and" 3 (Some 5%Z) None; OIncref 7;
     OApply "or" 6 (Some 7%Z) None;
     OConfigure (Some true)] in
  let w0 := run_ops hist in
  let w1 := fst (step w0 0 (OSetTrig (Some 1))) in
  let o := OApply "and" 10 (Some 3%Z) None in
  mem 10 (world_get w0 0) = true ∧
  snd (step w0 0 o) = Ok (VZ 12) ∧
  snd (step w1 0 o) = Err EKey ∧
  last_len (world_get w1 0) = Some 100 ∧
  bool_decide (is_Some (last_len (world_get (fst (step w1 0 o)) 0))) = true.
Proof. by vm_compute. Qed.

(** ** Why the premise speaks of HELD nodes only.
    With "reachable from a held node" in place of "held" the premise is
    false of the model.  Manager built by public calls: f = (v0 /\ v1) \/ v2
    is node 7 and is held; its high child 6 = v1 \/ v2 and the variable
    node 4 = v2 are reachable from 7 and not held.  Sifting succeeds, ends
    in the original order, keeps 7 (same number, same function), but node 6
    is freed and number 4 now carries v1 \/ v2. *)
From DD Require Import Total.

Definition rx_ops : list op :=
  [OVar 0; OVar 1; OVar 2;
   OApply "and" 2%Z (Some 3%Z) None; OApply "or" 5%Z (Some 4%Z) None;
   OIncref 7%Z; OGc None].
Definition rx_st : st :=
  world_get (Total.run world_empty 0 (ONew [(0, 0); (1, 1); (2, 2)] :: rx_ops)) 0.

Lemma rx_good : Good rx_st.
Proof.
  apply run_inv_from_new; [by vm_compute|].
  cbn [rx_ops hist_ok caller_ok]. repeat split; by vm_compute.
Qed.

Theorem sifting_ok_reach_false : ¬ sifting_ok_reach.
Proof.
  intros H. destruct rx_good as (HI&Hll&L&HC).
  assert (HL7 : 0 < L 7%positive).
  { destruct HC as [HC1 _].
    assert (succ rx_st !! 7%positive = Some (Triple 0 4 6)) as E7 by (by vm_compute).
    assert (7%positive ∈ dom (succ rx_st)) as Hd
      by (apply (proj2 (elem_of_dom (succ rx_st) 7%positive)); by rewrite E7).
    specialize (HC1 _ Hd).
    assert (refc rx_st !! 7%positive = Some 1) as E1 by (by vm_compute).
    assert (indeg (succ rx_st) 7%positive = 0) as E2 by (by vm_compute).
    rewrite E1, E2 in HC1. injection HC1. lia. }
  assert (Hreach : reach (succ rx_st) (fun k => 0 < L k) 6%positive).
  { change 6%positive with (absn (t_hi (Triple 0 4 6))).
    apply (reach_hi _ _ 7%positive); [|by vm_compute|done].
    apply reach_root; [done|].
    apply (proj2 (elem_of_dom (succ rx_st) 7%positive)). exists (Triple 0 4 6). by vm_compute. }
  assert (Hv6 : valid rx_st 6).
  { split; [done|]. exists (Triple 1 4 1). by vm_compute. }
  assert (Hout : fst (reorder None rx_st) = Ok tt ∧
                 succ (snd (reorder None rx_st)) !! 6%positive = None)
    by (vm_compute; split; reflexivity).
  destruct (reorder None rx_st) as [r s'] eqn:E. cbn [fst snd] in Hout.
  destruct Hout as [-> Hgone].
  destruct (H rx_st L (Ok tt) s' HI HC Hll E) as [[=]|(_&_&_&_&_&_&_&Hk)].
  destruct (Hk 6%Z ltac:(done) (or_intror Hreach) Hv6) as [[_ [t Ht]] _].
  change (absn 6) with 6%positive in Ht. congruence.
Qed.

(** the same in a dynamic-reordering run: the forced trigger fires inside
    [apply "xor" f TRUE]; afterwards the held node 7 has its number and its
    truth table, the result is [~f], requests are on again -- but the
    reachable, unheld node 6 is gone and number 4 denotes another function *)
Example unheld_inner_node_replaced :
  let w0 := run_ops [ONew [(0, 0); (1, 1); (2, 2)]; OVar 0; OVar 1; OVar 2;
                     OApply "and" 2 (Some 3%Z) None; OApply "or" 5 (Some 4%Z) None;
                     OIncref 7; OConfigure (Some true)] in
  let w1 := fst (step w0 0 (OSetTrig (Some 1))) in
  let '(wB, rB) := step w1 0 (OApply "xor" 7 (Some 1%Z) None) in
  let s := world_get w0 0 in let sB := world_get wB 0 in
  succ s !! 7%positive = Some (Triple 0 4 6) ∧ succ s !! 6%positive = Some (Triple 1 4 1) ∧
  refc s !! 7%positive = Some 1 ∧
  rB = Ok (VZ (-7)) ∧ trig sB = None ∧ last_len sB = Some 8 ∧
  map_to_list (vars sB) = map_to_list (vars s) ∧
  table 3 sB (Ok (VZ 7)) = table 3 s (Ok (VZ 7)) ∧
  succ sB !! 6%positive = None ∧
  succ sB !! 7%positive = Some (Triple 0 3 4) ∧
  mem 4 sB = true ∧ table 3 sB (Ok (VZ 4)) ≠ table 3 s (Ok (VZ 4)).
Proof. vm_compute. by split_and!. Qed.
