(** Extraction of the executable model for the correspondence check.
    Directives: those of [ExtrOcamlBasic] only ([bool], [option], [unit],
    [list], [prod], [sumbool], [sumor] mapped to the OCaml types; [andb],
    [orb], [fst], [snd] inlined).  Numbers, strings and maps stay Coq
    datatypes.  Extraction is used for the correspondence check only, never
    to establish a theorem. *)
From DD Require Import Driver5 Driver6 Consistent Driver7 Driver8 Copying CopyFn.
Require Extraction.
Require Import ExtrOcamlBasic.
Extraction Language OCaml.
Extraction "model.ml" step2 digest world2_empty world2_get astep adigest aworld_empty aworld_get step_expr step_to_expr astep_expr astep_to_expr parse_show mstep mworld_empty mworld_get mdigest step_bdd_to_mdd step_dddmp astep_json_dump astep_json_load step_consistent astep_consistent step_expr_text astep_expr_text lex_show_text parse_show_text step_expr_lr astep_expr_lr step_copy_manager step_reduction astep_copy_fn astep_add_var.
