(** * Driver5: MDD managers, [bdd_to_mdd], and [dddmp.load]. *)
From DD Require Export Driver4 Mdd Dddmp.
Local Open Scope string_scope.

Inductive mop :=
  | MNew (dvars : list (nat * (nat * nat)))
  | MFindOrAdd (i : nat) (nodes : list Z)
  | MIte (g u v : Z)
  | MApply (o : string) (u : Z) (v w : option Z)
  | MIncref (u : Z) | MDecref (u : Z) | MRef (u : Z)
  | MGc
  | MTape (t : list positive).

Definition mworld := gmap nat mst.
Definition mworld_empty : mworld := ∅.
Definition empty_mst : mst := MSt ∅ ∅ ∅ 1%positive ∅ ∅ ∅ [].
Definition mworld_get (w : mworld) (m : nat) : mst := default empty_mst (w !! m).

Definition run_mop (o : mop) : MM value :=
  match o with
  | MNew dvars => modify (fun _ => mdd_init dvars) ;;; ret VU
  | MFindOrAdd i nodes => r <- m_find_or_add i nodes ;; ret (VZ r)
  | MIte g u v => r <- m_ite_ g u v ;; ret (VZ r)
  | MApply o u v w => r <- mdd_apply_with mdd_apply_table o u v w ;; ret (VZ r)
  | MIncref u => m_incref u ;;; ret VU
  | MDecref u => m_decref u ;;; ret VU
  | MRef u => r <- m_ref u ;; ret (VN r)
  | MGc => m_collect_garbage ;;; ret VU
  | MTape t => modify (fun s => s <| mtape := t |>) ;;; ret VU
  end.

Definition mstep (w : mworld) (m : nat) (o : mop) : mworld * res value :=
  let s := mworld_get w m in
  let '(r, s') := run_mop o s in
  let s' := match o with MTape _ => s' | _ => s' <| mtape := [] |> end in
  (<[m := s']> w, r).

(** [bdd_to_mdd(bdd_k, dvars)]: changes BDD manager [k] (collection and
    reordering) and creates MDD manager [m] *)
Definition step_bdd_to_mdd (w : world2) (mw : mworld) (k m : nat)
    (dvars : list (nat * (nat * list nat))) (order : list positive)
  : world2 * mworld * res value :=
  let s := world2_get w k in
  match bdd_to_mdd dvars order s with
  | (Ok (mdd, umap), s') =>
      (w <| w_mgrs ::= <[k := s' <| tape := [] |>]> |>, <[m := mdd]> mw,
       Ok (VL ((fun '(u, x) => VL [VZ (Z.pos u); VZ x]) <$> umap)))
  | (Err e, s') => (w <| w_mgrs ::= <[k := s' <| tape := [] |>]> |>, mw, Err e)
  end.

(** [dddmp.load(file)]: a new BDD manager [m] *)
Definition step_dddmp (w : world2) (m : nat) (h : dheader) (nodes : list dnode)
  : world2 * res value :=
  let '(r, s') := dddmp_load h nodes empty_st in
  (w <| w_mgrs ::= <[m := s']> |>,
   match r with
   | Ok _ => Ok (VL (VZ <$> merge_sort Z.le (roots s')))
   | Err e => Err e
   end).

Record mdig := MDig {
  md_succ : list (positive * (nat * list Z));
  md_pred : list ((nat * list Z) * positive);
  md_ref : list (positive * nat);
  md_max : positive;
  md_free : list positive;
  md_ite : list ((Z * Z * Z) * Z);
}.
Definition mdigest (s : mst) : mdig :=
  MDig (map_to_list (msucc s)) (map_to_list (mpred s)) (map_to_list (mref s))
       (mmax s) (elements (mfree s)) (map_to_list (mite s)).
