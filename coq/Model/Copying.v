(** * Copying: [BDD.__copy__] (used by [copy.copy(bdd)]) and [BDD.reduction]
      (a reduced copy rebuilt bottom-up with [find_or_add]); both create a NEW
      manager from the variables of the old one ([BDD(self.vars)]).
      [vorder]: iteration order of the [vars] dict; [order]: iteration order of
      the [_succ] dict (both recorded from the implementation and checked to
      be permutations). *)
From DD Require Export Driver6.

(** [BDD(levels)] for the variables of [s] declared in the order [vorder] *)
Definition new_like (vorder : list nat) (s : st) : res st :=
  if negb (bool_decide (NoDup vorder ∧ (list_to_set vorder : gset nat) = dom (vars s)))
  then Err EOracle else
  let levels := omap (fun v => (fun l => (v, l)) <$> vars s !! v) vorder in
  match init_levels levels init with
  | (Ok _, b) => Ok b
  | (Err e, _) => Err e
  end.

(** [__copy__]: the node tables, counts, free index and roots are copied; the
    computed table starts empty and dynamic reordering is off in the copy;
    [max_nodes] is copied *)
Definition copy_manager (vorder : list nat) (s : st) : res st :=
  match new_like vorder s with
  | Err e => Err e
  | Ok b => Ok (b <| Base.pred := Base.pred s |> <| Base.succ := Base.succ s |> <| refc := refc s |>
                  <| min_free := min_free s |> <| roots := roots s |>
                  <| max_nodes := max_nodes s |>)
  end.

(** one node of [reduction]: [umap] maps old nodes to references of [b] *)
Definition reduce_node (s : st) (u : positive) (acc : gmap positive Z * st)
  : res (gmap positive Z * st) :=
  let '(umap, b) := acc in
  match Base.succ s !! u with
  | None => Err EKey
  | Some t =>
      match umap !! absn (t_lo t), umap !! absn (t_hi t) with
      | Some p, Some q =>
          match find_or_add (t_lvl t) (Base.flip p (t_lo t)) (Base.flip q (t_hi t)) b with
          | (Ok r, b') => if decide (0 < r)%Z then Ok (<[u := r]> umap, b') else Err EAssert
          | (Err e, _) => Err e
          end
      | _, _ => Err EKey
      end
  end.

Fixpoint reduce_nodes (s : st) (us : list positive) (acc : gmap positive Z * st)
  : res (gmap positive Z * st) :=
  match us with
  | [] => Ok acc
  | u :: us => match reduce_node s u acc with
               | Ok acc' => reduce_nodes s us acc'
               | Err e => Err e
               end
  end.

(** [reduction()]: levels from the bottom variable up to level 0, inside a
    level in the dict order of [_succ]; the roots are translated.  The method
    carries the retry decorator, but every node is created in the new manager,
    where dynamic reordering is off: the old manager is only read. *)
Definition reduction (vorder : list nat) (order : list positive) : MS st :=
  try_to_reorder (
    s <- get ;;
    if negb (bool_decide (NoDup order ∧ (list_to_set order : gset positive) = dom (Base.succ s)))
    then raise EOracle else
    b0 <- (match new_like vorder s with Ok b => ret b | Err e => raise e end) ;;
    let n := nvars s in
    let by_level := (fun i => filter (fun u => bool_decide ((t_lvl <$> Base.succ s !! u) = Some i)) order)
                    <$> reverse (seq 0 n) in
    r <- (match reduce_nodes s (concat by_level) ({[1%positive := 1%Z]}, b0) with
          | Ok x => ret x | Err e => raise e end) ;;
    let '(umap, b) := r in
    rs <- mapM (fun v => p <- of_opt EKey (umap !! absn v) ;; ret (Base.flip p v)) (roots s) ;;
    ret (b <| roots := remove_dups (merge_sort Z.le rs) |>)).

(** world steps: manager [m] becomes the copy / the reduction of manager [src] *)
Definition step_copy_manager (w : world2) (m src : nat) (vorder : list nat)
  : world2 * res value :=
  match copy_manager vorder (world2_get w src) with
  | Ok b => (w <| w_mgrs ::= <[m := b]> |>, Ok VU)
  | Err e => (w, Err e)
  end.

Definition step_reduction (w : world2) (m src : nat) (vorder : list nat) (order : list positive)
  : world2 * res value :=
  let s := world2_get w src in
  match reduction vorder order s with
  | (Ok b, s') =>
      (w <| w_mgrs ::= <[m := b]> |> <| w_mgrs ::= <[src := s' <| tape := [] |>]> |>, Ok VU)
  | (Err e, s') => (w <| w_mgrs ::= <[src := s' <| tape := [] |>]> |>, Err e)
  end.
