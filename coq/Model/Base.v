(** * Base: data types, the state-retaining error monad, the manager record.

    Executable model of [dd.bdd.BDD] (tulip-control/dd).  No proofs in
    [Model/]: the model must still run (and extract) when a proof breaks.

    Python                      Gallina
    node id (int >= 1)          positive
    reference (signed int)      Z        (sign = complement bit)
    level                       nat
    variable name               nat      (the harness names variables v0, v1, ...)
    (level, low, high)          triple   (terminal: low = high = 0 for None)
*)
From stdpp Require Export gmap numbers list.
From Coq Require Export ZArith Lia.
From RecordUpdate Require Export RecordSet.
Export RecordSetNotations.

Record triple := Triple { t_lvl : nat; t_lo : Z; t_hi : Z }.
Global Instance triple_eq_dec : EqDecision triple.
Proof. solve_decision. Defined.
Global Instance triple_countable : Countable triple.
Proof.
  refine (inj_countable' (fun t => (t_lvl t, t_lo t, t_hi t))
            (fun '(a, b, c) => Triple a b c) _).
  by intros [].
Defined.

(** Python exception classes that the modelled code can raise.
    [ENeedsReordering] is [dd.bdd._NeedsReordering]; [EFuel] and [EOracle]
    have no Python counterpart (fuel exhaustion; an iteration-order oracle
    that is not a permutation of the set it stands for). *)
Inductive err :=
  | ENeedsReordering | EValue | EAssert | EKey | EType | ERuntime
  | EFuel | EOracle.
Global Instance err_eq_dec : EqDecision err.
Proof. solve_decision. Defined.

Inductive res (A : Type) := Ok (a : A) | Err (e : err).
Arguments Ok {A}. Arguments Err {A}.

(** ** The monad.  An exception keeps the state reached at the raise point. *)
Definition M (S A : Type) := S -> res A * S.
Definition ret {S A} (a : A) : M S A := fun s => (Ok a, s).
Definition bind {S A B} (m : M S A) (f : A -> M S B) : M S B :=
  fun s => match m s with
           | (Ok a, s') => f a s'
           | (Err e, s') => (Err e, s')
           end.
Definition raise {S A} (e : err) : M S A := fun s => (Err e, s).
Notation "x <- m ;; k" := (bind m (fun x => k))
  (at level 100, m at next level, right associativity, only parsing).
Notation "m ;;; k" := (bind m (fun _ => k))
  (at level 100, right associativity, only parsing).
Definition get {S} : M S S := fun s => (Ok s, s).
Definition gets {S A} (f : S -> A) : M S A := fun s => (Ok (f s), s).
Definition modify {S} (f : S -> S) : M S unit := fun s => (Ok tt, f s).
Definition assert {S} (b : bool) : M S unit :=
  if b then ret tt else raise EAssert.
Definition ensure {S} (e : err) (b : bool) : M S unit :=
  if b then ret tt else raise e.
Definition of_opt {S A} (e : err) (o : option A) : M S A :=
  match o with Some a => ret a | None => raise e end.
(** [catch m] never fails: it reifies the outcome (used for [with] blocks). *)
Definition catch {S A} (m : M S A) : M S (res A) :=
  fun s => let '(r, s') := m s in (Ok r, s').
Definition reraise {S A} (r : res A) : M S A :=
  match r with Ok a => ret a | Err e => raise e end.

Fixpoint forM {S A} (l : list A) (f : A -> M S unit) : M S unit :=
  match l with [] => ret tt | a :: l => f a ;;; forM l f end.
Fixpoint mapM {S A B} (f : A -> M S B) (l : list A) : M S (list B) :=
  match l with
  | [] => ret []
  | a :: l => b <- f a ;; bs <- mapM f l ;; ret (b :: bs)
  end.
Fixpoint foldM {S A B} (f : B -> A -> M S B) (b : B) (l : list A) : M S B :=
  match l with [] => ret b | a :: l => b' <- f b a ;; foldM f b' l end.

Definition absn (u : Z) : positive := Z.to_pos (Z.abs u).
(** [_flip(r, u)]: negate [r] when [u] is complemented. *)
Definition flip (r u : Z) : Z := if decide (u < 0)%Z then (- r)%Z else r.

(** ** The manager *)
Record st := St {
  succ : gmap positive triple;        (* _succ *)
  pred : gmap triple positive;        (* _pred *)
  refc : gmap positive nat;           (* _ref *)
  min_free : positive;                (* _min_free *)
  ite_tab : gmap (Z * Z * Z) Z;       (* _ite_table *)
  vars : gmap nat nat;                (* vars : name -> level *)
  lvl2var : gmap nat nat;             (* _level_to_var *)
  last_len : option nat;              (* _last_len *)
  rctx : bool;                        (* _reordering_context *)
  roots : list Z;                     (* roots (as a list without duplicates) *)
  tape : list (list positive);        (* iteration-order oracle (see Reorder) *)
  trig : option nat;                  (* forced reordering trigger (see Core) *)
  max_nodes : option positive;        (* max_nodes ([None]: [sys.maxsize]) *)
}.
Global Instance eta_st : Settable _ :=
  settable! St <succ; pred; refc; min_free; ite_tab; vars; lvl2var;
                last_len; rctx; roots; tape; trig; max_nodes>.

Notation MS := (M st).

Definition nvars (s : st) : nat := size (vars s).
Definition len (s : st) : nat := size (succ s).
Definition tterm (n : nat) : triple := Triple n 0 0.
Definition is_term (t : triple) : bool := bool_decide (t_lo t = 0%Z).

Definition getsucc (n : positive) : MS triple :=
  fun s => match succ s !! n with
           | Some t => (Ok t, s)
           | None => (Err EKey, s)
           end.
Definition getref (n : positive) : MS nat :=
  fun s => match refc s !! n with
           | Some t => (Ok t, s)
           | None => (Err EKey, s)
           end.
(** [self._succ[abs(u)]] for a reference; [abs(0) = 0] is never a node *)
Definition getsuccZ (u : Z) : MS triple :=
  if decide (u = 0%Z) then raise EKey else getsucc (absn u).
(** [abs(u) in self._succ] *)
Definition mem (u : Z) (s : st) : bool :=
  bool_decide (u ≠ 0%Z ∧ is_Some (succ s !! absn u)).
(** level of the node of reference [u]; [self._succ[abs(u)][0]] *)
Definition level_of (u : Z) : MS nat := t <- getsuccZ u ;; ret (t_lvl t).
(** total variant used only by specifications *)
Definition lvl_of (s : st) (u : Z) : nat :=
  match succ s !! absn u with Some t => t_lvl t | None => 0 end.
