(** * Lexer: the character-level lexer of dd/_parser.py (PLY), driven by the
      rule list regenerated from the source ([Generated/LexerRules.v]) and the
      alias/reserved tables ([Generated/ParserTables.v]).

    PLY builds one master regular expression `(?P<t_A>..)|(?P<t_B>..)|...`
    from the rules in the order given by [lex_rules]; at every position it
    first skips the characters of [t_ignore] (space, tab), then takes the
    FIRST alternative that matches (Python's `re`: ordered alternation, also
    inside a rule); a rule function that returns [None] (comments, newlines)
    discards the text; no match raises "Illegal character". *)
From DD Require Export Parser LexRules.
Local Open Scope string_scope.

Fixpoint strip_prefix (p s : string) : option string :=
  match p with
  | EmptyString => Some s
  | String a p' =>
      match s with
      | String b s' => if decide (a = b) then strip_prefix p' s' else None
      | EmptyString => None
      end
  end.

(** first literal alternative that is a prefix *)
Fixpoint match_lit (alts : list string) (s : string) : option (string * string) :=
  match alts with
  | [] => None
  | a :: alts =>
      match strip_prefix a s with
      | Some rest => if decide (a = "") then match_lit alts s else Some (a, rest)
      | None => match_lit alts s
      end
  end.

(** longest run of characters satisfying [p] *)
Fixpoint span (p : Ascii.ascii -> bool) (s : string) : string * string :=
  match s with
  | EmptyString => ("", "")
  | String a s' =>
      if p a then let '(run, rest) := span p s' in (String a run, rest)
      else ("", s)
  end.

Definition is_newline (a : Ascii.ascii) : bool := bool_decide (Ascii.nat_of_ascii a = 10).
Definition is_ignored (a : Ascii.ascii) : bool :=
  bool_decide (Ascii.nat_of_ascii a = 32 ∨ Ascii.nat_of_ascii a = 9).

(** what follows the first occurrence of [cl] (shortest match of `[\s\S]*?cl`) *)
Fixpoint after_close (cl : string) (s : string) : option string :=
  match strip_prefix cl s with
  | Some rest => Some rest
  | None => match s with
            | EmptyString => None
            | String _ s' => after_close cl s'
            end
  end.

Definition reserved_type (reserved : list (string * string)) (text : string) : string :=
  default "NAME" ((fun kv : string * string => kv.2) <$>
                  (snd <$> list_find (fun kv : string * string => bool_decide (kv.1 = text)) reserved)).

(** one rule at the head of [s]: [None] no match; [Some (tok, rest)] with
    [tok = None] for discarded text *)
Definition match_rule (lt : lex_table) (reserved : list (string * string))
    (r : lrule) (s : string) : option (option token * string) :=
  match r with
  | RLit _ _ alts =>
      match match_lit alts s with
      | Some (a, rest) =>
          match list_find (fun kv : string * (string * string) => bool_decide (kv.1 = a)) lt with
          | Some (_, (_, (t, v))) => Some (Some (Tok t v), rest)
          | None => None
          end
      | None => None
      end
  | RName =>
      match s with
      | String a s' =>
          if is_name_start a then
            let '(run, rest) := span is_name_char s' in
            let text := String a run in
            Some (Some (Tok (reserved_type reserved text) text), rest)
          else None
      | EmptyString => None
      end
  | RNumber =>
      let '(run, rest) := span is_digit s in
      if decide (run = "") then None else Some (Some (Tok "NUMBER" run), rest)
  | RLineComment start =>
      match strip_prefix start s with
      | Some rest =>
          if decide (start = "") then None else
          Some (None, snd (span (fun a => negb (is_newline a)) rest))
      | None => None
      end
  | RBlockComment op cl =>
      match strip_prefix op s with
      | Some rest =>
          if decide (op = "") then None else
          match after_close cl rest with
          | Some rest' => Some (None, rest')
          | None => None
          end
      | None => None
      end
  | RNewline =>
      let '(run, rest) := span is_newline s in
      if decide (run = "") then None else Some (None, rest)
  end.

Fixpoint first_rule (lt : lex_table) (reserved : list (string * string))
    (rules : list lrule) (s : string) : option (option token * string) :=
  match rules with
  | [] => None
  | r :: rules =>
      match match_rule lt reserved r s with
      | Some x => Some x
      | None => first_rule lt reserved rules s
      end
  end.

(** the whole input; [None]: illegal character *)
Fixpoint lexc_loop (fuel : nat) (lt : lex_table) (reserved : list (string * string))
    (rules : list lrule) (s : string) (acc : list token) : option (list token) :=
  match fuel with
  | O => None
  | S f =>
      let s := snd (span is_ignored s) in
      match s with
      | EmptyString => Some (reverse acc)
      | _ =>
          match first_rule lt reserved rules s with
          | Some (tok, rest) =>
              (* every rule consumes at least one character *)
              if decide (String.length rest < String.length s) then
                lexc_loop f lt reserved rules rest
                  (match tok with Some t => t :: acc | None => acc end)
              else None
          | None => None
          end
      end
  end.

Definition lexc (lt : lex_table) (reserved : list (string * string)) (rules : list lrule)
    (s : string) : option (list token) :=
  lexc_loop (S (String.length s)) lt reserved rules s [].

(** [add_expr(text)] from the raw text *)
Definition add_expr_text (lt : lex_table) (reserved : list (string * string))
    (rules : list lrule) (P : prec_table) (text : string) : MS Z :=
  try_to_reorder (
    ts <- of_opt EValue (lexc lt reserved rules text) ;;
    a <- of_opt EValue (parse P ts) ;;
    eval_ast a).
