(** * LexRules: the shape of a rule of the character-level lexer (the rules
      themselves are regenerated from dd/_parser.py: [Generated/LexerRules.v]) *)
From stdpp Require Export base strings.

Inductive lrule :=
  | RLit (ty : string) (is_function_rule : bool) (alts : list string)
      (* one of the literal alternatives, tried in order *)
  | RName                                  (* [A-Za-z_][A-Za-z0-9_'.]* ; reserved words by table *)
  | RNumber                                (* \d+ *)
  | RLineComment (start : string)          (* start, then everything up to the end of the line *)
  | RBlockComment (op cl : string)         (* op [\s\S]*? cl : shortest; no match without cl *)
  | RNewline.                              (* \n+ *)
