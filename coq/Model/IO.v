(** * IO: pickle dump/load of roots, whole-manager pickle.  The model works
      on the data written ([pickle] itself is a trusted container). *)
From DD Require Export Sat.

Inductive rootsC :=
  | RNone
  | RList (l : list Z)
  | RDict (d : list (nat * Z)).     (* keys: names of the roots (ids), dict order *)

Definition roots_values (r : rootsC) : list Z :=
  match r with RNone => [] | RList l => l | RDict d => d.*2 end.

(** contents of a pickle written by [_dump_bdd] *)
Record pfile := PFile {
  pf_vars : list (nat * nat);             (* vars, dict order *)
  pf_succ : list (positive * triple);     (* succ, dict order *)
  pf_roots : rootsC;
}.

(** [_dump_bdd(roots, filename)].  [order]: iteration order of the node set
    (a Python set for named roots, the [_succ] dict otherwise); [vorder]:
    iteration order of the [vars] dict.  Both are read back from the file
    by the harness and checked here to be permutations. *)
Definition dump_pickle (roots : rootsC) (order : list positive) (vorder : list nat)
  : MS pfile :=
  s <- get ;;
  nodes <- match roots with
           | RNone => ret (dom (succ s))
           | _ => descendants (roots_values roots)
           end ;;
  if negb (bool_decide (NoDup order ∧ (list_to_set order : gset positive) = nodes))
  then raise EOracle else
  if negb (bool_decide (NoDup vorder ∧ (list_to_set vorder : gset nat) = dom (vars s)))
  then raise EOracle else
  sl <- mapM (fun k => t <- getsucc k ;; ret (k, t)) order ;;
  vl <- mapM (fun v => l <- level_of_var v ;; ret (v, l)) vorder ;;
  ret (PFile vl sl roots).

(** [_load(u, succ, umap, level_map)] *)
Fixpoint load_rec (fuel : nat) (u : Z) (fsucc : gmap positive triple)
    (umap : gmap positive Z) (level_map : gmap nat nat) : MS (Z * gmap positive Z) :=
  match fuel with
  | O => raise EFuel
  | S f =>
      if decide (u = 0%Z) then raise EType else
      if decide (absn u = 1%positive) then ret (u, umap) else
      (* `if u in umap`: the signed u is looked up among the positive keys *)
      match (if decide (0 < u)%Z then umap !! absn u else None) with
      | Some r => ret (flip r u, umap)
      | None =>
          t <- of_opt EKey (fsucc !! absn u) ;;
          j <- of_opt EKey (level_map !! t_lvl t) ;;
          pc <- load_rec f (t_lo t) fsucc umap level_map ;; let '(p, umap) := pc in
          qc <- load_rec f (t_hi t) fsucc umap level_map ;; let '(q, umap) := qc in
          (* `p`, `q` can be above level `j` when the variables are in another
             order here: the node is rebuilt through [ite] on the variable *)
          g <- find_or_add j (-1) 1 ;;
          r <- ite g q p ;;
          ret (flip r u, <[absn u := r]> umap)
      end
  end.

(** [_load_pickle(filename, levels)] *)
Definition load_pickle_nodes (pf : pfile) (levels : bool) : MS (gmap positive Z) :=
  let n := length (pf_vars pf) in
  lm <- foldM (fun (lm : gmap nat nat) '(v, i) =>
          assert (bool_decide (i < n)) ;;;
          j <- add_var v (if levels then Some i else None) ;;
          ret (<[i := j]> lm)) ∅ (pf_vars pf) ;;
  let fsucc : gmap positive triple := list_to_map (pf_succ pf) in
  (* reordering requests are disabled while the nodes are rebuilt *)
  guarded (
  foldM (fun umap '(u, _) =>
    if decide (is_Some (umap !! u)) then ret umap else
    r <- load_rec (S (length (pf_succ pf))) (Z.pos u) fsucc umap lm ;;
    ret (snd r)) ({[1%positive := 1%Z]} : gmap positive Z) (pf_succ pf)).

(** [load(filename, levels)]: maps the roots through [umap] *)
Definition load_pickle (pf : pfile) (levels : bool) : MS rootsC :=
  umap <- load_pickle_nodes pf levels ;;
  let map_node (u : Z) : MS Z :=
    if decide (u = 0%Z) then raise EKey else
    v <- of_opt EKey (umap !! absn u) ;; ret (flip v u) in
  match pf_roots pf with
  | RNone => ret RNone
  | RList l => l' <- mapM map_node l ;; ret (RList l')
  | RDict d => d' <- mapM (fun '(k, u) => u' <- map_node u ;; ret (k, u')) d ;;
               ret (RDict d')
  end.

(** whole-manager pickle: [_dump_manager] / [_load_manager] *)
Record mfile := MFile {
  mf_vars : list (nat * nat);
  mf_roots : list Z;
  mf_pred : gmap triple positive;
  mf_succ : gmap positive triple;
  mf_ref : gmap positive nat;
  mf_min_free : positive;
  mf_max_nodes : option positive;
}.

Definition dump_manager (vorder : list nat) : MS mfile :=
  s <- get ;;
  if negb (bool_decide (NoDup vorder ∧ (list_to_set vorder : gset nat) = dom (vars s)))
  then raise EOracle else
  vl <- mapM (fun v => l <- level_of_var v ;; ret (v, l)) vorder ;;
  ret (MFile vl (roots s) (pred s) (succ s) (refc s) (min_free s) (max_nodes s)).

(** [BDD._load_manager(filename)] builds a new manager *)
Definition load_manager (mf : mfile) : MS unit :=
  modify (fun _ => init) ;;;
  init_levels (mf_vars mf) ;;;
  modify (fun s => s <| roots := mf_roots mf |> <| pred := mf_pred mf |>
                     <| succ := mf_succ mf |> <| refc := mf_ref mf |>
                     <| min_free := mf_min_free mf |>
                     <| max_nodes := mf_max_nodes mf |>).
