(** * Reorder: adjacent-level [swap], sifting, reordering to an order or to
      pairs, and the [_try_to_reorder] decorator.  Mirrors dd/bdd.py. *)
From DD Require Export Core.

(** ** Iteration-order oracle.
    Python iterates over [set]s in [swap] and [_apply_sifting]; the order
    decides which integer a fresh node receives.  The model reads the order
    from the [tape] (recorded from the implementation by the harness, or
    arbitrary in theorems), checks that it is a permutation of the set, and
    falls back to the sorted order when the tape is empty. *)
Definition pop_order (X : gset positive) : MS (list positive) :=
  s <- get ;;
  match tape s with
  | [] => ret (elements X)
  | o :: rest =>
      modify (fun s => s <| tape := rest |>) ;;;
      if decide (NoDup o ∧ (list_to_set o : gset positive) = X)
      then ret o else raise EOracle
  end.

Definition levels_t := gmap nat (gset positive).

(** [_levels()] *)
Definition levels_ : MS levels_t :=
  s <- get ;;
  let n := nvars s in
  let l0 : levels_t :=
    <[n := ∅]> (map_fold (fun _ i acc => <[i := ∅]> acc) ∅ (vars s)) in
  l <- foldM (fun (acc : levels_t) '(u, t) =>
         match acc !! t_lvl t with
         | None => raise EKey
         | Some X => ret (<[t_lvl t := X ∪ {[u]}]> acc)
         end) l0 (map_to_list (succ s)) ;;
  ret (delete n l).

(** [_low_high(u)] (only the level is used by [swap]) *)
Definition low_high (u : Z) : MS (nat * Z * Z) :=
  t <- getsuccZ u ;;
  if decide (absn u = 1%positive) then ret (t_lvl t, u, u) else
  assert (negb (is_term t)) ;;;
  ret (t_lvl t, t_lo t, t_hi t).

(** [_swap_cofactor(u, y)] *)
Definition swap_cofactor (u : Z) (y : nat) : MS (nat * Z * Z) :=
  t <- getsuccZ u ;;
  if decide (y < t_lvl t) then ret (t_lvl t, u, u) else
  assert (negb (is_term t)) ;;;
  ret (y, t_lo t, t_hi t).

Definition set_node (u : positive) (r : triple) : MS unit :=
  modify (fun s => s <| succ ::= <[u := r]> |>) ;;;
  s <- get ;;
  assert (bool_decide (pred s !! r = None)) ;;;
  modify (fun s => s <| pred ::= <[r := u]> |>).

(** first loop of [swap]: pop the nodes of level [j] from [_pred] *)
Definition swap_collect (j : nat) (o : list positive)
  : MS (list (positive * (Z * Z))) :=
  mapM (fun u =>
    t <- getsucc u ;;
    assert (bool_decide (t_lvl t = j)) ;;;
    s <- get ;;
    u_ <- of_opt EKey (pred s !! t) ;;
    modify (fun s => s <| pred ::= delete t |>) ;;;
    assert (bool_decide (u = u_)) ;;;
    ret (u, (t_lo t, t_hi t))) o.

(** "move level y up" *)
Definition swap_up (x y : nat) (ly : list (positive * (Z * Z))) : MS unit :=
  forM ly (fun '(u, (v, w)) =>
    i <- level_of (Z.pos u) ;;
    assert (bool_decide (i = y)) ;;;
    set_node u (Triple x v w)).

(** "first x nodes independent of y"; returns the set [done] *)
Definition swap_indep (x y : nat) (lx : list (positive * (Z * Z)))
  : MS (gset positive) :=
  foldM (fun (done : gset positive) '(u, (v, w)) =>
    i <- level_of (Z.pos u) ;;
    assert (bool_decide (i = x)) ;;;
    assert (bool_decide (v ≠ 0%Z)) ;;; assert (bool_decide (w ≠ 0%Z)) ;;;
    c <- low_high v ;; let '(iv, _, _) := c in
    c <- low_high w ;; let '(iw, _, _) := c in
    if decide (iv <= y ∨ iw <= y) then ret done else
    set_node u (Triple y v w) ;;;
    ret (done ∪ {[u]})) ∅ lx.

(** "x nodes dependent on y"; returns [(garbage, xfresh)] *)
Definition swap_dep (x y : nat) (done : gset positive)
    (lx : list (positive * (Z * Z))) : MS (gset positive * gset positive) :=
  foldM (fun '(garbage, xfresh) '(u, (v, w)) =>
    if decide (u ∈ done) then ret (garbage, xfresh) else
    i <- level_of (Z.pos u) ;;
    assert (bool_decide (i = x)) ;;;
    assert (bool_decide (v ≠ 0%Z)) ;;; assert (bool_decide (w ≠ 0%Z)) ;;;
    decref v ;;; decref w ;;;
    let garbage : gset positive := garbage ∪ {[absn v]} ∪ {[absn w]} in
    c <- swap_cofactor v y ;; let '(iv, v0, v1) := c in
    c <- swap_cofactor w y ;; let '(iw, w0, w1) := c in
    assert (bool_decide (y <= iv ∧ y <= iw)) ;;;
    assert (bool_decide (y = iv ∨ y = iw)) ;;;
    let '(v0, v1) := if decide ((v < 0)%Z ∧ y = iv)
                     then (- v0, - v1)%Z else (v0, v1) in
    p <- find_or_add y v0 w0 ;;
    q <- find_or_add y v1 w1 ;;
    assert (bool_decide (0 <= q)%Z) ;;;
    assert (bool_decide (p ≠ q)) ;;;
    ip <- level_of p ;;
    let xfresh : gset positive :=
      if decide (ip = y) then xfresh ∪ {[absn p]} else xfresh in
    iq <- level_of q ;;
    let xfresh : gset positive :=
      if decide (iq = y) then xfresh ∪ {[absn q]} else xfresh in
    modify (fun s => s <| succ ::= <[u := Triple x p q]> |>) ;;;
    s <- get ;;
    assert (bool_decide (pred s !! Triple x p q = None)) ;;;
    modify (fun s => s <| pred ::= <[Triple x p q := u]> |>) ;;;
    incref p ;;; incref q ;;;
    ret (garbage, xfresh)) (∅, ∅) lx.

(** the pre-check of [swap] (dd 6c37b8b): [sum(map(depends_on_y, all_levels[x]))],
    the number of nodes in [all_levels[x]] with a child at level [y].  Nothing is
    written; a junk entry raises [KeyError] ([self._succ[...]]) or [TypeError]
    ([abs(None)]).  The set is visited in sorted order: the order can only decide
    WHICH of these exceptions is met first. *)
Definition child_level (v : Z) : MS nat :=
  if decide (v = 0%Z) then raise EType else t <- getsucc (absn v) ;; ret (t_lvl t).

Definition dep_count (y : nat) (Sx : gset positive) : MS nat :=
  foldM (fun (k : nat) u =>
    t <- getsucc u ;;
    iv <- child_level (t_lo t) ;;
    if decide (iv = y) then ret (S k) else
    iw <- child_level (t_hi t) ;;
    if decide (iw = y) then ret (S k) else ret k) 0 (elements Sx).

(** [not (len(self._succ) + n_new >= self.max_nodes - 1)] *)
Definition swap_fits (mx : option positive) (n k : nat) : bool :=
  match mx with
  | None => true
  | Some m => bool_decide (n + 2 * k + 1 < Pos.to_nat m)
  end.

(** [var_at_level(level)] *)
Definition var_at_level (l : nat) : MS nat :=
  s <- get ;; of_opt EValue (lvl2var s !! l).
(** [level_of_var(var)] *)
Definition level_of_var (v : nat) : MS nat :=
  s <- get ;; of_opt EValue (vars s !! v).

(** [swap(x, y, all_levels)] with [x], [y] given as levels *)
Definition swap (x y : nat) (all_levels : option levels_t)
  : MS ((nat * nat) * levels_t) :=
  al <- match all_levels with
        | Some al => ret al
        | None => collect_garbage None ;;; levels_
        end ;;
  s <- get ;;
  ensure EValue (bool_decide (x < nvars s)) ;;;
  ensure EValue (bool_decide (y < nvars s)) ;;;
  let '(x, y) := if decide (y < x) then (y, x) else (x, y) in
  ensure EValue (bool_decide (x < y)) ;;;
  ensure EValue (bool_decide (y - x = 1)) ;;;
  Sx <- of_opt EKey (al !! x) ;;
  k <- dep_count y Sx ;;
  ensure ERuntime (swap_fits (max_nodes s) (len s) k) ;;;
  let oldsize := len s in
  ox <- pop_order Sx ;;
  lx <- swap_collect x ox ;;
  Sy <- of_opt EKey (al !! y) ;;
  oy <- pop_order Sy ;;
  ly <- swap_collect y oy ;;
  swap_up x y ly ;;;
  done <- swap_indep x y lx ;;
  gf <- swap_dep x y done lx ;;
  let '(garbage, xfresh) := gf in
  vx <- var_at_level x ;;
  modify (fun s => s <| vars ::= <[vx := y]> |>) ;;;
  vy <- var_at_level y ;;
  modify (fun s => s <| vars ::= <[vy := x]> |>
                     <| lvl2var ::= <[y := vx]> |>
                     <| lvl2var ::= <[x := vy]> |>
                     <| ite_tab := ∅ |>) ;;;
  collect_garbage (Some (Z.pos <$> elements garbage)) ;;;
  s' <- get ;;
  let newsize := len s' in
  nxy <- foldM (fun '(newx, newy) u =>
           match succ s' !! u with
           | None => ret (newx, newy)
           | Some t =>
               if decide (t_lvl t = x) then ret (newx, newy ∪ {[u]})
               else if decide (t_lvl t = y) then ret (newx ∪ {[u]}, newy)
               else raise EAssert
           end) ((∅, ∅) : gset positive * gset positive) ox ;;
  let '(newx, newy) := nxy in
  newx <- foldM (fun (newx : gset positive) u =>
            t <- of_opt EKey (succ s' !! u) ;;
            assert (bool_decide (t_lvl t = y)) ;;;
            ret (newx ∪ {[u]})) newx (elements xfresh) ;;
  newy <- foldM (fun (newy : gset positive) u =>
            match succ s' !! u with
            | None => ret newy
            | Some t =>
                assert (bool_decide (t_lvl t = x)) ;;;
                ret (newy ∪ {[u]})
            end) newy oy ;;
  ret ((oldsize, newsize), <[y := newx]> (<[x := newy]> al)).

(** [_shift(bdd, start, end, levels)]: the [sizes] dict is returned as an
    association list in insertion order *)
Definition sizes_set (k v : nat) (l : list (nat * nat)) : list (nat * nat) :=
  if decide (k ∈ l.*1)
  then (fun '(k', v') => if decide (k' = k) then (k', v) else (k', v')) <$> l
  else l ++ [(k, v)].

Fixpoint shift_loop (n : nat) (i : nat) (down : bool) (al : levels_t)
    (sizes : list (nat * nat)) : MS (list (nat * nat) * levels_t) :=
  match n with
  | O => ret (sizes, al)
  | S n =>
      let j := if down then i + 1 else i - 1 in
      r <- swap i j (Some al) ;;
      let '((oldn, newn), al) := r in
      shift_loop n j down al (sizes_set j newn (sizes_set i oldn sizes))
  end.

Definition shift (start end_ : nat) (al : levels_t)
  : MS (list (nat * nat) * levels_t) :=
  s <- get ;;
  assert (bool_decide (start < nvars s)) ;;;
  assert (bool_decide (end_ < nvars s)) ;;;
  if decide (start < end_) then shift_loop (end_ - start) start true al []
  else shift_loop (start - end_) start false al [].

(** [min(sizes, key=sizes.get)]: first key of minimal value *)
Fixpoint argmin (l : list (nat * nat)) : option (nat * nat) :=
  match l with
  | [] => None
  | (k, v) :: l =>
      match argmin l with
      | None => Some (k, v)
      | Some (k', v') => if decide (v' < v) then Some (k', v') else Some (k, v)
      end
  end.

(** [_reorder_var(bdd, var, levels)] *)
Definition reorder_var (var : nat) (al : levels_t) : MS (nat * levels_t) :=
  s <- get ;;
  ensure EValue (bool_decide (is_Some (vars s !! var))) ;;;
  let m := len s in
  assert (bool_decide (0 < nvars s)) ;;;
  let n := nvars s - 1 in
  level <- level_of_var var ;;
  let '(start, end_) := if decide (n <= 2 * level) then (n, 0) else (0, n) in
  r <- shift level start al ;; let '(_, al) := r in
  r <- shift start end_ al ;; let '(sizes, al) := r in
  (* single variable: no other level to move to *)
  if decide (sizes = []) then ret (level, al) else
  km <- of_opt EValue (argmin sizes) ;; let '(k, mk) := km in
  r <- shift end_ k al ;; let '(_, al) := r in
  s' <- get ;;
  assert (bool_decide (mk = len s')) ;;;
  assert (bool_decide (len s' <= m)) ;;;
  ret (k, al).

(** [_apply_sifting(bdd)]; [set(bdd.vars)] is visited in tape order *)
Definition apply_sifting : MS unit :=
  collect_garbage None ;;;
  s <- get ;;
  let n := len s in
  al <- levels_ ;;
  names <- pop_order (set_map Pos.of_succ_nat (dom (vars s))) ;;
  al <- foldM (fun al p =>
          r <- reorder_var (Nat.pred (Pos.to_nat p)) al ;; ret (snd r)) al names ;;
  s' <- get ;;
  assert (bool_decide (len s' <= n)).

(** [_sort_to_order(bdd, order)] *)
Definition sort_to_order (order : gmap nat nat) : MS unit :=
  s <- get ;;
  ensure EValue (bool_decide (nvars s = size order)) ;;;
  al <- levels_ ;;
  let n := size order in
  _ <- foldM (fun al (_ : nat) =>
      foldM (fun al i =>
        s <- get ;;
        ensure EValue (forallb (fun r => mem r s) (roots s)) ;;;
        x <- var_at_level i ;;
        y <- var_at_level (i + 1) ;;
        p <- of_opt EKey (order !! x) ;;
        q <- of_opt EKey (order !! y) ;;
        if decide (q < p) then r <- swap i (i + 1) (Some al) ;; ret (snd r)
        else ret al) al (seq 0 (n - 1))) al (seq 0 n) ;;
  ret tt.

(** [reorder_to_pairs(bdd, pairs)]; [pairs] in dict order *)
Definition reorder_to_pairs (pairs : list (nat * nat)) : MS unit :=
  al <- levels_ ;;
  _ <- foldM (fun al '(x, y) =>
      jx <- level_of_var x ;;
      jy <- level_of_var y ;;
      assert (bool_decide (jx ≠ jy)) ;;;
      let k := if decide (jx < jy) then jy - jx else jx - jy in
      if decide (k = 1) then ret al else
      let '(jx, jy) := if decide (jy < jx) then (jy, jx) else (jx, jy) in
      r <- shift jx (jy - 1) al ;; ret (snd r)) al pairs ;;
  ret tt.

(** [reorder(bdd, order=None)] *)
Definition reorder (order : option (gmap nat nat)) : MS unit :=
  match order with
  | None => apply_sifting
  | Some o => sort_to_order o
  end.

(** ** Public entry points of the reordering functions.

    [BDD.swap] disables reordering requests while it moves nodes and restores
    the threshold afterwards (since the repair of dd: a request raised by the
    [find_or_add] calls inside [swap] aborted it midway).  In dd this happens
    at every call of [swap]; nothing between two swaps of [reorder],
    [_sort_to_order], [reorder_to_pairs] reads the threshold, so the model
    disables and restores once around the whole public call.  With requests
    disabled ([last_len = None], as inside [_try_to_reorder]) the guard is the
    identity. *)
Definition guarded {A} (m : MS A) : MS A :=
  s <- get ;;
  match last_len s with
  | None => m
  | Some ll =>
      modify (fun s => s <| last_len := None |>) ;;;
      r <- catch m ;;
      modify (fun s => s <| last_len := Some ll |>) ;;;
      reraise r
  end.

Definition swap_pub (x y : nat) : MS ((nat * nat) * levels_t) := guarded (swap x y None).
Definition reorder_pub (order : option (gmap nat nat)) : MS unit := guarded (reorder order).
Definition reorder_to_pairs_pub (pairs : list (nat * nat)) : MS unit :=
  guarded (reorder_to_pairs pairs).

(** ** The decorator [_try_to_reorder] with [_ReorderingContext] *)
Definition try_to_reorder {A} (func : MS A) : MS A :=
  s <- get ;;
  let nested := rctx s in
  modify (fun s => s <| rctx := true |>) ;;;
  r <- catch func ;;
  modify (fun s => s <| rctx := nested |>) ;;;
  match r with
  | Ok a => ret a
  | Err e =>
      if decide (e = ENeedsReordering ∧ nested = false) then
        (* disable reordering requests while swapping; when [reorder] raises
           (dd 854af5f: [except BaseException]) the threshold is put back *)
        s0 <- get ;;
        let ll := last_len s0 in
        modify (fun s => s <| last_len := None |>) ;;;
        r0 <- catch (reorder None) ;;
        (match r0 with
         | Ok _ => ret tt
         | Err e0 => modify (fun s => s <| last_len := ll |>) ;;; raise e0
         end) ;;;
        s <- get ;;
        let len_after := len s in
        let nested := rctx s in
        modify (fun s => s <| rctx := true |>) ;;;
        r <- catch func ;;
        modify (fun s => s <| rctx := nested |>) ;;;
        (* finally: enable reordering requests, whatever the outcome *)
        modify (fun s => s <| last_len := Some (GROWTH_FACTOR * len_after) |>) ;;;
        reraise r
      else raise e
  end.
