(** * Ops: the public operations of [dd.bdd.BDD] built on [find_or_add] and
      [ite]: [var], [ite], [apply], [cofactor], [compose], [rename],
      [copy_bdd], [quantify], [let], [cube], [image], [preimage],
      [support].  Mirrors dd/bdd.py. *)
From Coq Require Export String.
From stdpp Require Export sorting.
From DD Require Export Reorder.
Local Open Scope string_scope.

(** [ite(g, u, v)]: the decorated method *)
Definition ite (g u v : Z) : MS Z := try_to_reorder (ite_ g u v).

(** [var(name)] *)
Definition var (name : nat) : MS Z :=
  try_to_reorder (
    s <- get ;;
    match vars s !! name with
    | None => raise EValue
    | Some j => find_or_add j (-1) 1
    end).

(** ** [support(u, as_levels)] *)
Fixpoint support_rec (fuel : nat) (u : Z) (acc : gset nat * gset positive)
  : MS (gset nat * gset positive) :=
  match fuel with
  | O => raise EFuel
  | S f =>
      let '(levels, nodes) := acc in
      s <- get ;;
      if decide (size levels = nvars s) then ret acc else
      if decide (u = 0%Z) then raise EType else
      let r := absn u in
      if decide (r ∈ nodes) then ret acc else
      let nodes := nodes ∪ {[r]} in
      if decide (r = 1%positive) then ret (levels, nodes) else
      t <- getsucc r ;;
      assert (negb (is_term t)) ;;;
      let levels := levels ∪ {[t_lvl t]} in
      acc <- support_rec f (t_lo t) (levels, nodes) ;;
      support_rec f (t_hi t) acc
  end.

Definition support_levels (u : Z) : MS (gset nat) :=
  s <- get ;;
  r <- support_rec (S (S (nvars s))) u (∅, ∅) ;;
  ret (fst r).

(** [support(u)]: names *)
Definition support (u : Z) : MS (gset nat) :=
  ls <- support_levels u ;;
  names <- mapM var_at_level (elements ls) ;;
  ret (list_to_set names).

(** [is_essential(u, var)] *)
Fixpoint is_essential_rec (fuel : nat) (u : Z) (i : nat) : MS bool :=
  match fuel with
  | O => raise EFuel
  | S f =>
      t <- getsuccZ u ;;
      if decide (i < t_lvl t) then ret false else
      if decide (i = t_lvl t) then ret true else
      assert (negb (is_term t)) ;;;
      b <- is_essential_rec f (t_lo t) i ;;
      if b then ret true else
      is_essential_rec f (t_hi t) i
  end.

Definition is_essential (u : Z) (var : nat) : MS bool :=
  s <- get ;;
  match vars s !! var with
  | None => ret false
  | Some i => is_essential_rec (S (S (nvars s))) u i
  end.

(** ** [_map_to_level]: keys given as names ([byname]) or as levels,
    in the iteration order of the Python container *)
Definition map_key (byname : bool) (first : bool) (k : nat) : MS nat :=
  s <- get ;;
  if byname then
    match vars s !! k with
    | Some l => ret l
    | None => raise (if first then EValue else EKey)
    end
  else
    match lvl2var s !! k with
    | Some _ => ret k
    | None => raise EValue
    end.

Definition map_to_level_set (byname : bool) (ks : list nat) : MS (gset nat) :=
  match ks with
  | [] => ret ∅
  | k :: rest =>
      (* names: the first key decides; levels: all keys are checked first *)
      (if byname then ret tt
       else forM ks (fun k => map_key false true k ;;; ret tt)) ;;;
      l <- map_key byname true k ;;
      ls <- mapM (map_key byname false) rest ;;
      ret (list_to_set (l :: ls))
  end.

Definition map_to_level_dict {A} (byname : bool) (kv : list (nat * A))
  : MS (gmap nat A) :=
  match kv with
  | [] => ret ∅
  | (k, a) :: rest =>
      (if byname then ret tt
       else forM kv (fun '(k, _) => map_key false true k ;;; ret tt)) ;;;
      l <- map_key byname true k ;;
      ls <- mapM (fun '(k, a) => l <- map_key byname false k ;; ret (l, a)) rest ;;
      (* later keys win, as in a dict comprehension *)
      ret (list_to_map (reverse ((l, a) :: ls)))
  end.

(** [sorted(levels)] *)
Definition sorted_levels (X : gset nat) : list nat := merge_sort le (elements X).
Fixpoint drop_while {A} (p : A -> bool) (l : list A) : list A :=
  match l with
  | [] => []
  | a :: l' => if p a then drop_while p l' else l
  end.
(** the [while j < n: if ordvar[j] < i: j += 1] loop *)
Definition skip_below (i : nat) (ord : list nat) : list nat :=
  drop_while (fun k => bool_decide (k < i)) ord.

(** ** [cofactor] *)
Fixpoint cofactor_rec (fuel : nat) (u : Z) (ord : list nat)
    (values : gmap nat bool) (cache : gmap Z Z) : MS (Z * gmap Z Z) :=
  match fuel with
  | O => raise EFuel
  | S f =>
      if decide (absn u = 1%positive ∧ u ≠ 0%Z) then ret (u, cache) else
      match cache !! u with
      | Some r => ret (r, cache)
      | None =>
          t <- getsuccZ u ;;
          assert (negb (is_term t)) ;;;
          let i := t_lvl t in
          let ord := skip_below i ord in
          match ord with
          | [] => ret (u, cache)
          | _ =>
              rc <- match values !! i with
                    | Some val =>
                        cofactor_rec f (if (val : bool) then t_hi t else t_lo t)
                          ord values cache
                    | None =>
                        pc <- cofactor_rec f (t_lo t) ord values cache ;;
                        let '(p, cache) := pc in
                        qc <- cofactor_rec f (t_hi t) ord values cache ;;
                        let '(q, cache) := qc in
                        r <- find_or_add i p q ;;
                        ret (r, cache)
                    end ;;
              let '(r, cache) := rc in
              let r := flip r u in
              ret (r, <[u := r]> cache)
          end
      end
  end.

(** the decorated worker [_cofactor_vars(u, values)]: keys are variable names *)
Definition cofactor_names (u : Z) (values : list (nat * bool)) : MS Z :=
  try_to_reorder (
    lv <- map_to_level_dict true values ;;
    s <- get ;;
    ensure EValue (mem u s) ;;;
    r <- cofactor_rec (S (S (nvars s))) u (sorted_levels (dom lv)) lv ∅ ;;
    ret (fst r)).

(** the public [cofactor(u, values)] is not decorated: it first turns its keys
    into variable NAMES (levels refer to the order at the time of the call) and
    then calls the decorated worker, which may run twice.  For keys that are
    names this prelude is the identity on a dict (it can only raise, for an
    unknown name, what the worker raises at the same point with the same
    state), so the model calls the worker directly. *)
Definition cofactor (u : Z) (byname : bool) (values : list (nat * bool))
  : MS Z :=
  if byname then cofactor_names u values else
  lv <- map_to_level_dict false values ;;
  nv <- mapM (fun '(l, a) => v <- var_at_level l ;; ret (v, a)) (map_to_list lv) ;;
  cofactor_names u nv.

(** ** [quantify] *)
Fixpoint quantify_rec (fuel : nat) (u : Z) (ord : list nat)
    (qvars : gset nat) (forall_ : bool) (cache : gmap Z Z)
  : MS (Z * gmap Z Z) :=
  match fuel with
  | O => raise EFuel
  | S f =>
      if decide (absn u = 1%positive ∧ u ≠ 0%Z) then ret (u, cache) else
      match cache !! u with
      | Some r => ret (r, cache)
      | None =>
          t <- getsuccZ u ;;
          assert (negb (is_term t)) ;;;
          let i := t_lvl t in
          let v := flip (t_lo t) u in
          let w := flip (t_hi t) u in
          let ord := skip_below i ord in
          match ord with
          | [] => ret (u, cache)
          | _ =>
              pc <- quantify_rec f v ord qvars forall_ cache ;;
              let '(p, cache) := pc in
              qc <- quantify_rec f w ord qvars forall_ cache ;;
              let '(q, cache) := qc in
              r <- (if decide (i ∈ qvars) then
                      if forall_ then ite p q (-1) else ite p 1 q
                    else find_or_add i p q) ;;
              ret (r, <[u := r]> cache)
          end
      end
  end.

(** the decorated worker [_quantify_vars(u, qvars, forall)]: variable names *)
Definition quantify_names (u : Z) (qvars : list nat) (forall_ : bool) : MS Z :=
  try_to_reorder (
    q <- map_to_level_set true qvars ;;
    s <- get ;;
    r <- quantify_rec (S (S (nvars s))) u (sorted_levels q) q forall_ ∅ ;;
    ret (fst r)).

(** the public [quantify]: reads the iterable, turns levels into names (the
    order at the time of the call), calls the decorated worker (see
    [cofactor]) *)
Definition quantify (u : Z) (byname : bool) (qvars : list nat)
    (forall_ : bool) : MS Z :=
  if byname then quantify_names u qvars forall_ else
  q <- map_to_level_set false qvars ;;
  names <- mapM var_at_level (elements q) ;;
  quantify_names u names forall_.

(** ** [compose] *)
(** [_top_cofactor] with a possibly negative level argument *)
Definition top_cofactorZ (u : Z) (i : Z) : MS (Z * Z) :=
  if decide (0 <= i)%Z then top_cofactor u (Z.to_nat i) else
  if decide (absn u = 1%positive ∧ u ≠ 0%Z) then ret (u, u) else
  t <- getsuccZ u ;;
  assert (negb (is_term t)) ;;;
  ret (u, u).

Fixpoint compose_rec (fuel : nat) (f_ : Z) (j : nat) (g : Z)
    (cache : gmap (Z * Z) Z) : MS (Z * gmap (Z * Z) Z) :=
  match fuel with
  | O => raise EFuel
  | S fu =>
      if decide (absn f_ = 1%positive ∧ f_ ≠ 0%Z) then ret (f_, cache) else
      match cache !! (f_, g) with
      | Some r => ret (r, cache)
      | None =>
          t <- getsuccZ f_ ;;
          assert (negb (is_term t)) ;;;
          let i := t_lvl t in
          if decide (j < i) then ret (f_, cache) else
          rc <- (if decide (i = j) then
                   r <- ite g (t_hi t) (t_lo t) ;;
                   ret (flip r f_, cache)
                 else
                   k <- level_of g ;;
                   let z := i `min` k in
                   c <- top_cofactor f_ z ;; let '(f0, f1) := c in
                   c <- top_cofactor g z ;; let '(g0, g1) := c in
                   pc <- compose_rec fu f0 j g0 cache ;;
                   let '(p, cache) := pc in
                   qc <- compose_rec fu f1 j g1 cache ;;
                   let '(q, cache) := qc in
                   r <- find_or_add z p q ;;
                   ret (r, cache)) ;;
          let '(r, cache) := rc in
          ret (r, <[(f_, g) := r]> cache)
      end
  end.

Fixpoint vector_compose_rec (fuel : nat) (f_ : Z) (level_sub : gmap nat Z)
    (cache : gmap positive Z) : MS (Z * gmap positive Z) :=
  match fuel with
  | O => raise EFuel
  | S fu =>
      if decide (absn f_ = 1%positive ∧ f_ ≠ 0%Z) then ret (f_, cache) else
      if decide (f_ = 0%Z) then raise EType else
      match cache !! absn f_ with
      | Some r => assert (bool_decide (r ≠ 0%Z)) ;;; ret (flip r f_, cache)
      | None =>
          t <- getsucc (absn f_) ;;
          assert (negb (is_term t)) ;;;
          pc <- vector_compose_rec fu (t_lo t) level_sub cache ;;
          let '(p, cache) := pc in
          qc <- vector_compose_rec fu (t_hi t) level_sub cache ;;
          let '(q, cache) := qc in
          g <- match level_sub !! t_lvl t with
               | Some g => ret g
               | None => find_or_add (t_lvl t) (-1) 1
               end ;;
          r <- ite g q p ;;
          ret (flip r f_, <[absn f_ := r]> cache)
      end
  end.

(** [compose(f, var_sub)]; [var_sub] in dict order *)
Definition compose (f_ : Z) (var_sub : list (nat * Z)) : MS Z :=
  try_to_reorder (
    s <- get ;;
    let fuel := S (S (2 * nvars s)) in
    match var_sub with
    | [(var, g)] =>
        j <- level_of_var var ;;
        r <- compose_rec fuel f_ j g ∅ ;; ret (fst r)
    | _ =>
        dv <- mapM (fun '(var, g) => l <- level_of_var var ;; ret (l, g)) var_sub ;;
        r <- vector_compose_rec fuel f_ (list_to_map (reverse dv)) ∅ ;;
        ret (fst r)
    end).

(** ** [_copy_bdd], [rename], [copy_bdd] *)
(** [src = None]: the old manager is the manager itself ([rename]) *)
Fixpoint copy_bdd_rec (fuel : nat) (src : option st) (u : Z)
    (level_map : gmap nat nat) (cache : gmap positive Z)
  : MS (Z * gmap positive Z) :=
  match fuel with
  | O => raise EFuel
  | S fu =>
      if decide (absn u = 1%positive ∧ u ≠ 0%Z) then ret (u, cache) else
      if decide (u = 0%Z) then raise EType else
      match cache !! absn u with
      | Some r => assert (bool_decide (0 < r)%Z) ;;; ret (flip r u, cache)
      | None =>
          s <- get ;;
          let old := default s src in
          t <- of_opt EKey (succ old !! absn u) ;;
          assert (negb (is_term t)) ;;;
          pc <- copy_bdd_rec fu src (t_lo t) level_map cache ;;
          let '(p, cache) := pc in
          qc <- copy_bdd_rec fu src (t_hi t) level_map cache ;;
          let '(q, cache) := qc in
          assert (bool_decide (0 < p * t_lo t)%Z) ;;;
          assert (bool_decide (0 < q)%Z) ;;;
          jnew <- of_opt EKey (level_map !! t_lvl t) ;;
          g <- find_or_add jnew (-1) 1 ;;
          r <- ite g q p ;;
          assert (bool_decide (0 < r)%Z) ;;;
          ret (flip r u, <[absn u := r]> cache)
      end
  end.

(** module function [rename(u, bdd, dvars)]; [dvars] by names, dict order *)
Definition rename_ (u : Z) (dvars : list (nat * nat)) : MS Z :=
  s <- get ;;
  ensure EValue (mem u s) ;;;
  match dvars with
  | [] => ret u
  | _ =>
      let d : gmap nat nat := list_to_map (reverse dvars) in
      lm <- mapM (fun '(var, l) =>
              l' <- of_opt EKey (vars s !! default var (d !! var)) ;;
              ret (l, l')) (map_to_list (vars s)) ;;
      r <- copy_bdd_rec (S (S (nvars s))) None u (list_to_map lm) ∅ ;;
      ret (fst r)
  end.

(** method [BDD.rename(u, dvars)] *)
Definition rename (u : Z) (dvars : list (nat * nat)) : MS Z :=
  try_to_reorder (rename_ u dvars).

(** [copy_bdd(u, from_bdd, to_bdd)] for two distinct managers; runs in the
    target, the source is only read *)
Definition copy_level_map (src tgt : st) : gmap nat nat :=
  list_to_map (omap (M:=list) (fun '(var, l) =>
     match vars tgt !! var with
     | Some l' => Some (l, l')
     | None => None
     end) (map_to_list (vars src))).

Definition copy_bdd (src : st) (u : Z) : MS Z :=
  s <- get ;;
  r <- copy_bdd_rec (S (S (nvars src))) (Some src) u (copy_level_map src s) ∅ ;;
  ret (fst r).

(** ** [apply] *)
(** Right-hand sides of the [if/elif] chain of [BDD.apply] as terms.  The
    chain itself is regenerated from dd/bdd.py into [Generated/PyApply.v]
    and compared with [apply_table] there. *)
Inductive operand := OU | OV | OW | ONeg (o : operand) | OTrue | OFalse.
Inductive template :=
  | TRet (o : operand)                      (* return <operand> *)
  | TIte (g u v : operand)                  (* self.ite(g, u, v) *)
  | TQuant (forall_ : bool) (vars_of fn : operand).
      (* self.quantify(fn, self.support(vars_of), forall=...) *)

Global Instance operand_eq_dec : EqDecision operand.
Proof. solve_decision. Defined.
Global Instance template_eq_dec : EqDecision template.
Proof. solve_decision. Defined.

Definition apply_table : list (list string * template) :=
  [ (["~"; "not"; "!"], TRet (ONeg OU));
    (["or"; "\/"; "|"; "||"], TIte OU OTrue OV);
    (["and"; "/\"; "&"; "&&"], TIte OU OV OFalse);
    (["#"; "xor"; "^"], TIte OU (ONeg OV) OV);
    (["=>"; "->"; "implies"], TIte OU OV OTrue);
    (["<=>"; "<->"; "equiv"], TIte OU OV (ONeg OV));
    (["diff"; "-"], TIte OU (ONeg OV) OFalse);
    (["\A"; "forall"], TQuant true OU OV);
    (["\E"; "exists"], TQuant false OU OV);
    (["ite"], TIte OU OV OW) ].

Definition unary_ops : list string := ["not"; "~"; "!"].
Definition binary_ops : list string :=
  ["and"; "/\"; "&"; "&&"; "or"; "\/"; "|"; "||"; "#"; "xor"; "^";
   "=>"; "->"; "implies"; "<=>"; "<->"; "equiv"; "diff"; "-";
   "\A"; "forall"; "\E"; "exists"].
Definition ternary_ops : list string := ["ite"].

(** [_utils.assert_operator_arity(op, v, w, 'bdd')] *)
Definition arity_ok (op : string) (v w : option Z) : bool :=
  if bool_decide (op ∈ unary_ops) then bool_decide (v = None ∧ w = None)
  else if bool_decide (op ∈ binary_ops) then bool_decide (v ≠ None ∧ w = None)
  else if bool_decide (op ∈ ternary_ops) then bool_decide (v ≠ None ∧ w ≠ None)
  else false.

Fixpoint eval_operand (o : operand) (u v w : Z) : Z :=
  match o with
  | OU => u | OV => v | OW => w
  | ONeg o => (- eval_operand o u v w)%Z
  | OTrue => 1%Z | OFalse => (-1)%Z
  end.

Definition find_template (tbl : list (list string * template)) (op : string)
  : option template :=
  snd <$> list_find (fun '(names, _) => bool_decide (op ∈ names)) tbl
  ≫= fun '(_, t) => Some t.

Definition apply_with (tbl : list (list string * template)) (op : string)
    (u : Z) (v w : option Z) : MS Z :=
  ensure EValue (arity_ok op v w) ;;;
  s <- get ;;
  ensure EValue (mem u s) ;;;
  ensure EValue (match v with Some v => mem v s | None => true end) ;;;
  ensure EValue (match w with Some w => mem w s | None => true end) ;;;
  let v' := default 0%Z v in
  let w' := default 0%Z w in
  match find_template tbl op with
  | None => raise EValue
  | Some (TRet o) => ret (eval_operand o u v' w')
  | Some (TIte a b c) =>
      ite (eval_operand a u v' w') (eval_operand b u v' w') (eval_operand c u v' w')
  | Some (TQuant fa a b) =>
      qv <- support (eval_operand a u v' w') ;;
      quantify (eval_operand b u v' w') true (elements qv) fa
  end.

Definition apply := apply_with apply_table.

(** ** [cube(dvars)] *)
Definition cube (dvars : list (nat * bool)) : MS Z :=
  try_to_reorder (
    foldM (fun r '(v, val) =>
      u <- var v ;;
      apply "and" (if val : bool then u else (- u)%Z) (Some r) None) 1%Z dvars).

(** ** [let(definitions, u)] *)
Inductive let_arg :=
  | LetBool (d : list (nat * bool))
  | LetRef (d : list (nat * Z))
  | LetName (d : list (nat * nat)).

Definition let_ (d : let_arg) (u : Z) : MS Z :=
  match d with
  | LetBool [] | LetRef [] | LetName [] => ret u
  | LetBool d => cofactor u true d
  | LetRef d => compose u d
  | LetName d => rename u d
  end.

(** [exist], [forall] *)
Definition exist (qvars : list nat) (u : Z) : MS Z := quantify u true qvars false.
Definition forall_ (qvars : list nat) (u : Z) : MS Z := quantify u true qvars true.

(** ** [image], [preimage] *)
Fixpoint image_rec (fuel : nat) (u v : Z) (umap vmap : option (gmap nat nat))
    (qvars : gset nat) (forall_ : bool) (cache : gmap (Z * Z) Z)
  : MS (Z * gmap (Z * Z) Z) :=
  match fuel with
  | O => raise EFuel
  | S fu =>
      if decide (u = -1 ∨ v = -1)%Z then ret ((-1)%Z, cache) else
      if decide (u = 1 ∧ v = 1)%Z then ret (1%Z, cache) else
      match cache !! (u, v) with
      | Some w => ret (w, cache)
      | None =>
          iu <- level_of u ;;
          jv <- level_of v ;;
          let iv := match vmap with
                    | None => jv
                    | Some m => default jv (m !! jv)
                    end in
          let z := iu `min` iv in
          c <- top_cofactor u z ;; let '(u0, u1) := c in
          c <- top_cofactorZ v (Z.of_nat jv + Z.of_nat z - Z.of_nat iv) ;;
          let '(v0, v1) := c in
          pc <- image_rec fu u0 v0 umap vmap qvars forall_ cache ;;
          let '(p, cache) := pc in
          qc <- image_rec fu u1 v1 umap vmap qvars forall_ cache ;;
          let '(q, cache) := qc in
          r <- (if decide (z ∈ qvars) then
                  if forall_ then ite p q (-1) else ite p 1 q
                else
                  let m := match umap with
                           | None => z
                           | Some mp => default z (mp !! z)
                           end in
                  g <- find_or_add m (-1) 1 ;;
                  ite g q p) ;;
          ret (r, <[(u, v) := r]> cache)
      end
  end.

(** [{bdd.vars.get(k, k): bdd.vars.get(v, v) for k, v in rename.items()}];
    an undeclared *name* stays a string and later fails as a level *)
Definition map_rename (byname : bool) (rn : list (nat * nat))
  : MS (list (nat * nat)) :=
  s <- get ;;
  if byname then
    mapM (fun '(k, v) =>
      k' <- of_opt EType (vars s !! k) ;;
      v' <- of_opt EType (vars s !! v) ;;
      ret (k', v')) rn
  else ret rn.

(** [_assert_no_overlap(d)] *)
Definition no_overlap (d : gmap nat nat) : bool :=
  bool_decide (map_Forall (fun _ v => d !! v = None) d).

(** [_all_adjacent(dvars, bdd)]: stops at the first non-adjacent pair, whose
    levels must be declared (they are formatted into a warning) *)
Fixpoint all_adjacent (l : list (nat * nat)) : MS bool :=
  match l with
  | [] => ret true
  | (i, j) :: l =>
      if decide (i - j = 1 ∨ j - i = 1) then all_adjacent l else
      var_at_level i ;;; var_at_level j ;;; ret false
  end.

(** dict built from a list of pairs in iteration order: (keys in first
    insertion order, last value wins) *)
Definition dict_items (l : list (nat * nat)) : list (nat * nat) :=
  let d : gmap nat nat := list_to_map (reverse l) in
  omap (fun k => (fun v => (k, v)) <$> d !! k) (remove_dups (l.*1)).

Definition image (trans source : Z) (byname : bool) (rn : list (nat * nat))
    (qbyname : bool) (qvars : list nat) (forall_ : bool) : MS Z :=
  q <- map_to_level_set qbyname qvars ;;
  rn <- map_rename byname rn ;;
  let d : gmap nat nat := list_to_map (reverse rn) in
  assert (no_overlap d) ;;;
  all_adjacent (dict_items rn) ;;;
  st_ <- support_levels trans ;;
  ss <- support_levels source ;;
  let sup : gset nat := (st_ ∪ ss) ∖ q ∩ list_to_set (rn.*2) in
  assert (bool_decide (sup = ∅)) ;;;
  s <- get ;;
  r <- image_rec (S (S (2 * nvars s))) trans source (Some d) None q forall_ ∅ ;;
  ret (fst r).

Definition preimage (trans target : Z) (byname : bool) (rn : list (nat * nat))
    (qbyname : bool) (qvars : list nat) (forall_ : bool) : MS Z :=
  q <- map_to_level_set qbyname qvars ;;
  rn <- map_rename byname rn ;;
  let d : gmap nat nat := list_to_map (reverse rn) in
  (match rn with
   | [] => ret tt
   | _ => var_at_level 0 ;;; assert (no_overlap d)
   end) ;;;
  s <- get ;;
  r <- image_rec (S (S (2 * nvars s))) trans target None (Some d) q forall_ ∅ ;;
  ret (fst r).

(** ** Public entry points of the module functions that are not wrapped by
    the retry decorator.  [image], [preimage] and [copy_bdd] index their
    arguments (rename map, quantified variables, level map) by LEVELS computed
    on entry and keep unreferenced intermediate results, so a dynamic
    reordering served by the nested decorated [ite] would invalidate both;
    since the repair of dd they run with reordering requests disabled and
    restore the threshold afterwards ([guarded], as [swap]). *)
Definition image_pub (trans source : Z) (byname : bool) (rn : list (nat * nat))
    (qbyname : bool) (qvars : list nat) (forall_ : bool) : MS Z :=
  guarded (image trans source byname rn qbyname qvars forall_).
Definition preimage_pub (trans target : Z) (byname : bool) (rn : list (nat * nat))
    (qbyname : bool) (qvars : list nat) (forall_ : bool) : MS Z :=
  guarded (preimage trans target byname rn qbyname qvars forall_).
Definition copy_bdd_pub (src : st) (u : Z) : MS Z := guarded (copy_bdd src u).

