(** * Sat: [count], [_sat_len], [pick_iter], [_sat_iter],
      [_enumerate_minterms], [pick]; [undeclare_vars]; [descendants].
    Mirrors dd/bdd.py. *)
From DD Require Export Ops.

(** ** [descendants(roots)] *)
Fixpoint descendants_rec (fuel : nat) (u : Z) (visited : gset positive)
  : MS (gset positive) :=
  match fuel with
  | O => raise EFuel
  | S f =>
      if decide (u = 0%Z) then raise EType else
      let r := absn u in
      if decide (r = 1%positive ∨ r ∈ visited) then ret visited else
      t <- getsucc r ;;
      assert (negb (is_term t)) ;;;
      visited <- descendants_rec f (t_lo t) visited ;;
      visited <- descendants_rec f (t_hi t) visited ;;
      ret (visited ∪ {[r]})
  end.

Definition descendants (roots : list Z) : MS (gset positive) :=
  s <- get ;;
  v <- foldM (fun (visited : gset positive) u =>
         descendants_rec (S (S (nvars s))) u (visited ∪ {[1%positive]}))
       ∅ roots ;;
  assert (bool_decide (Forall (fun u => absn u ∈ v) roots)) ;;;
  ret v.

(** ** [count(u, nvars)] *)
Definition pow2 (n : nat) : Z := (2 ^ Z.of_nat n)%Z.

(** [_sat_len(u, map_level, d)]; [all_] is [map_level['all']] *)
Fixpoint sat_len (fuel : nat) (u : Z) (map_level : gmap nat nat) (all_ : nat)
    (d : gmap positive Z) : MS (Z * gmap positive Z) :=
  match fuel with
  | O => raise EFuel
  | S f =>
      if decide (u = 1)%Z then ret (1%Z, d) else
      if decide (u = -1)%Z then ret (0%Z, d) else
      t <- getsuccZ u ;;
      assert (negb (is_term t)) ;;;
      i <- of_opt EKey (map_level !! t_lvl t) ;;
      (* 2**(negative) is a float in Python: [_assert_int] fails *)
      let flipn (n : Z) : MS Z :=
        if decide (u < 0)%Z then
          assert (bool_decide (i <= all_)) ;;; ret (pow2 (all_ - i) - n)%Z
        else ret n in
      match d !! absn u with
      | Some n => n' <- flipn n ;; ret (n', d)
      | None =>
          r <- sat_len f (t_lo t) map_level all_ d ;; let '(nv, d) := r in
          r <- sat_len f (t_hi t) map_level all_ d ;; let '(nw, d) := r in
          lv <- level_of (t_lo t) ;;
          lw <- (if decide (0 < t_hi t)%Z then level_of (t_hi t) else raise EKey) ;;
          iv <- of_opt EKey (map_level !! lv) ;;
          iw <- of_opt EKey (map_level !! lw) ;;
          assert (bool_decide (i < iv ∧ i < iw)) ;;;
          let n := (nv * pow2 (iv - i - 1) + nw * pow2 (iw - i - 1))%Z in
          n' <- flipn n ;;
          ret (n', <[absn u := n]> d)
      end
  end.

Fixpoint enumerate_from {A} (k : nat) (l : list A) : list (nat * A) :=
  match l with [] => [] | a :: l => (k, a) :: enumerate_from (S k) l end.

Definition count (u : Z) (n : option nat) : MS Z :=
  s <- get ;;
  ensure EValue (mem u s) ;;;
  sup <- support u ;;
  levels <- mapM level_of_var (elements sup) ;;
  let levels : gset nat := list_to_set levels in
  let k := size levels in
  let n := default k n in
  ensure EValue (bool_decide (k <= n)) ;;;
  let slack := n - k in
  let ml : gmap nat nat :=
    list_to_map ((fun '(new, old) => (old, new + slack)) <$>
                 enumerate_from 0 (sorted_levels levels)) in
  t1 <- getsucc 1%positive ;;
  let ml := <[t_lvl t1 := n]> ml in
  r <- sat_len (S (S (nvars s))) u ml n ∅ ;;
  iu <- level_of u ;;
  i <- of_opt EKey (ml !! iu) ;;
  ret (fst r * pow2 i)%Z.

(** ** [pick_iter] *)
(** [_sat_iter(u, cube, value)]: cubes keyed by level, in DFS order
    (low branch first), translated to names at the leaves *)
Fixpoint sat_iter (fuel : nat) (u : Z) (cube : list (nat * bool)) (value : bool)
  : MS (list (list (nat * bool))) :=
  match fuel with
  | O => raise EFuel
  | S f =>
      if decide (u = 0%Z) then raise EType else
      let value := if decide (u < 0)%Z then negb value else value in
      if decide (absn u = 1%positive) then
        if value then
          c <- mapM (fun '(i, b) => s <- get ;;
                       v <- of_opt EKey (lvl2var s !! i) ;; ret (v, b)) cube ;;
          ret [c]
        else ret []
      else
        t <- getsucc (absn u) ;;
        assert (negb (is_term t)) ;;;
        l0 <- sat_iter f (t_lo t) (cube ++ [(t_lvl t, false)]) value ;;
        l1 <- sat_iter f (t_hi t) (cube ++ [(t_lvl t, true)]) value ;;
        ret (l0 ++ l1)
  end.

(** all Boolean vectors of length [n], in the order of [range(2**n)] read
    most significant bit first *)
Fixpoint bitvectors (n : nat) : list (list bool) :=
  match n with
  | O => [[]]
  | S n => ((fun l => false :: l) <$> bitvectors n) ++
           ((fun l => true :: l) <$> bitvectors n)
  end.

(** [_enumerate_minterms(cube, bits)]; the free bits are enumerated in the
    order [order] (a set-iteration order in Python; here: sorted by name) *)
Definition enumerate_minterms (cube : list (nat * bool)) (bits : gset nat)
  : list (gmap nat bool) :=
  let free := elements (bits ∖ list_to_set (cube.*1)) in
  (fun vals => list_to_map (reverse (zip free vals ++ cube)) : gmap nat bool)
    <$> bitvectors (length free).

(** [pick_iter(u, care_vars)] as the list of yielded assignments *)
Definition pick_iter (u : Z) (care : option (list nat)) : MS (list (gmap nat bool)) :=
  s <- get ;;
  ensure EValue (mem u s) ;;;
  sup <- support u ;;
  let care : gset nat := match care with
                         | None => sup
                         | Some l => list_to_set l
                         end in
  cubes <- sat_iter (S (S (nvars s))) u [] true ;;
  ret (concat ((fun c => enumerate_minterms c care) <$> cubes)).

(** [pick(u, care_vars)]: the first assignment, or [None] *)
Definition pick (u : Z) (care : option (list nat)) : MS (option (gmap nat bool)) :=
  l <- pick_iter u care ;; ret (head l).

(** ** [undeclare_vars] (varargs) *)
Definition undeclare_vars (vrs : list nat) : MS (gset nat) :=
  s <- get ;;
  forM vrs (fun v => ensure EValue (bool_decide (is_Some (vars s !! v)))) ;;;
  let full0 : gset nat := map_fold (fun _ t acc => acc ∪ {[t_lvl t]}) ∅ (succ s) in
  forM vrs (fun v =>
    l <- level_of_var v ;;
    ensure EValue (bool_decide (l ∉ full0))) ;;;
  let full : gset nat :=
    match vrs with
    | [] => full0
    | _ => full0 ∪ map_fold (fun v l acc =>
                     if decide (v ∈ vrs) then acc else acc ∪ {[l]}) ∅ (vars s)
    end in
  let n := 1 + nvars s in
  let kept := filter (fun i => i ∈ full) (seq 0 n) in
  let new_levels : gmap nat nat :=
    list_to_map ((fun '(new, old) => (old, new)) <$> enumerate_from 0 kept) in
  let rm : gset nat := map_fold (fun v l acc =>
                         if decide (l ∈ full) then acc else acc ∪ {[v]}) ∅ (vars s) in
  let vars' : gmap nat nat :=
    omap (fun l => if decide (l ∈ full) then new_levels !! l else None) (vars s) in
  succ' <- foldM (fun (acc : gmap positive triple) '(u, t) =>
             l <- of_opt EKey (new_levels !! t_lvl t) ;;
             ret (<[u := Triple l (t_lo t) (t_hi t)]> acc)) ∅ (map_to_list (succ s)) ;;
  modify (fun s =>
    s <| vars := vars' |>
      <| lvl2var := map_fold (fun v l acc => <[l := v]> acc) ∅ vars' |>
      <| succ := succ' |>
      <| pred := map_fold (fun u t acc => <[t := u]> acc) ∅ succ' |>
      <| ite_tab := ∅ |>) ;;;
  ret rm.
