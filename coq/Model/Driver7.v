(** * Driver7: [add_expr] and the syntax tree from the RAW TEXT of a formula
      (character-level lexer with the rule order regenerated from the source) *)
From stdpp Require Import strings pretty.
From DD Require Export Consistent Lexer Driver4.
From DD Require Export Generated.LexerRules.
Local Open Scope string_scope.

Definition add_expr_text_ (text : string) : MS Z :=
  add_expr_text lex_alias reserved_words lex_rules code_prec text.

Definition step_expr_text (w : world2) (m : nat) (text : string) : world2 * res value :=
  let s := default empty_st (w_mgrs w !! m) in
  let '(r, s') := add_expr_text_ text s in
  (w <| w_mgrs ::= <[m := s' <| tape := [] |>]> |>,
   match r with Ok u => Ok (VZ u) | Err e => Err e end).

Definition astep_expr_text (w : aworld) (m : nat) (text : string) : aworld * res value :=
  astep_with w m (u <- lift (add_expr_text_ text) ;; h <- wrap u ;; ret (VN h)).

Definition show_tokens (ts : list token) : string :=
  String.concat " " ((fun t => ty t +:+ ":" +:+ tv t) <$> ts).

(** tokens and syntax tree of a text *)
Definition lex_show_text (text : string) : res value :=
  match lexc lex_alias reserved_words lex_rules text with
  | None => Err EValue
  | Some ts => Ok (VS (show_tokens ts))
  end.

Definition parse_show_text (text : string) : res value :=
  match lexc lex_alias reserved_words lex_rules text with
  | None => Err EValue
  | Some ts =>
      match parse code_prec ts with
      | Some a => Ok (VS (show_ast a))
      | None => Err EValue
      end
  end.
