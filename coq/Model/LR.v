(** * LR: the LALR(1) driver of PLY (`ply.yacc.LRParser.parse`) with the
      syntax-directed translation of dd/_parser.py's `_Translator`: nodes are
      created by the reductions WHILE the text is being parsed, and the lexer
      is pulled one token ahead of the parser.  The tables are the ones PLY
      builds from the grammar ([Generated/Lalr.v], regenerated on every run).

    This is the model of [add_expr] that follows the implementation also on
    texts that are rejected late (the nodes of the valid prefix exist, a
    dynamic reordering may already have been served).  The precedence-climbing
    parser of [Model/Parser.v], about which the C05 theorems are stated, is
    kept; the two are compared by the correspondence check and by the bounded
    agreement test in [Properties/C05_lr.v]. *)
From DD Require Export Lexer.
Local Open Scope string_scope.

Record lalr := LALR {
  la_action : list (nat * list (string * Z));
  la_goto : list (nat * list (string * nat));
  la_prods : list (string * nat * string);     (* lhs, |rhs|, text *)
  la_defaulted : list (nat * Z);
}.

(** semantic values on the LR stack *)
Inductive sval :=
  | SVTok (t : token)
  | SVRef (u : Z)                               (* a BDD reference *)
  | SVName (n : string)                         (* Terminal(name, 'var') *)
  | SVNames (l : list string)
  | SVSub (old new : string)
  | SVSubs (l : list (string * string)).

Definition alookup {A} (k : string) (l : list (string * A)) : option A :=
  snd <$> list_find (fun kv : string * A => bool_decide (kv.1 = k)) l ≫= fun kv => Some kv.2.
Definition nlookup {A} (k : nat) (l : list (nat * A)) : option A :=
  snd <$> list_find (fun kv : nat * A => bool_decide (kv.1 = k)) l ≫= fun kv => Some kv.2.

(** one token from the head of the text ([None]: end of input); the lexer
    raises on an illegal character *)
Fixpoint next_token (fuel : nat) (lt : lex_table) (reserved : list (string * string))
    (rules : list lrule) (s : string) : res (option token * string) :=
  match fuel with
  | O => Err EFuel
  | S f =>
      let s := snd (span is_ignored s) in
      match s with
      | EmptyString => Ok (None, s)
      | _ =>
          match first_rule lt reserved rules s with
          | Some (Some t, rest) => Ok (Some t, rest)
          | Some (None, rest) =>
              if decide (String.length rest < String.length s)
              then next_token f lt reserved rules rest else Err EFuel
          | None => Err ERuntime          (* Illegal character *)
          end
      end
  end.

(** the semantic action of a production ([p_*] of [Parser] with the
    [_add_*]/[_apply] of [_Translator]); [rhs] in source order *)
Definition binary_prods : list string :=
  ["expr -> expr AND expr"; "expr -> expr OR expr"; "expr -> expr XOR expr";
   "expr -> expr IMPLIES expr"; "expr -> expr EQUIV expr"; "expr -> expr EQUALS expr";
   "expr -> expr MINUS expr"].

Definition sem_action (prod : string) (rhs : list sval) : MS sval :=
  let is (t : string) := bool_decide (prod = t) in
  if is "expr -> TRUE" then
    match rhs with [SVTok _] => ret (SVRef 1) | _ => raise EAssert end
  else if is "expr -> FALSE" then
    match rhs with [SVTok _] => ret (SVRef (-1)) | _ => raise EAssert end
  else if is "expr -> AT number" then
    match rhs with [SVTok _; SVRef u] => ret (SVRef u) | _ => raise EAssert end
  else if is "number -> NUMBER" then
    match rhs with
    | [SVTok t] =>
        let z := digits_val (tv t) 0 in
        s <- Base.get ;; ensure EValue (mem z s) ;;; ret (SVRef z)
    | _ => raise EAssert
    end
  else if is "number -> MINUS NUMBER" then
    match rhs with
    | [SVTok _; SVTok t] =>
        let z := (- digits_val (tv t) 0)%Z in
        s <- Base.get ;; ensure EValue (mem z s) ;;; ret (SVRef z)
    | _ => raise EAssert
    end
  else if is "expr -> name" then
    match rhs with
    | [SVName n] => u <- Ops.var (name_or_undeclared n) ;; ret (SVRef u)
    | _ => raise EAssert
    end
  else if is "expr -> NOT expr" then
    match rhs with
    | [SVTok o; SVRef u] => r <- Ops.apply (tv o) u None None ;; ret (SVRef r)
    | _ => raise EAssert
    end
  else if bool_decide (prod ∈ binary_prods) then
    match rhs with
    | [SVRef u; SVTok o; SVRef v] => r <- Ops.apply (tv o) u (Some v) None ;; ret (SVRef r)
    | _ => raise EAssert
    end
  else if is "expr -> ITE LPAREN expr COMMA expr COMMA expr RPAREN" then
    match rhs with
    | [SVTok o; SVTok _; SVRef u; SVTok _; SVRef v; SVTok _; SVRef w; SVTok _] =>
        r <- Ops.apply (tv o) u (Some v) (Some w) ;; ret (SVRef r)
    | _ => raise EAssert
    end
  else if is "expr -> EXISTS names COLON expr" then
    match rhs with
    | [SVTok _; SVNames ns; SVTok _; SVRef u] =>
        r <- Ops.quantify u true (remove_dups (name_or_undeclared <$> ns)) false ;; ret (SVRef r)
    | _ => raise EAssert
    end
  else if is "expr -> FORALL names COLON expr" then
    match rhs with
    | [SVTok _; SVNames ns; SVTok _; SVRef u] =>
        r <- Ops.quantify u true (remove_dups (name_or_undeclared <$> ns)) true ;; ret (SVRef r)
    | _ => raise EAssert
    end
  else if is "expr -> RENAME subs COLON expr" then
    match rhs with
    | [SVTok _; SVSubs subs; SVTok _; SVRef u] =>
        r <- Ops.rename u ((fun '(old, new) => (name_or_undeclared old, name_or_undeclared new)) <$> subs) ;;
        ret (SVRef r)
    | _ => raise EAssert
    end
  else if is "subs -> subs COMMA sub" then
    match rhs with [SVSubs l; SVTok _; SVSub o n] => ret (SVSubs (l ++ [(o, n)])) | _ => raise EAssert end
  else if is "subs -> sub" then
    match rhs with [SVSub o n] => ret (SVSubs [(o, n)]) | _ => raise EAssert end
  else if is "sub -> name DIV name" then
    match rhs with [SVName new; SVTok _; SVName old] => ret (SVSub old new) | _ => raise EAssert end
  else if is "names -> names COMMA name" then
    match rhs with [SVNames l; SVTok _; SVName n] => ret (SVNames (l ++ [n])) | _ => raise EAssert end
  else if is "names -> name" then
    match rhs with [SVName n] => ret (SVNames [n]) | _ => raise EAssert end
  else if is "name -> NAME" then
    match rhs with [SVTok t] => ret (SVName (tv t)) | _ => raise EAssert end
  else if is "expr -> LPAREN expr RPAREN" then
    match rhs with [SVTok _; SVRef u; SVTok _] => ret (SVRef u) | _ => raise EAssert end
  else raise EAssert.

Section lr.
Context (T : lalr) (lt : lex_table) (reserved : list (string * string)) (rules : list lrule).

(** [states], [vals]: the two stacks, top first; [la]: the lookahead if it
    has been read ([Some None] = end of input); [text]: what is left *)
Fixpoint lr_loop (fuel : nat) (states : list nat) (vals : list sval)
    (la : option (option token)) (text : string) : MS Z :=
  match fuel with
  | O => raise EFuel
  | S f =>
      match states with
      | [] => raise EAssert
      | st :: _ =>
          (* the action: a defaulted state does not read the lookahead *)
          let dflt := nlookup st (la_defaulted T) in
          r <- (match dflt, la with
                | Some a, _ => ret (Some a, la, text)
                | None, Some l => ret (None, la, text)
                | None, None =>
                    match next_token (S (String.length text)) lt reserved rules text with
                    | Ok (tok, rest) => ret (None, Some tok, rest)
                    | Err e => raise e
                    end
                end) ;;
          let '(forced, la, text) := r in
          let ltype := match la with Some (Some t) => ty t | _ => "$end" end in
          let act := match forced with
                     | Some a => Some a
                     | None => nlookup st (la_action T) ≫= alookup ltype
                     end in
          match act with
          | None => raise ERuntime                 (* p_error: syntax error *)
          | Some a =>
              if decide (0 < a)%Z then
                (* shift *)
                match la with
                | Some (Some t) => lr_loop f (Z.to_nat a :: states) (SVTok t :: vals) None text
                | _ => raise EAssert
                end
              else if decide (a < 0)%Z then
                (* reduce *)
                match la_prods T !! Z.to_nat (- a) with
                | None => raise EAssert
                | Some (lhs, n, ptext) =>
                    if decide (length vals < n) then raise EAssert else
                    let rhs := reverse (take n vals) in
                    v <- sem_action ptext rhs ;;
                    let states' := drop n states in
                    match states' with
                    | [] => raise EAssert
                    | st' :: _ =>
                        match nlookup st' (la_goto T) ≫= alookup lhs with
                        | None => raise EAssert
                        | Some g => lr_loop f (g :: states') (v :: drop n vals) la text
                        end
                    end
                end
              else
                (* accept *)
                match vals with
                | SVRef u :: _ => ret u
                | _ => raise EAssert
                end
          end
      end
  end.

Definition lr_parse (text : string) : MS Z :=
  lr_loop (20 * (String.length text + 2)) [0] [] None text.
End lr.

(** [add_expr(text)]: the decorated translation *)
Definition add_expr_lr (T : lalr) (lt : lex_table) (reserved : list (string * string))
    (rules : list lrule) (text : string) : MS Z :=
  try_to_reorder (lr_parse T lt reserved rules text).
