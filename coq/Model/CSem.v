(** * CSem: what the right-hand sides of `apply` in the C wrappers denote

    Property C19 is about wrapper *source* (dd/cudd.pyx, dd/cudd_zdd.pyx,
    dd/sylvan.pyx, dd/buddy.pyx); nothing can be built or run.  The
    translator (translator/gen_capply.py) turns each branch of `apply` into
    a [cterm]: a term over the operands [u.node], [v.node], [w.node],
    library constants and library calls *by name*.

    The meaning of the names is the hand-written table [lib_sem] /
    [const_sem] / [quant_conv] below.  IT IS PART OF THE TRUSTED BASE: each
    entry restates the documentation of the C library (the wrappers' own
    extern declarations only give types).  A name without an entry has no
    meaning ([None]), so a branch that uses it cannot be proved to agree.

    Boolean reading: every function is read pointwise, on the value of the
    represented Boolean functions at one (arbitrary) assignment, as
    [template_sem] does for dd/bdd.py.  For ZDDs dd.cudd_zdd represents a
    Boolean function by the family of its satisfying assignments over all
    declared variables, so set operations on families are pointwise
    connectives and the universe [Cudd_ReadZddOne(mgr, 0)] is TRUE. *)
From stdpp Require Export base list strings option.
Local Open Scope string_scope.

(** which operand of [apply(op, u, v, w)] *)
Inductive role := RU | RV | RW.
Global Instance role_eq_dec : EqDecision role.
Proof. solve_decision. Defined.

Inductive cterm :=
  | COp (r : role)                           (* u.node | v.node | w.node *)
  | CConst (name : string)                   (* a library constant, by source text *)
  | CCall (name : string) (args : list cterm)  (* NAME(args); a leading manager argument is dropped *)
  | CSupportCube (r : role).                 (* cube built from self.support(<operand>)  (cudd_zdd) *)

(** how a wrapper checks the optional operands *)
Inductive c_guard := GVNotNone | GVNone.     (* `if v is not None: raise` | `if v is None: raise` *)
Global Instance c_guard_eq_dec : EqDecision c_guard.
Proof. solve_decision. Defined.
Inductive arity_guard :=
  | AGPython   (* _utils.assert_operator_arity(op, v, w, 'bdd'), as dd.bdd.BDD.apply *)
  | AGOwn (guards : list (list string * list c_guard)).

(** ** Library constants *)
Definition const_sem (name : string) : option bool :=
  (* CUDD, cudd.h: "Cudd_ReadOne: Returns the one constant of the manager.
     The one constant is common to ADDs and BDDs." *)
  if bool_decide (name = "Cudd_ReadOne(mgr)") then Some true
  (* CUDD: "Cudd_ReadLogicZero: Returns the logic zero constant of the
     manager.  The logic zero constant is the complement of the one
     constant, and is distinct from the arithmetic zero." *)
  else if bool_decide (name = "Cudd_ReadLogicZero(mgr)") then Some false
  (* CUDD: "Cudd_ReadZddOne: Returns the ZDD for the constant 1 function.
     The representation of the constant 1 function as a ZDD depends on how
     many variables it (nominally) depends on.  The index of the topmost
     variable in the support is given as argument i."  With i = 0: the
     family of all subsets of the ZDD variables, i.e. TRUE (this is what
     dd.cudd_zdd.ZDD.true / _bool(True) return). *)
  else if bool_decide (name = "Cudd_ReadZddOne(mgr, 0)") then Some true
  (* Cudd_ReadZero is the *arithmetic* zero: FALSE as a ZDD (empty family),
     but not a BDD constant.  It is given no meaning on purpose. *)
  (* Sylvan, sylvan_bdd.h: sylvan_true = sylvan_false | sylvan_complement *)
  else if bool_decide (name = "sy.sylvan_true") then Some true
  else if bool_decide (name = "sy.sylvan_false") then Some false
  (* BuDDy, bdd.h: "bdd_true: returns the constant true bdd" *)
  else if bool_decide (name = "buddy.bdd_true()") then Some true
  else if bool_decide (name = "buddy.bdd_false()") then Some false
  else None.

(** ** Library functions *)
Definition un (f : bool → bool) (l : list bool) : option bool :=
  match l with [a] => Some (f a) | _ => None end.
Definition bin (f : bool → bool → bool) (l : list bool) : option bool :=
  match l with [a; b] => Some (f a b) | _ => None end.
Definition ter (f : bool → bool → bool → bool) (l : list bool) : option bool :=
  match l with [a; b; c] => Some (f a b c) | _ => None end.
Definition ite_b (a b c : bool) : bool := if a then b else c.

Definition lib_table : list (string * (list bool → option bool)) :=
  [ (* ---- CUDD, BDD functions (cudd.h / cuddBddIte.c) ---- *)
    (* Cudd_Not(node): "Complements a DD." *)
    ("Cudd_Not", un negb);
    (* Cudd_bddAnd(dd,f,g): "Computes the conjunction of two BDDs f and g." *)
    ("Cudd_bddAnd", bin andb);
    (* Cudd_bddOr(dd,f,g): "Computes the disjunction of two BDDs f and g." *)
    ("Cudd_bddOr", bin orb);
    (* Cudd_bddNand / Cudd_bddNor: "Computes the NAND / NOR of two BDDs" *)
    ("Cudd_bddNand", bin (fun a b => negb (a && b)));
    ("Cudd_bddNor", bin (fun a b => negb (a || b)));
    (* Cudd_bddXor(dd,f,g): "Computes the exclusive OR of two BDDs f and g." *)
    ("Cudd_bddXor", bin xorb);
    (* Cudd_bddXnor(dd,f,g): "Computes the exclusive NOR of two BDDs f and g." *)
    ("Cudd_bddXnor", bin (fun a b => negb (xorb a b)));
    (* Cudd_bddIte(dd,f,g,h): "Implements ITE(f,g,h)." *)
    ("Cudd_bddIte", ter ite_b);
    (* ---- CUDD, ZDD functions (cuddZddSetop.c), on families of sets ---- *)
    (* Cudd_zddIntersect(dd,P,Q): "Computes the intersection of two ZDDs." *)
    ("Cudd_zddIntersect", bin andb);
    (* Cudd_zddUnion(dd,P,Q): "Computes the union of two ZDDs." *)
    ("Cudd_zddUnion", bin orb);
    (* Cudd_zddDiff(dd,P,Q): "Computes the difference of two ZDDs."  P \ Q;
       complement = Cudd_zddDiff(universe, .) *)
    ("Cudd_zddDiff", bin (fun a b => a && negb b));
    (* Cudd_zddIte(dd,f,g,h): "Computes the ITE of three ZDDs."
       (f /\ g) \/ (~ f /\ h) on families *)
    ("Cudd_zddIte", ter ite_b);
    (* ---- Sylvan (sylvan_bdd.h) ---- *)
    (* sylvan_not(a) = a ^ sylvan_complement: negation *)
    ("sylvan_not", un negb);
    (* sylvan_and, sylvan_xor, sylvan_ite: the primitive operations *)
    ("sylvan_and", bin andb);
    ("sylvan_xor", bin xorb);
    ("sylvan_ite", ter ite_b);
    (* derived, as the header defines them:
       sylvan_or(a,b)    = sylvan_not(sylvan_and(sylvan_not(a), sylvan_not(b)))
       sylvan_nand(a,b)  = sylvan_not(sylvan_and(a,b))
       sylvan_nor(a,b)   = sylvan_not(sylvan_or(a,b))
       sylvan_imp(a,b)   = sylvan_not(sylvan_and(a, sylvan_not(b)))      a => b
       sylvan_invimp(a,b)= sylvan_not(sylvan_and(sylvan_not(a), b))      b => a
       sylvan_equiv(a,b) = sylvan_not(sylvan_xor(a,b)) ; sylvan_biimp = sylvan_equiv
       sylvan_diff(a,b)  = sylvan_and(a, sylvan_not(b))                  a /\ ~ b
       sylvan_less(a,b)  = sylvan_and(sylvan_not(a), b) *)
    ("sylvan_or", bin (fun a b => negb (negb a && negb b)));
    ("sylvan_nand", bin (fun a b => negb (a && b)));
    ("sylvan_nor", bin (fun a b => negb (negb (negb a && negb b))));
    ("sylvan_imp", bin (fun a b => negb (a && negb b)));
    ("sylvan_invimp", bin (fun a b => negb (negb a && b)));
    ("sylvan_equiv", bin (fun a b => negb (xorb a b)));
    ("sylvan_biimp", bin (fun a b => negb (xorb a b)));
    ("sylvan_diff", bin (fun a b => a && negb b));
    ("sylvan_less", bin (fun a b => negb a && b));
    (* ---- BuDDy (bdd.h, bddop.c) ---- *)
    (* bdd_not(r): "Negates a bdd." *)
    ("bdd_not", un negb);
    (* bdd_and(l,r): "The logical 'and' of two bdds." ; bdd_or, bdd_xor alike *)
    ("bdd_and", bin andb);
    ("bdd_or", bin orb);
    ("bdd_xor", bin xorb);
    (* bdd_imp(l,r): "The logical 'implication' between two bdds." *)
    ("bdd_imp", bin implb);
    (* bdd_biimp(l,r): "The logical 'bi-implication' between two bdds." *)
    ("bdd_biimp", bin (fun a b => negb (xorb a b)));
    (* bdd_ite(f,g,h): "If-then-else operator: (f and g) or (not f and h)." *)
    ("bdd_ite", ter ite_b)
    (* bdd_apply(l,r,opr) takes an integer operator code; it has no entry:
       a branch that uses it is not covered until the term language is
       extended. *)
  ].

Definition lib_sem (name : string) : option (list bool → option bool) :=
  snd <$> list_find (fun p => bool_decide (p.1 = name)) lib_table ≫= fun p => Some p.2.

(** ** Evaluation on one valuation of the three operands *)
Fixpoint cterm_sem (t : cterm) (bu bv bw : bool) : option bool :=
  match t with
  | COp RU => Some bu
  | COp RV => Some bv
  | COp RW => Some bw
  | CConst n => const_sem n
  | CCall n args =>
      f ← lib_sem n;
      bs ← (fix go (l : list cterm) : option (list bool) :=
              match l with
              | [] => Some []
              | a :: l' => b ← cterm_sem a bu bv bw; bs ← go l'; Some (b :: bs)
              end) args;
      f bs
  | CSupportCube _ => None
  end.

(** operands a term reads *)
Fixpoint cterm_uses (t : cterm) : list role :=
  match t with
  | COp r | CSupportCube r => [r]
  | CConst _ => []
  | CCall _ args =>
      (fix go (l : list cterm) : list role :=
         match l with [] => [] | a :: l' => (cterm_uses a ++ go l')%list end) args
  end.

(** ** Quantifier entry points: argument conventions

    [(forall?, index of the FUNCTION argument, index of the VARIABLES (cube)
    argument)], indices counted after the manager argument is dropped.  The
    declared parameter names are exported by the translator
    ([c_quant_decls]) and compared with [fn_param_names] /
    [vars_param_names] in [Proofs/CApply.v]. *)
Definition quant_conv (name : string) : option (bool * nat * nat) :=
  (* CUDD: DdNode * Cudd_bddUnivAbstract(DdManager *manager, DdNode *f,
     DdNode *cube): "Universally abstracts all the variables in cube from f." *)
  if bool_decide (name = "Cudd_bddUnivAbstract") then Some (true, 0, 1)
  (* CUDD: Cudd_bddExistAbstract(manager, f, cube): "Existentially abstracts
     all the variables in cube from f." *)
  else if bool_decide (name = "Cudd_bddExistAbstract") then Some (false, 0, 1)
  (* Sylvan: sylvan_exists(BDD a, BDD variables): "Compute \exists variables: a";
     #define sylvan_forall(a, vars) (sylvan_not(sylvan_exists(sylvan_not(a), vars)))
     (dd/c_sylvan.pxd declares them as (BDD a, BDD qvars)) *)
  else if bool_decide (name = "sylvan_forall") then Some (true, 0, 1)
  else if bool_decide (name = "sylvan_exists") then Some (false, 0, 1)
  (* BuDDy: bdd_forall(r, var): "Removes all occurences in r of variables in
     the set var by universal quantification."  bdd_exist alike. *)
  else if bool_decide (name = "bdd_forall") then Some (true, 0, 1)
  else if bool_decide (name = "bdd_exist") then Some (false, 0, 1)
  (* dd/cudd_zdd.pyx's own `_forall_root(mgr, u, cube)` / `_exist_root`:
     r"Root of recursion for \A." / r"... for \E."; the translator checks
     that they hand (u, cube) in this order to `_forall` / `_exist` *)
  else if bool_decide (name = "_forall_root") then Some (true, 0, 1)
  else if bool_decide (name = "_exist_root") then Some (false, 0, 1)
  else None.

Definition fn_param_names : list string := ["f"; "a"; "r"; "u"].
Definition vars_param_names : list string := ["cube"; "qvars"; "var"; "variables"; "vars"].

Definition fn_role (t : cterm) : option role :=
  match t with COp r => Some r | _ => None end.
Definition vars_role (t : cterm) : option role :=
  match t with COp r | CSupportCube r => Some r | _ => None end.

(** a quantifier branch: [(forall?, operand that is QUANTIFIED, operand
    that supplies the VARIABLES)] *)
Definition cterm_quant (t : cterm) : option (bool * role * role) :=
  match t with
  | CCall n args =>
      c ← quant_conv n;
      let '(fa, fi, vi) := c in
      if bool_decide (length args = 2) then
        f ← args !! fi ≫= fn_role;
        v ← args !! vi ≫= vars_role;
        Some (fa, f, v)
      else None
  | _ => None
  end.

(** first matching row, as the if/elif chain *)
Definition c_find (tbl : list (list string * cterm)) (op : string) : option cterm :=
  snd <$> list_find (fun '(names, _) => bool_decide (op ∈ names)) tbl
  ≫= fun '(_, t) => Some t.

Definition c_aliases (tbl : list (list string * cterm)) : list string :=
  tbl ≫= fst.
