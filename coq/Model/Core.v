(** * Core: construction of managers, counters, [find_or_add], [_ite],
      [collect_garbage].  Mirrors dd/bdd.py function by function. *)
From DD Require Export Base.

(** ** Construction ([BDD.__init__], [_init_terminal], [add_var]) *)

(** [_init_terminal(level)] *)
Definition init_terminal (level : nat) : MS unit :=
  modify (fun s =>
    let t := tterm level in
    let told := default t (succ s !! 1%positive) in
    s <| pred ::= delete told |>
      <| succ ::= <[1%positive := t]> |>
      <| pred ::= <[t := 1%positive]> |>
      <| refc ::= (fun r => match r !! 1%positive with
                            | Some _ => r
                            | None => <[1%positive := 1]> r
                            end) |>).

Definition empty_st : st :=
  St ∅ ∅ ∅ 2%positive ∅ ∅ ∅ None false [] [] None None.

(** the manager right after [BDD()] *)
Definition init : st := snd (init_terminal 0 empty_st).

(** [_check_var(var, level)] *)
Definition check_var (var : nat) (level : option nat) : MS nat :=
  s <- get ;;
  match vars s !! var with
  | None => raise EValue
  | Some vl =>
      match level with
      | None => ret vl
      | Some l => if decide (l = vl) then ret vl else raise EValue
      end
  end.

(** [_next_free_level(var, level)] *)
Definition next_free_level (level : option nat) : MS nat :=
  s <- get ;;
  let l := match level with None => nvars s | Some l => l end in
  match lvl2var s !! l with
  | None => ret l
  | Some _ => raise EValue
  end.

(** [add_var(var, level=None)] *)
Definition add_var (var : nat) (level : option nat) : MS nat :=
  s <- get ;;
  if decide (is_Some (vars s !! var)) then check_var var level else
  l <- next_free_level level ;;
  modify (fun s => s <| vars ::= <[var := l]> |> <| lvl2var ::= <[l := var]> |>) ;;;
  s <- get ;;
  init_terminal (nvars s) ;;;
  ret l.

(** [_assert_valid_ordering(levels)]: the levels are exactly [0..n-1] *)
Definition valid_ordering (levels : list (nat * nat)) : bool :=
  bool_decide ((list_to_set (levels.*2) : gset nat)
               = list_to_set (seq 0 (length levels))).

(** [BDD(levels)]; [levels] in the dict's iteration order *)
Definition init_levels (levels : list (nat * nat)) : MS unit :=
  assert (valid_ordering levels) ;;;
  forM levels (fun '(v, l) => add_var v (Some l) ;;; ret tt).

(** [declare] (varargs) *)
Definition declare (vs : list nat) : MS unit :=
  forM vs (fun v => add_var v None ;;; ret tt).

(** ** Reference counters *)

(** [incref(u)]: [self._ref[abs(u)] += 1] *)
Definition incref (u : Z) : MS unit :=
  _ <- (if decide (u = 0%Z) then raise EKey else getref (absn u)) ;;
  modify (fun s => s <| refc ::= alter S (absn u) |>).

(** [decref(u)]: floors at zero (with a warning) *)
Definition decref (u : Z) : MS unit :=
  _ <- (if decide (u = 0%Z) then raise EKey else getref (absn u)) ;;
  modify (fun s => s <| refc ::= alter Nat.pred (absn u) |>).

(** [ref(u)] *)
Definition ref (u : Z) : MS nat :=
  if decide (u = 0%Z) then raise EKey else getref (absn u).

(** ** Reordering request *)
Definition REORDER_STARTS : nat := 100.
Definition REORDER_FACTOR : nat := 2.
Definition GROWTH_FACTOR : nat := 2.

(** [_request_reordering(bdd)].
    [trig] generalises the size test to "the k-th request fires": with
    [trig = None] this is exactly the code; the harness replaces the
    function by the same counting variant when it forces a trigger (C09). *)
Definition request_reordering : MS unit :=
  fun s => match last_len s with
           | None => (Ok tt, s)
           | Some l =>
               match trig s with
               | Some 1 => (Err ENeedsReordering, s <| trig := None |>)
               | _ =>
                   let s := match trig s with
                            | Some (S (S k)) => s <| trig := Some (S k) |>
                            | _ => s
                            end in
                   if decide (REORDER_FACTOR * l <= len s)
                   then (Err ENeedsReordering, s) else (Ok tt, s)
               end
           end.

(** [configure(reordering=b)] returns the previous setting *)
Definition configure (b : option bool) : MS bool :=
  s <- get ;;
  let old := bool_decide (is_Some (last_len s)) in
  match b with
  | None => ret old
  | Some true =>
      modify (fun s => s <| last_len := Some (Nat.max REORDER_STARTS (len s)) |>) ;;;
      ret old
  | Some false => modify (fun s => s <| last_len := None |>) ;;; ret old
  end.

(** ** [find_or_add] *)

(** [_next_free_int(start)]: smallest integer [>= start] that is no node *)
Fixpoint next_free (fuel : nat) (m : gmap positive triple) (i : positive)
  : positive :=
  match fuel with
  | O => i
  | S f => if decide (is_Some (m !! i)) then next_free f m (Pos.succ i) else i
  end.

(** [range(start, self.max_nodes)] contains [i] (for [start <= i]) *)
Definition fits (mx : option positive) (i : positive) : bool :=
  match mx with
  | None => true
  | Some n => bool_decide (i < n)%positive
  end.

(** The next free integer is computed BEFORE the node is written
    ([min_free = self._next_free_int(u + 1)]): when there is none below
    [max_nodes] the call raises [RuntimeError] with the tables unchanged.
    (The least free integer [>= u + 1] of [_succ] is the least free integer
    [>= u] of [_succ] with [u] inserted.) *)
Definition find_or_add (i : nat) (v w : Z) : MS Z :=
  request_reordering ;;;
  s <- get ;;
  if decide (nvars s <= i) then raise EValue else
  if negb (mem v s) then raise EValue else
  if negb (mem w s) then raise EValue else
  let r := if decide (w < 0)%Z then (-1)%Z else 1%Z in
  let v := (r * v)%Z in
  let w := (r * w)%Z in
  if decide (v = w) then ret (r * v)%Z else
  let t := Triple i v w in
  match pred s !! t with
  | Some u => ret (r * Z.pos u)%Z
  | None =>
      let u := min_free s in
      assert (bool_decide (1 < u)%positive) ;;;
      assert (bool_decide (succ s !! u = None)) ;;;
      (let succ' := <[u := t]> (succ s) in
       ensure ERuntime (fits (max_nodes s) (next_free (S (size succ')) succ' u))) ;;;
      modify (fun s =>
        let succ' := <[u := t]> (succ s) in
        s <| pred ::= <[t := u]> |> <| succ := succ' |>
          <| refc ::= <[u := 0]> |>
          <| min_free := next_free (S (size succ')) succ' u |>) ;;;
      incref v ;;; incref w ;;;
      ret (r * Z.pos u)%Z
  end.

(** ** [_top_cofactor(u, i)] *)
Definition top_cofactor (u : Z) (i : nat) : MS (Z * Z) :=
  if decide (absn u = 1%positive ∧ u ≠ 0%Z) then ret (u, u) else
  t <- getsuccZ u ;;
  assert (negb (is_term t)) ;;;
  if decide (i < t_lvl t) then ret (u, u) else
  assert (bool_decide (t_lvl t = i)) ;;;
  if decide (u < 0)%Z then ret (- t_lo t, - t_hi t)%Z
  else ret (t_lo t, t_hi t).

(** ** [_ite(g, u, v)] *)
Fixpoint ite_rec (fuel : nat) (g u v : Z) : MS Z :=
  match fuel with
  | O => raise EFuel
  | S f =>
      if decide (g = 1)%Z then ret u else
      if decide (g = -1)%Z then ret v else
      s <- get ;;
      match ite_tab s !! (g, u, v) with
      | Some w => ret w
      | None =>
          ig <- level_of g ;; iu <- level_of u ;; iv <- level_of v ;;
          let z := ig `min` iu `min` iv in
          c <- top_cofactor g z ;; let '(g0, g1) := c in
          c <- top_cofactor u z ;; let '(u0, u1) := c in
          c <- top_cofactor v z ;; let '(v0, v1) := c in
          p <- ite_rec f g0 u0 v0 ;;
          q <- ite_rec f g1 u1 v1 ;;
          w <- find_or_add z p q ;;
          modify (fun s => s <| ite_tab ::= <[(g, u, v) := w]> |>) ;;;
          ret w
      end
  end.

(** fuel: one level is consumed per recursive call *)
Definition ite_ (g u v : Z) : MS Z :=
  s <- get ;; ite_rec (S (S (nvars s))) g u v.

(** ** [collect_garbage(roots=None)] *)

Fixpoint gc_loop (fuel : nat) (unused : gset positive) : MS unit :=
  match fuel with
  | O => raise EFuel
  | S f =>
      match elements unused with
      | [] => ret tt
      | u :: _ =>
          let unused := unused ∖ {[u]} in
          assert (bool_decide (u ≠ 1%positive)) ;;;
          t <- getsucc u ;;
          modify (fun s => s <| succ ::= delete u |>) ;;;
          assert (negb (is_term t)) ;;;
          s <- get ;;
          u_ <- of_opt EKey (pred s !! t) ;;
          modify (fun s => s <| pred ::= delete t |>) ;;;
          uref <- getref u ;;
          modify (fun s => s <| refc ::= delete u |>
                             <| min_free ::= Pos.min u |>) ;;;
          assert (bool_decide (u = u_)) ;;;
          assert (bool_decide (uref = 0)) ;;;
          s <- get ;;
          assert (bool_decide (1 < min_free s)%positive) ;;;
          let v := t_lo t in
          let w := t_hi t in
          decref v ;;; decref w ;;;
          rv <- getref (absn v) ;;
          let unused :=
            if decide (rv = 0 ∧ absn v ≠ 1%positive)
            then unused ∪ {[absn v]} else unused in
          rw <- (if decide (0 < w)%Z then getref (Z.to_pos w) else raise EKey) ;;
          let unused :=
            if decide (rw = 0 ∧ w ≠ 1%Z)
            then unused ∪ {[Z.to_pos w]} else unused in
          gc_loop f unused
      end
  end.

Definition collect_garbage (roots : option (list Z)) : MS unit :=
  s <- get ;;
  let n := len s in
  let roots := match roots with
               | None => Z.pos <$> (elements (dom (refc s)))
               | Some l => l
               end in
  unused <- foldM (fun (acc : gset positive) (u : Z) =>
              r <- ref u ;;
              if decide (r = 0) then ret (acc ∪ {[absn u]}) else ret acc)
            ∅ roots ;;
  let unused := unused ∖ {[1%positive]} in
  gc_loop (S n) unused ;;;
  modify (fun s => s <| ite_tab := ∅ |>) ;;;
  s' <- get ;;
  assert (bool_decide (len s' <= n)).
