(** * Export: structural views [to_nx] and [_to_dot] as abstract graphs
      (sets of nodes and edges; text formatting and networkx are glue). *)
From DD Require Export Sat.

(** nodes reachable from a reference, the terminal included *)
Definition reach_from (roots : list Z) : MS (gset positive) :=
  s <- get ;;
  foldM (fun (visited : gset positive) u =>
     ensure EValue (mem u s) ;;;
     v <- descendants_rec (S (S (nvars s))) u visited ;;
     ret (v ∪ {[absn u]})) ∅ roots.

Record xgraph := XGraph {
  x_nodes : list (positive * nat);                       (* node, level *)
  x_edges : list (positive * positive * bool * bool);    (* u, v, value/solid, complement *)
  x_refs : list Z;                                       (* external references (DOT only) *)
  x_labels : list (positive * option nat);               (* variable of each node (DOT only) *)
}.

Definition edges_of (s : st) (nodes : list positive)
  : list (positive * positive * bool * bool) :=
  n ← nodes ;
  match succ s !! n with
  | Some t =>
      if is_term t then []
      else [(n, absn (t_lo t), false, bool_decide (t_lo t < 0)%Z);
            (n, absn (t_hi t), true, false)]
  | None => []
  end.

Definition levels_of (s : st) (nodes : list positive) : list (positive * nat) :=
  omap (fun n => (fun t => (n, t_lvl t)) <$> succ s !! n) nodes.

(** [to_nx(bdd, roots)] up to multiplicity of edges *)
Definition to_nx (roots : list Z) : MS xgraph :=
  r <- reach_from roots ;;
  s <- get ;;
  let r : gset positive := match roots with [] => ∅ | _ => r ∪ {[1%positive]} end in
  let nodes := elements r in
  ret (XGraph (levels_of s nodes) (edges_of s nodes) [] []).

(** [_to_dot(roots, bdd)] *)
Definition to_dot (roots : option (list Z)) : MS xgraph :=
  s <- get ;;
  nodes <- match roots with
           | None => ret (dom (succ s))
           | Some rs => descendants rs
           end ;;
  t1 <- getsucc 1%positive ;;
  assert (bool_decide (Exists (fun n => (t_lvl <$> succ s !! n) = Some (t_lvl t1))
                              (elements nodes))) ;;;
  let nl := elements nodes in
  let labels := (fun n =>
      (n, match succ s !! n with
          | Some t => if is_term t then None
                      else (fun v => v) <$> (lvl2var s !! t_lvl t)
          | None => None
          end)) <$> nl in
  (* idx2var[i] raises KeyError for a level without variable *)
  assert (forallb (fun n => match succ s !! n with
                            | Some t => is_term t || bool_decide (is_Some (lvl2var s !! t_lvl t))
                            | None => true end) nl) ;;;
  forM (default [] roots) (fun u => getsuccZ u ;;; ret tt) ;;;
  ret (XGraph (levels_of s nl) (edges_of s nl) (default [] roots) labels).
