(** * Json: [dd._copy.dump_json] / [load_json] through [dd.autoref]
      (the JSON text itself and [shelve] are trusted containers: the model
      works on the parsed lines). *)
From DD Require Export Autoref IO Driver3.

Inductive jref := JT | JF | JN (k : Z).

Record jfile := JFile {
  jf_levels : list (nat * nat);                       (* "level_of_var", dict order *)
  jf_roots : rootsC;                                  (* "roots": signed node ids *)
  jf_nodes : list (positive * (nat * jref * jref));   (* "k": [level, low, high], file order *)
}.

(** [_dump_bdd(u, fd, cache)]: post-order, low first, each node once *)
Fixpoint dump_json_rec (fuel : nat) (u : Z)
    (acc : list (positive * (nat * jref * jref)))
  : MS (jref * list (positive * (nat * jref * jref))) :=
  match fuel with
  | O => raise EFuel
  | S f =>
      if decide (u = 1)%Z then ret (JT, acc) else
      if decide (u = -1)%Z then ret (JF, acc) else
      let k := absn u in
      let me := JN (if decide (u < 0)%Z then Z.neg k else Z.pos k) in
      if bool_decide (k ∈ acc.*1) then ret (me, acc) else
      t <- getsuccZ u ;;
      assert (negb (is_term t)) ;;;
      r <- dump_json_rec f (t_lo t) acc ;; let '(lo, acc) := r in
      r <- dump_json_rec f (t_hi t) acc ;; let '(hi, acc) := r in
      ret (me, acc ++ [(k, (t_lvl t, lo, hi))])
  end.

(** [dump_json(nodes, file)]; [vorder]: iteration order of [bdd.vars] *)
Definition dump_json (roots : rootsC) (vorder : list nat) : MS jfile :=
  s <- get ;;
  match roots with
  | RNone => raise EValue
  | _ =>
      match roots_values roots with
      | [] => raise ERuntime           (* next(iter(...)) on an empty container *)
      | _ =>
          if negb (bool_decide (NoDup vorder ∧ (list_to_set vorder : gset nat) = dom (vars s)))
          then raise EOracle else
          vl <- mapM (fun v => l <- level_of_var v ;; ret (v, l)) vorder ;;
          forM (roots_values roots) (fun u => ensure EValue (mem u s)) ;;;
          acc <- foldM (fun acc u =>
                   r <- dump_json_rec (S (S (nvars s))) u acc ;; ret (snd r))
                 [] (roots_values roots) ;;
          ret (JFile vl roots acc)
      end
  end.

(** roots as live [Function] handles *)
Inductive rootsH :=
  | HList (l : list nat)
  | HDict (d : list (nat * nat)).

Definition a_dump_json (hroots : rootsH) (vorder : list nat) : MA jfile :=
  roots <- match hroots with
           | HList l => l' <- mapM node_of l ;; ret (RList l')
           | HDict d => d' <- mapM (fun '(n, h) => u <- node_of h ;; ret (n, u)) d ;;
                        ret (RDict d')
           end ;;
  lift (dump_json roots vorder).

Definition jref_id (j : jref) : Z :=
  match j with JT => 1%Z | JF => (-1)%Z | JN k => k end.

(** [_node_from_int(uid, bdd, cache)]: the node a new [Function] is made for *)
Definition node_from_int (cache : gmap positive Z) (uid : Z) : MA Z :=
  if decide (uid = -1)%Z then ret (-1)%Z else
  if decide (uid = 1)%Z then ret 1%Z else
  if decide (uid = 0)%Z then raise EKey else
  k <- of_opt EKey (cache !! absn uid) ;;
  (* [bdd._add_int(k)] wraps, [~ u] makes a second temporary and drops the first *)
  check_in k ;;;
  ret (if decide (uid < 0)%Z then (- k)%Z else k).

(** [_make_node]: the [Function]s [low], [high], [g], [u] live until the
    call returns; the memo holds an explicit reference *)
Definition make_node (var_at_level : nat -> option nat) (load_order : bool)
    (cache : gmap positive Z) (line : positive * (nat * jref * jref))
  : MA (gmap positive Z) :=
  let '(k, (level, lo, hi)) := line in
  if decide (is_Some (cache !! k)) then ret cache else
  low <- node_from_int cache (jref_id lo) ;; tmp_new low ;;;
  high <- node_from_int cache (jref_id hi) ;; tmp_new high ;;;
  v <- of_opt EKey (var_at_level level) ;;
  u <- (if load_order then
          l <- lift (level_of_var v) ;;
          u <- lift (find_or_add l low high) ;; tmp_new u ;;; ret u
        else
          g <- lift (var v) ;; tmp_new g ;;;
          check_in g ;;; check_in high ;;; check_in low ;;;
          u <- lift (ite g high low) ;; tmp_new u ;;;
          tmp_del g ;;; ret u) ;;
  assert (bool_decide (0 < u)%Z) ;;;
  lift (incref u) ;;;
  tmp_del u ;;; tmp_del high ;;; tmp_del low ;;;
  ret (<[k := u]> cache).

(** [load_json(file, bdd, load_order)] *)
Definition a_load_json (jf : jfile) (load_order : bool) : MA rootsH :=
  (if load_order then lift (configure (Some false)) ;;; ret tt else ret tt) ;;;
  (* "level_of_var" line *)
  lift (declare (jf_levels jf).*1) ;;;
  (if load_order
   then lift (reorder (Some (list_to_map (reverse (jf_levels jf)))))
   else ret tt) ;;;
  let var_at_level (l : nat) : option nat :=
    match list_find (fun vl => bool_decide (vl.2 = l)) (reverse (jf_levels jf)) with
    | Some (_, (v, _)) => Some v
    | None => None
    end in
  cache <- foldM (make_node var_at_level load_order) ∅ (jf_nodes jf) ;;
  hroots <- match jf_roots jf with
            | RNone => raise EKey
            | RList l => l' <- mapM (fun k => u <- node_from_int cache k ;; wrap u) l ;;
                         ret (HList l')
            | RDict d => d' <- mapM (fun '(n, k) => u <- node_from_int cache k ;;
                                                    h <- wrap u ;; ret (n, h)) d ;;
                         ret (HDict d')
            end ;;
  (* rm refs to cached nodes *)
  forM (map_to_list cache) (fun '(_, u) =>
    tmp_new u ;;;
    r <- lift (ref u) ;;
    assert (bool_decide (2 <= r)) ;;;
    (if load_order then assert (bool_decide (3 <= r)) else ret tt) ;;;
    lift (decref u) ;;;
    tmp_del u) ;;;
  (* configure(reordering=old_reordering): the saved value is a dict, which is true *)
  (if load_order then lift (configure (Some true)) ;;; ret tt else ret tt) ;;;
  ret hroots.
