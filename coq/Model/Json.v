(** * Json: [dd._copy.dump_json] / [load_json] through [dd.autoref]
      (the JSON text itself and [shelve] are trusted containers: the model
      works on the parsed lines). *)
From DD Require Export Autoref IO Driver3.

Inductive jref := JT | JF | JN (k : Z).

Record jfile := JFile {
  jf_levels : list (nat * nat);                       (* "level_of_var", dict order *)
  jf_roots : rootsC;                                  (* "roots": signed node ids *)
  jf_nodes : list (positive * (nat * jref * jref));   (* "k": [level, low, high], file order *)
}.

(** [_dump_bdd(u, fd, cache)]: post-order, low first, each node once *)
Fixpoint dump_json_rec (fuel : nat) (u : Z)
    (acc : list (positive * (nat * jref * jref)))
  : MS (jref * list (positive * (nat * jref * jref))) :=
  match fuel with
  | O => raise EFuel
  | S f =>
      if decide (u = 1)%Z then ret (JT, acc) else
      if decide (u = -1)%Z then ret (JF, acc) else
      let k := absn u in
      let me := JN (if decide (u < 0)%Z then Z.neg k else Z.pos k) in
      if bool_decide (k ∈ acc.*1) then ret (me, acc) else
      t <- getsuccZ u ;;
      assert (negb (is_term t)) ;;;
      r <- dump_json_rec f (t_lo t) acc ;; let '(lo, acc) := r in
      r <- dump_json_rec f (t_hi t) acc ;; let '(hi, acc) := r in
      ret (me, acc ++ [(k, (t_lvl t, lo, hi))])
  end.

(** [dump_json(nodes, file)]; [vorder]: iteration order of [bdd.vars] *)
Definition dump_json (roots : rootsC) (vorder : list nat) : MS jfile :=
  s <- get ;;
  match roots with
  | RNone => raise EValue
  | _ =>
      match roots_values roots with
      | [] => raise ERuntime           (* next(iter(...)) on an empty container *)
      | _ =>
          if negb (bool_decide (NoDup vorder ∧ (list_to_set vorder : gset nat) = dom (vars s)))
          then raise EOracle else
          vl <- mapM (fun v => l <- level_of_var v ;; ret (v, l)) vorder ;;
          forM (roots_values roots) (fun u => ensure EValue (mem u s)) ;;;
          acc <- foldM (fun acc u =>
                   r <- dump_json_rec (S (S (nvars s))) u acc ;; ret (snd r))
                 [] (roots_values roots) ;;
          ret (JFile vl roots acc)
      end
  end.

(** roots as live [Function] handles *)
Inductive rootsH :=
  | HList (l : list nat)
  | HDict (d : list (nat * nat)).

Definition a_dump_json (hroots : rootsH) (vorder : list nat) : MA jfile :=
  roots <- match hroots with
           | HList l => l' <- mapM node_of l ;; ret (RList l')
           | HDict d => d' <- mapM (fun '(n, h) => u <- node_of h ;; ret (n, u)) d ;;
                        ret (RDict d')
           end ;;
  lift (dump_json roots vorder).

Definition jref_id (j : jref) : Z :=
  match j with JT => 1%Z | JF => (-1)%Z | JN k => k end.

(** [_node_from_int(uid, bdd, cache)]: the node a new [Function] is made for *)
Definition node_from_int (cache : gmap positive Z) (uid : Z) : MA Z :=
  if decide (uid = -1)%Z then ret (-1)%Z else
  if decide (uid = 1)%Z then ret 1%Z else
  if decide (uid = 0)%Z then raise EKey else
  k <- of_opt EKey (cache !! absn uid) ;;
  (* [bdd._add_int(k)] wraps, [~ u] makes a second temporary and drops the first *)
  check_in k ;;;
  ret (if decide (uid < 0)%Z then (- k)%Z else k).

(** a temporary [Function] that lives for the duration of [body]: Python
    releases it when the frame is left, normally or by an exception *)
Definition with_tmp {A} (u : Z) (body : MA A) : MA A :=
  tmp_new u ;;; r <- catch body ;; tmp_del u ;;; reraise r.

(** [_make_node]: the [Function]s [low], [high], [g], [u] live until the
    call returns; the memo holds an explicit reference *)
Definition make_node (var_at_level : nat -> option nat) (load_order : bool)
    (cache : gmap positive Z) (line : positive * (nat * jref * jref))
  : MA (gmap positive Z) :=
  let '(k, (level, lo, hi)) := line in
  if decide (is_Some (cache !! k)) then ret cache else
  low <- node_from_int cache (jref_id lo) ;;
  with_tmp low (
    high <- node_from_int cache (jref_id hi) ;;
    with_tmp high (
      v <- of_opt EKey (var_at_level level) ;;
      u <- (if load_order then
              l <- lift (level_of_var v) ;; lift (find_or_add l low high)
            else
              g <- lift (var v) ;;
              with_tmp g (
                check_in g ;;; check_in high ;;; check_in low ;;;
                lift (ite g high low))) ;;
      with_tmp u (
        assert (bool_decide (0 < u)%Z) ;;;
        lift (incref u) ;;;
        ret (<[k := u]> cache)))).

(** the loop over the node lines; a failing line stops it and reports the
    memo as it stands (the loader releases it, since the repair of
    [dd._copy._load_json]) *)
Fixpoint make_nodes (var_at_level : nat -> option nat) (load_order : bool)
    (cache : gmap positive Z) (lines : list (positive * (nat * jref * jref)))
  : MA (gmap positive Z * option err) :=
  match lines with
  | [] => ret (cache, None)
  | l :: ls =>
      r <- catch (make_node var_at_level load_order cache l) ;;
      match r with
      | Ok cache' => make_nodes var_at_level load_order cache' ls
      | Err e => ret (cache, Some e)
      end
  end.

(** the nodes of the roots (each is looked up, wrapped and, if a later one
    fails, dropped again: no net effect, so all lookups come first) *)
Definition root_nodes (cache : gmap positive Z) (roots : rootsC) : MA rootsC :=
  match roots with
  | RNone => raise EKey
  | RList l => l' <- mapM (node_from_int cache) l ;; ret (RList l')
  | RDict d => d' <- mapM (fun '(n, k) => u <- node_from_int cache k ;; ret (n, u)) d ;;
               ret (RDict d')
  end.

Definition wrap_roots (roots : rootsC) : MA rootsH :=
  match roots with
  | RNone => raise EKey
  | RList l => l' <- mapM wrap l ;; ret (HList l')
  | RDict d => d' <- mapM (fun '(n, u) => h <- wrap u ;; ret (n, h)) d ;; ret (HDict d')
  end.

(** [load_json(file, bdd, load_order)] *)
Definition a_load_json (jf : jfile) (load_order : bool) : MA rootsH :=
  (if load_order then lift (configure (Some false)) ;;; ret tt else ret tt) ;;;
  (* "level_of_var" line *)
  lift (declare (jf_levels jf).*1) ;;;
  (if load_order
   then lift (reorder (Some (list_to_map (reverse (jf_levels jf)))))
   else ret tt) ;;;
  let var_at_level (l : nat) : option nat :=
    match list_find (fun vl => bool_decide (vl.2 = l)) (reverse (jf_levels jf)) with
    | Some (_, (v, _)) => Some v
    | None => None
    end in
  r <- make_nodes var_at_level load_order ∅ (jf_nodes jf) ;;
  let '(cache, failed) := r in
  nodes <- match failed with
           | Some e => ret (Err e)
           | None => catch (root_nodes cache (jf_roots jf))
           end ;;
  match nodes with
  | Err e =>
      (* the file cannot be loaded: release the memo's references *)
      forM (map_to_list cache) (fun '(_, u) => lift (decref u)) ;;;
      raise e
  | Ok nodes =>
      hroots <- wrap_roots nodes ;;
      (* rm refs to cached nodes *)
      forM (map_to_list cache) (fun '(_, u) =>
        tmp_new u ;;;
        r <- lift (ref u) ;;
        assert (bool_decide (2 <= r)) ;;;
        (if load_order then assert (bool_decide (3 <= r)) else ret tt) ;;;
        lift (decref u) ;;;
        tmp_del u) ;;;
      (* configure(reordering=old_reordering): the saved value is a dict, which is true *)
      (if load_order then lift (configure (Some true)) ;;; ret tt else ret tt) ;;;
      ret hroots
  end.
