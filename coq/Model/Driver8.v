(** * Driver8: [add_expr] by the LR driver with PLY's tables (follows the
      implementation also on texts that are rejected late) *)
From DD Require Export Driver7 LR.
From DD Require Export Generated.Lalr.
Local Open Scope string_scope.

Definition add_expr_lr_ (text : string) : MS Z :=
  add_expr_lr lalr_tables lex_alias reserved_words lex_rules text.

Definition step_expr_lr (w : world2) (m : nat) (text : string) : world2 * res value :=
  let s := default empty_st (w_mgrs w !! m) in
  let '(r, s') := add_expr_lr_ text s in
  (w <| w_mgrs ::= <[m := s' <| tape := [] |>]> |>,
   match r with Ok u => Ok (VZ u) | Err e => Err e end).

Definition astep_expr_lr (w : aworld) (m : nat) (text : string) : aworld * res value :=
  astep_with w m (u <- lift (add_expr_lr_ text) ;; h <- wrap u ;; ret (VN h)).
