(** * Driver2: the operation alphabet extended with counting, picking,
      structural queries and variable removal.  ([Driver.v] is kept as the
      alphabet of the first history theorems.) *)
From DD Require Export Driver Sat Export IO.

Inductive op2 :=
  | O1 (o : op)
  | OCount (u : Z) (n : option nat)
  | OPickIter (u : Z) (care : option (list nat))
  | OPick (u : Z) (care : option (list nat))
  | OUndeclare (vs : list nat)
  | ODescendants (roots : list Z)
  | OSucc (u : Z)
  | OLevelOfVar (v : nat)
  | OVarAtLevel (l : nat)
  | OLen
  | OContains (u : Z)
  | OShutdown
  | OToNx (roots : list Z)
  | OToDot (roots : option (list Z))
  | ODump (fid : nat) (roots : rootsC) (order : list positive) (vorder : list nat)
  | OLoad (fid : nat) (levels : bool)
  | ODumpManager (fid : nat) (vorder : list nat)
  | OLoadManager (fid : nat).

Definition vassign (m : gmap nat bool) : value :=
  VL ((fun k => VL [VN k; VB (default false (m !! k))]) <$>
      merge_sort le (elements (dom m))).

(** [BDD.__del__]: returns whether the shutdown assertion passes *)
Definition shutdown : MS bool :=
  r1 <- ref 1 ;;
  (if decide (0 < r1) then decref 1 else ret tt) ;;;
  collect_garbage None ;;;
  s <- get ;;
  ret (bool_decide (map_Forall (fun _ r => r = 0) (refc s))).

Definition vgraph (g : xgraph) : value :=
  VL [VL ((fun '(n, l) => VL [VZ (Z.pos n); VN l]) <$> x_nodes g);
      VL ((fun '(u, v, a, c) => VL [VZ (Z.pos u); VZ (Z.pos v); VB a; VB c]) <$> x_edges g);
      VL (VZ <$> x_refs g);
      VL ((fun '(n, o) => VL [VZ (Z.pos n); match o with Some v => VN v | None => VU end])
            <$> x_labels g)].

Record world2 := World2 {
  w_mgrs : world;
  w_files : gmap nat pfile;
  w_mfiles : gmap nat mfile;
}.
Global Instance eta_world2 : Settable _ := settable! World2 <w_mgrs; w_files; w_mfiles>.
Definition world2_empty : world2 := World2 ∅ ∅ ∅.

Definition vroots (r : rootsC) : value :=
  match r with
  | RNone => VU
  | RList l => VL (VZ <$> l)
  | RDict d => VL ((fun '(k, u) => VL [VN k; VZ u]) <$> d)
  end.

(** operations on the file store; the result carries the new store *)
Definition run_io (w : world2) (o : op2) : option (MS (value * world2)) :=
  match o with
  | ODump fid roots order vorder => Some (
      pf <- dump_pickle roots order vorder ;;
      ret (VU, w <| w_files ::= <[fid := pf]> |>))
  | OLoad fid levels => Some (
      pf <- of_opt EValue (w_files w !! fid) ;;
      r <- load_pickle pf levels ;;
      ret (vroots r, w))
  | ODumpManager fid vorder => Some (
      mf <- dump_manager vorder ;;
      ret (VU, w <| w_mfiles ::= <[fid := mf]> |>))
  | OLoadManager fid => Some (
      mf <- of_opt EValue (w_mfiles w !! fid) ;;
      load_manager mf ;;;
      ret (VU, w))
  | _ => None
  end.

Definition run_op2 (w : world) (o : op2) : MS value :=
  match o with
  | O1 o => run_op w o
  | OCount u n => r <- count u n ;; ret (VZ r)
  | OPickIter u care => r <- pick_iter u care ;; ret (VL (vassign <$> r))
  | OPick u care =>
      r <- pick u care ;;
      ret (match r with Some m => vassign m | None => VU end)
  | OUndeclare vs => r <- undeclare_vars vs ;; ret (vset r)
  | ODescendants roots =>
      r <- descendants roots ;; ret (VL ((fun p => VZ (Z.pos p)) <$> elements r))
  | OSucc u => t <- getsuccZ u ;; ret (VL [VN (t_lvl t); VZ (t_lo t); VZ (t_hi t)])
  | OLevelOfVar v => r <- level_of_var v ;; ret (VN r)
  | OVarAtLevel l => r <- var_at_level l ;; ret (VN r)
  | OLen => s <- get ;; ret (VN (len s))
  | OContains u => s <- get ;; ret (VB (mem u s))
  | OShutdown => r <- shutdown ;; ret (VB r)
  | OToNx roots => g <- to_nx roots ;; ret (vgraph g)
  | OToDot roots => g <- to_dot roots ;; ret (vgraph g)
  | ODump _ _ _ _ | OLoad _ _ | ODumpManager _ _ | OLoadManager _ => raise EType
  end.

Definition step2 (w : world2) (m : nat) (o : op2) : world2 * res value :=
  let s := default empty_st (w_mgrs w !! m) in
  match run_io w o with
  | Some io =>
      match io s with
      | (Ok (v, w'), s') => (w' <| w_mgrs ::= <[m := s' <| tape := [] |>]> |>, Ok v)
      | (Err e, s') => (w <| w_mgrs ::= <[m := s' <| tape := [] |>]> |>, Err e)
      end
  | None =>
      let '(r, s') := match o with
                      | O1 (OCopy src u) =>
                          if decide (src = m) then (Ok (VZ u), s)
                          else run_op2 (w_mgrs w) o s
                      | _ => run_op2 (w_mgrs w) o s
                      end in
      let s' := match o with O1 (OTape _) => s' | _ => s' <| tape := [] |> end in
      (w <| w_mgrs ::= <[m := s']> |>, r)
  end.
Definition world2_get (w : world2) (m : nat) : st := default empty_st (w_mgrs w !! m).
