(** * Driver2: the operation alphabet extended with counting, picking,
      structural queries and variable removal.  ([Driver.v] is kept as the
      alphabet of the first history theorems.) *)
From DD Require Export Driver Sat Export.

Inductive op2 :=
  | O1 (o : op)
  | OCount (u : Z) (n : option nat)
  | OPickIter (u : Z) (care : option (list nat))
  | OPick (u : Z) (care : option (list nat))
  | OUndeclare (vs : list nat)
  | ODescendants (roots : list Z)
  | OSucc (u : Z)
  | OLevelOfVar (v : nat)
  | OVarAtLevel (l : nat)
  | OLen
  | OContains (u : Z)
  | OShutdown
  | OToNx (roots : list Z)
  | OToDot (roots : option (list Z)).

Definition vassign (m : gmap nat bool) : value :=
  VL ((fun k => VL [VN k; VB (default false (m !! k))]) <$>
      merge_sort le (elements (dom m))).

(** [BDD.__del__]: returns whether the shutdown assertion passes *)
Definition shutdown : MS bool :=
  r1 <- ref 1 ;;
  (if decide (0 < r1) then decref 1 else ret tt) ;;;
  collect_garbage None ;;;
  s <- get ;;
  ret (bool_decide (map_Forall (fun _ r => r = 0) (refc s))).

Definition vgraph (g : xgraph) : value :=
  VL [VL ((fun '(n, l) => VL [VZ (Z.pos n); VN l]) <$> x_nodes g);
      VL ((fun '(u, v, a, c) => VL [VZ (Z.pos u); VZ (Z.pos v); VB a; VB c]) <$> x_edges g);
      VL (VZ <$> x_refs g);
      VL ((fun '(n, o) => VL [VZ (Z.pos n); match o with Some v => VN v | None => VU end])
            <$> x_labels g)].

Definition run_op2 (w : world) (o : op2) : MS value :=
  match o with
  | O1 o => run_op w o
  | OCount u n => r <- count u n ;; ret (VZ r)
  | OPickIter u care => r <- pick_iter u care ;; ret (VL (vassign <$> r))
  | OPick u care =>
      r <- pick u care ;;
      ret (match r with Some m => vassign m | None => VU end)
  | OUndeclare vs => r <- undeclare_vars vs ;; ret (vset r)
  | ODescendants roots =>
      r <- descendants roots ;; ret (VL ((fun p => VZ (Z.pos p)) <$> elements r))
  | OSucc u => t <- getsuccZ u ;; ret (VL [VN (t_lvl t); VZ (t_lo t); VZ (t_hi t)])
  | OLevelOfVar v => r <- level_of_var v ;; ret (VN r)
  | OVarAtLevel l => r <- var_at_level l ;; ret (VN r)
  | OLen => s <- get ;; ret (VN (len s))
  | OContains u => s <- get ;; ret (VB (mem u s))
  | OShutdown => r <- shutdown ;; ret (VB r)
  | OToNx roots => g <- to_nx roots ;; ret (vgraph g)
  | OToDot roots => g <- to_dot roots ;; ret (vgraph g)
  end.

Definition step2 (w : world) (m : nat) (o : op2) : world * res value :=
  let s := default empty_st (w !! m) in
  let '(r, s') := run_op2 w o s in
  let s' := match o with O1 (OTape _) => s' | _ => s' <| tape := [] |> end in
  (<[m := s']> w, r).
