(** * Autoref: [dd.autoref] — [Function] handles over a [dd.bdd.BDD].

    A [Function] object increments the count of its node when created and
    decrements it once when it dies.  The harness owns every Python object,
    so creation and death are explicit: a handle id [hid] names one live
    [Function].  Every [autoref.BDD] method is "check membership, unwrap,
    call the [dd.bdd] operation, wrap the integer result". *)
From DD Require Export Sat.

Record ast := ASt {
  mgr : st;                       (* the wrapped dd.bdd.BDD *)
  handles : gmap nat Z;           (* live Function objects: hid -> node *)
  next_hid : nat;
}.
Global Instance eta_ast : Settable _ := settable! ASt <mgr; handles; next_hid>.

Definition MA := M ast.

(** run a [dd.bdd] computation on the wrapped manager *)
Definition lift {A} (m : MS A) : MA A :=
  fun a => let '(r, s') := m (mgr a) in (r, a <| mgr := s' |>).

(** [Function(node, bdd)] / [BDD._wrap(u)]: membership check, then incref *)
Definition wrap (u : Z) : MA nat :=
  a <- get ;;
  ensure EValue (mem u (mgr a)) ;;;
  lift (incref u) ;;;
  let h := next_hid a in
  modify (fun a => a <| handles ::= <[h := u]> |> <| next_hid := S h |>) ;;;
  ret h.

(** [Function.__del__] *)
Definition drop (h : nat) : MA unit :=
  a <- get ;;
  match handles a !! h with
  | None => raise EKey
  | Some u =>
      modify (fun a => a <| handles ::= delete h |>) ;;;
      lift (decref u)
  end.

(** [u.node] of a live handle; [u in self] holds for handles of this manager *)
Definition node_of (h : nat) : MA Z :=
  a <- get ;; of_opt EKey (handles a !! h).

(** [if u not in self: raise ValueError] *)
Definition check_in (u : Z) : MA unit :=
  a <- get ;; ensure EValue (mem u (mgr a)).

Definition onode_of (h : option nat) : MA (option Z) :=
  match h with None => ret None | Some h => u <- node_of h ;; ret (Some u) end.

(** ** [autoref.BDD] methods *)
Definition a_var (v : nat) : MA nat := r <- lift (var v) ;; wrap r.
Definition a_true : MA nat := wrap 1.
Definition a_false : MA nat := wrap (-1).

Definition a_apply (op : string) (hu : nat) (hv hw : option nat) : MA nat :=
  u <- node_of hu ;; check_in u ;;;
  (match hv, hw with None, Some _ => raise EValue | _, _ => ret tt end) ;;;
  v <- onode_of hv ;;
  (match v with Some v => check_in v | None => ret tt end) ;;;
  w <- onode_of hw ;;
  (match w with Some w => check_in w | None => ret tt end) ;;;
  r <- lift (apply op u v w) ;;
  wrap r.

Definition a_ite (hg hu hv : nat) : MA nat :=
  g <- node_of hg ;; check_in g ;;;
  u <- node_of hu ;; check_in u ;;;
  v <- node_of hv ;; check_in v ;;;
  r <- lift (ite g u v) ;; wrap r.

Inductive alet_arg :=
  | ALetBool (d : list (nat * bool))
  | ALetRef (d : list (nat * nat))      (* name -> handle *)
  | ALetName (d : list (nat * nat)).

Definition a_let (d : alet_arg) (hu : nat) : MA nat :=
  u <- node_of hu ;; check_in u ;;;
  match d with
  | ALetBool [] | ALetRef [] | ALetName [] =>
      (* `return u`: the very same Function object *)
      ret hu
  | ALetBool d => r <- lift (let_ (LetBool d) u) ;; wrap r
  | ALetName d => r <- lift (let_ (LetName d) u) ;; wrap r
  | ALetRef d =>
      d' <- mapM (fun '(x, h) => n <- node_of h ;; ret (x, n)) d ;;
      r <- lift (let_ (LetRef d') u) ;; wrap r
  end.

Definition a_quantify (hu : nat) (qvars : list nat) (fa : bool) : MA nat :=
  u <- node_of hu ;; check_in u ;;;
  r <- lift (quantify u true qvars fa) ;; wrap r.

Definition a_cube (d : list (nat * bool)) : MA nat :=
  r <- lift (cube d) ;; wrap r.

Definition a_find_or_add (v : nat) (hlo hhi : nat) : MA nat :=
  l <- lift (level_of_var v) ;;
  lo <- node_of hlo ;; hi <- node_of hhi ;;
  r <- lift (find_or_add l lo hi) ;; wrap r.

Definition a_support (hu : nat) : MA (gset nat) :=
  u <- node_of hu ;; check_in u ;;; lift (support u).
Definition a_count (hu : nat) (n : option nat) : MA Z :=
  u <- node_of hu ;; check_in u ;;; lift (count u n).

(** [image]/[preimage] module functions *)
Definition a_image (pre : bool) (ht hs : nat) (rn : list (nat * nat))
    (q : list nat) (fa : bool) : MA nat :=
  t <- node_of ht ;; s <- node_of hs ;;
  r <- lift ((if pre then preimage_pub else image_pub) t s true rn true q fa) ;;
  wrap r.

(** ** [Function] methods *)
(** [~u], [u & v], [u | v], [u.implies(v)], [u.equiv(v)]: [Function._apply] *)
Definition f_apply (op : string) (hu : nat) (hv : option nat) : MA nat :=
  u <- node_of hu ;;
  v <- onode_of hv ;;
  r <- lift (apply op u v None) ;;
  wrap r.

(** [u == v], [u != v] *)
Definition f_eq (hu hv : nat) : MA bool :=
  u <- node_of hu ;; v <- node_of hv ;; ret (bool_decide (u = v)).

(** a temporary [Function]: counted like a handle, never seen by the user *)
Definition tmp_new (u : Z) : MA unit :=
  a <- get ;; ensure EValue (mem u (mgr a)) ;;; lift (incref u).
Definition tmp_del (u : Z) : MA unit := lift (decref u).

(** [u <= v]: [(other | ~ self) == self.bdd.true]; the temporaries are
    created and dropped in evaluation order.  When [other | ~ self] raises
    (a full table: [RuntimeError]) the temporary [~ self] dies while the
    exception unwinds the frame of [__le__] ([Function.__del__]). *)
Definition f_le (hu hv : nat) : MA bool :=
  u <- node_of hu ;; v <- node_of hv ;;
  n <- lift (apply "not" u None None) ;; tmp_new n ;;;
  ro <- catch (lift (apply "or" v (Some n) None)) ;;
  match ro with
  | Err e => tmp_del n ;;; raise e
  | Ok o =>
      tmp_new o ;;;
      tmp_del n ;;;
      tmp_new 1 ;;;
      let r := bool_decide (o = 1%Z) in
      tmp_del o ;;; tmp_del 1 ;;;
      ret r
  end.

(** [u < v]: [self <= other and self != other] *)
Definition f_lt (hu hv : nat) : MA bool :=
  le <- f_le hu hv ;;
  if le then ne <- f_eq hu hv ;; ret (negb ne) else ret false.

(** [u.low], [u.high] ([None] for the terminal) *)
Definition f_child (hi : bool) (hu : nat) : MA (option nat) :=
  u <- node_of hu ;;
  t <- lift (getsuccZ u) ;;
  if is_term t then ret None else
  h <- wrap (if hi then t_hi t else t_lo t) ;; ret (Some h).

(** [bdd.succ(u)] = [(level, wrap(low), wrap(high))] *)
Definition a_succ (hu : nat) : MA (nat * option nat * option nat) :=
  u <- node_of hu ;;
  t <- lift (getsuccZ u) ;;
  if is_term t then ret (t_lvl t, None, None) else
  hl <- wrap (t_lo t) ;;
  hh <- wrap (t_hi t) ;;
  ret (t_lvl t, Some hl, Some hh).

Definition f_level (hu : nat) : MA nat :=
  u <- node_of hu ;; t <- lift (getsuccZ u) ;; ret (t_lvl t).
(** [u.var]: name, or [None] for the terminal *)
Definition f_var (hu : nat) : MA (option nat) :=
  u <- node_of hu ;; t <- lift (getsuccZ u) ;;
  if is_term t then ret None else v <- lift (var_at_level (t_lvl t)) ;; ret (Some v).
Definition f_ref (hu : nat) : MA nat :=
  u <- node_of hu ;; lift (ref u).
Definition f_negated (hu : nat) : MA bool :=
  u <- node_of hu ;; ret (bool_decide (u < 0)%Z).
(** [len(u)] / [u.dag_size] *)
Definition f_len (hu : nat) : MA nat :=
  u <- node_of hu ;; d <- lift (descendants [u]) ;; ret (size d).

(** [bdd.copy(u, other)] between two autoref managers: the result is a
    handle of the *other* manager, handled by the driver *)

(** manager shutdown after every handle is gone: [dd.bdd.BDD.__del__] *)
Definition shutdown_ : MS bool :=
  r1 <- ref 1 ;;
  (if decide (0 < r1) then decref 1 else ret tt) ;;;
  collect_garbage None ;;;
  s <- get ;;
  ret (bool_decide (map_Forall (fun _ r => r = 0) (refc s))).
