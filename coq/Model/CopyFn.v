(** * CopyFn: [dd._copy.copy_bdd] / [copy_bdds_from]: copying through the
      public [Function] interface (source and target are [dd.autoref]
      managers).  The source is only read (its temporaries net to zero and
      nothing in it depends on the counts).  In the TARGET every object is
      counted exactly: the memo dict keeps one [Function] per copied source
      node alive until the call returns, the locals [low], [high], [g] of a
      frame die when it returns, a complemented result [~ r] and the
      constants are fresh objects, an uncomplemented result IS the memo's
      object (aliasing: the same handle). *)
From DD Require Export Driver6.

Definition res_map {A B} (f : A -> B) (r : res A) : res B :=
  match r with Ok a => Ok (f a) | Err e => Err e end.
Infix "<$$>" := res_map (at level 61, left associativity).

(** what a call returns: the memo's object for source node [k], or a fresh
    object on the given target node *)
Inductive cobj := OMemo (k : positive) | OFresh (u : Z).

Definition cobj_node (cache : gmap positive Z) (o : cobj) : MA Z :=
  match o with
  | OFresh u => ret u
  | OMemo k => of_opt EKey (cache !! k)
  end.

(** a local that holds [o] until the frame returns *)
Definition release (o : cobj) : MA unit :=
  match o with OFresh u => tmp_del u | OMemo _ => ret tt end.

(** [_flip(r, u)] where [r] is the memo's object of [k] on node [x] *)
Definition flip_obj (k : positive) (x : Z) (u : Z) : MA cobj :=
  if decide (u < 0)%Z then tmp_new (- x)%Z ;;; ret (OFresh (- x)%Z) else ret (OMemo k).

(** the recursion never raises as a computation: it returns the outcome
    together with the memo as it stands, so that a failure can release the
    memo's objects (Python: the dict dies when the exception unwinds) *)
Fixpoint copy_fn_rec (fuel : nat) (src : st) (u : Z) (cache : gmap positive Z)
  : MA (res cobj * gmap positive Z) :=
  match fuel with
  | O => ret (Err EFuel, cache)
  | S f =>
      if decide (u = 1)%Z then
        r <- catch (tmp_new 1) ;; ret ((fun _ => OFresh 1%Z) <$$> r, cache) else
      if decide (u = -1)%Z then
        r <- catch (tmp_new (-1)) ;; ret ((fun _ => OFresh (-1)%Z) <$$> r, cache) else
      let k := absn u in
      match cache !! k with
      | Some x => r <- catch (flip_obj k x u) ;; ret (r, cache)
      | None =>
          match succ src !! k with
          | None => ret (Err EKey, cache)
          | Some t =>
              if is_term t then ret (Err EAssert, cache) else
              r1 <- copy_fn_rec f src (t_lo t) cache ;; let '(rlo, cache) := r1 in
              match rlo with
              | Err e => ret (Err e, cache)
              | Ok lo =>
                  r2 <- copy_fn_rec f src (t_hi t) cache ;; let '(rhi, cache) := r2 in
                  match rhi with
                  | Err e => release lo ;;; ret (Err e, cache)
                  | Ok hi =>
                      r <- catch (
                        v <- of_opt EKey (lvl2var src !! t_lvl t) ;;
                        g <- lift (var v) ;;
                        with_tmp g (
                          hn <- cobj_node cache hi ;;
                          ln <- cobj_node cache lo ;;
                          check_in g ;;; check_in hn ;;; check_in ln ;;;
                          x <- lift (ite g hn ln) ;;
                          (* the new Function [r] lives in the memo *)
                          tmp_new x ;;;
                          ret x)) ;;
                      release hi ;;;
                      release lo ;;;
                      match r with
                      | Err e => ret (Err e, cache)
                      | Ok x =>
                          let cache := <[k := x]> cache in
                          o <- catch (flip_obj k x u) ;;
                          ret (o, cache)
                      end
                  end
              end
          end
      end
  end.

Fixpoint copy_roots (src : st) (roots : list Z) (objs : list cobj) (cache : gmap positive Z)
  : MA (list cobj * gmap positive Z * option err) :=
  match roots with
  | [] => ret (objs, cache, None)
  | u :: roots =>
      if negb (mem u src) then ret (objs, cache, Some EValue) else
      r <- copy_fn_rec (S (S (nvars src))) src u cache ;;
      match r with
      | (Ok o, cache) => copy_roots src roots (objs ++ [o]) cache
      | (Err e, cache) => ret (objs, cache, Some e)
      end
  end.

(** [copy_bdds_from(roots, target)]: one memo for all roots; afterwards the
    memo dies: its objects that were not returned are released.  Returns the
    handles in root order (the same memo object returned twice is the same
    handle). *)
Definition copy_bdds_from (src : st) (roots : list Z) : MA (list nat) :=
  r <- copy_roots src roots [] ∅ ;;
  let '(objs, cache, failed) := r in
  match failed with
  | Some e =>
      (* the exception unwinds: the list built so far and the memo die *)
      forM objs release ;;;
      forM (map_to_list cache) (fun '(_, x) => tmp_del x) ;;;
      raise e
  | None =>
      (* handles: one per distinct returned memo object, one per fresh object *)
      hs <- foldM (fun '(hs, memo_h) o =>
              match o with
              | OFresh u =>
                  a <- get ;;
                  let h := next_hid a in
                  modify (fun a => a <| handles ::= <[h := u]> |> <| next_hid := S h |>) ;;;
                  ret (hs ++ [h], memo_h)
              | OMemo k =>
                  match (memo_h : gmap positive nat) !! k with
                  | Some h => ret (hs ++ [h], memo_h)
                  | None =>
                      x <- of_opt EKey (cache !! k) ;;
                      a <- get ;;
                      let h := next_hid a in
                      modify (fun a => a <| handles ::= <[h := x]> |> <| next_hid := S h |>) ;;;
                      ret (hs ++ [h], <[k := h]> memo_h)
                  end
              end) ([], ∅) objs ;;
      let '(hs, memo_h) := hs in
      (* the memo dies *)
      forM (map_to_list cache) (fun '(k, x) =>
        if decide (is_Some (memo_h !! k)) then ret tt else tmp_del x) ;;;
      ret hs
  end.

(** world step: [copy_bdds_from([handles of manager src], manager m)] *)
Definition astep_copy_fn (w : aworld) (m src : nat) (hroots : list nat) : aworld * res value :=
  let asrc := default empty_ast (w !! src) in
  let roots := omap (fun h => handles asrc !! h) hroots in
  if negb (bool_decide (length roots = length hroots)) then (w, Err EKey) else
  astep_with w m (hs <- copy_bdds_from (mgr asrc) roots ;; ret (VL (VN <$> hs))).
