(** * Parser: the formula language of [add_expr] / [to_expr].

    The PLY grammar of dd/_parser.py (LALR(1) + precedence declarations) is
    modelled by a precedence-climbing parser that is *generic in the tables*
    (spelling -> token, precedence levels); the tables themselves are
    regenerated from the source ([Generated/ParserTables.v]).  PLY's table
    construction and the regex lexer are not modelled: they are tied by the
    correspondence check (same syntax trees / same results on generated
    formulas). *)
From stdpp Require Import pretty.
From DD Require Export Sat.
Local Open Scope string_scope.

Record token := Tok { ty : string; tv : string }.

(** lexer table: spelling -> (token type, token value) *)
Definition lex_table := list (string * (string * string)).
(** precedence: lowest first, [(assoc, token type)] *)
Definition prec_table := list (string * string).

Definition is_digit (a : Ascii.ascii) : bool :=
  let n := Ascii.nat_of_ascii a in bool_decide (48 <= n ∧ n <= 57).
Definition is_name_start (a : Ascii.ascii) : bool :=
  let n := Ascii.nat_of_ascii a in
  bool_decide ((65 <= n ∧ n <= 90) ∨ (97 <= n ∧ n <= 122) ∨ n = 95).
(** [A-Za-z0-9_'.] *)
Definition is_name_char (a : Ascii.ascii) : bool :=
  let n := Ascii.nat_of_ascii a in
  is_name_start a || is_digit a || bool_decide (n = 39 ∨ n = 46).
Fixpoint all_chars (p : Ascii.ascii -> bool) (s : string) : bool :=
  match s with EmptyString => true | String a s => p a && all_chars p s end.

(** one spelling -> token; names and numbers by their shape, reserved words
    and operators through the tables *)
Definition lex1 (lt : lex_table) (reserved : list (string * string)) (sp : string)
  : option token :=
  match sp with
  | EmptyString => None
  | String a rest =>
      if is_name_start a then
        if negb (all_chars is_name_char rest) then None else
        Some (Tok (default "NAME" (snd <$> list_find (fun kv => bool_decide (kv.1 = sp)) reserved
                                      ≫= fun kv => Some kv.2)) sp)
      else if all_chars is_digit sp then Some (Tok "NUMBER" sp)
      else match list_find (fun kv => bool_decide (kv.1 = sp)) lt with
           | Some (_, (_, (t, v))) => Some (Tok t v)
           | None => None
           end
  end.

Inductive ast :=
  | ABool (b : bool)
  | AVar (name : string)
  | ANum (z : Z)
  | AOp1 (op : string) (a : ast)
  | AOp2 (op : string) (a b : ast)
  | AIte (a b c : ast)
  | AQuant (op : string) (names : list string) (a : ast)
  | ASubst (subs : list (string * string)) (a : ast).   (* (old, new) *)

(** position of a token type in the precedence table (binding power) *)
Fixpoint bp_of (p : prec_table) (t : string) (k : nat) : option nat :=
  match p with
  | [] => None
  | (_, t') :: p => if decide (t' = t) then Some k else bp_of p t (S k)
  end.
Definition binary_types : list string :=
  ["AND"; "OR"; "XOR"; "IMPLIES"; "EQUIV"; "EQUALS"; "MINUS"].

Fixpoint digits_val (s : string) (acc : Z) : Z :=
  match s with
  | EmptyString => acc
  | String a s => digits_val s (10 * acc + Z.of_nat (Ascii.nat_of_ascii a - 48))
  end.

Section parse.
Context (P : prec_table).

Definition bp (t : string) : nat := default 0 (bp_of P t 0).

(** [names : names COMMA name | name] *)
Fixpoint parse_names (fuel : nat) (ts : list token) : option (list string * list token) :=
  match fuel with
  | O => None
  | S f =>
      match ts with
      | Tok "NAME" n :: Tok "COMMA" _ :: rest =>
          match parse_names f rest with
          | Some (ns, rest) => Some (n :: ns, rest)
          | None => None
          end
      | Tok "NAME" n :: rest => Some ([n], rest)
      | _ => None
      end
  end.

(** [subs : subs COMMA sub | sub], [sub : name DIV name] (new / old) *)
Fixpoint parse_subs (fuel : nat) (ts : list token)
  : option (list (string * string) * list token) :=
  match fuel with
  | O => None
  | S f =>
      match ts with
      | Tok "NAME" new :: Tok "DIV" _ :: Tok "NAME" old :: Tok "COMMA" _ :: rest =>
          match parse_subs f rest with
          | Some (ss, rest) => Some ((old, new) :: ss, rest)
          | None => None
          end
      | Tok "NAME" new :: Tok "DIV" _ :: Tok "NAME" old :: rest => Some ([(old, new)], rest)
      | _ => None
      end
  end.

(** [expr] with minimal binding power [minbp]: a prefix form followed by
    left-associative binary operators of binding power >= minbp.  Binders
    and negation parse their operand at their own level. *)
Fixpoint parse_expr (fuel : nat) (minbp : nat) (ts : list token)
  : option (ast * list token) :=
  match fuel with
  | O => None
  | S f =>
      let prefix : option (ast * list token) :=
        match ts with
        | Tok "NOT" v :: rest =>
            match parse_expr f (bp "NOT") rest with
            | Some (e, rest) => Some (AOp1 v e, rest)
            | None => None
            end
        | Tok "EXISTS" v :: rest | Tok "FORALL" v :: rest =>
            match parse_names (S (length rest)) rest with
            | Some (ns, Tok "COLON" _ :: rest) =>
                match parse_expr f (bp "COLON") rest with
                | Some (e, rest) => Some (AQuant v ns e, rest)
                | None => None
                end
            | _ => None
            end
        | Tok "RENAME" _ :: rest =>
            match parse_subs (S (length rest)) rest with
            | Some (ss, Tok "COLON" _ :: rest) =>
                match parse_expr f (bp "COLON") rest with
                | Some (e, rest) => Some (ASubst ss e, rest)
                | None => None
                end
            | _ => None
            end
        | Tok "LPAREN" _ :: rest =>
            match parse_expr f 0 rest with
            | Some (e, Tok "RPAREN" _ :: rest) => Some (e, rest)
            | _ => None
            end
        | Tok "ITE" _ :: Tok "LPAREN" _ :: rest =>
            match parse_expr f 0 rest with
            | Some (a, Tok "COMMA" _ :: rest) =>
                match parse_expr f 0 rest with
                | Some (b, Tok "COMMA" _ :: rest) =>
                    match parse_expr f 0 rest with
                    | Some (c, Tok "RPAREN" _ :: rest) => Some (AIte a b c, rest)
                    | _ => None
                    end
                | _ => None
                end
            | _ => None
            end
        | Tok "TRUE" _ :: rest => Some (ABool true, rest)
        | Tok "FALSE" _ :: rest => Some (ABool false, rest)
        | Tok "NAME" n :: rest => Some (AVar n, rest)
        | Tok "AT" _ :: Tok "NUMBER" n :: rest => Some (ANum (digits_val n 0), rest)
        | Tok "AT" _ :: Tok "MINUS" _ :: Tok "NUMBER" n :: rest =>
            Some (ANum (- digits_val n 0), rest)
        | _ => None
        end in
      match prefix with
      | None => None
      | Some (lhs, rest) => parse_binary f minbp lhs rest
      end
  end
with parse_binary (fuel : nat) (minbp : nat) (lhs : ast) (ts : list token)
  : option (ast * list token) :=
  match fuel with
  | O => None
  | S f =>
      match ts with
      | Tok t v :: rest =>
          if bool_decide (t ∈ binary_types) then
            let b := bp t in
            if decide (b < minbp) then Some (lhs, ts) else
            match parse_expr f (S b) rest with
            | Some (rhs, rest) => parse_binary f minbp (AOp2 v lhs rhs) rest
            | None => None
            end
          else Some (lhs, ts)
      | [] => Some (lhs, [])
      end
  end.

Definition parse (ts : list token) : option ast :=
  match parse_expr (S (2 * length ts)) 0 ts with
  | Some (e, []) => Some e
  | _ => None
  end.
End parse.

(** ** [_Translator]: evaluation of a formula on a manager.
    Names are the harness's ["v<k>"]; [name_id] reads the number back. *)
Definition name_id (s : string) : option nat :=
  match s with
  | String (Ascii.Ascii false true true false true true true false) rest =>
      if all_chars is_digit rest && negb (bool_decide (rest = ""))
      then Some (Z.to_nat (digits_val rest 0)) else None
  | _ => None
  end.
(** an identifier that is no ["v<k>"] is simply an undeclared variable *)
Definition name_or_undeclared (s : string) : nat := default 5000 (name_id s).

Fixpoint eval_ast (a : ast) : MS Z :=
  match a with
  | ABool b => ret (if b then 1 else -1)%Z
  | AVar n => var (name_or_undeclared n)
  | ANum z => s <- get ;; ensure EValue (mem z s) ;;; ret z
  | AOp1 op a => u <- eval_ast a ;; apply op u None None
  | AOp2 op a b => u <- eval_ast a ;; v <- eval_ast b ;; apply op u (Some v) None
  | AIte a b c =>
      u <- eval_ast a ;; v <- eval_ast b ;; w <- eval_ast c ;;
      apply "ite" u (Some v) (Some w)
  | AQuant op ns a =>
      u <- eval_ast a ;;
      quantify u true (remove_dups (name_or_undeclared <$> ns)) (bool_decide (op = "\A"))
  | ASubst subs a =>
      u <- eval_ast a ;;
      rename u ((fun '(old, new) => (name_or_undeclared old, name_or_undeclared new)) <$> subs)
  end.

Fixpoint lex_all (lt : lex_table) (reserved : list (string * string))
    (l : list string) : option (list token) :=
  match l with
  | [] => Some []
  | sp :: l =>
      match lex1 lt reserved sp, lex_all lt reserved l with
      | Some t, Some ts => Some (t :: ts)
      | _, _ => None
      end
  end.

(** [add_expr(expr)] on the token spellings of [expr] *)
Definition add_expr (lt : lex_table) (reserved : list (string * string))
    (P : prec_table) (spellings : list string) : MS Z :=
  try_to_reorder (
    ts <- of_opt EValue (lex_all lt reserved spellings) ;;
    a <- of_opt EValue (parse P ts) ;;
    eval_ast a).

(** ** [to_expr(u)] *)
Definition var_name (v : nat) : string := "v" +:+ pretty v.

Fixpoint to_expr_rec (fuel : nat) (u : Z) : MS string :=
  match fuel with
  | O => raise EFuel
  | S f =>
      if decide (u = 1)%Z then ret "TRUE" else
      if decide (u = -1)%Z then ret "FALSE" else
      t <- getsuccZ u ;;
      assert (negb (is_term t)) ;;;
      s <- get ;;
      v <- of_opt EKey (lvl2var s !! t_lvl t) ;;
      p <- to_expr_rec f (t_lo t) ;;
      q <- to_expr_rec f (t_hi t) ;;
      let e := if bool_decide (p = "FALSE" ∧ q = "TRUE") then var_name v
               else "ite(" +:+ var_name v +:+ ", " +:+ q +:+ ", " +:+ p +:+ ")" in
      ret (if decide (u < 0)%Z then "(~ " +:+ e +:+ ")" else e)
  end.

Definition to_expr (u : Z) : MS string :=
  s <- get ;;
  (* `u not in self` is `abs(u) in _succ` *)
  ensure EValue (mem u s) ;;;
  to_expr_rec (S (S (nvars s))) u.
