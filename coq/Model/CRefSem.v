(** * CRefSem: reference-event skeletons of the C wrappers and their discipline

    Second half of property C19 (source level).  translator/gen_cref.py
    reduces every function of dd/cudd.pyx, dd/cudd_zdd.pyx, dd/sylvan.pyx,
    dd/buddy.pyx that touches library reference counts to its *paths*: the
    sequences of reference events along each branch of the body.  This file
    says what such a path must look like.

    Abstractions (made by the scanner, see its docstring):
    - a loop is "zero or more repetitions of its body": [ELoop paths], one
      list of events per way through the body;
    - a C array / dict that receives referenced nodes is one token: a loop
      whose repetitions each leave one reference in container [c] *fills*
      [c]; a loop whose repetitions each dereference an element of [c]
      *drains* it (the two loops are assumed to range over the same
      elements);
    - exceptions: in the basic discipline ([balanced]) a path that ends in
      [ERaise] is accepted whatever it holds; the strict discipline
      ([balanced_strict]) asks of a raising path what it asks of a returning
      one: nothing taken by the function is still held at the [raise].
      Exceptions raised implicitly by a callee are not paths of the
      skeleton (the scanner sees explicit [raise] statements only). *)
From stdpp Require Export base list strings option.
From Coq Require Import Ascii.
Local Open Scope string_scope.

Inductive ev :=
  | ERef (x : string)          (* Cudd_Ref / cuddRef / sylvan_ref / bdd_addref / ._incref  on x *)
  | EDeref (x : string)        (* Cudd_RecursiveDeref[Zdd] / sylvan_deref / bdd_delref / ._decref: may reclaim the node *)
  | EDerefLight (x : string)   (* Cudd_Deref / cuddDeref: decrement only, the node is not reclaimed *)
  | EOwned (x : string)        (* x = result of a library call documented to return a referenced node *)
  | EStore (c x : string)      (* c[..] = x : one reference of x now belongs to container c *)
  | EFill (c : string)         (* call of a wrapper function that stores referenced nodes into its argument c *)
  | EDerefElem (c : string)    (* dereference of an element of container c *)
  | EWrap (x : string)         (* wrap(.., x) / Function(x): a Function is created for node x *)
  | ELoop (body : list (list ev))
  | EReturnWrapped (x : string)  (* return of a Function created for node x *)
  | EReturnNode (x : string)     (* return of a bare library node *)
  | EReturnOther                 (* return of anything else (None, Python values, results of other methods) *)
  | ERaise
  (* only in the handle skeleton (wrap / init / __cinit__ / __dealloc__) *)
  | ESetNode (x : string)      (* self.node = x *)
  | EClearNode                 (* self.node = NULL | 0 | -1 *)
  | ENotLive                   (* the branch `self._ref == 0` was taken *)
  | ENew (f : string)          (* f = Function() *)
  | EInit (f x : string)       (* f.init(x, ..) *)
  | EReturnHandle (f : string).

Inductive fkind := KDef | KCpdef | KCdef.   (* def / cpdef: callable from Python; cdef: C level only *)
Global Instance fkind_eq_dec : EqDecision fkind.
Proof. solve_decision. Defined.

(** [m_api]: [Some true] for the manager's incref forwarders, [Some false]
    for its decref forwarders (their purpose is to change the count of the
    caller's node), [None] for everything else. *)
Record method := Method {
  m_name : string; m_kind : fkind; m_api : option bool;
  m_params : list string; m_paths : list (list ev) }.

(** ** Multisets of held references *)
Fixpoint remove1 (x : string) (l : list string) : option (list string) :=
  match l with
  | [] => None
  | y :: l' => if bool_decide (x = y) then Some l'
               else (y ::.) <$> remove1 x l'
  end.

(** [msub a b]: [a] minus [b], with what of [b] was not in [a] *)
Fixpoint msub (a b : list string) : list string * list string :=
  match b with
  | [] => (a, [])
  | y :: b' => match remove1 y a with
               | Some a' => msub a' b'
               | None => let '(r, m) := msub a b' in (r, y :: m)
               end
  end.

Definition tok (c : string) : string := "@" +:+ c.

Inductive outcome := OCont (held : list string) | ODone (ok : bool).

Definition emptyb (l : list string) : bool := match l with [] => true | _ => false end.

(** effect of one repetition of a loop body on the held references *)
Inductive effect := FxNeutral | FxFill (c : string) | FxDrain (c : string) | FxBad.
(** [rel x]: marker "the function's own reference on x was given back and x
    has not been referenced again": using x afterwards (wrapping it, storing
    it, returning it) is a use after release *)
Definition rel (x : string) : string := "!" +:+ x.
Definition is_marker (y : string) : bool := String.prefix "!" y.
Definition strip (held : list string) : list string :=
  List.filter (fun y => negb (is_marker y)) held.
Definition unmark (x : string) (held : list string) : list string :=
  List.filter (fun y => negb (bool_decide (y = rel x))) held.

Definition effect_of (before after : list string) : effect :=
  match msub (strip after) (strip before) with
  | ([], []) => FxNeutral
  | ([c], []) => if bool_decide (String.prefix "@" c = true) then FxFill c else FxBad
  | ([], [c]) => if bool_decide (String.prefix "@" c = true) then FxDrain c else FxBad
  | _ => FxBad
  end.

(** combine the effects of the ways through a loop body *)
Fixpoint loop_effect (fx : list effect) (acc : effect) : effect :=
  match fx with
  | [] => acc
  | f :: fx' =>
      match f, acc with
      | FxBad, _ | _, FxBad => FxBad
      | FxNeutral, FxNeutral => loop_effect fx' FxNeutral
      (* a repetition may skip filling, it may not skip draining *)
      | FxNeutral, FxFill c | FxFill c, FxNeutral => loop_effect fx' (FxFill c)
      | FxFill c, FxFill c' => if bool_decide (c = c') then loop_effect fx' acc else FxBad
      | FxDrain c, FxDrain c' => if bool_decide (c = c') then loop_effect fx' acc else FxBad
      | _, _ => FxBad
      end
  end.

Section run.
  Context (strict : bool) (kind : fkind) (params : list string).

  Definition at_exit (held : list string) : outcome := ODone (emptyb (strip held)).
  Definition released (x : string) (held : list string) : bool := bool_decide (rel x ∈ held).

  (** [inloop]: a container may only be drained by a loop *)
  Fixpoint step (e : ev) (inloop : bool) (held : list string) : outcome :=
    match e with
    | ERef x | EOwned x => OCont (x :: unmark x held)
    | EDeref x =>
        match remove1 x held with
        | Some h => OCont (if bool_decide (x ∈ h) then h else rel x :: h)
        | None => ODone false
        end
    | EDerefLight x => match remove1 x held with Some h => OCont h | None => ODone false end
    | EStore c x =>
        if released x held then ODone false else
        match remove1 x held with
        | Some h => OCont (if bool_decide (c ∈ params) then h else tok c :: h)
        | None => ODone false
        end
    | EFill c => OCont (if bool_decide (c ∈ params) then held else tok c :: held)
    | EDerefElem c =>
        if negb inloop then ODone false
        else if bool_decide (c ∈ params) then OCont held
        else match remove1 (tok c) held with Some h => OCont h | None => ODone false end
    | EWrap x => if released x held then ODone false else OCont held
    | ELoop bodies =>
        let run_body :=
          fix rb (b : list ev) (h : list string) : outcome :=
            match b with
            | [] => OCont h
            | e' :: b' => match step e' true h with OCont h' => rb b' h' | o => o end
            end in
        let outs :=
          (fix go (bs : list (list ev)) : list outcome :=
             match bs with [] => [] | b :: bs' => run_body b held :: go bs' end) bodies in
        if forallb (fun o => match o with ODone false => false | _ => true end) outs then
          let fx := omap (fun o => match o with OCont h => Some (effect_of held h) | _ => None end) outs in
          match fx with
          | [] => OCont held        (* every way through the body leaves the function *)
          | f :: fx' =>
              match loop_effect fx' f with
              | FxNeutral => OCont held
              | FxFill c => OCont (c :: held)
              | FxDrain c => match remove1 c held with Some h => OCont h | None => ODone false end
              | FxBad => ODone false
              end
          end
        else ODone false
    | EReturnWrapped _ | EReturnOther => at_exit held
    | EReturnNode x =>
        (* a bare node may only travel between C-level functions *)
        if released x held then ODone false else
        if bool_decide (kind = KCdef) then at_exit held else ODone false
    | ERaise => if strict then at_exit held else ODone true
    | EInit _ x => if released x held then ODone false else OCont held
    | ESetNode _ | EClearNode | ENotLive | ENew _ | EReturnHandle _ => OCont held
    end.

  Fixpoint run (p : list ev) (held : list string) : outcome :=
    match p with
    | [] => OCont held
    | e :: p' => match step e false held with OCont h => run p' h | o => o end
    end.
End run.

Fixpoint refs (p : list ev) : list string :=
  match p with
  | [] => []
  | ERef x :: p' | EOwned x :: p' => x :: refs p'
  | _ :: p' => refs p'
  end.
Fixpoint derefs (p : list ev) : list string :=
  match p with
  | [] => []
  | EDeref x :: p' | EDerefLight x :: p' => x :: derefs p'
  | _ :: p' => derefs p'
  end.
Fixpoint wraps (p : list ev) : list string :=
  match p with
  | [] => []
  | EWrap x :: p' => x :: wraps p'
  | _ :: p' => wraps p'
  end.
Definition is_simple (e : ev) : bool :=
  match e with
  | ERef _ | EDeref _ | EDerefLight _ | EReturnOther | ERaise => true
  | _ => false
  end.
Fixpoint ends_in_raise (p : list ev) : bool :=
  match p with
  | [] => false
  | [ERaise] => true
  | _ :: p' => ends_in_raise p'
  end.

(** root variable of an access path: ["u.node"] -> ["u"] *)
Fixpoint root_aux (s : string) : string :=
  match s with
  | EmptyString => EmptyString
  | String c s' => if bool_decide (c = "."%char) || bool_decide (c = "["%char) then EmptyString
                   else String c (root_aux s')
  end.

(** a forwarder of the manager ([incref]/[_incref]: [up = true]): on every
    path at most one event, of the stated polarity, on a parameter *)
Definition api_path_ok (up : bool) (params : list string) (p : list ev) : bool :=
  forallb is_simple p &&
  ends_in_raise p ||
  (forallb is_simple p &&
   (if up then emptyb (derefs p) else emptyb (refs p)) &&
   bool_decide (length (refs p ++ derefs p) ≤ 1) &&
   forallb (fun x => bool_decide (root_aux x ∈ params) && negb (bool_decide (root_aux x = "self")))
           (refs p ++ derefs p)).

(** THE discipline of one path of one function *)
Definition balanced_gen (strict : bool) (m : method) (p : list ev) : bool :=
  match m_api m with
  | Some up =>
      api_path_ok up (m_params m) p &&
      (* strict: a forwarder that raises has changed no count *)
      (negb strict || negb (ends_in_raise p) || emptyb (refs p ++ derefs p))
  | None =>
      bool_decide (NoDup (wraps p)) &&
      match run strict (m_kind m) (m_params m) p [] with
      | OCont h => emptyb (strip h)   (* fell off the end: `return None` *)
      | ODone ok => ok
      end
  end.
Definition balanced_in (m : method) (p : list ev) : bool := balanced_gen false m p.
(** the same discipline with raising paths included *)
Definition balanced_strict (m : method) (p : list ev) : bool := balanced_gen true m p.
(** number of paths of [m] that the strict discipline rejects *)
Definition strict_failures (m : method) : nat :=
  length (List.filter (fun p => negb (balanced_strict m p)) (m_paths m)).
(** [raise_paths_ok allowed ms]: every function of [ms] meets the strict
    discipline on all its paths, except that a function named in [allowed]
    may have up to the stated number of raising paths that still hold
    something (internal assertion failures and NULL results of the library:
    listed by name in the theorem statements) *)
Definition raise_paths_ok (allowed : list (string * nat)) (ms : list method) : bool :=
  forallb (fun m =>
    let n := strict_failures m in
    bool_decide (n = 0) ||
    existsb (fun a => bool_decide (fst a = m_name m) && bool_decide (n ≤ snd a)) allowed) ms.

Definition paths (m : method) : list (list ev) := m_paths m.
Definition balanced (m : method) (p : list ev) : bool := balanced_in m p.

(** ** The handle: creation takes one reference, disposal gives back one *)
Record handle := Handle {
  h_ctor : string;                        (* "wrap" | "Function" *)
  h_wrap_params : list string;
  h_wrap : list (list ev);                (* paths of `wrap` (empty when the class is called directly) *)
  h_init_params : list string;
  h_init : list (list ev);                (* Function.init | Function.__cinit__ *)
  h_dealloc : list (list ev);             (* Function.__dealloc__ *)
  h_dealloc_copy : list (list ev) }.      (* `_test_call_dealloc`, stated to duplicate it *)

Definition has_ev (f : ev → bool) (p : list ev) : bool := existsb f p.
Definition is_notlive (e : ev) := match e with ENotLive => true | _ => false end.
Definition is_clear (e : ev) := match e with EClearNode => true | _ => false end.

(** creating: every path that does not raise takes exactly one library
    reference, on the parameter that becomes [self.node] *)
Definition init_path_ok (params : list string) (p : list ev) : bool :=
  ends_in_raise p ||
  match refs p with
  | [x] => bool_decide (x ∈ params) && emptyb (derefs p) &&
           has_ev (fun e => match e with ESetNode y => bool_decide (x = y) | _ => false end) p
  | _ => false
  end.
Definition init_ok (params : list string) (ps : list (list ev)) : bool :=
  forallb (init_path_ok params) ps && existsb (fun p => negb (ends_in_raise p)) ps.

(** disposing: every path that does not raise either found the handle not
    live (and touches nothing) or gives back exactly one reference, of
    [self.node], and clears the handle afterwards *)
Fixpoint deref_then_clear (p : list ev) : bool :=
  match p with
  | [] => false
  | EDeref x :: p' => bool_decide (x = "self.node") && has_ev is_clear p'
  | _ :: p' => deref_then_clear p'
  end.
Definition dealloc_path_ok (p : list ev) : bool :=
  ends_in_raise p ||
  (if has_ev is_notlive p then emptyb (refs p) && emptyb (derefs p)
   else emptyb (refs p) && bool_decide (derefs p = ["self.node"]) && deref_then_clear p).
Definition dealloc_ok (ps : list (list ev)) : bool :=
  forallb dealloc_path_ok ps &&
  existsb (fun p => negb (ends_in_raise p) && negb (has_ev is_notlive p)) ps.

(** `wrap(bdd, node)`: f = Function(); f.init(node, ..); return f *)
Definition wrap_path_ok (params : list string) (p : list ev) : bool :=
  match p with
  | [ENew f; EInit f' x; EReturnHandle f''] =>
      bool_decide (f = f') && bool_decide (f = f'') && bool_decide (x ∈ params)
  | _ => false
  end.

Definition no_paths (l : list (list ev)) : bool := match l with [] => true | _ => false end.

Definition handle_ok (h : handle) : bool :=
  (if bool_decide (h_ctor h = "wrap")
   then negb (no_paths (h_wrap h)) && forallb (wrap_path_ok (h_wrap_params h)) (h_wrap h)
   else bool_decide (h_ctor h = "Function") && no_paths (h_wrap h)) &&
  init_ok (h_init_params h) (h_init h) &&
  dealloc_ok (h_dealloc h) &&
  (no_paths (h_dealloc_copy h) || dealloc_ok (h_dealloc_copy h)).

(** ** What is handed to Python *)
Inductive retk := RWrapped (x : string) | RNodeRaw (x : string) | ROther.
Definition returns_ok (r : string * fkind * list retk) : bool :=
  let '(_, k, rs) := r in
  bool_decide (k = KCdef) ||
  forallb (fun x => match x with RNodeRaw _ => false | _ => true end) rs.
