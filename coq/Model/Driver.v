(** * Driver: the operation alphabet of the correspondence check and of the
      history theorems.  [step] interprets one public call on one of the
      managers of a [world]; [digest] is the canonical observation of a
      manager that is compared, field by field, with the implementation. *)
From DD Require Export Ops.

Inductive value :=
  | VZ (z : Z) | VN (n : nat) | VB (b : bool) | VU
  | VL (l : list value) | VS (s : string).

Inductive op :=
  | ONew (levels : list (nat * nat))
  | OAddVar (v : nat) (l : option nat)
  | ODeclare (vs : list nat)
  | OVar (v : nat)
  | OFindOrAdd (i : nat) (v w : Z)
  | OIte (g u v : Z)
  | OApply (o : string) (u : Z) (v w : option Z)
  | OIncref (u : Z) | ODecref (u : Z) | ORef (u : Z)
  | OGc (roots : option (list Z))
  | OTape (t : list (list positive))
  | OSwap (x y : nat)
  | OReorder (order : option (list (nat * nat)))
  | OReorderPairs (pairs : list (nat * nat))
  | OConfigure (b : option bool)
  | OSetLastLen (l : option nat)
  | OSetTrig (k : option nat)
  | OSetRoots (r : list Z)
  | OSetMaxNodes (n : option positive)
  | OCofactor (u : Z) (byname : bool) (values : list (nat * bool))
  | OQuantify (u : Z) (byname : bool) (qvars : list nat) (fa : bool)
  | OCompose (u : Z) (sub : list (nat * Z))
  | ORename (u : Z) (d : list (nat * nat))
  | OLet (d : let_arg) (u : Z)
  | OCube (d : list (nat * bool))
  | OCopy (src : nat) (u : Z)
  | OImage (t s : Z) (byname : bool) (rn : list (nat * nat))
           (qbyname : bool) (q : list nat) (fa : bool)
  | OPreimage (t s : Z) (byname : bool) (rn : list (nat * nat))
           (qbyname : bool) (q : list nat) (fa : bool)
  | OSupport (u : Z)
  | OIsEssential (u : Z) (v : nat).

Definition world := gmap nat st.

Definition vset (X : gset nat) : value := VL (VN <$> merge_sort le (elements X)).

Definition run_op (w : world) (o : op) : MS value :=
  match o with
  | ONew levels => modify (fun _ => init) ;;; init_levels levels ;;; ret VU
  | OAddVar v l => r <- add_var v l ;; ret (VN r)
  | ODeclare vs => declare vs ;;; ret VU
  | OVar v => r <- var v ;; ret (VZ r)
  | OFindOrAdd i v w => r <- find_or_add i v w ;; ret (VZ r)
  | OIte g u v => r <- ite g u v ;; ret (VZ r)
  | OApply o u v w => r <- apply o u v w ;; ret (VZ r)
  | OIncref u => incref u ;;; ret VU
  | ODecref u => decref u ;;; ret VU
  | ORef u => r <- ref u ;; ret (VN r)
  | OGc roots => collect_garbage roots ;;; ret VU
  | OTape t => modify (fun s => s <| tape := t |>) ;;; ret VU
  | OSwap x y => r <- swap_pub x y ;; ret (VL [VN (fst (fst r)); VN (snd (fst r))])
  | OReorder order =>
      reorder_pub ((fun l => list_to_map (reverse l)) <$> order) ;;; ret VU
  | OReorderPairs pairs => reorder_to_pairs_pub pairs ;;; ret VU
  | OConfigure b => r <- configure b ;; ret (VB r)
  | OSetLastLen l => modify (fun s => s <| last_len := l |>) ;;; ret VU
  | OSetTrig k => modify (fun s => s <| trig := k |>) ;;; ret VU
  | OSetRoots r => modify (fun s => s <| roots := r |>) ;;; ret VU
  | OSetMaxNodes n => modify (fun s => s <| max_nodes := n |>) ;;; ret VU
  | OCofactor u bn vals => r <- cofactor u bn vals ;; ret (VZ r)
  | OQuantify u bn q fa => r <- quantify u bn q fa ;; ret (VZ r)
  | OCompose u sub => r <- compose u sub ;; ret (VZ r)
  | ORename u d => r <- rename u d ;; ret (VZ r)
  | OLet d u => r <- let_ d u ;; ret (VZ r)
  | OCube d => r <- cube d ;; ret (VZ r)
  | OCopy src u =>
      match w !! src with
      | None => raise EKey
      | Some ssrc => r <- copy_bdd_pub ssrc u ;; ret (VZ r)
      end
  | OImage t s bn rn qbn q fa => r <- image_pub t s bn rn qbn q fa ;; ret (VZ r)
  | OPreimage t s bn rn qbn q fa => r <- preimage_pub t s bn rn qbn q fa ;; ret (VZ r)
  | OSupport u => r <- support u ;; ret (vset r)
  | OIsEssential u v => r <- is_essential u v ;; ret (VB r)
  end.

(** one call on manager [m] of the world *)
Definition step (w : world) (m : nat) (o : op) : world * res value :=
  let s := default empty_st (w !! m) in
  let '(r, s') := match o with
                  | OCopy src u =>
                      (* `if from_bdd is to_bdd: return u` *)
                      if decide (src = m) then (Ok (VZ u), s) else run_op w o s
                  | _ => run_op w o s
                  end in
  (* the oracle tape is scoped to one operation *)
  let s' := match o with OTape _ => s' | _ => s' <| tape := [] |> end in
  (<[m := s']> w, r).

(** canonical observation of a manager *)
Record dig := Dig {
  d_succ : list (positive * (nat * Z * Z));
  d_pred : list ((nat * Z * Z) * positive);
  d_ref : list (positive * nat);
  d_min_free : positive;
  d_ite : list ((Z * Z * Z) * Z);
  d_vars : list (nat * nat);
  d_l2v : list (nat * nat);
  d_last_len : option nat;
  d_rctx : bool;
  d_max_nodes : option positive;
}.

Definition tup (t : triple) : nat * Z * Z := (t_lvl t, t_lo t, t_hi t).

Definition digest (s : st) : dig :=
  Dig ((fun '(u, t) => (u, tup t)) <$> map_to_list (succ s))
      ((fun '(t, u) => (tup t, u)) <$> map_to_list (pred s))
      (map_to_list (refc s))
      (min_free s)
      (map_to_list (ite_tab s))
      (map_to_list (vars s))
      (map_to_list (lvl2var s))
      (last_len s)
      (rctx s)
      (max_nodes s).

Definition world_empty : world := ∅.
Definition world_get (w : world) (m : nat) : st := default empty_st (w !! m).
