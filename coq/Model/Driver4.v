(** * Driver4: [add_expr] / [to_expr] on [dd.bdd] and [dd.autoref] managers,
      with the lexer and precedence tables regenerated from the source. *)
From stdpp Require Import strings pretty.
From DD Require Export Driver3 Parser.
From DD Require Export Generated.ParserTables.
Local Open Scope string_scope.

Definition add_expr_ (spellings : list string) : MS Z :=
  add_expr lex_alias reserved_words code_prec spellings.

(** one more operation on a [dd.bdd] manager of [world2] *)
Definition step_expr (w : world2) (m : nat) (spellings : list string)
  : world2 * res value :=
  let s := default empty_st (w_mgrs w !! m) in
  let '(r, s') := add_expr_ spellings s in
  (w <| w_mgrs ::= <[m := s' <| tape := [] |>]> |>,
   match r with Ok u => Ok (VZ u) | Err e => Err e end).

Definition step_to_expr (w : world2) (m : nat) (u : Z) : world2 * res value :=
  let s := default empty_st (w_mgrs w !! m) in
  let '(r, s') := to_expr u s in
  (w <| w_mgrs ::= <[m := s']> |>,
   match r with Ok e => Ok (VS e) | Err e => Err e end).

(** [autoref.BDD.add_expr]: parse on the wrapped manager, then wrap *)
Definition astep_expr (w : aworld) (m : nat) (spellings : list string)
  : aworld * res value :=
  let a := default empty_ast (w !! m) in
  let '(r, a') := (u <- lift (add_expr_ spellings) ;; h <- wrap u ;; ret (VN h)) a in
  (<[m := a' <| mgr := (mgr a') <| tape := [] |> |>]> w, r).

(** [autoref.BDD.to_expr(u)] *)
Definition astep_to_expr (w : aworld) (m : nat) (h : nat) : aworld * res value :=
  let a := default empty_ast (w !! m) in
  let '(r, a') := (u <- node_of h ;; check_in u ;;; e <- lift (to_expr u) ;; ret (VS e)) a in
  (<[m := a']> w, r).

(** syntax tree of a formula, for comparison with the PLY parser's tree *)
Fixpoint show_ast (a : ast) : string :=
  match a with
  | ABool true => "T" | ABool false => "F"
  | AVar n => n
  | ANum z => "@" +:+ pretty z
  | AOp1 op a => "(" +:+ op +:+ " " +:+ show_ast a +:+ ")"
  | AOp2 op a b => "(" +:+ op +:+ " " +:+ show_ast a +:+ " " +:+ show_ast b +:+ ")"
  | AIte a b c => "(ite " +:+ show_ast a +:+ " " +:+ show_ast b +:+ " " +:+ show_ast c +:+ ")"
  | AQuant op ns a =>
      "(" +:+ op +:+ " [" +:+ String.concat " " ns +:+ "] " +:+ show_ast a +:+ ")"
  | ASubst subs a =>
      "(\S [" +:+ String.concat " " ((fun '(o, n) => n +:+ "/" +:+ o) <$> subs) +:+ "] "
      +:+ show_ast a +:+ ")"
  end.

Definition parse_show (spellings : list string) : res value :=
  match lex_all lex_alias reserved_words spellings with
  | None => Err EValue
  | Some ts =>
      match parse code_prec ts with
      | Some a => Ok (VS (show_ast a))
      | None => Err EValue
      end
  end.
