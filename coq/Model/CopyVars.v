(** * Model of [dd._copy.copy_vars(source, target)] (no proofs here).

    [for var in source.vars: target.add_var(var, level=source.level_of_var(var))].
    The argument is the list of the source's [(name, level)] pairs in the
    iteration order of its [vars] dict; the computation runs on the target.
    The harness runs the real function and gives the driver this very loop as
    [add_var] lines (up to the first refused declaration). *)
From DD Require Export Core.

Definition copy_vars (src : list (nat * nat)) : MS unit :=
  forM src (fun '(v, l) => add_var v (Some l) ;;; ret tt).
