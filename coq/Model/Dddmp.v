(** * Dddmp: [dd.dddmp.load] from the parsed header and node list of a
      text-mode DDDMP file (the PLY header parser and line splitting are
      glue, covered by the correspondence check on generated files). *)
From DD Require Export Sat.

Inductive dinfo := DInt (n : nat) | DTerm | DName (v : nat).
Global Instance dinfo_eq_dec : EqDecision dinfo.
Proof. solve_decision. Defined.

Record dheader := DHeader {
  dh_nvars : nat;                       (* .nvars *)
  dh_varinfo : nat;                     (* .varinfo *)
  dh_ordered : option (list nat);       (* .orderedvarnames *)
  dh_support : option (list nat);       (* .suppvarnames *)
  dh_nsupp : nat;                       (* .nsuppvars *)
  dh_ids : list nat;                    (* .ids *)
  dh_permids : list nat;                (* .permids *)
  dh_auxids : option (list nat);        (* .auxids *)
  dh_nroots : nat;
  dh_roots : list Z;                    (* .rootids *)
  dh_nnodes : nat;                      (* .nnodes *)
}.

(** one line of the body: [u info index then else] *)
Record dnode := DNode { dn_id : positive; dn_info : dinfo; dn_then : Z; dn_else : Z }.

Definition alist_get {K A} `{EqDecision K} (l : list (K * A)) (k : K) : option A :=
  snd <$> list_find (fun kv => bool_decide (kv.1 = k)) l ≫= fun kv => Some kv.2.
(** dict built from pairs: a later binding of a key replaces the value *)
Definition dict_of {K A} `{EqDecision K} (l : list (K * A)) : list (K * A) :=
  foldl (fun acc '(k, a) =>
    if bool_decide (k ∈ acc.*1)
    then (fun '(k', a') => if bool_decide (k' = k) then (k', a) else (k', a')) <$> acc
    else acc ++ [(k, a)]) [] l.

(** [_assert_consistent] *)
Definition header_ok (h : dheader) : bool :=
  match dh_support h with Some l => bool_decide (length l = dh_nsupp h) | None => true end &&
  match dh_ordered h with Some l => bool_decide (length l = dh_nvars h) | None => true end &&
  bool_decide (length (dh_ids h) = dh_nsupp h) &&
  bool_decide (length (dh_permids h) = dh_nsupp h) &&
  match dh_auxids h with Some l => bool_decide (length l = dh_nsupp h) | None => true end &&
  bool_decide (length (dh_roots h) = dh_nroots h).

(** [info2permid] (without the entry for 'T') *)
Definition info2permid (h : dheader) : MS (list (dinfo * nat)) :=
  match dh_varinfo h with
  | 0 => ret (dict_of (zip (DInt <$> dh_ids h) (dh_permids h)))
  | 1 => ret (dict_of ((fun k => (DInt k, k)) <$> dh_permids h))
  | 3 => match dh_ordered h with
         | Some l => ret (dict_of (imap (fun k v => (DName v, k)) l))
         | None => raise EType
         end
  | 2 | 4 => raise ERuntime        (* NotImplementedError *)
  | _ => raise ERuntime
  end.

(** [levels]: variable -> level (possibly with blanks) *)
Definition file_levels (h : dheader) : MS (list (nat * nat)) :=
  match dh_ordered h, dh_support h with
  | Some l, _ => ret (dict_of (imap (fun k v => (v, k)) l))
  | None, Some sup =>
      let p2v := dict_of (zip (dh_permids h) sup) in
      l <- mapM (fun k => v <- of_opt EKey (alist_get p2v k) ;; ret (v, k))
             (merge_sort le (dh_permids h)) ;;
      ret (dict_of l)
  | None, None => raise EType    (* integer variable names: not modelled *)
  end.

(** [_parse_body] + [_add_node]: the table [u -> (level, low, high)] in file order *)
Definition parse_body (h : dheader) (i2p : list (dinfo * nat)) (nodes : list dnode)
  : MS (list (positive * (nat * Z * Z))) :=
  tbl <- foldM (fun acc n =>
    lvl <- match dn_info n with
           | DTerm => ret (dh_nvars h + 1)
           | i => of_opt EAssert (alist_get i2p i)
           end ;;
    ensure EValue (bool_decide (0 <= dn_then n)%Z) ;;;
    (* self.bdd[u] = (level, w, v): (level, else, then) *)
    ret (dict_of (acc ++ [(dn_id n, (lvl, dn_else n, dn_then n))]))) [] nodes ;;
  assert (bool_decide (length tbl = dh_nnodes h)) ;;;
  ret tbl.

(** [load(fname)] into a new manager *)
Definition dddmp_load (h : dheader) (nodes : list dnode) : MS unit :=
  assert (header_ok h) ;;;
  i2p <- info2permid h ;;
  levels <- file_levels h ;;
  tbl <- parse_body h i2p nodes ;;
  (* reindex to ensure no blanks *)
  let perm : list (nat * nat) := dict_of ((fun '(v, k) => (k, v)) <$> levels) in
  let sorted := merge_sort le (perm.*1) in
  let new_levels : list (nat * nat) :=
    dict_of (omap (fun '(i, k) => (fun v => (v, i)) <$> alist_get perm k)
                  (imap (fun i k => (i, k)) sorted)) in
  old2new <- mapM (fun '(v, k) => n <- of_opt EKey (alist_get new_levels v) ;; ret (k, n)) levels ;;
  let old2new := dict_of old2new in
  modify (fun _ => init) ;;;
  init_levels new_levels ;;;
  let n := length new_levels in
  umap <- foldM (fun (umap : gmap Z Z) j =>
      foldM (fun (umap : gmap Z Z) '(u, (k, lo, hi)) =>
        if decide (lo = 0%Z) then
          assert (bool_decide (hi = 0%Z)) ;;; ret umap
        else
          i <- of_opt EKey (alist_get old2new k) ;;
          if negb (bool_decide (i = j)) then ret umap else
          p <- of_opt EKey (umap !! Z.abs lo) ;;
          q <- of_opt EKey (umap !! hi) ;;
          let p := if decide (lo < 0)%Z then (- p)%Z else p in
          r <- find_or_add i p q ;;
          ret (<[Z.pos u := r]> umap)) umap tbl)
    ({[ (-1)%Z := (-1)%Z; 1%Z := 1%Z ]} : gmap Z Z) (reverse (seq 0 n)) ;;
  rs <- mapM (fun u => r <- of_opt EKey (umap !! Z.abs u) ;;
                       ret (if decide (u < 0)%Z then (- r)%Z else r)) (dh_roots h) ;;
  modify (fun s => s <| roots := remove_dups rs |>).
