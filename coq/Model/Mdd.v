(** * Mdd: multi-valued decision diagrams ([dd.mdd.MDD]) and [bdd_to_mdd]. *)
From DD Require Export Sat.

Definition mtuple := (nat * list Z)%type.      (* (level, successors); terminal: [] *)

(** association lists *)
Definition assoc {K A} `{EqDecision K} (l : list (K * A)) (k : K) : option A :=
  match list_find (fun kv => bool_decide (kv.1 = k)) l with
  | Some (_, (_, a)) => Some a
  | None => None
  end.

Record mst := MSt {
  msucc : gmap positive mtuple;
  mpred : gmap mtuple positive;
  mref : gmap positive nat;
  mmax : positive;                             (* _max *)
  mite : gmap (Z * Z * Z) Z;
  mvars : gmap nat (nat * nat);                (* name -> (level, len) *)
  mfree : gset positive;                       (* _free *)
  mtape : list positive;                       (* order in which _free.pop() answers *)
}.
Global Instance eta_mst : Settable _ :=
  settable! MSt <msucc; mpred; mref; mmax; mite; mvars; mfree; mtape>.
Definition MM := M mst.

(** [MDD(dvars)] *)
Definition mdd_init (dvars : list (nat * (nat * nat))) : mst :=
  MSt {[ 1%positive := (length dvars, []) ]} ∅ {[ 1%positive := 0 ]} 1%positive ∅
      (list_to_map dvars) ∅ [].

Definition m_var_at_level (i : nat) : MM nat :=
  s <- get ;;
  of_opt EKey (match list_find (fun '(_, (l, _)) => bool_decide (l = i))
                                (map_to_list (mvars s)) with
               | Some (_, (v, _)) => Some v
               | None => None
               end).
Definition m_len_of (v : nat) : MM nat :=
  s <- get ;; of_opt EKey (snd <$> mvars s !! v).

Definition m_getsucc (u : Z) : MM mtuple :=
  s <- get ;;
  if decide (u = 0%Z) then raise EKey else of_opt EKey (msucc s !! absn u).
Definition m_mem (u : Z) (s : mst) : bool :=
  bool_decide (u ≠ 0%Z ∧ is_Some (msucc s !! absn u)).

Definition m_incref (u : Z) : MM unit :=
  s <- get ;;
  if decide (u = 0%Z) then raise EKey else
  _ <- of_opt EKey (mref s !! absn u) ;;
  modify (fun s => s <| mref ::= alter S (absn u) |>).
Definition m_decref (u : Z) : MM unit :=
  s <- get ;;
  if decide (u = 0%Z) then raise EKey else
  _ <- of_opt EKey (mref s !! absn u) ;;
  modify (fun s => s <| mref ::= alter Nat.pred (absn u) |>).
Definition m_ref (u : Z) : MM nat :=
  s <- get ;;
  if decide (u = 0%Z) then raise EKey else of_opt EKey (mref s !! absn u).

(** [_allocate()]: [_free.pop()] answers in tape order (default: smallest) *)
Definition m_allocate : MM positive :=
  s <- get ;;
  match elements (mfree s) with
  | [] => let u := Pos.succ (mmax s) in
          modify (fun s => s <| mmax := u |>) ;;; ret u
  | e :: _ =>
      u <- match mtape s with
           | [] => ret e
           | t :: rest =>
               modify (fun s => s <| mtape := rest |>) ;;;
               if decide (t ∈ mfree s) then ret t else raise EOracle
           end ;;
      modify (fun s => s <| mfree ::= fun f => f ∖ {[u]} |>) ;;; ret u
  end.

(** [_top_cofactor(u, level)] *)
Definition m_top_cofactor (u : Z) (level : nat) : MM (list Z) :=
  v <- m_var_at_level level ;;
  n <- m_len_of v ;;
  if decide (absn u = 1%positive ∧ u ≠ 0%Z) then ret (replicate n u) else
  t <- m_getsucc u ;;
  let '(ul, nodes) := t in
  if decide (level < ul) then ret (replicate n u) else
  assert (forallb (fun x => bool_decide (x ≠ 0%Z)) nodes) ;;;
  assert (bool_decide (level = ul)) ;;;
  if decide (0 < u)%Z then ret nodes else ret ((fun x => (- x)%Z) <$> nodes).

(** [find_or_add(i, *nodes)] *)
Definition m_find_or_add (i : nat) (nodes : list Z) : MM Z :=
  s <- get ;;
  ensure EValue (bool_decide (i < size (mvars s))) ;;;
  v <- m_var_at_level i ;;
  n <- m_len_of v ;;
  ensure EValue (bool_decide (length nodes = n)) ;;;
  ensure EValue (bool_decide (nodes ≠ [])) ;;;
  ensure EValue (forallb (fun u => m_mem u s) nodes) ;;;
  let r := if decide (default 0%Z (head nodes) < 0)%Z then (-1)%Z else 1%Z in
  let nodes := (fun x => (r * x)%Z) <$> nodes in
  let h := default 0%Z (head nodes) in
  if forallb (fun x => bool_decide (x = h)) nodes then ret (r * h)%Z else
  let t : mtuple := (i, nodes) in
  match mpred s !! t with
  | Some u => ret (r * Z.pos u)%Z
  | None =>
      u <- m_allocate ;;
      s <- get ;;
      assert (negb (m_mem (Z.pos u) s)) ;;;
      modify (fun s => s <| mpred ::= <[t := u]> |> <| msucc ::= <[u := t]> |>
                         <| mref ::= <[u := 0]> |>) ;;;
      forM nodes m_incref ;;;
      ret (r * Z.pos u)%Z
  end.

Fixpoint zip3 {A B C} (a : list A) (b : list B) (c : list C) : list (A * B * C) :=
  match a, b, c with
  | x :: a, y :: b, z :: c => (x, y, z) :: zip3 a b c
  | _, _, _ => []
  end.

(** [ite(g, u, v)] *)
Fixpoint m_ite (fuel : nat) (g u v : Z) : MM Z :=
  match fuel with
  | O => raise EFuel
  | S f =>
      if decide (g = 1)%Z then ret u else
      if decide (g = -1)%Z then ret v else
      s <- get ;;
      match mite s !! (g, u, v) with
      | Some w => ret w
      | None =>
          tg <- m_getsucc g ;; tu <- m_getsucc u ;; tv <- m_getsucc v ;;
          let z := tg.1 `min` tu.1 `min` tv.1 in
          gc <- m_top_cofactor g z ;;
          uc <- m_top_cofactor u z ;;
          vc <- m_top_cofactor v z ;;
          nodes <- mapM (fun '(a, b, c) => m_ite f a b c) (zip3 gc uc vc) ;;
          w <- m_find_or_add z nodes ;;
          modify (fun s => s <| mite ::= <[(g, u, v) := w]> |>) ;;;
          ret w
      end
  end.
Definition m_ite_ (g u v : Z) : MM Z :=
  s <- get ;; m_ite (S (S (size (mvars s)))) g u v.

(** [_release(u)] *)
Definition m_release (u : positive) : MM unit :=
  s <- get ;;
  assert (bool_decide (u <= mmax s)%positive) ;;;
  assert (bool_decide (u ∉ mfree s)) ;;;
  assert (bool_decide (msucc s !! u = None)) ;;;
  assert (bool_decide (mref s !! u = None)) ;;;
  modify (fun s => s <| mfree ::= fun f => f ∪ {[u]} |>).

Fixpoint m_gc_loop (fuel : nat) (unused : gset positive) : MM unit :=
  match fuel with
  | O => raise EFuel
  | S f =>
      match elements unused with
      | [] => ret tt
      | u :: _ =>
          let unused := unused ∖ {[u]} in
          assert (bool_decide (u ≠ 1%positive)) ;;;
          s <- get ;;
          t <- of_opt EKey (msucc s !! u) ;;
          modify (fun s => s <| msucc ::= delete u |>) ;;;
          u_ <- of_opt EKey (mpred s !! t) ;;
          modify (fun s => s <| mpred ::= delete t |>) ;;;
          uref <- of_opt EKey (mref s !! u) ;;
          modify (fun s => s <| mref ::= delete u |>) ;;;
          m_release u ;;;
          assert (bool_decide (u = u_)) ;;;
          assert (bool_decide (uref = 0)) ;;;
          unused <- foldM (fun (unused : gset positive) v =>
              m_decref v ;;;
              r <- m_ref v ;;
              if decide (r = 0 ∧ absn v ≠ 1%positive)
              then ret (unused ∪ {[absn v]}) else ret unused) unused t.2 ;;
          m_gc_loop f unused
      end
  end.

(** [collect_garbage(roots=None)] *)
Definition m_collect_garbage : MM unit :=
  s <- get ;;
  let unused : gset positive :=
    list_to_set (omap (fun '(u, r) => if decide (r = 0) then Some u else None)
                      (map_to_list (mref s))) in
  m_gc_loop (S (size (msucc s))) (unused ∖ {[1%positive]}) ;;;
  modify (fun s => s <| mite := ∅ |>).

(** [MDD.apply]: rows as in [BDD.apply]; quantifier rows raise
    NotImplementedError ([None]) *)
Definition mdd_apply_with (tbl : list (list string * option template))
    (op : string) (u : Z) (v w : option Z) : MM Z :=
  ensure EValue (arity_ok op v w) ;;;
  s <- get ;;
  ensure EValue (m_mem u s) ;;;
  ensure EValue (match v with Some v => m_mem v s | None => true end) ;;;
  ensure EValue (match w with Some w => m_mem w s | None => true end) ;;;
  let v' := default 0%Z v in
  let w' := default 0%Z w in
  match list_find (fun '(names, _) => bool_decide (op ∈ names)) tbl with
  | None => raise EValue
  | Some (_, (_, None)) => raise ERuntime
  | Some (_, (_, Some (TRet o))) => ret (eval_operand o u v' w')
  | Some (_, (_, Some (TIte a b c))) =>
      m_ite_ (eval_operand a u v' w') (eval_operand b u v' w') (eval_operand c u v' w')
  | Some (_, (_, Some (TQuant _ _ _))) => raise ERuntime
  end.

Definition mdd_apply_table : list (list string * option template) :=
  ((fun '(names, t) => (names, match t with TQuant _ _ _ => None | t => Some t end))
     <$> apply_table).

(** ** [bdd_to_mdd(bdd, dvars)].
    [dvars]: integer variable -> (level, bit names in order, least significant
    first); runs on the BDD manager (collection + reordering happen there) and
    returns the new MDD with [umap]. [order]: the order in which
    [bdd.levels(skip_terminals=True)] yields the nodes (dict order inside a
    level), recorded from the implementation and checked here. *)
Definition enumerate_integer (bits : list nat) : list (list (nat * bool)) :=
  (* value i: bit j of i goes to bits[j] (first listed bit least significant) *)
  (fun vals => zip bits (reverse vals)) <$> bitvectors (length bits).

Definition bdd_to_mdd (dvars : list (nat * (nat * list nat))) (order : list positive)
  : MS (mst * list (positive * Z)) :=
  let bit_to_var : list (nat * nat) :=
    flat_map (fun v : nat * (nat * list nat) => List.map (fun b => (b, v.1)) v.2.2) dvars in
  let m := length dvars in
  bits_in_order <- mapM (fun j =>
      of_opt EKey (match list_find (fun '(_, (l, _)) => bool_decide (l = j)) dvars with
                   | Some (_, (_, (_, bits))) => Some bits
                   | None => None
                   end)) (seq 0 m) ;;
  let target := concat bits_in_order in
  let bit_to_sort : list (nat * nat) := imap (fun k b => (b, k)) target in
  collect_garbage None ;;;
  reorder_pub (Some (list_to_map bit_to_sort)) ;;;
  let mdd0 := mdd_init (List.map (fun x : nat * (nat * list nat) =>
                           (x.1, (x.2.1, 2 ^ length x.2.2))) dvars) in
  s <- get ;;
  (* predecessors and the selection of zone-entry nodes *)
  let preds (u : positive) : list positive :=
    omap (M:=list) (fun pt : positive * triple =>
      if bool_decide (pt.1 ≠ 1%positive ∧ (absn (t_lo pt.2) = u ∨ absn (t_hi pt.2) = u))
      then Some pt.1 else None) (map_to_list (succ s)) in
  keep <- foldM (fun (keep : gset positive) '(u, t) =>
      let p := preds u in
      rc <- ref (Z.pos u) ;;
      if decide (length (remove_dups p) < rc) then ret (keep ∪ {[u]}) else
      bit <- var_at_level (t_lvl t) ;;
      var <- of_opt EKey (assoc bit_to_var bit) ;;
      bits <- of_opt EKey (option_map snd (assoc dvars var)) ;;
      lsb <- of_opt EKey (head bits) ;;
      min_level <- of_opt EKey (assoc bit_to_sort lsb) ;;
      (* min() of an empty sequence raises ValueError *)
      match List.map (fun q => lvl_of s (Z.pos q)) p with
      | [] => raise EValue
      | l :: ls =>
          if decide (foldr Nat.min l ls < min_level) then ret (keep ∪ {[u]}) else ret keep
      end) ∅ (map_to_list (succ s)) ;;
  (* the order oracle: nodes of the non-terminal levels, deepest level first *)
  let nonterm := filter (fun u => u ≠ 1%positive) (elements (dom (succ s))) in
  if negb (bool_decide (NoDup order ∧ (list_to_set order : gset positive) = list_to_set nonterm ∧
                        Sorted (fun a b => lvl_of s (Z.pos b) <= lvl_of s (Z.pos a)) order))
  then raise EOracle else
  r <- foldM (fun '(mdd, umap) u =>
      if decide (u ∉ keep) then ret (mdd, umap) else
      t <- getsucc u ;;
      bit <- var_at_level (t_lvl t) ;;
      var <- of_opt EKey (assoc bit_to_var bit) ;;
      lb <- of_opt EKey (assoc dvars var) ;;
      let '(j, bits) := lb in
      bit_succ <- mapM (fun d => cofactor (Z.pos u) true d) (enumerate_integer bits) ;;
      int_succ <- mapM (fun z : Z =>
                    x <- of_opt EKey (assoc umap (absn z)) ;;
                    ret (if decide (0 < z)%Z then x else (- x)%Z)) bit_succ ;;
      match m_find_or_add j int_succ mdd with
      | (Ok x, mdd') => ret (mdd', umap ++ [(u, x)])
      | (Err e, _) => raise e
      end) (mdd0, [(1%positive, 1%Z)]) order ;;
  ret r.
