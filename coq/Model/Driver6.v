(** * Driver6: JSON dump/load steps of the autoref alphabet (file contents
      travel through the harness as values/arguments) *)
From DD Require Export Json.
Local Open Scope string_scope.

Definition jref_value (j : jref) : value :=
  match j with JT => VS "T" | JF => VS "F" | JN k => VZ k end.

Definition roots_value (r : rootsC) : value :=
  match r with
  | RNone => VU
  | RList l => VL (VZ <$> l)
  | RDict d => VL ((fun '(n, u) => VL [VN n; VZ u]) <$> d)
  end.

Definition jfile_value (jf : jfile) : value :=
  VL [ VL ((fun '(v, l) => VL [VN v; VN l]) <$> jf_levels jf);
       roots_value (jf_roots jf);
       VL ((fun '(k, (l, lo, hi)) => VL [VZ (Z.pos k); VN l; jref_value lo; jref_value hi])
             <$> jf_nodes jf) ].

Definition rootsH_value (r : rootsH) : value :=
  match r with
  | HList l => VL (VN <$> l)
  | HDict d => VL ((fun '(n, h) => VL [VN n; VN h]) <$> d)
  end.

Definition astep_with (w : aworld) (m : nat) (run : MA value) : aworld * res value :=
  let a := default empty_ast (w !! m) in
  let '(r, a') := run a in
  let a' := a' <| mgr := (mgr a') <| tape := [] |> |> in
  (<[m := a']> w, r).

Definition astep_json_dump (w : aworld) (m : nat) (hroots : rootsH) (vorder : list nat)
  : aworld * res value :=
  astep_with w m (jf <- a_dump_json hroots vorder ;; ret (jfile_value jf)).

Definition astep_json_load (w : aworld) (m : nat) (jf : jfile) (load_order : bool)
  : aworld * res value :=
  astep_with w m (r <- a_load_json jf load_order ;; ret (rootsH_value r)).

(** [autoref.BDD.add_var(var, level)]: passed through to the wrapped manager *)
Definition astep_add_var (w : aworld) (m : nat) (v : nat) (l : option nat) : aworld * res value :=
  astep_with w m (r <- lift (add_var v l) ;; ret (VN r)).
