(** * Consistent: [BDD.assert_consistent], dd's own check of the tables *)
From DD Require Export Driver6.

Definition assert_consistent : MS unit :=
  s <- get ;;
  assert (forallb (fun r => mem r s) (roots s)) ;;;
  (* inverses *)
  let succ_keys : gset positive := dom (succ s) in
  let succ_values : gset triple := list_to_set (map_to_list (succ s)).*2 in
  let pred_keys : gset triple := dom (pred s) in
  let pred_values : gset positive := list_to_set (map_to_list (pred s)).*2 in
  assert (bool_decide (succ_keys = pred_values)) ;;;
  assert (bool_decide (pred_keys = succ_values)) ;;;
  (* uniqueness *)
  assert (bool_decide (size succ_keys = size succ_values)) ;;;
  forM (map_to_list (succ s)) (fun '(u, t) =>
    if is_term t then
      assert (bool_decide (t_hi t = 0%Z))
    else
      assert (mem (t_lo t) s) ;;;
      assert (bool_decide (t_hi t ≠ 0%Z)) ;;;
      (* "high" is a regular edge *)
      assert (bool_decide (0 < t_hi t)%Z) ;;;
      assert (mem (t_hi t) s) ;;;
      (* the level increases along both edges *)
      ilo <- level_of (t_lo t) ;;
      assert (bool_decide (t_lvl t < ilo)) ;;;
      ihi <- level_of (t_hi t) ;;
      assert (bool_decide (t_lvl t < ihi)) ;;;
      (* [_pred] contains the inverse of [_succ] *)
      assert (bool_decide (pred s !! t = Some u)) ;;;
      (* reference count *)
      assert (bool_decide (is_Some (refc s !! u)))).

Definition step_consistent (w : world2) (m : nat) : world2 * res value :=
  let s := world2_get w m in
  let '(r, s') := assert_consistent s in
  (w <| w_mgrs ::= <[m := s']> |>, match r with Ok _ => Ok VU | Err e => Err e end).

Definition astep_consistent (w : aworld) (m : nat) : aworld * res value :=
  astep_with w m (lift assert_consistent ;;; ret VU).
