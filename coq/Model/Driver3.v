(** * Driver3: the [dd.autoref] operation alphabet *)
From DD Require Export Driver2 Autoref.
Local Open Scope string_scope.

Inductive aop :=
  | ANew (levels : list (nat * nat))
  | ADeclare (vs : list nat)
  | AVar (v : nat) | ATrue | AFalse
  | AApply (o : string) (hu : nat) (hv hw : option nat)
  | AIte (hg hu hv : nat)
  | ALet (d : alet_arg) (hu : nat)
  | AQuantify (hu : nat) (q : list nat) (fa : bool)
  | ACube (d : list (nat * bool))
  | AFindOrAdd (v : nat) (hlo hhi : nat)
  | ASupport (hu : nat)
  | ACount (hu : nat) (n : option nat)
  | AImage (pre : bool) (ht hs : nat) (rn : list (nat * nat)) (q : list nat) (fa : bool)
  | AFApply (o : string) (hu : nat) (hv : option nat)
  | AEq (hu hv : nat) | ANe (hu hv : nat) | ALe (hu hv : nat) | ALt (hu hv : nat)
  | AChild (hi : bool) (hu : nat)
  | ASucc (hu : nat)
  | ALevel (hu : nat) | AVarOf (hu : nat) | ARef (hu : nat)
  | ANegated (hu : nat) | ALen (hu : nat) | AInt (hu : nat)
  | ADrop (hu : nat)
  | AGc
  | AReorder (order : option (list (nat * nat)))
  | AConfigure (b : option bool)
  | ASetLastLen (l : option nat)
  | ASetTrig (k : option nat)
  | ASetMaxNodes (n : option positive)
  | ATape (t : list (list positive))
  | ACopy (src : nat) (hu : nat)
  | AShutdown.

Definition aworld := gmap nat ast.

Definition empty_ast : ast := ASt empty_st ∅ 0.

Definition vopt (o : option nat) : value :=
  match o with Some n => VN n | None => VU end.

Definition run_aop (w : aworld) (o : aop) : MA value :=
  match o with
  | ANew levels =>
      modify (fun _ => ASt init ∅ 0) ;;; lift (init_levels levels) ;;; ret VU
  | ADeclare vs => lift (declare vs) ;;; ret VU
  | AVar v => h <- a_var v ;; ret (VN h)
  | ATrue => h <- a_true ;; ret (VN h)
  | AFalse => h <- a_false ;; ret (VN h)
  | AApply o hu hv hw => h <- a_apply o hu hv hw ;; ret (VN h)
  | AIte hg hu hv => h <- a_ite hg hu hv ;; ret (VN h)
  | ALet d hu => h <- a_let d hu ;; ret (VN h)
  | AQuantify hu q fa => h <- a_quantify hu q fa ;; ret (VN h)
  | ACube d => h <- a_cube d ;; ret (VN h)
  | AFindOrAdd v hlo hhi => h <- a_find_or_add v hlo hhi ;; ret (VN h)
  | ASupport hu => r <- a_support hu ;; ret (vset r)
  | ACount hu n => r <- a_count hu n ;; ret (VZ r)
  | AImage pre ht hs rn q fa => h <- a_image pre ht hs rn q fa ;; ret (VN h)
  | AFApply o hu hv => h <- f_apply o hu hv ;; ret (VN h)
  | AEq hu hv => r <- f_eq hu hv ;; ret (VB r)
  | ANe hu hv => r <- f_eq hu hv ;; ret (VB (negb r))
  | ALe hu hv => r <- f_le hu hv ;; ret (VB r)
  | ALt hu hv => r <- f_lt hu hv ;; ret (VB r)
  | AChild hi hu => r <- f_child hi hu ;; ret (vopt r)
  | ASucc hu =>
      r <- a_succ hu ;; let '(l, a, b) := r in ret (VL [VN l; vopt a; vopt b])
  | ALevel hu => r <- f_level hu ;; ret (VN r)
  | AVarOf hu => r <- f_var hu ;; ret (vopt r)
  | ARef hu => r <- f_ref hu ;; ret (VN r)
  | ANegated hu => r <- f_negated hu ;; ret (VB r)
  | ALen hu => r <- f_len hu ;; ret (VN r)
  | AInt hu => r <- node_of hu ;; ret (VZ r)
  | ADrop hu => drop hu ;;; ret VU
  | AGc => lift (collect_garbage None) ;;; ret VU
  | AReorder order =>
      lift (reorder_pub ((fun l => list_to_map (reverse l)) <$> order)) ;;; ret VU
  | AConfigure b => r <- lift (configure b) ;; ret (VB r)
  | ASetLastLen l => lift (modify (fun s => s <| last_len := l |>)) ;;; ret VU
  | ASetTrig k => lift (modify (fun s => s <| trig := k |>)) ;;; ret VU
  | ASetMaxNodes n =>
      (* [bdd._bdd.max_nodes = n] on a [dd.autoref.BDD] ([None]: [sys.maxsize]); the
         modification that [Driver.OSetMaxNodes] performs, on the wrapped manager *)
      lift (modify (fun s => s <| max_nodes := n |>)) ;;; ret VU
  | ATape t => lift (modify (fun s => s <| tape := t |>)) ;;; ret VU
  | ACopy src hu =>
      (* [src_bdd.copy(u, self)]: u is a handle of ANOTHER manager [src]
         (the copy into the manager itself is [a_copy_same], see [run_aop']) *)
      match w !! src with
      | None => raise EKey
      | Some asrc =>
          match handles asrc !! hu with
          | None => raise EKey
          | Some u =>
              ensure EValue (mem u (mgr asrc)) ;;;
              r <- lift (copy_bdd_pub (mgr asrc) u) ;;
              h <- wrap r ;; ret (VN h)
          end
      end
  | AShutdown => r <- lift shutdown_ ;; ret (VB r)
  end.

(** [dd.autoref.copy_bdd(u, target)] with [u.manager is target._bdd]:
    [dd.bdd.copy_bdd] returns [u.node] at once ([if from_bdd is to_bdd: return u]);
    nothing is computed, no node is created, the [ite] cache is not touched.
    The result is [target._wrap(u.node)]: a second [Function] on the same node
    with a reference of its own. *)
Definition a_copy_same (hu : nat) : MA value :=
  u <- node_of hu ;; h <- wrap u ;; ret (VN h).

(** the operation [o] called on manager [m] of the world: a copy whose source
    is [m] itself is the same-manager copy; everything else is [run_aop] *)
Definition run_aop' (w : aworld) (m : nat) (o : aop) : MA value :=
  match o with
  | ACopy src hu => if decide (src = m) then a_copy_same hu else run_aop w o
  | _ => run_aop w o
  end.

Definition astep (w : aworld) (m : nat) (o : aop) : aworld * res value :=
  let a := default empty_ast (w !! m) in
  let '(r, a') := run_aop' w m o a in
  let a' := match o with
            | ATape _ => a'
            | _ => a' <| mgr := (mgr a') <| tape := [] |> |>
            end in
  (<[m := a']> w, r).

Definition aworld_empty : aworld := ∅.
Definition aworld_get (w : aworld) (m : nat) : ast := default empty_ast (w !! m).
Definition adigest (a : ast) : dig * list (nat * Z) :=
  (digest (mgr a), map_to_list (handles a)).
