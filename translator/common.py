"""Shared helpers of the translators (fail-closed: anything unrecognised
raises TranslationError, which the check treats as a broken obligation)."""
import ast
import os

REPO = os.environ.get('DD_REPO', '/repo')
OUT = os.path.join(os.path.dirname(os.path.dirname(os.path.abspath(__file__))),
                   'coq', 'Generated')


class TranslationError(Exception):
    pass


def need(cond, msg):
    if not cond:
        raise TranslationError(msg)


def coq_string(s):
    need(all(32 <= ord(c) < 127 for c in s), f'non-printable in {s!r}')
    return '"' + s.replace('"', '""') + '"'


def coq_list(items):
    return '[' + '; '.join(items) + ']'


def write_if_changed(name, text):
    os.makedirs(OUT, exist_ok=True)
    p = os.path.join(OUT, name)
    old = open(p).read() if os.path.exists(p) else None
    if old != text:
        with open(p, 'w') as f:
            f.write(text)
        return True
    return False


def parse(relpath):
    p = os.path.join(REPO, relpath)
    return ast.parse(open(p).read(), filename=p)


def find_class(tree, name):
    for n in tree.body:
        if isinstance(n, ast.ClassDef) and n.name == name:
            return n
    raise TranslationError(f'class {name} not found')


def find_func(body, name):
    for n in body:
        if isinstance(n, (ast.FunctionDef, ast.AsyncFunctionDef)) and n.name == name:
            return n
    raise TranslationError(f'function {name} not found')


def strip_doc(body):
    if body and isinstance(body[0], ast.Expr) and isinstance(
            getattr(body[0], 'value', None), ast.Constant) and isinstance(
            body[0].value.value, str):
        return body[1:]
    return body
