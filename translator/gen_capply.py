"""dd/cudd.pyx, dd/cudd_zdd.pyx, dd/sylvan.pyx, dd/buddy.pyx: the operator
chain of `apply` as C-call terms  ->  Generated/CApply.v (+ capply.json)

The .pyx files are not Python; the scanner works on the statement tree of
translator/pyxscan.py.  It is strict: every statement of the body of
`apply` must be one of the recognised frame statements (argument checks,
declarations, NULL test, `return wrap(self, r)`) or belong to the operator
chain, and every right-hand side must parse as a term over

    u.node | v.node | w.node | constants | NAME(args...)

Anything else raises TranslationError (the generated file then does not
compile and the C19 obligations are reported broken)."""
import json
import os
import re

from common import (TranslationError, need, coq_string, coq_list,
                    write_if_changed, REPO, OUT)
import pyxscan as P

# library -> (file, class, module prefix of library calls, manager variable)
LIBS = {
    'cudd': dict(file='dd/cudd.pyx', cls='BDD', prefix='', mgr='mgr',
                 decls=['dd/cudd.pyx']),
    'cudd_zdd': dict(file='dd/cudd_zdd.pyx', cls='ZDD', prefix='', mgr='mgr',
                     decls=['dd/cudd_zdd.pyx']),
    'sylvan': dict(file='dd/sylvan.pyx', cls='BDD', prefix='sy.', mgr=None,
                   decls=['dd/c_sylvan.pxd']),
    'buddy': dict(file='dd/buddy.pyx', cls='BDD', prefix='buddy.', mgr=None,
                  decls=['dd/buddy_.pxd']),
}

ROLE = {'u': 'RU', 'v': 'RV', 'w': 'RW'}

# constants: normalised source text -> name used in the term language
CONSTS = {
    'cudd': ['Cudd_ReadOne(mgr)', 'Cudd_ReadLogicZero(mgr)'],
    # Cudd_ReadZero is deliberately absent: it is the arithmetic zero, which
    # is FALSE for ZDDs but not for BDDs; CSem gives it no meaning
    'cudd_zdd': ['Cudd_ReadZddOne(mgr, 0)'],
    'sylvan': ['sy.sylvan_true', 'sy.sylvan_false'],
    'buddy': ['buddy.bdd_true()', 'buddy.bdd_false()'],
}

# quantifier entry points whose declared parameter names are exported for
# the cross-check of CSem.quant_conv
QUANT_FUNCS = ['Cudd_bddUnivAbstract', 'Cudd_bddExistAbstract',
               'sylvan_forall', 'sylvan_exists', 'bdd_forall', 'bdd_exist',
               '_forall_root', '_exist_root']


# ---------------------------------------------------------------------------
# terms
# ---------------------------------------------------------------------------
def T_op(r):
    return dict(k='op', role=r)


def T_const(n):
    return dict(k='const', name=n)


def T_call(n, args):
    return dict(k='call', name=n, args=args)


def T_cube(r):
    return dict(k='supportcube', role=r)


def term_to_coq(t):
    k = t['k']
    if k == 'op':
        return f'COp {t["role"]}'
    if k == 'const':
        return f'CConst {coq_string(t["name"])}'
    if k == 'supportcube':
        return f'CSupportCube {t["role"]}'
    return 'CCall %s %s' % (coq_string(t['name']),
                            coq_list([term_to_coq(a) for a in t['args']]))


def parse_term(text, lib, env):
    """a right-hand side of the chain"""
    cfg = LIBS[lib]
    text = text.strip()
    m = re.fullmatch(r'([uvw])\.node', text)
    if m:
        return T_op(ROLE[m.group(1)])
    if text in env:
        return env[text]
    norm = re.sub(r'\s*,\s*', ', ', text)
    if norm in CONSTS[lib]:
        return T_const(norm)
    call = P.parse_call(text)
    need(call is not None, f'{lib}: unrecognised term {text!r}')
    name, args = call
    if cfg['prefix']:
        if name.startswith(cfg['prefix']):
            name = name[len(cfg['prefix']):]
        else:
            need(False, f'{lib}: call {name} is not a {cfg["prefix"]}* library call')
    need(re.fullmatch(r'\w+', name) is not None, f'{lib}: call name {name!r}')
    sig = signatures(lib)
    need(name in sig, f'{lib}: {name} is not declared in {cfg["decls"]}')
    need(len(args) == len(sig[name]),
         f'{lib}: {name} declared with {len(sig[name])} parameters, called with {len(args)}: {text!r}')
    if sig[name] and sig[name][0] == '<manager>':
        need(args[0] == cfg['mgr'],
             f'{lib}: first argument of {name} is not the manager: {text!r}')
        args = args[1:]
    if not args:
        # a library call without operands is a constant by its source text; CSem
        # gives a meaning only to the constants it knows (any other has none,
        # so the branch that uses it cannot agree with dd.bdd)
        return T_const(norm)
    for a in args:
        need('=' not in P.blank_strings(a), f'{lib}: keyword argument in {text!r}')
    return T_call(name, [parse_term(a, lib, env) for a in args])


# ---------------------------------------------------------------------------
# branch bodies
# ---------------------------------------------------------------------------
def assignment(stmt):
    m = re.fullmatch(r'(\w+) = (.+)', stmt.text)
    need(m is not None and not stmt.body,
         f'line {stmt.line}: expected an assignment: {stmt.text!r}')
    return m.group(1), m.group(2)


def branch_term(body, lib, result_var='r'):
    """statements of one branch -> term assigned to `r`.
    Recognised shapes:
      r = TERM
      x_node = TERM ; x = wrap(self, x_node) ; r = TERM[x.node]       (ZDD)
      qvars = self.support(U) ; cube = _dict_to_zdd(qvars, V.zdd) ;
         r = F(mgr, V.node, cube.node)                                 (ZDD)
    """
    env = {}
    node_vars = {}
    support_of = {}
    for s in body[:-1]:
        lhs, rhs = assignment(s)
        m = re.fullmatch(r'self\.support\(([uvw])\)', rhs)
        if m:
            support_of[lhs] = ROLE[m.group(1)]
            continue
        m = re.fullmatch(r'_dict_to_zdd\((\w+), ([uvw])\.zdd\)', rhs)
        if m:
            need(lib == 'cudd_zdd' and m.group(1) in support_of,
                 f'line {s.line}: cube of an unknown variable set: {s.text!r}')
            env[lhs + '.node'] = T_cube(support_of[m.group(1)])
            continue
        m = re.fullmatch(r'wrap\(self, (\w+)\)', rhs)
        if m:
            need(m.group(1) in node_vars,
                 f'line {s.line}: wrap of an unknown node: {s.text!r}')
            env[lhs + '.node'] = node_vars[m.group(1)]
            continue
        need(lhs != result_var, f'line {s.line}: `{result_var}` assigned before the end of the branch')
        node_vars[lhs] = parse_term(rhs, lib, env)
    lhs, rhs = assignment(body[-1])
    need(lhs == result_var, f'line {body[-1].line}: branch does not end with `{result_var} = ...`')
    return parse_term(rhs, lib, env)


def aliases_of(test, line):
    """`op in ('a', 'b')` | `op == 'a'`  ->  list of strings"""
    m = re.fullmatch(r'op in \((.*)\)', test)
    if m:
        toks = P.split_args(m.group(1))
        need(toks, f'line {line}: empty alias tuple')
        return [P.string_literal_value(t) for t in toks]
    m = re.fullmatch(r'op == (.+)', test)
    if m:
        return [P.string_literal_value(m.group(1).strip())]
    raise TranslationError(f'line {line}: unrecognised test {test!r}')


def header(stmt):
    """('if'|'elif'|'else', test text)"""
    t = stmt.text
    m = re.fullmatch(r'(if|elif) (.+):', t)
    if m:
        return m.group(1), m.group(2)
    if t == 'else:':
        return 'else', None
    return None, None


def is_raise(stmt, exc=None):
    m = re.match(r'raise (\w+)\(', stmt.text)
    return (m is not None and not stmt.body
            and (exc is None or m.group(1) in exc))


def only_raise(stmt, exc=None):
    return len(stmt.body) == 1 and is_raise(stmt.body[0], exc)


# ---------------------------------------------------------------------------
# per-library frames
# ---------------------------------------------------------------------------
ARITY_CALL = "_utils.assert_operator_arity(op, v, w, 'bdd')"


def scan_standard(lib, fn):
    """cudd, cudd_zdd, sylvan: one if/elif/else chain"""
    body = P.strip_docstring(fn.body)
    need(fn.params == ['self', 'op', 'u', 'v', 'w'], f'{lib}: apply signature {fn.params}')
    i = 0
    need(body[i].text == ARITY_CALL and not body[i].body,
         f'{lib}: apply does not start with {ARITY_CALL}: {body[i].text!r}')
    i += 1
    # manager checks
    if lib in ('cudd', 'cudd_zdd'):
        checks = ['if self.manager != u.manager:',
                  'if v is not None and self.manager != v.manager:',
                  'if w is not None and self.manager != w.manager:']
    else:
        checks = ['if self is not u.bdd:',
                  'if v is not None and v.bdd is not self:',
                  'if w is not None and w.bdd is not self:']
    for c in checks:
        need(body[i].text == c and only_raise(body[i], ('ValueError',)),
             f'{lib}: line {body[i].line}: expected `{c} raise ValueError(...)`')
        i += 1
    decls = {
        'cudd': ['r: DdRef', 'cdef DdManager *mgr', 'mgr = u.manager', 'r = NULL'],
        'cudd_zdd': ['r: DdRef', 'neg_node: DdRef', 't: Function',
                     'cdef DdManager *mgr', 'mgr = u.manager', 'r = NULL'],
        'sylvan': ['r: sy.BDD', 'sy.LACE_ME_WRAP'],
    }[lib]
    for d in decls:
        need(body[i].text == d and not body[i].body,
             f'{lib}: line {body[i].line}: expected `{d}`, found {body[i].text!r}')
        i += 1
    # the chain
    rows = []
    kind, test = header(body[i])
    need(kind == 'if', f'{lib}: line {body[i].line}: operator chain expected')
    while True:
        s = body[i]
        kind, test = header(s)
        if kind in ('if', 'elif'):
            need(kind == 'elif' or not rows, f'{lib}: line {s.line}: second chain')
            names = aliases_of(test, s.line)
            term = branch_term(s.body, lib)
            rows.append(dict(aliases=names, term=term, line=s.line,
                             source=' ; '.join(x.text for x in s.body)))
            i += 1
            continue
        need(kind == 'else', f'{lib}: line {s.line}: chain must end with else: raise')
        exc = ('ValueError',) if lib != 'sylvan' else ('AssertionError',)
        need(only_raise(s, exc), f'{lib}: line {s.line}: else branch must raise')
        i += 1
        break
    # failure test and the wrapped result
    s = body[i]
    if lib == 'sylvan':
        need(s.text == 'if r == sy.sylvan_invalid:' and only_raise(s, ('ValueError',)),
             f'{lib}: line {s.line}: expected the sylvan_invalid test')
    else:
        need(s.text == 'if r is NULL:' and len(s.body) == 2
             and s.body[0].text == 'config = self.configure()'
             and is_raise(s.body[1], ('RuntimeError',)),
             f'{lib}: line {s.line}: expected the NULL test')
    i += 1
    rest = [x.text for x in body[i:]]
    need(rest in (['return wrap(self, r)'], ['res = wrap(self, r)', 'return res']),
         f'{lib}: apply must end by returning wrap(self, r): {rest}')
    return rows, dict(kind='python', call=ARITY_CALL), None


def scan_buddy(lib, fn, root):
    """buddy: `if op not in _OPERATOR_SYMBOLS: raise`, a unary chain with
    its own operand guards, a binary chain, `return Function(r)`"""
    body = P.strip_docstring(fn.body)
    need(fn.params == ['self', 'op', 'u', 'v'], f'{lib}: apply signature {fn.params}')
    need(len(body) >= 4, f'{lib}: apply too short')
    s = body[0]
    need(s.text == 'if op not in _OPERATOR_SYMBOLS:' and only_raise(s, ('ValueError',)),
         f'{lib}: line {s.line}: expected the _OPERATOR_SYMBOLS test')
    rows, guards = [], []
    i = 1
    # unary chain
    s = body[i]
    kind, test = header(s)
    need(kind == 'if', f'{lib}: line {s.line}: unary chain expected')
    names = aliases_of(test, s.line)
    need(len(s.body) == 2 and s.body[0].text == 'if v is not None:'
         and only_raise(s.body[0], ('ValueError',)),
         f'{lib}: line {s.line}: unary branch must start with `if v is not None: raise ValueError`')
    rows.append(dict(aliases=names, term=branch_term(s.body[1:], lib), line=s.line,
                     source=s.body[1].text))
    guards.append(dict(aliases=names, conds=['GVNotNone']))
    i += 1
    s = body[i]
    need(s.text == 'elif v is None:' and only_raise(s, ('ValueError',)),
         f'{lib}: line {s.line}: expected `elif v is None: raise ValueError`')
    i += 1
    # binary chain (no else)
    s = body[i]
    kind, test = header(s)
    need(kind == 'if', f'{lib}: line {s.line}: binary chain expected')
    while i < len(body):
        s = body[i]
        kind, test = header(s)
        if kind is None:
            break
        need((kind == 'if') == (len(rows) == 1), f'{lib}: line {s.line}: unexpected {kind}')
        names = aliases_of(test, s.line)
        rows.append(dict(aliases=names, term=branch_term(s.body, lib), line=s.line,
                         source=' ; '.join(x.text for x in s.body)))
        guards.append(dict(aliases=names, conds=['GVNone']))
        i += 1
    rest = [x.text for x in body[i:]]
    need(rest == ['return Function(r)'], f'{lib}: apply must end with `return Function(r)`: {rest}')
    # two consecutive chains behave as one if/elif chain only if no alias
    # occurs in both (the second chain would overwrite `r`)
    seen = set()
    for r in rows:
        for a in r['aliases']:
            need(a not in seen, f'{lib}: alias {a!r} occurs in two branches')
            seen.add(a)
    # the accepted symbol set
    syms = None
    for st in root.body:
        m = re.fullmatch(r'_OperatorSymbol: _ty\.TypeAlias = _ty\.Literal\[(.*)\]', st.text)
        if m:
            syms = [P.string_literal_value(t) for t in P.split_args(m.group(1))]
    need(syms is not None, f'{lib}: _OperatorSymbol literal not found')
    ok = any(st.text == '_OPERATOR_SYMBOLS: _ty.Final = set(_ty.get_args(_OperatorSymbol))'
             for st in root.body)
    need(ok, f'{lib}: definition of _OPERATOR_SYMBOLS not recognised')
    return rows, dict(kind='own', guards=guards), syms


_SIG = {}


def signatures(lib):
    """name -> declared parameter names ('<manager>' for a `DdManager *`
    parameter), from the extern blocks of the wrapper (or its .pxd) and, for
    module-level cdef functions of the wrapper itself, from their headers"""
    if lib in _SIG:
        return _SIG[lib]
    out = {}
    for rel in LIBS[lib]['decls']:
        root = P.parse_file(os.path.join(REPO, rel))
        for n, (rt, params) in P.extern_decls(root).items():
            ps = []
            for p in params:
                if re.match(r'DdManager\s*\*', p):
                    ps.append('<manager>')
                    continue
                if p.strip() == 'void':
                    continue
                ids = re.findall(r'[A-Za-z_]\w*', p)
                need(ids, f'{rel}: parameter of {n}: {p!r}')
                ps.append(ids[-1])
            out[n] = ps
        for f in P.functions(root):
            if f.cls is None and f.kw == 'cdef' and f.name not in out:
                out[f.name] = ['<manager>' if p == 'mgr' else p for p in f.params]
    _SIG[lib] = out
    return out


def decl_params(lib, names):
    """declared parameter names (manager parameter dropped) of the
    quantifier entry points"""
    sig = signatures(lib)
    return {n: [p for p in sig[n] if p != '<manager>'] for n in names if n in sig}


def zdd_roots(root):
    """`_forall_root` / `_exist_root` of cudd_zdd.pyx hand their arguments
    (u, cube) in this order to `_forall` / `_exist`"""
    got = {}
    for f in P.functions(root):
        if f.cls is None and f.name in ('_forall_root', '_exist_root'):
            inner = f.name[:-5]
            need(f.params == ['mgr', 'u', 'cube'], f'{f.name} parameters {f.params}')
            calls = [s.text for s in P.iter_stmts(f.body)
                     if re.search(r'\b%s\(' % inner, P.blank_strings(s.text))]
            need(calls == [f'r = {inner}(mgr, 0, u, cube)'],
                 f'{f.name}: expected `r = {inner}(mgr, 0, u, cube)`, found {calls}')
            rets = [s.text for s in P.iter_stmts(f.body) if s.text.startswith('return')]
            need(rets == ['return r'], f'{f.name}: returns {rets}')
            got[f.name] = True
    need(len(got) == 2, 'cudd_zdd: _forall_root/_exist_root not found')


def scan(lib):
    cfg = LIBS[lib]
    root = P.parse_file(os.path.join(REPO, cfg['file']))
    fns = [f for f in P.functions(root) if f.qual == cfg['cls'] + '.apply']
    need(len(fns) == 1, f'{lib}: {cfg["cls"]}.apply not found exactly once')
    fn = fns[0]
    need(fn.kw == 'cpdef' and fn.rtype == 'Function', f'{lib}: apply is not `cpdef Function`')
    if lib == 'buddy':
        rows, arity, syms = scan_buddy(lib, fn, root)
    else:
        rows, arity, syms = scan_standard(lib, fn)
    if lib == 'cudd_zdd':
        zdd_roots(root)
    return dict(lib=lib, file=cfg['file'], rows=rows, arity=arity, symbols=syms,
                decls=decl_params(lib, QUANT_FUNCS))


def table_to_coq(rows):
    return coq_list(['(' + coq_list([coq_string(a) for a in r['aliases']]) + ', '
                     + term_to_coq(r['term']) + ')' for r in rows])


def main():
    data = {lib: scan(lib) for lib in LIBS}
    text = ('(* GENERATED from dd/cudd.pyx, dd/cudd_zdd.pyx, dd/sylvan.pyx, dd/buddy.pyx '
            '(and dd/c_sylvan.pxd, dd/buddy_.pxd) by translator/gen_capply.py -- do not edit *)\n')
    text += 'From DD Require Import CSem.\nLocal Open Scope string_scope.\n\n'
    for lib in LIBS:
        d = data[lib]
        text += f'(** the if/elif chain of `apply` in {d["file"]} *)\n'
        text += (f'Definition c_apply_{lib} : list (list string * cterm) :=\n  '
                 + table_to_coq(d['rows']) + '.\n')
        if d['arity']['kind'] == 'python':
            text += (f'(** operand shapes are checked by {d["arity"]["call"]}, '
                     'the call at the head of dd.bdd.BDD.apply *)\n')
            text += f'Definition c_arity_{lib} : arity_guard := AGPython.\n\n'
        else:
            g = coq_list(['(' + coq_list([coq_string(a) for a in x['aliases']]) + ', '
                          + coq_list(x['conds']) + ')' for x in d['arity']['guards']])
            text += '(** operand shapes are checked by the branches themselves: the conditions under which a branch raises *)\n'
            text += f'Definition c_arity_{lib} : arity_guard := AGOwn\n  {g}.\n\n'
    text += '(** `_OPERATOR_SYMBOLS` of dd/buddy.pyx: the symbols `apply` lets through *)\n'
    text += ('Definition c_symbols_buddy : list string := '
             + coq_list([coq_string(s) for s in data['buddy']['symbols']]) + '.\n\n')
    text += ('(** declared parameter names (manager dropped) of the quantifier entry points,\n'
             '    from the extern declarations of the wrappers *)\n')
    decls = []
    for lib in LIBS:
        for n, ps in sorted(data[lib]['decls'].items()):
            decls.append('(' + coq_string(lib) + ', ' + coq_string(n) + ', '
                         + coq_list([coq_string(p) for p in ps]) + ')')
    text += ('Definition c_quant_decls : list (string * string * list string) :=\n  '
             + coq_list(decls) + '.\n')
    changed = write_if_changed('CApply.v', text)
    js = json.dumps(data, indent=1, sort_keys=True) + '\n'
    p = os.path.join(OUT, 'capply.json')
    if not os.path.exists(p) or open(p).read() != js:
        with open(p, 'w') as f:
            f.write(js)
    return changed


if __name__ == '__main__':
    main()
