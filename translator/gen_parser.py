"""dd/_parser.py (lexer rules, reserved words, precedence, productions,
_Translator._apply) and doc.md (documented precedence) -> Generated/ParserTables.v"""
import ast
import os
import re

from common import (TranslationError, need, coq_string, coq_list,
                    write_if_changed, parse, find_class, find_func, REPO)

META = set('.^$*+?{}[]()')


def alternatives(rx):
    """alternatives of a verbose regex, each of which must denote a literal"""
    s = ''.join(rx.split())            # re.VERBOSE: whitespace ignored
    alts, out = [], []
    i = 0
    while i < len(s):
        c = s[i]
        if c == '\\':
            need(i + 1 < len(s), f'dangling backslash in {rx!r}')
            d = s[i + 1]
            need(not d.isalnum(), f'regex escape \\{d} is not a literal in {rx!r}')
            out.append(d)
            i += 2
        elif c == '|':
            need(out, f'empty alternative in {rx!r}')
            alts.append(''.join(out))
            out = []
            i += 1
        else:
            need(c not in META, f'regex metacharacter {c!r} in {rx!r}')
            out.append(c)
            i += 1
    need(out, f'empty alternative in {rx!r}')
    alts.append(''.join(out))
    return alts


EXPECT_SPECIAL = {
    't_NAME': "[A-Za-z_][A-Za-z0-9_'.]*",
    't_trailing_comment': r'\\\*.*',
    't_doubly_delimited_comment': r'\(\*[\s\S]*?\*\)',
    't_newline': r'\n+',
}

TRANSLATOR_APPLY = (
    "Match(subject=Name(id='operator', ctx=Load()), cases=[match_case(pattern=MatchOr(patterns=[MatchValue(value=Constant(value='\\\\A')), MatchValue(value=Constant(value='\\\\E'))]), body=[Assign(targets=[Tuple(elts=[Name(id='names', ctx=Store()), Name(id='expr', ctx=Store())], ctx=Store())], value=Name(id='operands', ctx=Load())), Assign(targets=[Name(id='names', ctx=Store())], value=SetComp(elt=Attribute(value=Name(id='x', ctx=Load()), attr='value', ctx=Load()), generators=[comprehension(target=Name(id='x', ctx=Store()), iter=Name(id='names', ctx=Load()), ifs=[], is_async=0)])), Assign(targets=[Name(id='forall', ctx=Store())], value=Compare(left=Name(id='operator', ctx=Load()), ops=[Eq()], comparators=[Constant(value='\\\\A')])), Return(value=Call(func=Attribute(value=Attribute(value=Name(id='self', ctx=Load()), attr='_bdd', ctx=Load()), attr='quantify', ctx=Load()), args=[Name(id='expr', ctx=Load()), Name(id='names', ctx=Load())], keywords=[keyword(arg='forall', value=Name(id='forall', ctx=Load()))]))]), match_case(pattern=MatchValue(value=Constant(value='\\\\S')), body=[Assign(targets=[Tuple(elts=[Name(id='subs', ctx=Store()), Name(id='expr', ctx=Store())], ctx=Store())], value=Name(id='operands', ctx=Load())), Assign(targets=[Name(id='renaming', ctx=Store())], value=DictComp(key=Attribute(value=Name(id='k', ctx=Load()), attr='value', ctx=Load()), value=Attribute(value=Name(id='v', ctx=Load()), attr='value', ctx=Load()), generators=[comprehension(target=Tuple(elts=[Name(id='k', ctx=Store()), Name(id='v', ctx=Store())], ctx=Store()), iter=Name(id='subs', ctx=Load()), ifs=[], is_async=0)])), Return(value=Call(func=Attribute(value=Attribute(value=Name(id='self', ctx=Load()), attr='_bdd', ctx=Load()), attr='rename', ctx=Load()), args=[Name(id='expr', ctx=Load()), Name(id='renaming', ctx=Load())], keywords=[]))])])",
    "Return(value=Call(func=Attribute(value=Attribute(value=Name(id='self', ctx=Load()), attr='_bdd', ctx=Load()), attr='apply', ctx=Load()), args=[Name(id='operator', ctx=Load()), Starred(value=Name(id='operands', ctx=Load()), ctx=Load())], keywords=[]))",
)


def lexer_tables(tree):
    cls = find_class(tree, 'Lexer')
    init = find_func(cls.body, '__init__')
    reserved = None
    for st in ast.walk(init):
        if (isinstance(st, ast.Assign) and isinstance(st.targets[0], ast.Attribute)
                and st.targets[0].attr == 'reserved'):
            reserved = ast.literal_eval(st.value)
    need(isinstance(reserved, dict), 'Lexer.reserved not found')
    alias = []      # (spelling, type, value)
    seen_special = set()
    for n in cls.body:
        if isinstance(n, ast.FunctionDef) and n.name.startswith('t_'):
            doc = ast.get_docstring(n, clean=False)
            need(doc is not None, f'{n.name} without regex')
            name = n.name[2:]
            if n.name in EXPECT_SPECIAL:
                need(''.join(doc.split()) == EXPECT_SPECIAL[n.name],
                     f'{n.name}: regex changed: {doc!r}')
                seen_special.add(n.name)
                continue
            # body: token.value = '<canonical>'; return token
            body = [s for s in n.body if not (isinstance(s, ast.Expr) and isinstance(s.value, ast.Constant))]
            need(len(body) == 2 and isinstance(body[0], ast.Assign) and isinstance(body[1], ast.Return)
                 and ast.unparse(body[0].targets[0]) == 'token.value'
                 and isinstance(body[0].value, ast.Constant)
                 and ast.unparse(body[1]) == 'return token', f'{n.name}: unexpected body')
            val = body[0].value.value
            for sp in alternatives(doc):
                alias.append((sp, name, val))
        elif isinstance(n, ast.Assign) and isinstance(n.targets[0], ast.Name) and n.targets[0].id.startswith('t_'):
            name = n.targets[0].id[2:]
            if name == 'ignore':
                need(ast.unparse(n.value) == "''.join([' ', '\\t'])", 't_ignore changed')
                continue
            rx = ast.literal_eval(n.value)
            if name == 'NUMBER':
                need(''.join(rx.split()) == r'\d+', 't_NUMBER changed')
                continue
            for sp in alternatives(rx):
                alias.append((sp, name, sp))     # the value is the text itself
    need(seen_special == set(EXPECT_SPECIAL), 'a lexer rule for names/comments/newlines is missing')
    return reserved, alias


def lexer_rule_order(tree):
    """The rules in the order of PLY's master regular expression: function
    rules in order of definition, then string rules by decreasing length of
    the regex text (stable over the alphabetical order of their names).
    Python's `re` tries the alternatives of the master regex, and of each
    rule, in order and takes the FIRST that matches."""
    cls = find_class(tree, 'Lexer')
    funcs, strings = [], []
    for n in cls.body:
        if isinstance(n, ast.FunctionDef) and n.name.startswith('t_') and n.name != 't_error':
            doc = ast.get_docstring(n, clean=False)
            funcs.append((n.lineno, n.name[2:], doc))
        elif isinstance(n, ast.Assign) and isinstance(n.targets[0], ast.Name) and n.targets[0].id.startswith('t_'):
            name = n.targets[0].id[2:]
            if name == 'ignore':
                continue
            strings.append((name, ast.literal_eval(n.value)))
    funcs.sort()
    strings.sort(key=lambda x: x[0])
    strings.sort(key=lambda x: len(x[1]), reverse=True)
    rules = []
    for _, name, doc in funcs:
        if name == 'NAME':
            rules.append('RName')
        elif name == 'trailing_comment':
            rules.append('RLineComment "\\*"')
        elif name == 'doubly_delimited_comment':
            rules.append('RBlockComment "(*" "*)"')
        elif name == 'newline':
            rules.append('RNewline')
        else:
            rules.append('RLit %s true %s' % (coq_string(name), coq_list([coq_string(a) for a in alternatives(doc)])))
    for name, rx in strings:
        if name == 'NUMBER':
            rules.append('RNumber')
        else:
            rules.append('RLit %s false %s' % (coq_string(name), coq_list([coq_string(a) for a in alternatives(rx)])))
    return rules


def parser_tables(tree):
    cls = find_class(tree, 'Parser')
    init = find_func(cls.body, '__init__')
    prec = None
    for st in ast.walk(init):
        if (isinstance(st, ast.Assign) and isinstance(st.targets[0], ast.Attribute)
                and st.targets[0].attr == 'precedence'):
            prec = ast.literal_eval(st.value)
    need(prec is not None, 'Parser.precedence not found')
    flat = []
    for level in prec:
        need(len(level) == 2, 'one token per precedence level expected')
        flat.append((level[0], level[1]))
    prods = []
    for n in cls.body:
        if isinstance(n, ast.FunctionDef) and n.name.startswith('p_'):
            doc = ast.get_docstring(n, clean=False)
            need(doc is not None, f'{n.name} without production')
            text = ' '.join(doc.split())
            head, _, rest = text.partition(':')
            for alt in rest.split('|'):
                prods.append(f'{head.strip()} : {" ".join(alt.split())}')
    # semantic actions of the productions that build structure
    tr = find_class(tree, '_Translator')
    ap = find_func(tr.body, '_apply')
    body = [s for s in ap.body if not (isinstance(s, ast.Expr) and isinstance(s.value, ast.Constant))]
    need(tuple(ast.dump(s) for s in body) == TRANSLATOR_APPLY,
         '_Translator._apply changed:\n' + '\n'.join(ast.unparse(s) for s in body))
    sub = find_func(cls.body, 'p_substitution')
    need('new = p[1]' in ast.unparse(sub) and 'old = p[3]' in ast.unparse(sub)
         and 'p[0] = (old, new)' in ast.unparse(sub), 'p_substitution changed')
    return flat, prods


def doc_precedence():
    text = open(os.path.join(REPO, 'doc.md')).read()
    m = re.search(r'The token precedence \(lowest to highest\) and associativity is:\n\n(.*?)\n\n', text, re.S)
    need(m, 'documented precedence list not found in doc.md')
    levels = []
    for line in m.group(1).split('\n'):
        line = line.strip()
        need(line.startswith('- '), f'unexpected line in precedence list: {line!r}')
        spellings = []
        for chunk in re.findall(r'`([^`]*)`', line):
            for sp in chunk.split(','):
                sp = sp.strip()
                if sp:
                    spellings.append(sp)
        need(spellings, f'no spelling in {line!r}')
        assoc = 'left' if '(left)' in line else ('unary' if 'unary' in line else 'none')
        levels.append((assoc, spellings))
    m2 = re.search(r'The meaning of a number of operators,\nassuming `a` and `b` take Boolean values:\n(.*?)\n\n', text, re.S)
    need(m2, 'documented meanings not found in doc.md')
    meanings = re.findall(r'- `([^`]*)` means `([^`]*)`', m2.group(1))
    need(len(meanings) == 4, 'four documented meanings expected')
    return levels, meanings


def main():
    tree = parse('dd/_parser.py')
    reserved, alias = lexer_tables(tree)
    prec, prods = parser_tables(tree)
    dlevels, meanings = doc_precedence()
    t = '(* GENERATED from dd/_parser.py and doc.md by translator/gen_parser.py -- do not edit *)\n'
    t += 'From DD Require Import Parser.\nLocal Open Scope string_scope.\n\n'
    t += '(** reserved words of the lexer: spelling -> token type *)\n'
    t += 'Definition reserved_words : list (string * string) :=\n  ' + coq_list(
        [f'({coq_string(k)}, {coq_string(v)})' for k, v in reserved.items()]) + '.\n\n'
    t += '(** operator and delimiter spellings: spelling -> (token type, token value) *)\n'
    t += 'Definition lex_alias : lex_table :=\n  ' + coq_list(
        [f'({coq_string(sp)}, ({coq_string(ty)}, {coq_string(v)}))' for sp, ty, v in alias]) + '.\n\n'
    t += '(** Parser.precedence, lowest first *)\n'
    t += 'Definition code_prec : prec_table :=\n  ' + coq_list(
        [f'({coq_string(a)}, {coq_string(tk)})' for a, tk in prec]) + '.\n\n'
    t += '(** grammar productions (docstrings of the p_ functions) *)\n'
    t += 'Definition productions : list string :=\n  ' + coq_list([coq_string(p) for p in prods]) + '.\n\n'
    t += '(** doc.md: documented precedence, lowest first: (associativity, spellings) *)\n'
    t += 'Definition doc_prec : list (string * list string) :=\n  ' + coq_list(
        [f'({coq_string(a)}, {coq_list([coq_string(s) for s in sps])})' for a, sps in dlevels]) + '.\n\n'
    t += '(** doc.md: documented meanings *)\n'
    t += 'Definition doc_meanings : list (string * string) :=\n  ' + coq_list(
        [f'({coq_string(a)}, {coq_string(b)})' for a, b in meanings]) + '.\n'
    write_if_changed('ParserTables.v', t)
    rules = lexer_rule_order(tree)
    r = '(* GENERATED from dd/_parser.py by translator/gen_parser.py -- do not edit *)\n'
    r += 'From DD Require Import LexRules.\nLocal Open Scope string_scope.\n\n'
    r += '(** the rules of the character-level lexer in the order of PLY\'s master regular\n'
    r += '    expression (first match wins): [RLit type is_function_rule alternatives] *)\n'
    r += 'Definition lex_rules : list lrule :=\n  ' + coq_list(rules) + '.\n'
    return write_if_changed('LexerRules.v', r)


if __name__ == '__main__':
    main()
