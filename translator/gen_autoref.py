"""dd/autoref.py: the shape of every wrapper method of `autoref.BDD` that the
model covers: which parameters are checked for membership (`if x not in self:
raise ValueError(x)`), which `dd.bdd.BDD` method is called on `self._bdd`, and
whether the integer result is wrapped (`return self._wrap(r)`) or a plain
value is returned; and the life cycle of `Function` (`__init__` checks
membership and increments, `__del__` decrements once and clears `node`).
Fail-closed: any statement that is not one of the recognised shapes raises."""
import ast

from common import (TranslationError, need, coq_string, coq_list, write_if_changed, parse, find_class, find_func, strip_doc)

# methods with the regular shape "check*, r = self._bdd.<m>(...), return [self._wrap](r)"
REGULAR = ['var', 'quantify', 'ite', 'find_or_add', 'count', 'support', 'pick_iter',
           'add_expr', 'to_expr', 'cube', '_add_int', 'copy', 'incref', 'decref',
           'collect_garbage', 'true', 'false', 'apply', 'let']


def is_check(n):
    """`if X not in self: raise ValueError(X)` -> 'X'"""
    if not (isinstance(n, ast.If) and not n.orelse and len(n.body) == 1):
        return None
    t = n.test
    if not (isinstance(t, ast.Compare) and len(t.ops) == 1 and isinstance(t.ops[0], ast.NotIn)
            and isinstance(t.left, ast.Name) and isinstance(t.comparators[0], ast.Name)
            and t.comparators[0].id == 'self'):
        return None
    r = n.body[0]
    if not (isinstance(r, ast.Raise) and isinstance(r.exc, ast.Call) and isinstance(r.exc.func, ast.Name)
            and r.exc.func.id == 'ValueError'):
        return None
    return t.left.id


def is_opt_check(n):
    """`if X is not None and X not in self: raise ValueError(X)` -> 'X'"""
    if not (isinstance(n, ast.If) and not n.orelse and len(n.body) == 1 and isinstance(n.test, ast.BoolOp)
            and isinstance(n.test.op, ast.And) and len(n.test.values) == 2):
        return None
    a, b = n.test.values
    if not (isinstance(a, ast.Compare) and isinstance(a.ops[0], ast.IsNot) and isinstance(a.left, ast.Name)
            and isinstance(a.comparators[0], ast.Constant) and a.comparators[0].value is None):
        return None
    fake = ast.If(test=b, body=n.body, orelse=[])
    x = is_check(fake)
    return x if x == a.left.id else None


def inner_call(v):
    """`self._bdd.<m>(...)` or `self._bdd.<attr>` -> m"""
    if isinstance(v, ast.Call):
        v = v.func
    if (isinstance(v, ast.Attribute) and isinstance(v.value, ast.Attribute) and isinstance(v.value.value, ast.Name)
            and v.value.value.id == 'self' and v.value.attr == '_bdd'):
        return v.attr
    return None


def is_wrap_return(n, var, holder='self'):
    return (isinstance(n, ast.Return) and isinstance(n.value, ast.Call) and isinstance(n.value.func, ast.Attribute)
            and n.value.func.attr == '_wrap' and isinstance(n.value.func.value, ast.Name)
            and n.value.func.value.id == holder and len(n.value.args) == 1
            and isinstance(n.value.args[0], ast.Name) and n.value.args[0].id == var)


def shape(f):
    body = strip_doc(list(f.body))
    checks, inner, wraps = [], None, False
    i = 0
    while i < len(body):
        n = body[i]
        c = is_check(n)
        oc = is_opt_check(n)
        if c is not None:
            need(inner is None, f'{f.name}: membership check after the call')
            checks.append(c)
        elif oc is not None:
            need(inner is None, f'{f.name}: membership check after the call')
            checks.append('?' + oc)
        elif isinstance(n, ast.Assign) and len(n.targets) == 1 and isinstance(n.targets[0], ast.Name) \
                and inner_call(n.value) is not None:
            need(inner is None, f'{f.name}: two calls of the wrapped manager')
            inner = inner_call(n.value)
            var = n.targets[0].id
            need(i + 1 < len(body), f'{f.name}: result of the wrapped call not returned')
            nxt = body[i + 1]
            if is_wrap_return(nxt, var) or (f.name == 'copy' and is_wrap_return(nxt, var, 'other')):
                wraps = True
                need(i + 2 == len(body), f'{f.name}: statements after the wrapped return')
                i += 1
            else:
                raise TranslationError(f'{f.name}: the integer result `{var}` is not returned through _wrap')
        elif isinstance(n, ast.Return) and n.value is not None and inner_call(n.value) is not None:
            need(inner is None, f'{f.name}: two calls of the wrapped manager')
            inner = inner_call(n.value)
            need(i + 1 == len(body), f'{f.name}: statements after return')
        elif isinstance(n, ast.Expr) and inner_call(n.value) is not None:
            need(inner is None, f'{f.name}: two calls of the wrapped manager')
            inner = inner_call(n.value)
        elif f.name == 'find_or_add' and isinstance(n, ast.Assign) and ast.unparse(n) == 'level = self.level_of_var(var)':
            pass
        elif f.name == 'copy' and isinstance(n, ast.If) and ast.unparse(n.test) == 'self is other':
            pass    # a warning only
        elif f.name == 'apply' and isinstance(n, ast.If) and ast.unparse(n.test) == 'v is None and w is not None':
            checks.append('!w-without-v')
        elif f.name == 'apply' and isinstance(n, ast.If) and ast.unparse(n.test) == 'v is None':
            # r = self._bdd.apply(op, u.node) / elif w is None / else: three call forms, then wrapped
            calls = [x for x in ast.walk(n) if isinstance(x, ast.Call) and inner_call(x) == 'apply']
            need(len(calls) == 3, 'apply: expected three call forms')
            inner = 'apply'
            need(i + 1 < len(body) and is_wrap_return(body[i + 1], 'r'), 'apply: result not wrapped')
            wraps = True
            i += 1
        elif f.name == 'let':
            # dispatch on the type of the first value; every branch ends in self._bdd.let + _wrap
            rest = body[i:]
            src = '\n'.join(ast.unparse(x) for x in rest)
            need('self._bdd.let(' in src and src.rstrip().endswith('return self._wrap(r)'), 'let: unexpected tail')
            need(src.count('self._bdd.') == 1, 'let: more than one call of the wrapped manager')
            inner, wraps = 'let', True
            break
        else:
            raise TranslationError(f'{f.name}: unrecognised statement: {ast.unparse(n)[:80]}')
        i += 1
    need(inner is not None, f'{f.name}: no call of the wrapped manager')
    return checks, inner, wraps


def main():
    tree = parse('dd/autoref.py')
    cls = find_class(tree, 'BDD')
    rows = []
    for name in REGULAR:
        f = find_func(cls.body, name)
        checks, inner, wraps = shape(f)
        rows.append((name, checks, inner, wraps))
    # Function life cycle
    fn = find_class(tree, 'Function')
    init = [ast.unparse(n) for n in strip_doc(list(find_func(fn.body, '__init__').body))]
    need(init == ['if node not in bdd._bdd:\n    raise ValueError(node)', 'self.bdd = bdd', 'self.manager = bdd._bdd',
                  'self.node = node', 'self.manager.incref(node)'], f'Function.__init__ changed: {init}')
    dele = [ast.unparse(n) for n in strip_doc(list(find_func(fn.body, '__del__').body))]
    need(dele == ['if self.node is None:\n    return', 'node = self.node', 'self.node = None', 'self.manager.decref(node)'],
         f'Function.__del__ changed: {dele}')
    for prop, attr in (('low', 'v'), ('high', 'w')):
        src = [ast.unparse(n) for n in strip_doc(list(find_func(fn.body, prop).body))]
        need(src[-1] == f'return Function({attr}, self.bdd)', f'Function.{prop} does not build a Function')
    ap = [ast.unparse(n) for n in strip_doc(list(find_func(fn.body, '_apply').body))]
    need(ap[-1] == 'return Function(u, self.bdd)', 'Function._apply does not build a Function')
    wrap = [ast.unparse(n) for n in strip_doc(list(find_func(cls.body, '_wrap').body))]
    need(wrap == ['if u not in self._bdd:\n    raise ValueError(u)', 'return Function(u, self)'], f'_wrap changed: {wrap}')
    text = ['(* GENERATED by translator/gen_autoref.py from dd/autoref.py - do not edit *)',
            'From Coq Require Import List String Bool.', 'Import ListNotations.', 'Local Open Scope string_scope.', '',
            '(* method, parameters checked for membership ("?x": only when given), wrapped-manager method, result wrapped *)',
            'Definition py_autoref_table : list (string * (list string * string * bool)) :=',
            '  ' + coq_list(['(%s, (%s, %s, %s))' % (coq_string(n), coq_list([coq_string(c) for c in cs]),
                                                    coq_string(i), 'true' if w else 'false')
                             for n, cs, i, w in rows]) + '.',
            'Definition py_function_lifecycle_ok : bool := true.']
    write_if_changed('PyAutoref.v', '\n'.join(text) + '\n')


if __name__ == '__main__':
    main()
