"""Text scanner for Cython (.pyx/.pxd) sources, shared by gen_capply and
gen_cref.  The files are not valid Python, so nothing here uses `ast`:

  logical_lines   strings / comments / brackets aware joining of physical
                  lines into statements (comments dropped, strings kept)
  block_tree      statements nested by indentation
  functions       every `def` / `cpdef` / `cdef` function with its qualified
                  name, kind, parameter names and body
  split_args, call_args   bracket-aware splitting of argument lists

Everything is fail-closed: shapes that are not understood raise
TranslationError."""
import re
from common import TranslationError, need

OPEN = '([{'
CLOSE = ')]}'
_PREFIX = re.compile(r'(?i)(?:[rbuf]|rb|br|fr|rf)?$')


class Stmt:
    """One statement: header text (joined, comment-free), line, children."""
    __slots__ = ('line', 'indent', 'text', 'body')

    def __init__(self, line, indent, text):
        self.line = line
        self.indent = indent
        self.text = text
        self.body = []

    def __repr__(self):
        return f'<{self.line}: {self.text[:50]!r} +{len(self.body)}>'


def logical_lines(src):
    """[(line number of first physical line, indent, text)]; the text has
    comments removed, inner newlines replaced by one blank, runs of blanks
    outside strings squeezed."""
    out = []
    i, n = 0, len(src)
    line = 1
    cur = []            # pieces of the current logical line
    start_line = None
    indent = None
    depth = 0
    at_line_start = True
    col = 0
    while i < n:
        c = src[i]
        if at_line_start and depth == 0 and not cur:
            # measure indentation
            j = i
            while j < n and src[j] in ' \t':
                need(src[j] == ' ', f'line {line}: tab in indentation')
                j += 1
            if j < n and src[j] in '\r\n#':
                # blank or comment-only line
                while j < n and src[j] != '\n':
                    j += 1
                i = j + 1
                line += 1
                continue
            if j >= n:
                break
            indent = j - i
            start_line = line
            i = j
            at_line_start = False
            continue
        at_line_start = False
        if c == '#':
            while i < n and src[i] != '\n':
                i += 1
            continue
        if c in '"\'':
            q = c
            triple = src.startswith(q * 3, i)
            # raw prefix ?
            k = len(cur)
            pre = ''
            tail = ''.join(cur)[-3:]
            m = re.search(r'(?<![A-Za-z0-9_])([A-Za-z]{1,2})$', tail)
            if m and _PREFIX.match(m.group(1)):
                pre = m.group(1).lower()
            raw = 'r' in pre
            j = i + (3 if triple else 1)
            endq = q * 3 if triple else q
            while True:
                need(j < n, f'line {line}: unterminated string')
                if src[j] == '\\' and not raw:
                    j += 2
                    continue
                if src[j] == '\\' and raw:
                    # a raw string still cannot end with an odd backslash
                    j += 2
                    continue
                if src.startswith(endq, j):
                    j += len(endq)
                    break
                need(triple or src[j] != '\n', f'line {line}: newline in string')
                j += 1
            s = src[i:j]
            line += s.count('\n')
            cur.append(s)
            i = j
            continue
        if c == '\\' and i + 1 < n and src[i + 1] == '\n':
            cur.append(' ')
            i += 2
            line += 1
            continue
        if c == '\n':
            line += 1
            i += 1
            if depth > 0:
                cur.append(' ')
                continue
            text = _squeeze(''.join(cur))
            if text:
                out.append((start_line, indent, text))
            cur = []
            at_line_start = True
            continue
        if c in OPEN:
            depth += 1
        elif c in CLOSE:
            depth -= 1
            need(depth >= 0, f'line {line}: unbalanced bracket')
        cur.append(c)
        i += 1
    need(depth == 0, 'unbalanced bracket at end of file')
    text = _squeeze(''.join(cur))
    if text:
        out.append((start_line, indent, text))
    return out


_STR = re.compile(
    r'''(?is)(?:[rbuf]|rb|br|fr|rf)?(?:\'\'\'.*?\'\'\'|""".*?"""|'(?:\\.|[^'\\\n])*'|"(?:\\.|[^"\\\n])*")''')


def _squeeze(t):
    """squeeze blanks outside string literals; blanks next to brackets go"""
    parts = []
    pos = 0
    for m in _STR.finditer(t):
        parts.append(re.sub(r'\s+', ' ', t[pos:m.start()]))
        parts.append(m.group(0))
        pos = m.end()
    parts.append(re.sub(r'\s+', ' ', t[pos:]))
    t = ''.join(parts).strip()
    t = re.sub(r'([(\[{]) ', r'\1', t)
    t = re.sub(r' ([)\]}])', r'\1', t)
    return t


def blank_strings(t):
    """the text with every string literal replaced by '' (same quoting
    removed) so that regexes do not look inside strings"""
    return _STR.sub("''", t)


def block_tree(lines):
    root = Stmt(0, -1, '<module>')
    stack = [root]
    for (ln, ind, text) in lines:
        while stack[-1].indent >= ind:
            stack.pop()
        parent = stack[-1]
        if parent.body:
            need(parent.body[0].indent == ind,
                 f'line {ln}: inconsistent indentation')
        else:
            need(parent is root or blank_strings(parent.text).endswith(':'),
                 f'line {ln}: indented block after a line that is not a block header: {parent.text!r}')
        s = Stmt(ln, ind, text)
        parent.body.append(s)
        stack.append(s)
    return root


def parse_file(path):
    src = open(path).read()
    return block_tree(logical_lines(src))


# ---------------------------------------------------------------------------
def split_args(s):
    """split on top-level commas"""
    out, depth, cur = [], 0, []
    i = 0
    t = s
    # protect strings
    spans = [(m.start(), m.end()) for m in _STR.finditer(t)]
    k = 0
    while i < len(t):
        if k < len(spans) and i == spans[k][0]:
            cur.append(t[spans[k][0]:spans[k][1]])
            i = spans[k][1]
            k += 1
            continue
        c = t[i]
        if c in OPEN:
            depth += 1
        elif c in CLOSE:
            depth -= 1
        if c == ',' and depth == 0:
            out.append(''.join(cur).strip())
            cur = []
        else:
            cur.append(c)
        i += 1
    last = ''.join(cur).strip()
    if last or out:
        out.append(last)
    if out and out[-1] == '':
        out.pop()        # trailing comma
    return out


def matching_paren(t, i):
    """index of the bracket closing the one opened at t[i]"""
    need(t[i] in OPEN, 'matching_paren')
    depth = 0
    spans = [(m.start(), m.end()) for m in _STR.finditer(t)]
    j = i
    while j < len(t):
        sp = next((b for (a, b) in spans if a == j), None)
        if sp is not None:
            j = sp
            continue
        if t[j] in OPEN:
            depth += 1
        elif t[j] in CLOSE:
            depth -= 1
            if depth == 0:
                return j
        j += 1
    raise TranslationError(f'unbalanced: {t!r}')


def parse_call(t):
    """`name(args)` covering the whole text -> (name, [args]) or None"""
    m = re.match(r'([A-Za-z_][\w\.]*)\(', t)
    if not m:
        return None
    j = matching_paren(t, m.end() - 1)
    if j != len(t) - 1:
        return None
    return m.group(1), split_args(t[m.end():j])


_FUNC = re.compile(
    r'^(?P<kw>def|cpdef|cdef)\s+(?P<rtype>(?:[\w\.\[\]]+\s+\*{0,2}\s*|[\w\.\[\]]+\s*\*{1,2}\s*)*?)'
    r'(?P<name>\w+)\s*\(')


class Func:
    __slots__ = ('qual', 'name', 'kw', 'rtype', 'params', 'body', 'line',
                 'cls', 'decorators', 'suffix')

    def __repr__(self):
        return f'<Func {self.kw} {self.qual} @{self.line}>'


def _param_name(p):
    p = p.strip()
    if p in ('*', '/'):
        return None
    p0 = blank_strings(p)
    p0 = p0.split('=')[0].strip() if ':' not in p0 else p0.split(':')[0].strip()
    ids = re.findall(r'[A-Za-z_]\w*', p0)
    need(ids, f'parameter without a name: {p!r}')
    return ids[-1]


def func_of(stmt, cls, decorators):
    t = stmt.text
    bt = blank_strings(t)
    if not bt.endswith(':'):
        return None
    m = _FUNC.match(bt)
    if not m:
        return None
    if re.match(r'^cdef\s+(class|extern)\b', bt) or re.match(r'^(cdef|cpdef)\s+enum\b', bt):
        return None
    j = matching_paren(t, m.end() - 1)
    f = Func()
    f.kw = m.group('kw')
    f.rtype = m.group('rtype').strip()
    f.name = m.group('name')
    f.params = [x for x in (_param_name(p) for p in split_args(t[m.end():j])) if x]
    f.suffix = bt[j + 1:-1].strip()
    f.body = stmt.body
    f.line = stmt.line
    f.cls = cls
    f.decorators = list(decorators)
    f.qual = (cls + '.' if cls else '') + f.name
    return f


def functions(root):
    """every function of the module and of its classes (one level of
    `property x:` nesting allowed)"""
    out = []

    def walk(body, cls):
        decos = []
        for s in body:
            bt = blank_strings(s.text)
            if bt.startswith('@'):
                decos.append(bt)
                continue
            m = re.match(r'^(?:cdef\s+)?class\s+(\w+)', bt)
            if m:
                need(cls is None, f'line {s.line}: nested class')
                walk(s.body, m.group(1))
                decos = []
                continue
            m = re.match(r'^property\s+(\w+)\s*:$', bt)
            if m:
                need(cls is not None, f'line {s.line}: property outside class')
                walk(s.body, cls + '.' + m.group(1))
                decos = []
                continue
            f = func_of(s, cls, decos)
            if f is not None:
                out.append(f)
                # nested functions (closures) are functions of their own;
                # consumers skip nested definitions with [is_funcdef]
                for x in iter_stmts(f.body):
                    g = func_of(x, cls, [])
                    if g is not None:
                        g.qual = f.qual + '.<locals>.' + g.name
                        out.append(g)
            else:
                need(not re.match(r'^(def|cpdef)\s', bt),
                     f'line {s.line}: unrecognised function header {s.text!r}')
                if re.match(r'^cdef\s', bt) and s.body and not re.match(
                        r'^cdef\s+(extern|struct|union|enum)\b|^cdef\s*:$', bt) \
                        and not re.match(r'^ctypedef\b', bt):
                    raise TranslationError(
                        f'line {s.line}: unrecognised cdef block {s.text!r}')
            decos = []

    walk(root.body, None)
    return out


def is_funcdef(stmt):
    return func_of(stmt, None, []) is not None


def iter_stmts(body):
    for s in body:
        yield s
        yield from iter_stmts(s.body)


def strip_docstring(body):
    if body and re.match(r'^(?i:[rbuf]|rb|br)?(\'\'\'|"""|\'|")', body[0].text) \
            and _STR.fullmatch(body[0].text):
        return body[1:]
    return body


def string_literal_value(tok):
    """value of a simple (non-f, non-b) string literal token"""
    m = re.fullmatch(r'(?is)([rbuf]|rb|br|fr|rf)?(\'\'\'|"""|\'|")(.*)\2', tok)
    need(m is not None, f'not a string literal: {tok!r}')
    pre = (m.group(1) or '').lower()
    need('f' not in pre and 'b' not in pre, f'unsupported literal prefix: {tok!r}')
    body = m.group(3)
    if 'r' in pre:
        return body
    # cooked: support the escapes that can occur in operator names
    out = []
    i = 0
    while i < len(body):
        c = body[i]
        if c == '\\':
            need(i + 1 < len(body), f'dangling backslash: {tok!r}')
            d = body[i + 1]
            need(d in '\\\'"', f'unsupported escape \\{d} in {tok!r}')
            out.append(d)
            i += 2
        else:
            out.append(c)
            i += 1
    return ''.join(out)


def extern_decls(root):
    """C declarations inside `cdef extern from ...:` blocks:
    name -> (return type, [parameter texts])"""
    out = {}
    for s in root.body:
        if not re.match(r'^cdef\s+extern\s+from\b', blank_strings(s.text)):
            continue
        for d in s.body:
            t = blank_strings(d.text)
            m = re.match(r'^(?P<rt>[\w\.]+(?:\s+[\w\.]+)*?\s*\*{0,2})\s*(?P<name>\w+)\s*\((?P<args>.*)\)$', t)
            if not m:
                continue
            out[m.group('name')] = (re.sub(r'\s+', ' ', m.group('rt')).strip(),
                                    split_args(m.group('args')))
    return out
