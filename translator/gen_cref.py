"""dd/cudd.pyx, dd/cudd_zdd.pyx, dd/sylvan.pyx, dd/buddy.pyx: reference-event
skeletons  ->  Generated/CRef.v (+ cref.json)

Per wrapper:

  handle_<lib>    `wrap`, `Function.init` / `Function.__cinit__`,
                  `Function.__dealloc__` (and `_test_call_dealloc`, which the
                  source says duplicates it) as paths of events
  methods_<lib>   every function (def, cpdef and cdef, methods and module
                  level) whose body calls a library Ref/Deref-family function
                  (or one of the manager's `_incref/_decref` forwarders, or a
                  wrapper function that stores referenced nodes into an
                  argument): one list of events per path through the body
  returns_<lib>   for every function that mentions a node-returning library
                  call or the `Function` constructor: how each `return`
                  hands its value out (wrapped / bare node / other)

What is abstracted (deliberately, and stated in the evidence):
  * branches: both sides of every `if` that contains an event; two tests are
    correlated only when they are the same text (or `X is NULL` / `X is not
    NULL`, `==` / `!=`, `not`) and nothing in the test was assigned, and no
    call happened for tests on attributes, in between;
  * loops: `ELoop [paths of the body]`, "zero or more repetitions";
  * containers: `c[i] = x` after a Ref of x moves that reference into `c`;
    a Deref of `c[i]`, of a loop variable ranging over `c`, or of a field of
    a variable read from `c[..]` is a Deref "of an element of c";
  * try/finally: the finally block is appended to every way out of the body;
    try/except: a handler may start after any prefix of the body's events;
    exceptions raised implicitly by calls are not enumerated (such paths end
    in `raise`, which the property excludes);
  * values: which node a variable holds is by NAME (no aliasing analysis
    except `self = u` at the head of `_test_call_dealloc`).

Fail-closed: a Ref/Deref-family name used in any shape other than a
statement `NAME([mgr,] <access path>)`, an unknown name that looks like a
reference function, `yield`/`else` on loops/`try-else` inside a scanned
function, assignments to `.node` outside the handle, ... raise
TranslationError."""
import json
import os
import re

from common import (TranslationError, need, coq_string, coq_list,
                    write_if_changed, REPO, OUT)
import pyxscan as P

LIBS = {
    'cudd': dict(file='dd/cudd.pyx', ctor='wrap', decls=['dd/cudd.pyx'],
                 manager='BDD', init='init', dealloc_copy='_test_call_dealloc'),
    'cudd_zdd': dict(file='dd/cudd_zdd.pyx', ctor='wrap', decls=['dd/cudd_zdd.pyx'],
                     manager='ZDD', init='init', dealloc_copy='_test_call_dealloc'),
    'sylvan': dict(file='dd/sylvan.pyx', ctor='wrap', decls=['dd/sylvan.pyx', 'dd/c_sylvan.pxd'],
                   manager='BDD', init='init', dealloc_copy=None),
    'buddy': dict(file='dd/buddy.pyx', ctor='Function', decls=['dd/buddy.pyx', 'dd/buddy_.pxd'],
                  manager='BDD', init='__cinit__', dealloc_copy=None),
}

# the reference functions of the libraries (cudd.h, cuddInt.h, sylvan.h, bdd.h)
REF = {'Cudd_Ref', 'cuddRef', 'sylvan_ref', 'bdd_addref'}
DEREF = {'Cudd_RecursiveDeref', 'Cudd_RecursiveDerefZdd', 'Cudd_Deref',
         'cuddDeref', 'sylvan_deref', 'bdd_delref'}
FORWARD_REF = {'_incref'}
FORWARD_DEREF = {'_decref'}
# library calls documented to return an already referenced node
OWNED = {'Dddmp_cuddBddLoad'}
# names that contain "ref" but do not change a reference count
NOT_REF = {'Cudd_CheckZeroRef', '_add_nodes_for_external_references',
           '_ddref_to_int', '_int_to_ddref', '_test_decref', '_test_incref',
           '_raise_runtimerror_about_ref_count', 'sylvan_count_refs'}
API = {'incref': True, '_incref': True, 'decref': False, '_decref': False}
NODE_TYPES = {'DdNode *', 'DdRef', 'BDD', 'sy.BDD'}

PATH_RE = r'[A-Za-z_]\w*(?:\.\w+|\[[^\[\]]*\])*'
REFLIKE = re.compile(r'(?<![\w\.])((?:\w+\.)*)(\w*(?:[Rr]ef|REF)\w*)\s*\(')


def strip_casts(e):
    e = e.strip()
    while True:
        m = re.match(r'<[^<>]*>\s*', e)
        if not m:
            return e
        e = e[m.end():]


def root_of(path):
    return re.match(r'[A-Za-z_]\w*', path).group(0)


# ---------------------------------------------------------------------------
# conditions
# ---------------------------------------------------------------------------
def parse_cond(c):
    c = c.strip()
    while c.startswith('(') and P.matching_paren(c, 0) == len(c) - 1:
        c = c[1:-1].strip()
    bc = P.blank_strings(c)
    if re.search(r'\b(and|or)\b', bc):
        return c, True
    m = re.fullmatch(r'not (.+)', c)
    if m:
        a, v = parse_cond(m.group(1))
        return a, not v
    m = re.fullmatch(r'(.+) is not (NULL|None)', c)
    if m:
        return f'{m.group(1)} is {m.group(2)}', False
    m = re.fullmatch(r'(.+) != (.+)', c)
    if m:
        return f'{m.group(1)} == {m.group(2)}', False
    return c, True


def assigned_vars(text):
    """names (roots of targets) a simple statement or a loop header assigns"""
    bt = P.blank_strings(text)
    out = set(re.findall(r'&\s*([A-Za-z_]\w*)', bt))
    m = re.match(r'for (.+?) in ', bt)
    if m:
        out.update(re.findall(r'[A-Za-z_]\w*', m.group(1)))
        return out
    m = re.match(r'(?:cdef\s+[\w\.\s\*]+?\b)?((?:[\w\.\[\]\*, ()]|\s)+?)\s*(?:\:\s*[\w\.\[\], \*|]+?)?\s*'
                 r'(?:=|\+=|-=|\*=|/=|\|=|&=|\^=|//=|%=)(?!=)', bt)
    if m and not re.match(r'(return|raise|assert|if|elif|while|yield|del|print)\b', bt):
        # chained / tuple targets
        lhs = bt[:m.end()]
        for tgt in re.split(r'=', lhs):
            for piece in tgt.split(','):
                ids = re.findall(r'[A-Za-z_]\w*', piece)
                if ids:
                    # declared type words come first in `cdef T x = ...`
                    out.add(ids[0] if not piece.strip().startswith('cdef') else ids[-1])
    m = re.match(r'del (.+)', bt)
    if m:
        out.update(re.findall(r'[A-Za-z_]\w*', m.group(1)))
    return out


def invalidate(facts, text):
    bt = P.blank_strings(text)
    av = assigned_vars(text)
    has_call = '(' in bt
    keep = {}
    for a, v in facts.items():
        words = set(re.findall(r'[A-Za-z_]\w*', a))
        if words & av:
            continue
        if ('.' in a or '[' in a) and (has_call or av):
            continue
        keep[a] = v
    return keep


# ---------------------------------------------------------------------------
# per-function scanner
# ---------------------------------------------------------------------------
class Scan:
    def __init__(self, lib, fn, env, handle=False):
        self.lib = lib
        self.cfg = LIBS[lib]
        self.fn = fn
        self.env = env            # LibEnv
        self.handle = handle
        self.stmts = [s for s in self._own_stmts(fn.body)]
        self.assigns = {}
        self.elem_of = {}
        self.refd = set()
        self._prepass()

    def _own_stmts(self, body):
        for s in body:
            yield s
            if not P.is_funcdef(s):
                yield from self._own_stmts(s.body)

    def err(self, s, msg):
        raise TranslationError(f'{self.cfg["file"]}:{s.line}: {self.fn.qual}: {msg}: {s.text!r}')

    # -- prepass -----------------------------------------------------------
    def _prepass(self):
        for s in self.stmts:
            t = s.text.rstrip(';').strip()
            bt = P.blank_strings(t)
            m = re.fullmatch(r'(?:cdef\s+[\w\.\s\*]+?\b)?([A-Za-z_]\w*)\s*(?::\s*[\w\.\[\], \*|]+?)?\s*=\s*(.+)', t)
            if m and not re.match(r'(return|raise|assert)\b', bt) and not bt.endswith(':'):
                self.assigns.setdefault(m.group(1), []).append((m.group(2).strip(), s.line))
            m = re.fullmatch(r'for ([A-Za-z_]\w*) in (.+):', t)
            if m:
                e = m.group(2).strip()
                if not re.match(r'(range|enumerate|zip|sorted|list|reversed)\(', e) \
                        and re.fullmatch(PATH_RE + r'(?:\.(?:values|items|keys)\(\))?', e):
                    self.elem_of[m.group(1)] = root_of(e)
            r = self.ref_call(s)
            if r is not None and r[0] == 'ref':
                self.refd.add(r[1])
        # variables read out of containers
        changed = True
        while changed:
            changed = False
            for v, rhss in self.assigns.items():
                for rhs, _ in rhss:
                    e = strip_casts(rhs)
                    if not re.fullmatch(PATH_RE, e):
                        continue
                    src = None
                    if '[' in e:
                        src = root_of(e)
                    elif root_of(e) in self.elem_of and root_of(e) != v:
                        src = self.elem_of[root_of(e)]
                    elif root_of(e) == v:
                        continue
                    if src is not None and self.elem_of.get(v) != src and v not in self.elem_of:
                        self.elem_of[v] = src
                        changed = True

    # -- reference calls ---------------------------------------------------
    def ref_call(self, s):
        """('ref'|'deref', access path) when the statement is a reference
        call; None when it mentions none; error otherwise"""
        t = s.text.rstrip(';').strip()
        bt = P.blank_strings(t)
        hits = []
        for m in REFLIKE.finditer(bt):
            name = m.group(2)
            if name in NOT_REF:
                continue
            if name in REF | DEREF | FORWARD_REF | FORWARD_DEREF:
                hits.append((m.start(), m.group(1), name))
                continue
            if name in ('incref', 'decref'):
                self.err(s, 'call of the public incref/decref inside the wrapper is not modelled')
            self.err(s, f'unknown reference-like function {name}')
        if not hits:
            return None
        if len(hits) != 1 or hits[0][0] != 0:
            self.err(s, 'reference call that is not a statement of its own')
        _, prefix, name = hits[0]
        call = P.parse_call(t)
        if call is None:
            self.err(s, 'reference call that is not a statement of its own')
        args = call[1]
        if name in FORWARD_REF | FORWARD_DEREF:
            need(prefix != '', f'line {s.line}: forwarder without receiver')
            arg = args[0] if args else None
            if name in FORWARD_REF:
                need(len(args) == 1, f'line {s.line}: _incref arguments')
            else:
                need(1 <= len(args) <= 2, f'line {s.line}: _decref arguments')
        else:
            lib_prefix = {'sylvan': 'sy.', 'buddy': 'buddy.'}.get(self.lib, '')
            if prefix != lib_prefix:
                self.err(s, f'library prefix {prefix!r}')
            sig = self.env.sig.get(name)
            if sig is None:
                self.err(s, f'{name} is not declared')
            if len(sig) != len(args):
                self.err(s, f'{name} declared with {len(sig)} parameters')
            arg = args[-1]
            if len(args) == 2:
                if sig[0] != '<manager>':
                    self.err(s, 'two-argument reference call whose first parameter is not the manager')
            elif len(args) != 1:
                self.err(s, 'reference call arity')
        e = strip_casts(arg)
        if not re.fullmatch(PATH_RE, e):
            self.err(s, f'argument {arg!r} is not an access path')
        kind = 'ref' if name in REF | FORWARD_REF else 'deref'
        # Cudd_Deref / cuddDeref only decrement: the node is not reclaimed (CUDD's idiom
        # for handing a result back with a zero count); the others may free the node
        self.light = name in ('Cudd_Deref', 'cuddDeref')
        return kind, e

    # -- constructor calls ---------------------------------------------------
    def ctor_calls(self, s, t):
        """node expressions x of every `wrap(.., x)` / `Function(x)`"""
        bt = P.blank_strings(t)
        out = []
        ctor = self.cfg['ctor']
        for m in re.finditer(r'(?<![\w\.])%s\(' % ctor, bt):
            j = P.matching_paren(t, m.end() - 1)
            args = P.split_args(t[m.end():j])
            if ctor == 'wrap':
                if len(args) != 2:
                    self.err(s, 'wrap arity')
                out.append(strip_casts(args[1]))
            else:
                if len(args) != 1:
                    self.err(s, 'Function(...) arity')
                out.append(strip_casts(args[0]))
        if ctor == 'wrap' and re.search(r'(?<![\w\.])Function\(', bt):
            self.err(s, 'Function created outside `wrap`')
        return out

    def whole_ctor(self, e):
        """x when expression e is exactly one constructor call"""
        call = P.parse_call(e)
        if call is None or call[0] != self.cfg['ctor']:
            return None
        args = call[1]
        return strip_casts(args[-1]) if args else None

    def node_call(self, e):
        """does expression e (strings blanked) contain a node-returning call
        outside a constructor call?"""
        bt = P.blank_strings(e)
        # cut constructor calls out
        ctor = self.cfg['ctor']
        while True:
            m = re.search(r'(?<![\w\.])%s\(' % ctor, bt)
            if not m:
                break
            j = P.matching_paren(bt, m.end() - 1)
            bt = bt[:m.start()] + 'CTOR' + bt[j + 1:]
        for m in re.finditer(r'(?<![\w])((?:sy\.|buddy\.)?)(\w+)\(', bt):
            if m.group(2) in self.env.node_returning and (
                    m.start() == 0 or bt[m.start() - 1] != '.'):
                return m.group(2)
        return None

    def classify_return(self, s, e):
        if e is None or e == '' or e in ('None', 'NULL', 'True', 'False'):
            return ('ret_other',)
        x = self.whole_ctor(e)
        if x is not None:
            return ('ret_wrapped', x)
        if re.fullmatch(r'[A-Za-z_]\w*', e):
            rhss = [r for r, _ in self.assigns.get(e, [])]
            xs = [self.whole_ctor(r) for r in rhss]
            if rhss and all(v is not None for v in xs):
                return ('ret_wrapped', xs[-1])
            if any(self.node_call(r) for r in rhss) or any(
                    re.match(r'<\s*(DdRef|DdNode\s*\*|sy\.BDD)\s*>', r) for r in rhss):
                return ('ret_node', e)
            if self.fn.kw == 'cdef' and self.fn.rtype in NODE_TYPES:
                return ('ret_node', e)
            return ('ret_other',)
        if self.node_call(e):
            return ('ret_node', e)
        if re.fullmatch(PATH_RE, strip_casts(e)) and strip_casts(e).endswith('.node'):
            return ('ret_node', e)
        if self.fn.kw == 'cdef' and self.fn.rtype in NODE_TYPES:
            return ('ret_node', e)
        return ('ret_other',)

    # -- simple statements ---------------------------------------------------
    def simple(self, s):
        """(events, control)"""
        t = s.text.rstrip(';').strip()
        bt = P.blank_strings(t)
        if re.match(r'yield\b', bt) or re.search(r'[=(]\s*yield\b', bt):
            self.err(s, 'generator')
        if re.match(r'(if|elif|else|for|while|try|except|finally|with)\b.*:.+', bt) and not bt.endswith(':'):
            self.err(s, 'compound statement on one line')
        m = re.fullmatch(r'return(?: (.+))?', t)
        if m:
            e = m.group(1)
            if self.ref_call_inside(s, e or ''):
                self.err(s, 'reference call inside return')
            ev = tuple(('wrap', x) for x in self.ctor_calls(s, e or ''))
            return ev, ('return', self.classify_return(s, e))
        if re.match(r'raise\b', bt):
            return (), ('raise',)
        if bt in ('break', 'continue'):
            return (), (bt,)
        if bt == 'pass':
            return (), None
        r = self.ref_call(s)
        if r is not None:
            kind, e = r
            if kind == 'deref':
                if '[' in e:
                    return (('derefelem', root_of(e)),), None
                if root_of(e) in self.elem_of and e not in self.refd:
                    return (('derefelem', self.elem_of[root_of(e)]),), None
                return (('derefl' if getattr(self, 'light', False) else 'deref', e),), None
            if '[' in e:
                self.err(s, 'Ref of a container element')
            return (('ref', e),), None
        ev = []
        # the handle's own fields
        m = re.fullmatch(r'(' + PATH_RE + r')\.node = (.+)', t)
        if m:
            if self.handle and m.group(1) == 'self':
                v = strip_casts(m.group(2))
                if v in ('NULL', '0', '-1'):
                    ev.append(('clearnode',))
                elif re.fullmatch(r'[A-Za-z_]\w*', v):
                    ev.append(('setnode', v))
                else:
                    self.err(s, 'self.node assigned an expression')
            elif self.api() is None:
                self.err(s, 'assignment to a .node field outside the handle')
        # owned results
        m = re.fullmatch(r'([A-Za-z_]\w*) = (\w+)\((.*)\)', t)
        if m and m.group(2) in OWNED:
            ev.append(('owned', m.group(1)))
        for n in OWNED:
            if re.search(r'\b%s\(' % n, bt) and not (m and m.group(2) == n):
                self.err(s, f'{n} result not bound to a variable')
        # stores into containers
        m = re.fullmatch(r'([A-Za-z_]\w*)\[[^\]]*\] = (.+)', t)
        if m:
            x = strip_casts(m.group(2))
            if x in self.refd:
                ev.append(('store', m.group(1), x))
        # constructor calls
        for x in self.ctor_calls(s, t):
            ev.append(('wrap', x))
        # calls of functions that fill an argument
        for (pat, idx, name) in self.env.filler_patterns:
            for mm in re.finditer(pat, bt):
                j = P.matching_paren(t, mm.end() - 1)
                args = P.split_args(t[mm.end():j])
                if idx >= len(args) or not re.fullmatch(r'[A-Za-z_]\w*', args[idx]):
                    self.err(s, f'call of {name} whose filled argument is not a variable')
                ev.append(('fill', args[idx]))
        return tuple(ev), None

    def ref_call_inside(self, s, e):
        for m in REFLIKE.finditer(P.blank_strings(e)):
            if m.group(2) in REF | DEREF | FORWARD_REF | FORWARD_DEREF:
                return True
        return False

    def api(self):
        if self.fn.cls == self.cfg['manager'] and self.fn.name in API:
            return API[self.fn.name]
        return None

    # -- structure -------------------------------------------------------------
    def group(self, stmts):
        """[('simple', s) | ('if', [(cond, body)], else_body, stmts) |
            ('loop', header, body) | ('try', body, handlers, finally) |
            ('with', header, body) | ('def', s)]"""
        out = []
        i = 0
        while i < len(stmts):
            s = stmts[i]
            t = s.text
            bt = P.blank_strings(t)
            if P.is_funcdef(s):
                out.append(('def', s))
                i += 1
                continue
            m = re.fullmatch(r'if (.+):', t)
            if m and bt.endswith(':'):
                branches = [(m.group(1), s.body, s)]
                els = None
                j = i + 1
                while j < len(stmts):
                    m2 = re.fullmatch(r'elif (.+):', stmts[j].text)
                    if m2:
                        branches.append((m2.group(1), stmts[j].body, stmts[j]))
                        j += 1
                        continue
                    if stmts[j].text == 'else:':
                        els = stmts[j].body
                        j += 1
                    break
                out.append(('if', branches, els))
                i = j
                continue
            if re.match(r'(for|while)\b', bt) and bt.endswith(':'):
                if i + 1 < len(stmts) and stmts[i + 1].text == 'else:':
                    self.err(s, 'loop with else')
                out.append(('loop', s, s.body))
                i += 1
                continue
            if t == 'try:':
                handlers, fin = [], None
                j = i + 1
                while j < len(stmts):
                    tj = stmts[j].text
                    if re.match(r'except\b', tj) and tj.endswith(':'):
                        handlers.append(stmts[j])
                    elif tj == 'finally:':
                        fin = stmts[j].body
                    elif tj == 'else:':
                        self.err(stmts[j], 'try with else')
                    else:
                        break
                    j += 1
                if not handlers and fin is None:
                    self.err(s, 'try without handler')
                out.append(('try', s.body, handlers, fin))
                i = j
                continue
            if re.match(r'with\b', bt) and bt.endswith(':'):
                out.append(('with', s, s.body))
                i += 1
                continue
            if bt.endswith(':') and s.body:
                self.err(s, 'unrecognised compound statement')
            if re.match(r'(elif|else|except|finally)\b', bt):
                self.err(s, 'dangling clause')
            out.append(('simple', s))
            i += 1
        return out

    def relevant(self, stmts):
        for s in stmts:
            if P.is_funcdef(s):
                continue
            if s.body:
                if self.relevant(s.body):
                    return True
                continue
            ev, ctl = self.simple(s)
            if ev or ctl:
                return True
        return False

    def invalidate_all(self, facts, stmts):
        for s in stmts:
            if P.is_funcdef(s):
                continue
            facts = invalidate(facts, s.text)
            if s.body:
                facts = self.invalidate_all(facts, s.body)
        return facts

    def enum(self, stmts, facts):
        results = {((), frozenset(facts.items()), None): None}
        for node in self.group(stmts):
            new = {}
            for (ev, fz, status) in results:
                if status is not None:
                    new[(ev, fz, status)] = None
                    continue
                for (ev2, f2, st2) in self.enum_node(node, dict(fz)):
                    new[(ev + ev2, frozenset(f2.items()), st2)] = None
            results = new
            need(len(results) <= 4000, f'{self.fn.qual}: too many paths')
        return [(ev, dict(fz), st) for (ev, fz, st) in results]

    def enum_node(self, node, facts):
        k = node[0]
        if k == 'def':
            return [((), facts, None)]
        if k == 'simple':
            s = node[1]
            ev, ctl = self.simple(s)
            return [(ev, invalidate(facts, s.text), ctl)]
        if k == 'with':
            _, s, body = node
            return self.enum(body, invalidate(facts, s.text))
        if k == 'if':
            _, branches, els = node
            all_stmts = [b for (_, body, _) in branches for b in body] + list(els or [])
            if not self.relevant(all_stmts):
                return [((), self.invalidate_all(facts, all_stmts), None)]
            out = []
            cur = dict(facts)
            done = False
            for (cond, body, s) in branches:
                atom, val = parse_cond(cond)
                known = cur.get(atom)
                if known is None or known == val:
                    f = dict(cur)
                    f[atom] = val
                    pre = ()
                    if self.handle and atom == 'self._ref == 0' and val:
                        pre = (('notlive',),)
                    for (ev, f2, st) in self.enum(body, f):
                        out.append((pre + ev, f2, st))
                if known is not None and known == val:
                    done = True
                    break
                cur[atom] = not val
            if not done:
                out.extend(self.enum(els or [], cur))
            return out
        if k == 'loop':
            _, s, body = node
            after = self.invalidate_all(invalidate(facts, s.text), body)
            if not self.relevant(body):
                return [((), after, None)]
            paths = {}
            for (ev, _, st) in self.enum(body, {}):
                if st is None or st[0] in ('break', 'continue'):
                    paths[ev] = None
                elif st[0] == 'return':
                    paths[ev + (st[1],)] = None
                else:
                    paths[ev + (('raise',),)] = None
            return [((('loop', tuple(paths)),), after, None)]
        if k == 'try':
            _, body, handlers, fin = node
            b_paths = self.enum(body, facts)
            normal = list(b_paths)
            if handlers:
                prefixes = {}
                for (ev, _, _) in b_paths:
                    for n in range(len(ev) + 1):
                        prefixes[ev[:n]] = None
                for pre in prefixes:
                    for h in handlers:
                        for (ev, f2, st) in self.enum(h.body, {}):
                            normal.append((pre + ev, f2, st))
            if fin is None:
                return normal
            out = []
            for (ev, f, st) in normal:
                for (ev2, f2, st2) in self.enum(fin, f if st is None else {}):
                    out.append((ev + ev2, f2, st2 if st2 is not None else st))
            return out
        raise TranslationError(f'internal: node kind {k}')

    def paths(self):
        out = {}
        for (ev, _, st) in self.enum(P.strip_docstring(self.fn.body), {}):
            if st is None:
                out[ev] = None
            elif st[0] == 'return':
                out[ev + (st[1],)] = None
            elif st[0] == 'raise':
                out[ev + (('raise',),)] = None
            else:
                raise TranslationError(f'{self.fn.qual}: {st[0]} outside a loop')
        return list(out)

    def mentions_refs(self):
        for s in self.stmts:
            bt = P.blank_strings(s.text)
            if s.body:
                # block headers (and nested definitions) cannot hold reference calls
                for m in REFLIKE.finditer(bt):
                    if m.group(2) in REF | DEREF | FORWARD_REF | FORWARD_DEREF and not P.is_funcdef(s):
                        self.err(s, 'reference call in a block header')
                continue
            if self.ref_call(s) is not None:
                return True
            for (pat, _, _) in self.env.filler_patterns:
                if re.search(pat, bt):
                    return True
            if any(re.search(r'\b%s\(' % n, bt) for n in OWNED):
                return True
        return False


# ---------------------------------------------------------------------------
class LibEnv:
    def __init__(self, lib):
        self.lib = lib
        cfg = LIBS[lib]
        self.sig = {}
        self.node_returning = set()
        for rel in cfg['decls']:
            root = P.parse_file(os.path.join(REPO, rel))
            for n, (rt, params) in P.extern_decls(root).items():
                ps = []
                for p in params:
                    if re.match(r'DdManager\s*\*', p):
                        ps.append('<manager>')
                    elif p.strip() != 'void':
                        ps.append(p)
                self.sig[n] = ps
                if rt in NODE_TYPES:
                    self.node_returning.add(n)
        self.root = P.parse_file(os.path.join(REPO, cfg['file']))
        self.funcs = P.functions(self.root)
        for f in self.funcs:
            if f.kw == 'cdef' and f.rtype in NODE_TYPES:
                self.node_returning.add(f.name)
        for n in REF | DEREF:
            self.node_returning.discard(n)      # bdd_addref / sylvan_ref return their argument
        self.filler_patterns = []


def compute_fillers(env, lib):
    """functions that store a referenced node into a parameter, and (to a
    fixpoint) functions that pass a parameter of theirs to such a function"""
    fill = {}   # qual -> (func, index)
    for f in env.funcs:
        sc = Scan(lib, f, env)
        for s in sc.stmts:
            m = re.fullmatch(r'([A-Za-z_]\w*)\[[^\]]*\] = (.+)', s.text.rstrip(';'))
            if m and m.group(1) in f.params and strip_casts(m.group(2)) in sc.refd:
                fill[f.qual] = (f, f.params.index(m.group(1)))

    def patterns():
        out = []
        for q, (f, idx) in fill.items():
            if f.cls is None:
                out.append((r'(?<![\.\w])%s\(' % re.escape(f.name), idx, q))
            else:
                need(idx >= 1, f'{q}: fills self')
                out.append((r'\.%s\(' % re.escape(f.name), idx - 1, q))
        return out
    changed = True
    while changed:
        changed = False
        pats = patterns()
        for f in env.funcs:
            if f.qual in fill:
                continue
            for s in Scan(lib, f, env).stmts:
                bt = P.blank_strings(s.text)
                for (pat, idx, q) in pats:
                    for mm in re.finditer(pat, bt):
                        j = P.matching_paren(s.text, mm.end() - 1)
                        args = P.split_args(s.text[mm.end():j])
                        if idx < len(args) and args[idx] in f.params:
                            fill[f.qual] = (f, f.params.index(args[idx]))
                            changed = True
    env.filler_patterns = patterns()
    return {q: idx for q, (f, idx) in fill.items()}


KIND = {'def': 'KDef', 'cpdef': 'KCpdef', 'cdef': 'KCdef'}


def scan_handle(lib, env):
    cfg = LIBS[lib]
    byq = {}
    for f in env.funcs:
        byq.setdefault(f.qual, []).append(f)

    def one(q):
        need(len(byq.get(q, [])) == 1, f'{cfg["file"]}: {q} not found exactly once')
        return byq[q][0]
    h = dict(ctor=cfg['ctor'])
    if cfg['ctor'] == 'wrap':
        w = one('wrap')
        body = P.strip_docstring(w.body)
        texts = [s.text for s in body]
        need(len(texts) == 3 and not any(s.body for s in body), f'{cfg["file"]}: wrap body {texts}')
        m0 = re.fullmatch(r'(\w+) = Function\(\)', texts[0])
        m1 = re.fullmatch(r'(\w+)\.init\((\w+), (\w+)\)', texts[1])
        m2 = re.fullmatch(r'return (\w+)', texts[2])
        need(m0 and m1 and m2, f'{cfg["file"]}: wrap body {texts}')
        h['wrap_params'] = w.params
        h['wrap'] = [[('new', m0.group(1)), ('init', m1.group(1), m1.group(2)),
                      ('ret_handle', m2.group(1))]]
        h['wrap_line'] = w.line
        # `f.init(node, bdd)`: the first parameter of init is the node
        init = one('Function.' + cfg['init'])
        need(init.params[0] == 'self' and len(init.params) == 3, f'init parameters {init.params}')
    else:
        need('wrap' not in byq, f'{cfg["file"]}: unexpected wrap')
        h['wrap_params'] = []
        h['wrap'] = []
        h['wrap_line'] = 0
    init = one('Function.' + cfg['init'])
    h['init_name'] = init.qual
    h['init_line'] = init.line
    h['init_params'] = [p for p in init.params if p != 'self']
    h['init'] = Scan(lib, init, env, handle=True).paths()
    if cfg['ctor'] == 'wrap':
        # positional correspondence wrap(bdd, node) -> f.init(node, bdd)
        need(h['wrap'][0][1][2] in h['wrap_params'], 'wrap passes something else than its node parameter')
    d = one('Function.__dealloc__')
    h['dealloc_line'] = d.line
    h['dealloc'] = Scan(lib, d, env, handle=True).paths()
    h['dealloc_copy'] = []
    h['dealloc_copy_line'] = 0
    if cfg['dealloc_copy']:
        c = one(cfg['dealloc_copy'])
        body = P.strip_docstring(c.body)
        need(body and body[0].text == 'self = u' and c.params == ['u'],
             f'{cfg["file"]}: {c.qual} does not start with `self = u`')
        c2 = P.Func()
        for a in P.Func.__slots__:
            setattr(c2, a, getattr(c, a))
        c2.body = body[1:]
        h['dealloc_copy'] = Scan(lib, c2, env, handle=True).paths()
        h['dealloc_copy_line'] = c.line
    handle_quals = {'wrap', 'Function.' + cfg['init'], 'Function.__dealloc__'}
    if cfg['dealloc_copy']:
        handle_quals.add(cfg['dealloc_copy'])
    return h, handle_quals


def extern_functions(lib):
    """names of the C functions declared in the `cdef extern` blocks of the library's files"""
    from common import REPO
    names = set()
    for rel in LIBS[lib]['decls']:
        inext = False
        for l in open(os.path.join(REPO, rel)).read().split('\n'):
            if re.match(r'cdef extern from', l):
                inext = True
                continue
            if not inext or not l.strip():
                continue
            if not l.startswith((' ', '\t')):
                inext = False
                continue
            m = re.match(r'\s+(?:[\w\.\*]+\s+)+\*?\s*(\w+)\(', l)
            if m:
                names.add(m.group(1))
    return names


def check_extern(lib):
    """fail closed on library functions this translator has never seen: whether a call hands
    over an ALREADY REFERENCED node (`OWNED`) is a fact about the C library that is recorded by
    hand, so a new extern declaration must be classified in translator/extern_known.json first"""
    known = json.load(open(os.path.join(os.path.dirname(os.path.abspath(__file__)), 'extern_known.json')))
    new = sorted(extern_functions(lib) - set(known[lib]))
    if new:
        raise TranslationError(
            f'{LIBS[lib]["file"]}: library function(s) {new} are not in translator/extern_known.json: '
            'say there (and in OWNED of gen_cref.py if so) whether they return an already referenced node')


def scan_lib(lib):
    check_extern(lib)
    env = LibEnv(lib)
    cfg = LIBS[lib]
    fillers = compute_fillers(env, lib)
    handle, handle_quals = scan_handle(lib, env)
    methods, returns = [], []
    seen = set()
    for f in env.funcs:
        if f.qual in seen:
            f.qual = f'{f.qual}@{f.line}'
        seen.add(f.qual)
        if f.qual in handle_quals:
            continue
        sc = Scan(lib, f, env)
        if sc.mentions_refs():
            methods.append(dict(name=f.qual, kind=KIND[f.kw], api=sc.api(), params=f.params,
                                line=f.line, paths=sc.paths()))
        else:
            # still fail-closed on shapes: every statement must scan
            for s in sc.stmts:
                if not s.body:
                    sc.ref_call(s)
        # what is handed out
        rets = []
        mentions = False
        for s in sc.stmts:
            if s.body:
                continue
            t = s.text.rstrip(';').strip()
            if sc.ctor_calls(s, t) or sc.node_call(t):
                mentions = True
            m = re.fullmatch(r'(?:return|yield)(?: (.+))?', t)
            if m:
                # a generator hands its values out with `yield`
                r = sc.classify_return(s, m.group(1))
                rets.append(dict(kind=r[0], x=(r[1] if len(r) > 1 else ''), line=s.line))
        if mentions:
            returns.append(dict(name=f.qual, kind=KIND[f.kw], line=f.line, rets=rets))
    return dict(lib=lib, file=cfg['file'], handle=handle, methods=methods,
                returns=returns, fillers=fillers)


# ---------------------------------------------------------------------------
# output
# ---------------------------------------------------------------------------
def ev_to_coq(e):
    k = e[0]
    if k == 'loop':
        return 'ELoop ' + coq_list([path_to_coq(p) for p in e[1]])
    name = {'ref': 'ERef', 'deref': 'EDeref', 'derefl': 'EDerefLight', 'owned': 'EOwned', 'store': 'EStore',
            'fill': 'EFill', 'derefelem': 'EDerefElem', 'wrap': 'EWrap',
            'ret_wrapped': 'EReturnWrapped', 'ret_node': 'EReturnNode',
            'ret_other': 'EReturnOther', 'raise': 'ERaise', 'setnode': 'ESetNode',
            'clearnode': 'EClearNode', 'notlive': 'ENotLive', 'new': 'ENew',
            'init': 'EInit', 'ret_handle': 'EReturnHandle'}[k]
    return ' '.join([name] + [coq_string(a) for a in e[1:]])


def path_to_coq(p):
    return coq_list([ev_to_coq(e) for e in p])


def paths_to_coq(ps):
    return coq_list([path_to_coq(p) for p in ps])


def strs(xs):
    return coq_list([coq_string(x) for x in xs])


def jsonable(x):
    if isinstance(x, tuple):
        return [jsonable(y) for y in x]
    if isinstance(x, list):
        return [jsonable(y) for y in x]
    if isinstance(x, dict):
        return {k: jsonable(v) for k, v in x.items()}
    return x


def main():
    data = {lib: scan_lib(lib) for lib in LIBS}
    text = ('(* GENERATED from dd/cudd.pyx, dd/cudd_zdd.pyx, dd/sylvan.pyx, dd/buddy.pyx '
            'by translator/gen_cref.py -- do not edit *)\n')
    text += 'From DD Require Import CRefSem.\nLocal Open Scope string_scope.\n\n'
    for lib in LIBS:
        d = data[lib]
        h = d['handle']
        text += f'(** {d["file"]}: creation and disposal of a `Function` *)\n'
        text += f'Definition handle_{lib} : handle := Handle {coq_string(h["ctor"])}\n'
        text += f'  {strs(h["wrap_params"])}\n  {paths_to_coq(h["wrap"])}\n'
        text += f'  {strs(h["init_params"])}\n  {paths_to_coq(h["init"])}\n'
        text += f'  {paths_to_coq(h["dealloc"])}\n  {paths_to_coq(h["dealloc_copy"])}.\n\n'
        text += f'(** {d["file"]}: functions that touch reference counts, one event list per path *)\n'
        ms = []
        for m in d['methods']:
            api = 'None' if m['api'] is None else ('(Some true)' if m['api'] else '(Some false)')
            ms.append(f'Method {coq_string(m["name"])} {m["kind"]} {api} {strs(m["params"])}\n     '
                      + paths_to_coq(m['paths']))
        text += f'Definition methods_{lib} : list method :=\n  [' + ';\n   '.join(ms) + '].\n\n'
        text += f'(** {d["file"]}: how each function that deals with nodes returns *)\n'
        rs = []
        for r in d['returns']:
            items = []
            for x in r['rets']:
                items.append({'ret_wrapped': 'RWrapped ' + coq_string(x['x']),
                              'ret_node': 'RNodeRaw ' + coq_string(x['x']),
                              'ret_other': 'ROther'}[x['kind']])
            rs.append(f'({coq_string(r["name"])}, {r["kind"]}, {coq_list(items)})')
        text += (f'Definition returns_{lib} : list (string * fkind * list retk) :=\n  ['
                 + ';\n   '.join(rs) + '].\n\n')
    changed = write_if_changed('CRef.v', text)
    js = json.dumps(jsonable(data), indent=1, sort_keys=True) + '\n'
    p = os.path.join(OUT, 'cref.json')
    if not os.path.exists(p) or open(p).read() != js:
        with open(p, 'w') as f:
            f.write(js)
    return changed


if __name__ == '__main__':
    main()
