"""dd/bdd.py BDD.apply, dd/_abc.py vocabulary, dd/_utils.py arity check
   -> Generated/PyApply.v"""
import ast
from common import (TranslationError, need, coq_string, coq_list,
                    write_if_changed, parse, find_class, find_func, strip_doc)


def literal_strings(node):
    """tuple/constant of string literals"""
    if isinstance(node, ast.Constant) and isinstance(node.value, str):
        return [node.value]
    need(isinstance(node, ast.Tuple), f'expected tuple of strings: {ast.dump(node)}')
    out = []
    for e in node.elts:
        need(isinstance(e, ast.Constant) and isinstance(e.value, str),
             f'expected string literal: {ast.dump(e)}')
        out.append(e.value)
    return out


def operand(node):
    if isinstance(node, ast.Name) and node.id in ('u', 'v', 'w'):
        return {'u': 'OU', 'v': 'OV', 'w': 'OW'}[node.id]
    if isinstance(node, ast.Constant) and node.value == 1 and not isinstance(node.value, bool):
        return 'OTrue'
    if isinstance(node, ast.UnaryOp) and isinstance(node.op, ast.USub):
        if isinstance(node.operand, ast.Constant) and node.operand.value == 1:
            return 'OFalse'
        return f'(ONeg {operand(node.operand)})'
    raise TranslationError(f'unrecognised operand: {ast.dump(node)}')


def is_self_call(node, meth):
    return (isinstance(node, ast.Call) and isinstance(node.func, ast.Attribute)
            and isinstance(node.func.value, ast.Name) and node.func.value.id == 'self'
            and node.func.attr == meth)


def template(body):
    """right-hand side of one branch"""
    if len(body) == 1 and isinstance(body[0], ast.Return):
        e = body[0].value
        if is_self_call(e, 'ite'):
            need(len(e.args) == 3 and not e.keywords, 'ite arity')
            return 'TIte ' + ' '.join(operand(a) for a in e.args)
        return f'TRet {operand(e)}'
    if (len(body) == 2 and isinstance(body[0], ast.Assign)
            and isinstance(body[1], ast.Return)):
        a, r = body
        need(len(a.targets) == 1 and isinstance(a.targets[0], ast.Name)
             and a.targets[0].id == 'qvars', 'expected qvars = ...')
        need(is_self_call(a.value, 'support') and len(a.value.args) == 1
             and not a.value.keywords, 'expected self.support(x)')
        vars_of = operand(a.value.args[0])
        q = r.value
        need(is_self_call(q, 'quantify') and len(q.args) == 2, 'expected self.quantify(f, qvars, forall=..)')
        need(isinstance(q.args[1], ast.Name) and q.args[1].id == 'qvars', 'quantify over qvars')
        need(len(q.keywords) == 1 and q.keywords[0].arg == 'forall'
             and isinstance(q.keywords[0].value, ast.Constant)
             and isinstance(q.keywords[0].value.value, bool), 'forall=<bool>')
        fa = 'true' if q.keywords[0].value.value else 'false'
        return f'TQuant {fa} {vars_of} {operand(q.args[0])}'
    raise TranslationError('unrecognised branch body: ' + '; '.join(ast.dump(s) for s in body))


def is_guard(test, body):
    """`elif v is None: raise ValueError(...)` (type-narrowing guards)"""
    return (isinstance(test, ast.Compare) and isinstance(test.left, ast.Name)
            and test.left.id in ('v', 'w') and len(test.ops) == 1
            and isinstance(test.ops[0], ast.Is)
            and isinstance(test.comparators[0], ast.Constant)
            and test.comparators[0].value is None
            and len(body) == 1 and isinstance(body[0], ast.Raise))


def apply_chain(fn, opname='op'):
    body = strip_doc(fn.body)
    chain = [s for s in body if isinstance(s, ast.If)]
    # the operator chain is the last `if` of the method
    need(chain, 'no if-chain in apply')
    node = chain[-1]
    pre = body[:body.index(node)]
    post = body[body.index(node) + 1:]
    need(len(post) == 1 and isinstance(post[0], ast.Raise), 'apply must end by raising on unknown operator')
    table = []
    guards = []
    while True:
        t = node.test
        if is_guard(t, node.body):
            guards.append((t.left.id, len(table)))
        else:
            need(isinstance(t, ast.Compare) and isinstance(t.left, ast.Name)
                 and t.left.id == opname and len(t.ops) == 1, f'unrecognised test {ast.dump(t)}')
            if isinstance(t.ops[0], ast.In):
                names = literal_strings(t.comparators[0])
            elif isinstance(t.ops[0], ast.Eq):
                names = literal_strings(t.comparators[0])
            else:
                raise TranslationError(f'unrecognised test {ast.dump(t)}')
            table.append((names, template(node.body)))
        if not node.orelse:
            break
        need(len(node.orelse) == 1 and isinstance(node.orelse[0], ast.If), 'else branch in operator chain')
        node = node.orelse[0]
    return pre, table, guards


PREAMBLE = [
    "Expr(value=Call(func=Attribute(value=Name(id='_utils', ctx=Load()), attr='assert_operator_arity', ctx=Load()), args=[Name(id='op', ctx=Load()), Name(id='v', ctx=Load()), Name(id='w', ctx=Load()), Constant(value='bdd')], keywords=[]))",
    "If(test=Compare(left=Call(func=Name(id='abs', ctx=Load()), args=[Name(id='u', ctx=Load())], keywords=[]), ops=[NotIn()], comparators=[Name(id='self', ctx=Load())]), body=[Raise(exc=Call(func=Name(id='ValueError', ctx=Load()), args=[Name(id='u', ctx=Load())], keywords=[]))], orelse=[])",
    "If(test=BoolOp(op=And(), values=[Compare(left=Name(id='v', ctx=Load()), ops=[IsNot()], comparators=[Constant(value=None)]), Compare(left=Call(func=Name(id='abs', ctx=Load()), args=[Name(id='v', ctx=Load())], keywords=[]), ops=[NotIn()], comparators=[Name(id='self', ctx=Load())])]), body=[Raise(exc=Call(func=Name(id='ValueError', ctx=Load()), args=[Name(id='v', ctx=Load())], keywords=[]))], orelse=[])",
    "If(test=BoolOp(op=And(), values=[Compare(left=Name(id='w', ctx=Load()), ops=[IsNot()], comparators=[Constant(value=None)]), Compare(left=Call(func=Name(id='abs', ctx=Load()), args=[Name(id='w', ctx=Load())], keywords=[]), ops=[NotIn()], comparators=[Name(id='self', ctx=Load())])]), body=[Raise(exc=Call(func=Name(id='ValueError', ctx=Load()), args=[Name(id='w', ctx=Load())], keywords=[]))], orelse=[])",
]


def vocab():
    tree = parse('dd/_abc.py')
    out = {}
    for n in tree.body:
        if isinstance(n, ast.AnnAssign) and isinstance(n.target, ast.Name) and n.target.id in (
                '_UnaryOperatorSymbol', '_BinaryOperatorSymbol', '_TernaryOperatorSymbol'):
            v = n.value
            need(isinstance(v, ast.Subscript) and isinstance(v.value, ast.Attribute)
                 and v.value.attr == 'Literal', 'expected Literal[...]')
            out[n.target.id] = literal_strings(v.slice)
    need(len(out) == 3, 'operator vocabulary not found in dd/_abc.py')
    return out


def arity_rules():
    """_utils.assert_operator_arity: per arity class, which (v, w) shapes raise"""
    tree = parse('dd/_utils.py')
    fn = find_func(tree.body, 'assert_operator_arity')
    body = strip_doc(fn.body)
    need(len(body) == 3, 'assert_operator_arity: unexpected shape')
    a, unknown, chain = body
    need(isinstance(a, ast.Assign) and ast.unparse(a) == 'operators = _OPERATOR_MAP[diagram_type]', 'operators = ...')
    need(isinstance(unknown, ast.If) and ast.unparse(unknown.test) == "op not in operators['all']"
         and isinstance(unknown.body[0], ast.Raise), 'unknown-operator test')
    rules = []
    node = chain
    while True:
        need(isinstance(node, ast.If), 'arity chain')
        t = ast.unparse(node.test)
        kind = {"op in operators['unary']": 'unary', "op in operators['binary']": 'binary',
                "op in operators['ternary']": 'ternary'}.get(t)
        need(kind is not None, f'arity chain test {t}')
        conds = []
        for s in node.body:
            need(isinstance(s, ast.If) and len(s.body) == 1 and isinstance(s.body[0], ast.Raise)
                 and not s.orelse, 'arity rule')
            c = {'v is not None': 'VNotNone', 'w is not None': 'WNotNone',
                 'v is None': 'VNone', 'w is None': 'WNone'}.get(ast.unparse(s.test))
            need(c is not None, f'arity rule {ast.unparse(s.test)}')
            conds.append(c)
        rules.append((kind, conds))
        if not node.orelse:
            break
        need(len(node.orelse) == 1, 'arity chain else')
        node = node.orelse[0]
    # the map from diagram type to the vocabulary
    src = ast.unparse(next(n for n in tree.body if isinstance(n, ast.AnnAssign)
                           and getattr(n.target, 'id', '') == '_OPERATOR_MAP'))
    need('unary=dd._abc.UNARY_OPERATOR_SYMBOLS' in src and 'binary=dd._abc.BINARY_OPERATOR_SYMBOLS' in src
         and 'ternary=dd._abc.TERNARY_OPERATOR_SYMBOLS' in src and 'all=dd._abc.BDD_OPERATOR_SYMBOLS' in src,
         '_OPERATOR_MAP')
    return rules


def table_to_coq(table):
    return coq_list(['(' + coq_list([coq_string(n) for n in names]) + ', ' + t + ')'
                     for names, t in table])


def main():
    tree = parse('dd/bdd.py')
    cls = find_class(tree, 'BDD')
    fn = find_func(cls.body, 'apply')
    need([a.arg for a in fn.args.args] == ['self', 'op', 'u', 'v', 'w'], 'apply signature')
    pre, table, guards = apply_chain(fn)
    need([ast.dump(s) for s in pre] == PREAMBLE,
         'the argument checks at the head of BDD.apply changed:\n' + '\n'.join(ast.unparse(s) for s in pre))
    voc = vocab()
    rules = arity_rules()
    text = '(* GENERATED from dd/bdd.py, dd/_abc.py, dd/_utils.py by translator/gen_pyapply.py -- do not edit *)\n'
    text += 'From DD Require Import Ops.\nLocal Open Scope string_scope.\n\n'
    text += '(** the if/elif chain of [dd.bdd.BDD.apply] *)\n'
    text += 'Definition py_apply_table : list (list string * template) :=\n  ' + table_to_coq(table) + '.\n\n'
    text += '(** operator vocabulary of dd/_abc.py *)\n'
    for k, nm in (('_UnaryOperatorSymbol', 'py_unary'), ('_BinaryOperatorSymbol', 'py_binary'),
                  ('_TernaryOperatorSymbol', 'py_ternary')):
        text += f'Definition {nm} : list string := ' + coq_list([coq_string(s) for s in voc[k]]) + '.\n'
    text += '\n(** [_utils.assert_operator_arity]: shapes of (v, w) that are rejected per class *)\n'
    text += 'Inductive arity_cond := VNotNone | WNotNone | VNone | WNone.\n'
    text += 'Definition py_arity : list (string * list arity_cond) :=\n  ' + coq_list(
        ['(' + coq_string(k) + ', ' + coq_list(c) + ')' for k, c in rules]) + '.\n'
    return write_if_changed('PyApply.v', text)


if __name__ == '__main__':
    main()
