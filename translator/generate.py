#!/usr/bin/env python3
"""Regenerate coq/Generated/*.v from /repo's working tree.  Each generator
is fail-closed; a failure leaves a stub that does not compile, so that the
dependent theorems are reported as broken obligations."""
import importlib
import os
import sys
import traceback

sys.path.insert(0, os.path.dirname(os.path.abspath(__file__)))
import common  # noqa: E402

GENERATORS = [('gen_pyapply', 'PyApply.v'), ('gen_parser', 'ParserTables.v'), ('gen_capply', 'CApply.v'), ('gen_cref', 'CRef.v'), ('gen_pyconsts', 'PyConsts.v'), ('gen_autoref', 'PyAutoref.v')]


def main():
    rc = 0
    for mod, out in GENERATORS:
        try:
            importlib.import_module(mod).main()
        except Exception as e:  # noqa: B902
            rc = 1
            msg = ''.join(traceback.format_exception_only(type(e), e)).strip()
            print(f'TRANSLATOR FAILED {mod}: {msg}')
            common.write_if_changed(out, '(* translator failed: %s *)\nFail Definition translator_failed := 0.\nDefinition translator_failed : False := I.\n'
                                    % msg.replace('*)', '* )').replace('(*', '( *'))
    # the LALR tables need PLY: run that translator with the repository's interpreter
    import subprocess
    py = os.environ.get('DD_PYTHON', '/venv/bin/python')
    q = subprocess.run([py, os.path.join(os.path.dirname(os.path.abspath(__file__)), 'gen_lalr.py')],
                       capture_output=True, text=True, timeout=300)
    if q.returncode != 0:
        rc = 1
        print((q.stdout + q.stderr).strip()[-600:])
    return rc


if __name__ == '__main__':
    sys.exit(main())
