#!/usr/bin/env python3
"""Which functions of the dd package do the property streams reach?
Runs the quick tier of every check in-process under sys.setprofile and lists
the functions defined in $DD_REPO/dd/*.py that were never entered.
(An aid for strengthening the streams; not part of any check.)"""
import ast
import os
import subprocess
import sys
import json

REPO = os.environ.get('DD_REPO', '/repo')
OUT = '/tmp/dd_api_calls.json'

if len(sys.argv) > 1 and sys.argv[1] == '--child':
    pid = sys.argv[2]
    seen = set()
    pref = os.path.join(REPO, 'dd') + os.sep

    def prof(frame, event, arg):
        if event == 'call':
            co = frame.f_code
            if co.co_filename.startswith(pref):
                seen.add((os.path.basename(co.co_filename), co.co_name, co.co_firstlineno))
    sys.path.insert(0, '/verif')
    sys.path.insert(0, REPO)
    sys.setprofile(prof)
    from harness.framework import main
    sys.argv = ['check', pid, '--tier', 'quick']
    try:
        main()
    except SystemExit:
        pass
    sys.setprofile(None)
    prev = json.load(open(OUT)) if os.path.exists(OUT) else []
    allseen = set(map(tuple, prev)) | seen
    json.dump(sorted(allseen), open(OUT, 'w'))
    sys.exit(0)

if os.path.exists(OUT):
    os.remove(OUT)
for i in range(1, 20):
    pid = f'C{i:02d}'
    subprocess.run(['/venv/bin/python', '-W', 'ignore', __file__, '--child', pid],
                   env=dict(os.environ, PYTHONPATH=REPO, PYTHONHASHSEED='0'),
                   stdout=subprocess.DEVNULL, stderr=subprocess.DEVNULL, cwd='/verif')
seen = set(map(tuple, json.load(open(OUT))))
names_seen = {(f, n) for f, n, _ in seen}
for fn in sorted(os.listdir(os.path.join(REPO, 'dd'))):
    if not fn.endswith('.py'):
        continue
    tree = ast.parse(open(os.path.join(REPO, 'dd', fn)).read())
    missing = []
    for node in ast.walk(tree):
        if isinstance(node, (ast.FunctionDef, ast.AsyncFunctionDef)):
            if (fn, node.name) not in names_seen:
                missing.append(f'{node.name}:{node.lineno}')
    print(f'{fn}: never entered: {", ".join(missing) if missing else "-"}')
